import Agd.Tie.TrC02
import Agd.Lemmas.Filter
import Agd.Tie.C02
/-!
# C02 — the filtering verdict follows rule precedence and the requester's blocking mode

Property theorems only.  They quantify over every configuration (`Cfg`: any custom list, any number
of shared lists in any order, any service lists, any subset of the five request filters with any
contents), every host name and query type, every upstream, every blocking mode and TTL.  The meaning
of one rule (`domMatch`, `TypeSel.ok`) is the modelled grammar; urlfilter's parser/matcher is tied
to it only by the correspondence run.
-/
namespace Agd.Filter

/-! ## Clause 1: a DNS-rewrite rule wins outright; custom first, then the shared lists in order -/

/-- **rewrite_wins.** If the rewrites of all sources before `(id, rs)` — in the order custom,
then shared lists as configured — produce nothing and those of `(id, rs)` produce `v`, then `v` is
the verdict of the whole request filter, whatever allow/block rules, services and request filters
say. -/
theorem rewrite_wins (c : Cfg) (host : Host) (qt : QType) (pre post : List (ListId × List Rule))
    (id : ListId) (rs : List Rule)
    (hsplit : c.rewriteSources = pre ++ (id, rs) :: post)
    (hpre : ∀ p ∈ pre, processRewrites host qt (rewriteHits p.2 host) p.1 = .none)
    (hne : processRewrites host qt (rewriteHits rs host) id ≠ .none) :
    filterRequest c host qt = processRewrites host qt (rewriteHits rs host) id := by
  have h1 := firstRewrite_split host qt pre post id rs hpre hne
  have hrw : (processRewrites host qt (rewriteHits rs host) id).isRewrite = true := by
    rcases processRewrites_cases host qt (rewriteHits rs host) id with h | h
    · exact absurd h hne
    · exact h
  have h2 : ruleListVerdict c host qt = processRewrites host qt (rewriteHits rs host) id := by
    unfold ruleListVerdict
    rw [hsplit, h1]
    revert hrw
    cases processRewrites host qt (rewriteHits rs host) id <;> simp [Verdict.isRewrite]
  unfold filterRequest
  rw [h2]
  revert hrw
  cases processRewrites host qt (rewriteHits rs host) id <;> simp [Verdict.isRewrite]

/-- Hypotheses of `rewrite_wins` with a non-empty prefix: the custom list has no rewrite for the
name, shared list 7 (configured first) rewrites to itself (a no-op), shared list 2 decides. -/
example : let c : Cfg := { custom := some [.net ["a", "test"] true .any],
                           lists := [(7, [.rewrite ["a", "test"] (.cname ["a", "test"])]),
                                     (2, [.rewrite ["a", "test"] (.rcode 5)]), (5, [.rewrite ["test"] (.ip4 "1.1.1.1")])] }
    c.rewriteSources = [(ListId.custom, [.net ["a", "test"] true .any]),
                        (.shared 7, [.rewrite ["a", "test"] (.cname ["a", "test"])])] ++
      (.shared 2, [.rewrite ["a", "test"] (.rcode 5)]) :: [(.shared 5, [.rewrite ["test"] (.ip4 "1.1.1.1")])] ∧
    processRewrites ["a", "test"] 1 (rewriteHits [.rewrite ["a", "test"] (.cname ["a", "test"])] ["a", "test"]) (.shared 7) = .none ∧
    filterRequest c ["a", "test"] 1 = .modResp (.shared 2) 5 [] := by decide

/-- **custom_rewrite_first.** The profile's own rewrite is consulted before every shared list. -/
theorem custom_rewrite_first (c : Cfg) (host : Host) (qt : QType) (rs : List Rule)
    (hc : c.custom = some rs)
    (hne : processRewrites host qt (rewriteHits rs host) .custom ≠ .none) :
    filterRequest c host qt = processRewrites host qt (rewriteHits rs host) .custom := by
  refine rewrite_wins c host qt [] (c.lists.map fun p => (ListId.shared p.1, p.2)) .custom rs ?_ ?_ hne
  · simp [Cfg.rewriteSources, hc]
  · intro p hp; cases hp

example : filterRequest
    { custom := some [.rewrite ["a", "test"] (.ip4 "203.0.113.1")],
      lists := [(0, [.rewrite ["a", "test"] (.cname ["t", "test"]), .net ["a", "test"] true .any])],
      sb := some { hosts := [["a", "test"]], repl := ["r", "test"] } }
    ["x", "a", "test"] qtA = .modResp .custom 0 ["203.0.113.1"] := by decide

/-- **services_never_rewrite.** A rewrite verdict of the rule lists carries the identity of the
custom list or of a shared list, never of a blocked-service list, and when no custom/shared list
rewrites, the rule lists yield no rewrite at all. -/
theorem services_never_rewrite (c : Cfg) (host : Host) (qt : QType)
    (h : firstRewrite host qt c.rewriteSources = .none) :
    (ruleListVerdict c host qt).isRewrite = false := by
  unfold ruleListVerdict
  rw [h]
  exact toInternal_not_rewrite ..

/-! ### The engine's match order is not specified: what can depend on it -/

/-- A rewrite that ends `processDNSRewriteRules` early: a CNAME or a non-NOERROR code. -/
def Rewrite.isTerminal : Rewrite → Bool
  | .cname _ => true
  | .rcode _ => true
  | _ => false

theorem terminal_some (rws : List Rewrite) (x : Rewrite) (h : terminal rws = some x) :
    x.isTerminal = true ∧ x ∈ rws := by
  induction rws with
  | nil => simp [terminal] at h
  | cons r rs ih =>
    cases r with
    | cname t => simp [terminal] at h; subst h; exact ⟨rfl, List.mem_cons_self ..⟩
    | rcode rc => simp [terminal] at h; subst h; exact ⟨rfl, List.mem_cons_self ..⟩
    | ip4 v => simp only [terminal] at h; exact ⟨(ih h).1, List.mem_cons_of_mem _ (ih h).2⟩
    | ip6 v => simp only [terminal] at h; exact ⟨(ih h).1, List.mem_cons_of_mem _ (ih h).2⟩
    | other t v => simp only [terminal] at h; exact ⟨(ih h).1, List.mem_cons_of_mem _ (ih h).2⟩

theorem terminal_none (rws : List Rewrite) (h : terminal rws = Option.none) :
    ∀ x ∈ rws, x.isTerminal = false := by
  induction rws with
  | nil => intro x hx; cases hx
  | cons r rs ih =>
    intro x hx
    cases r with
    | cname t => simp [terminal] at h
    | rcode rc => simp [terminal] at h
    | ip4 v =>
      simp only [terminal] at h
      rcases List.mem_cons.mp hx with rfl | hx
      · rfl
      · exact ih h x hx
    | ip6 v =>
      simp only [terminal] at h
      rcases List.mem_cons.mp hx with rfl | hx
      · rfl
      · exact ih h x hx
    | other t v =>
      simp only [terminal] at h
      rcases List.mem_cons.mp hx with rfl | hx
      · rfl
      · exact ih h x hx

theorem terminal_cons_terminal (t : Rewrite) (rws : List Rewrite) (h : t.isTerminal = true) :
    terminal (t :: rws) = some t := by
  cases t <;> simp_all [terminal, Rewrite.isTerminal]

/-- **rewrite_order_candidates.**  urlfilter does not specify the order in which one engine returns
the matching rules of one list.  Whatever that order is (`rws'` any permutation of the source order
`rws`), the outcome of the list's rewrites is one of a few: if some CNAME/rcode rewrite matches, it
is the outcome the model computes with one of those candidates moved to the front; if none does,
it is the NOERROR answer with the values of the queried type, in some order.  (The driver enumerates
exactly these candidates and the harness checks membership.) -/
theorem rewrite_order_candidates (host : Host) (qt : QType) (id : ListId) (rws rws' : List Rewrite)
    (hp : rws'.Perm rws) :
    (∃ t ∈ rws, t.isTerminal = true ∧
        processRewrites host qt rws' id = processRewrites host qt (t :: rws) id) ∨
    ((∀ x ∈ rws, x.isTerminal = false) ∧
      ((rws = [] ∧ processRewrites host qt rws' id = .none) ∨
       (rws ≠ [] ∧ ∃ vs, vs.Perm (rewriteVals rws qt) ∧ processRewrites host qt rws' id = .modResp id 0 vs))) := by
  cases ht : terminal rws' with
  | some t =>
    left
    obtain ⟨hterm, hmem⟩ := terminal_some rws' t ht
    refine ⟨t, hp.mem_iff.mp hmem, hterm, ?_⟩
    have hne : rws'.isEmpty = false := by
      cases rws' with
      | nil => cases hmem
      | cons a as => rfl
    unfold processRewrites
    rw [ht, terminal_cons_terminal t rws hterm]
    cases t <;> simp_all [Rewrite.isTerminal]
  | none =>
    right
    have hall := terminal_none rws' ht
    refine ⟨fun x hx => hall x (hp.mem_iff.mpr hx), ?_⟩
    by_cases he : rws = []
    · left
      subst he
      have : rws' = [] := List.Perm.eq_nil hp
      subst this
      exact ⟨rfl, processRewrites_nil ..⟩
    · right
      refine ⟨he, rewriteVals rws' qt, ?_, ?_⟩
      · unfold rewriteVals
        exact hp.filterMap _
      · have hne : rws'.isEmpty = false := by
          cases rws' with
          | nil => exact absurd (List.Perm.nil_eq hp).symm he
          | cons a as => rfl
        unfold processRewrites
        simp [hne, ht]

/-- Two different early exits in one list: either may decide, nothing else can. -/
example : processRewrites ["a", "test"] 1 [.ip4 "203.0.113.1", .rcode 5, .cname ["t", "test"]] (.shared 0) = .modResp (.shared 0) 5 [] ∧
    processRewrites ["a", "test"] 1 [.cname ["t", "test"], .ip4 "203.0.113.1", .rcode 5] (.shared 0) = .modReq (.shared 0) ["t", "test"] := by
  decide

/-- **rewrite_order_irrelevant.**  With at most one distinct CNAME/rcode rewrite among the matches
the order does not matter for the kind of outcome: every permutation gives the same early exit. -/
theorem rewrite_order_irrelevant (host : Host) (qt : QType) (id : ListId) (rws rws' : List Rewrite) (t : Rewrite)
    (hp : rws'.Perm rws) (ht : t ∈ rws) (hterm : t.isTerminal = true)
    (huniq : ∀ x ∈ rws, x.isTerminal = true → x = t) :
    processRewrites host qt rws' id = processRewrites host qt rws id := by
  have key : ∀ l : List Rewrite, l.Perm rws → terminal l = some t := by
    intro l hl
    cases h : terminal l with
    | none => exact absurd (terminal_none l h t (hl.mem_iff.mpr ht)) (by simp [hterm])
    | some x =>
      obtain ⟨hx, hm⟩ := terminal_some l x h
      rw [huniq x (hl.mem_iff.mp hm) hx]
  have hne : ∀ l : List Rewrite, l.Perm rws → l.isEmpty = false := by
    intro l hl
    cases l with
    | nil => exact absurd (hl.mem_iff.mpr ht) (by simp)
    | cons a as => rfl
  unfold processRewrites
  rw [key rws' hp, key rws (List.Perm.refl _), hne rws' hp, hne rws (List.Perm.refl _)]
  cases t <;> simp_all [Rewrite.isTerminal]

/-- The list a verdict is attributed to. -/
def Verdict.list? : Verdict → Option ListId
  | .none => Option.none
  | .allowed l => some l
  | .blocked l => some l
  | .modReq l _ => some l
  | .modResp l _ _ => some l
  | .hashResp l _ _ => some l

/-- A `$dnsrewrite` rule of the list matches the name (rule-level reading, no model function). -/
def HasRewriteRule (rs : List Rule) (host : Host) : Prop :=
  ∃ d rw, Rule.rewrite d rw ∈ rs ∧ domMatch d host = true

/-- **rewrite_wins_rules.**  Rule-level form of clause 1: if no source consulted earlier (custom,
then the shared lists in configured order) has any `$dnsrewrite` rule matching the name, and the list
`id` has one (none of them a CNAME of the name to itself, which is a no-op), then the verdict of
the whole request filter is a rewrite attributed to `id` — whatever allow, block and hosts rules,
blocked services and request filters say. -/
theorem rewrite_wins_rules (c : Cfg) (host : Host) (qt : QType) (pre post : List (ListId × List Rule))
    (id : ListId) (rs : List Rule)
    (hsplit : c.rewriteSources = pre ++ (id, rs) :: post)
    (hpre : ∀ p ∈ pre, ¬ HasRewriteRule p.2 host)
    (hhas : HasRewriteRule rs host)
    (hself : ∀ d, Rule.rewrite d (.cname host) ∈ rs → domMatch d host = false) :
    (filterRequest c host qt).isRewrite = true ∧ (filterRequest c host qt).list? = some id := by
  have hne : processRewrites host qt (rewriteHits rs host) id ≠ .none := by
    apply processRewrites_ne_none
    · obtain ⟨d, rw, hr, hm⟩ := hhas
      intro he
      have : rw ∈ rewriteHits rs host := (mem_rewriteHits rs host rw).mpr ⟨d, hr, hm⟩
      rw [he] at this
      cases this
    · intro hm
      obtain ⟨d, hr, hd⟩ := (mem_rewriteHits rs host _).mp hm
      rw [hself d hr] at hd
      cases hd
  have hpre' : ∀ p ∈ pre, processRewrites host qt (rewriteHits p.2 host) p.1 = .none := by
    intro p hp
    have : rewriteHits p.2 host = [] := by
      cases h : rewriteHits p.2 host with
      | nil => rfl
      | cons rw rest =>
        exfalso
        have hm : rw ∈ rewriteHits p.2 host := by rw [h]; exact List.mem_cons_self ..
        obtain ⟨d, hr, hd⟩ := (mem_rewriteHits p.2 host rw).mp hm
        exact hpre p hp ⟨d, rw, hr, hd⟩
    rw [this]
    exact processRewrites_nil ..
  rw [rewrite_wins c host qt pre post id rs hsplit hpre' hne]
  rcases processRewrites_id host qt (rewriteHits rs host) id with h | ⟨t, h⟩ | ⟨rc, vs, h⟩
  · exact absurd h hne
  · rw [h]; exact ⟨rfl, rfl⟩
  · rw [h]; exact ⟨rfl, rfl⟩

/-- `rewrite_wins_rules` is not vacuous: the custom list has an allow rule and no rewrite, shared
list 7 has a rewrite for another name, shared list 2 rewrites; a service list would block. -/
example : let c : Cfg := { custom := some [.net ["a", "test"] true .any],
                           lists := [(7, [.rewrite ["b", "test"] (.rcode 3)]), (2, [.rewrite ["test"] (.ip4 "1.1.1.1")])],
                           svcs := [(0, [.net ["a", "test"] false .any])] }
    c.rewriteSources = [(ListId.custom, [.net ["a", "test"] true .any]), (.shared 7, [.rewrite ["b", "test"] (.rcode 3)])] ++
      (.shared 2, [.rewrite ["test"] (.ip4 "1.1.1.1")]) :: [] ∧
    HasRewriteRule [.rewrite ["test"] (.ip4 "1.1.1.1")] ["a", "test"] ∧
    filterRequest c ["a", "test"] 1 = .modResp (.shared 2) 0 ["1.1.1.1"] :=
  ⟨by decide, ⟨["test"], .ip4 "1.1.1.1", by decide, by decide⟩, by decide⟩

/-! ## Clause 2: an allow rule from any source beats every block rule; a matching block blocks -/

/-- All rule sources of a request: custom, shared lists, blocked services. -/
def Cfg.allSources (c : Cfg) : List (ListId × List Rule) := c.rewriteSources ++ c.svcSources

/-- **allow_beats_block.** With no rewrite in play, one matching allow rule in any source (custom,
any shared list, any blocked-service list) makes the rule-list verdict an allow — however many block
or hosts rules match anywhere — and the final request verdict is never a block. -/
theorem allow_beats_block (c : Cfg) (host : Host) (qt : QType)
    (hrw : firstRewrite host qt c.rewriteSources = .none)
    (hallow : ∃ y ∈ allNets c.allSources host qt, y.2.1 = true) :
    (∃ l, ruleListVerdict c host qt = .allowed l) ∧ ∀ l, filterRequest c host qt ≠ .blocked l := by
  obtain ⟨r, hr, ha⟩ := basicFrom_allow (allNets c.allSources host qt) Option.none (Or.inr hallow)
  have hrl : ruleListVerdict c host qt = .allowed r.1 := by
    unfold ruleListVerdict combined toInternal basicRule
    rw [hrw]
    simp only [Cfg.allSources] at hr
    obtain ⟨id, al, n⟩ := r
    simp only at ha
    subst ha
    simp [hr]
  refine ⟨⟨_, hrl⟩, ?_⟩
  intro l
  unfold filterRequest
  rw [hrl]
  have hshape := reqFilterVerdicts_shape c host qt
  rcases firstSome_mem (reqFilterVerdicts c host qt) with h | h
  · rw [h]; cases r.1 <;> simp
  · rcases hshape _ h with h' | h'
    · rw [h']; cases r.1 <;> simp
    · revert h'
      cases firstSome (reqFilterVerdicts c host qt) <;> cases r.1 <;> simp [Verdict.isRewrite]

/-- **block_blocks.** With no rewrite and no matching allow rule in any source, a matching block
rule (network rule, or hosts-style rule for exactly this name) blocks, and no request filter is
consulted. -/
theorem block_blocks (c : Cfg) (host : Host) (qt : QType)
    (hrw : firstRewrite host qt c.rewriteSources = .none)
    (hnoallow : ∀ y ∈ allNets c.allSources host qt, y.2.1 = false)
    (hblock : allNets c.allSources host qt ≠ [] ∨ allHosts c.allSources host qt false ≠ [] ∨
      allHosts c.allSources host qt true ≠ []) :
    ∃ l, ruleListVerdict c host qt = .blocked l ∧ filterRequest c host qt = .blocked l := by
  have key : ∃ l, ruleListVerdict c host qt = .blocked l := by
    unfold ruleListVerdict combined
    rw [hrw]
    simp only
    show ∃ l, toInternal (allNets c.allSources host qt) (allHosts c.allSources host qt false)
      (allHosts c.allSources host qt true) qt = .blocked l
    by_cases hn : allNets c.allSources host qt = []
    · unfold toInternal basicRule
      rw [hn]
      simp only [basicFrom]
      rcases hblock with h | h | h
      · exact absurd hn h
      · cases h4 : allHosts c.allSources host qt false with
        | nil => exact absurd h4 h
        | cons a as =>
          cases h6 : allHosts c.allSources host qt true with
          | nil => exact ⟨a, rfl⟩
          | cons b bs =>
            by_cases hq : (qt == qtAAAA) = true
            · exact ⟨b, by simp [hq]⟩
            · exact ⟨a, by simp [hq]⟩
      · cases h6 : allHosts c.allSources host qt true with
        | nil => exact absurd h6 h
        | cons b bs =>
          cases h4 : allHosts c.allSources host qt false with
          | nil => exact ⟨b, rfl⟩
          | cons a as =>
            by_cases hq : (qt == qtAAAA) = true
            · exact ⟨b, by simp [hq]⟩
            · exact ⟨a, by simp [hq]⟩
    · obtain ⟨r, hr, hf⟩ := basicFrom_block (allNets c.allSources host qt) Option.none
        (by intro x hx; cases hx) hnoallow (Or.inr hn)
      obtain ⟨id, al, n⟩ := r
      simp only at hf
      subst hf
      exact ⟨id, by simp [toInternal, basicRule, hr]⟩
  obtain ⟨l, hl⟩ := key
  exact ⟨l, hl, by unfold filterRequest; rw [hl]⟩

example : let c : Cfg := { custom := some [.net ["a", "test"] false .any],
                           lists := [(3, [.hosts false ["x", "a", "test"]])],
                           svcs := [(1, [.net ["x", "a", "test"] true (.only 1)])] }
    filterRequest c ["x", "a", "test"] 1 = .allowed (.svc 1) ∧
    filterRequest c ["x", "a", "test"] 28 = .blocked .custom := by decide

/-- An allow (`@@`) rule of the list matches the name and type (rule-level reading). -/
def HasAllowRule (rs : List Rule) (host : Host) (qt : QType) : Prop :=
  ∃ d ts, Rule.net d true ts ∈ rs ∧ domMatch d host = true ∧ ts.ok qt = true

/-- A block rule of the list matches: a network rule, or a hosts-style line for exactly this name. -/
def HasBlockRule (rs : List Rule) (host : Host) (qt : QType) : Prop :=
  (∃ d ts, Rule.net d false ts ∈ rs ∧ domMatch d host = true ∧ ts.ok qt = true) ∨
  ∃ v6, Rule.hosts v6 host ∈ rs

/-- No custom/shared list has a `$dnsrewrite` rule for the name. -/
def NoRewriteRule (c : Cfg) (host : Host) : Prop := ∀ p ∈ c.rewriteSources, ¬ HasRewriteRule p.2 host

theorem firstRewrite_none_of_NoRewriteRule (c : Cfg) (host : Host) (qt : QType) (h : NoRewriteRule c host) :
    firstRewrite host qt c.rewriteSources = .none := by
  apply firstRewrite_none_of_no_hits
  intro p hp
  cases hr : rewriteHits p.2 host with
  | nil => rfl
  | cons rw rest =>
    exfalso
    have hm : rw ∈ rewriteHits p.2 host := by rw [hr]; exact List.mem_cons_self ..
    obtain ⟨d, hd, hdm⟩ := (mem_rewriteHits p.2 host rw).mp hm
    exact h p hp ⟨d, rw, hd, hdm⟩

/-- **allow_beats_block_rules.**  Rule-level form: no rewrite rule in play and one matching allow
rule in ANY source — custom, a shared list, a blocked-service list — give an allow verdict of the
rule lists, attributed to a source that really holds a matching allow rule, however many block and
hosts rules match anywhere; the final request verdict is never a block. -/
theorem allow_beats_block_rules (c : Cfg) (host : Host) (qt : QType)
    (hrw : NoRewriteRule c host)
    (hallow : ∃ p ∈ c.allSources, HasAllowRule p.2 host qt) :
    (∃ p ∈ c.allSources, HasAllowRule p.2 host qt ∧ ruleListVerdict c host qt = .allowed p.1) ∧
      ∀ l, filterRequest c host qt ≠ .blocked l := by
  have hfr := firstRewrite_none_of_NoRewriteRule c host qt hrw
  have hex : ∃ y ∈ allNets c.allSources host qt, y.2.1 = true := by
    obtain ⟨p, hp, d, ts, hr, hd, ht⟩ := hallow
    exact ⟨(p.1, true, ts.count), (mem_allNets ..).mpr ⟨p, hp, (mem_netHits ..).mpr ⟨d, true, ts, hr, hd, ht, rfl⟩⟩, rfl⟩
  refine ⟨?_, (allow_beats_block c host qt hfr hex).2⟩
  obtain ⟨r, hm, ha, hc⟩ := combined_allow c.allSources host qt hex
  obtain ⟨p, hp, hy⟩ := (mem_allNets ..).mp hm
  obtain ⟨d, a, ts, hr, hd, ht, rfl⟩ := (mem_netHits ..).mp hy
  simp only at ha
  subst ha
  refine ⟨p, hp, ⟨d, ts, hr, hd, ht⟩, ?_⟩
  unfold ruleListVerdict
  rw [hfr]
  exact hc

/-- **block_blocks_rules.**  Rule-level form: no rewrite rule, no matching allow rule anywhere, and
the verdict is a block iff some source holds a matching block rule (a hosts-style line counts unless
a network rule of the same list matches as well, which the engine then prefers). -/
theorem block_iff_rules (c : Cfg) (host : Host) (qt : QType)
    (hrw : NoRewriteRule c host)
    (hnoallow : ∀ p ∈ c.allSources, ¬ HasAllowRule p.2 host qt) :
    ((∃ l, filterRequest c host qt = .blocked l) ↔ ∃ p ∈ c.allSources, HasBlockRule p.2 host qt) ∧
    ∀ l, filterRequest c host qt = .blocked l → ∃ p ∈ c.allSources, p.1 = l ∧ HasBlockRule p.2 host qt := by
  have hfr := firstRewrite_none_of_NoRewriteRule c host qt hrw
  have hna : ∀ y ∈ allNets c.allSources host qt, y.2.1 = false := by
    intro y hy
    obtain ⟨p, hp, hy⟩ := (mem_allNets ..).mp hy
    obtain ⟨d, a, ts, hr, hd, ht, rfl⟩ := (mem_netHits ..).mp hy
    cases a with
    | false => rfl
    | true => exact absurd ⟨d, ts, hr, hd, ht⟩ (hnoallow p hp)
  have hrl : ruleListVerdict c host qt = combined c.allSources host qt := by
    unfold ruleListVerdict; rw [hfr]; rfl
  -- a blocked verdict names a source with a matching block rule
  have hsrc : ∀ l, combined c.allSources host qt = .blocked l →
      ∃ p ∈ c.allSources, p.1 = l ∧ HasBlockRule p.2 host qt := by
    intro l hl
    by_cases hempty : allNets c.allSources host qt = [] ∧ allHosts c.allSources host qt false = [] ∧
        allHosts c.allSources host qt true = []
    · rw [combined_none _ _ _ hempty.1 hempty.2.1 hempty.2.2] at hl; cases hl
    · have hb : allNets c.allSources host qt ≠ [] ∨ allHosts c.allSources host qt false ≠ [] ∨
          allHosts c.allSources host qt true ≠ [] := by
        by_cases h1 : allNets c.allSources host qt = []
        · by_cases h2 : allHosts c.allSources host qt false = []
          · exact Or.inr (Or.inr (fun h3 => hempty ⟨h1, h2, h3⟩))
          · exact Or.inr (Or.inl h2)
        · exact Or.inl h1
      obtain ⟨l', hl', hwho⟩ := combined_block c.allSources host qt hna hb
      rw [hl] at hl'
      cases hl'
      rcases hwho with ⟨y, hy, rfl⟩ | h | h
      · obtain ⟨p, hp, hy⟩ := (mem_allNets ..).mp hy
        obtain ⟨d, a, ts, hr, hd, ht, rfl⟩ := (mem_netHits ..).mp hy
        have := hna _ ((mem_allNets ..).mpr ⟨p, hp, (mem_netHits ..).mpr ⟨d, a, ts, hr, hd, ht, rfl⟩⟩)
        simp only at this
        subst this
        exact ⟨p, hp, rfl, Or.inl ⟨d, ts, hr, hd, ht⟩⟩
      · unfold allHosts at h
        obtain ⟨p, hp, hm⟩ := List.mem_flatMap.mp h
        obtain ⟨rfl, hr, _⟩ := mem_hostsHits _ _ _ _ _ _ hm
        exact ⟨p, hp, rfl, Or.inr ⟨false, hr⟩⟩
      · unfold allHosts at h
        obtain ⟨p, hp, hm⟩ := List.mem_flatMap.mp h
        obtain ⟨rfl, hr, _⟩ := mem_hostsHits _ _ _ _ _ _ hm
        exact ⟨p, hp, rfl, Or.inr ⟨true, hr⟩⟩
  have hfin : ∀ l, filterRequest c host qt = .blocked l → combined c.allSources host qt = .blocked l := by
    intro l hl
    unfold filterRequest at hl
    rw [hrl] at hl
    have hshape := reqFilterVerdicts_shape c host qt
    revert hl
    cases hcv : combined c.allSources host qt with
    | blocked l' => simp
    | none =>
      simp only
      rcases firstSome_mem (reqFilterVerdicts c host qt) with h | h
      · rw [h]; simp
      · rcases hshape _ h with h' | h'
        · rw [h']; simp
        · revert h'; cases firstSome (reqFilterVerdicts c host qt) <;> simp [Verdict.isRewrite]
    | allowed l' =>
      rcases firstSome_mem (reqFilterVerdicts c host qt) with h | h
      · rw [h]; cases l' <;> simp
      · rcases hshape _ h with h' | h'
        · rw [h']; cases l' <;> simp
        · revert h'; cases firstSome (reqFilterVerdicts c host qt) <;> cases l' <;> simp [Verdict.isRewrite]
    | modReq l' t => simp
    | modResp l' rc vs => simp
    | hashResp l' a b => simp
  refine ⟨⟨?_, ?_⟩, fun l hl => hsrc l (hfin l hl)⟩
  · rintro ⟨l, hl⟩
    obtain ⟨p, hp, _, hb⟩ := hsrc l (hfin l hl)
    exact ⟨p, hp, hb⟩
  · rintro ⟨p, hp, hb⟩
    have hblock : allNets c.allSources host qt ≠ [] ∨ allHosts c.allSources host qt false ≠ [] ∨
        allHosts c.allSources host qt true ≠ [] := by
      rcases hb with ⟨d, ts, hr, hd, ht⟩ | ⟨v6, hr⟩
      · left
        intro he
        have : (p.1, false, ts.count) ∈ allNets c.allSources host qt :=
          (mem_allNets ..).mpr ⟨p, hp, (mem_netHits ..).mpr ⟨d, false, ts, hr, hd, ht, rfl⟩⟩
        rw [he] at this; cases this
      · by_cases hn : netHits p.1 p.2 host qt = []
        · right
          have hmem : p.1 ∈ hostsHits p.1 p.2 host qt v6 := by
            unfold hostsHits
            simp only [hn, List.isEmpty_nil, if_true, List.mem_filterMap]
            exact ⟨_, hr, by simp⟩
          have hall : p.1 ∈ allHosts c.allSources host qt v6 := by
            unfold allHosts
            exact List.mem_flatMap.mpr ⟨p, hp, hmem⟩
          cases v6 with
          | false => exact Or.inl (fun he => by rw [he] at hall; cases hall)
          | true => exact Or.inr (fun he => by rw [he] at hall; cases hall)
        · left
          intro he
          cases hh : netHits p.1 p.2 host qt with
          | nil => exact hn hh
          | cons y ys =>
            have : y ∈ allNets c.allSources host qt :=
              (mem_allNets ..).mpr ⟨p, hp, by rw [hh]; exact List.mem_cons_self ..⟩
            rw [he] at this; cases this
    obtain ⟨l, _, hl⟩ := block_blocks c host qt hfr hna hblock
    exact ⟨l, hl⟩

/-- The rule-level hypotheses are satisfiable together with interesting verdicts: a service list
allows what the custom list and a hosts line block; for AAAA only the blocks remain. -/
def exC : Cfg := { custom := some [.net ["a", "test"] false .any],
                   lists := [(3, [.hosts false ["x", "a", "test"]])],
                   svcs := [(1, [.net ["x", "a", "test"] true (.only 1)])] }

example : NoRewriteRule exC ["x", "a", "test"] ∧
    (∃ p ∈ exC.allSources, HasAllowRule p.2 ["x", "a", "test"] 1) ∧
    (∀ p ∈ exC.allSources, ¬ HasAllowRule p.2 ["x", "a", "test"] 28) ∧
    (∃ p ∈ exC.allSources, HasBlockRule p.2 ["x", "a", "test"] 28) ∧
    filterRequest exC ["x", "a", "test"] 1 = .allowed (.svc 1) ∧
    filterRequest exC ["x", "a", "test"] 28 = .blocked .custom := by
  refine ⟨?_, ⟨(.svc 1, [.net ["x", "a", "test"] true (.only 1)]), by decide,
      ["x", "a", "test"], .only 1, by decide, by decide, by decide⟩, ?_,
    ⟨(.custom, [.net ["a", "test"] false .any]), by decide,
      Or.inl ⟨["a", "test"], .any, by decide, by decide, by decide⟩⟩, by decide, by decide⟩
  · intro p hp ⟨d, rw, hr, _⟩
    simp [exC, Cfg.rewriteSources] at hp
    rcases hp with rfl | rfl <;> simp at hr
  · intro p hp ⟨d, ts, hr, hd, ht⟩
    simp [exC, Cfg.allSources, Cfg.rewriteSources, Cfg.svcSources] at hp
    rcases hp with rfl | rfl | rfl <;> simp at hr
    obtain ⟨rfl, rfl⟩ := hr
    revert ht; decide

/-- **deciding_rule_first_max.**  Which rule decides among the matching allow/block rules of all
sources (`rules.GetDNSBasicRule`): one that no other matching rule outranks — allow over block, then
the rule with a `$dnstype` modifier — and of those the earliest in source order (custom, shared
lists as configured, services). -/
theorem deciding_rule_first_max (c : Cfg) (host : Host) (qt : QType)
    (hrw : firstRewrite host qt c.rewriteSources = .none)
    (hne : allNets c.allSources host qt ≠ []) :
    ∃ r, ruleListVerdict c host qt = (if r.2.1 then .allowed r.1 else .blocked r.1) ∧
      (∀ y ∈ allNets c.allSources host qt, higher y r = false) ∧
      ∃ p1 p2, allNets c.allSources host qt = p1 ++ r :: p2 ∧ ∀ y ∈ p1, higher r y = true := by
  obtain ⟨r, hr, hmax, hfirst⟩ := basicRule_first_max _ hne
  refine ⟨r, ?_, hmax, hfirst⟩
  unfold ruleListVerdict combined toInternal
  rw [hrw]
  simp only [Cfg.allSources] at hr
  obtain ⟨id, al, n⟩ := r
  simp [hr]

/-! ## Clause 3: unless the deciding allow is the profile's own, the request filters apply in order -/

/-- **custom_allow_stops.** When the deciding allow rule is the custom list's, nothing else is
consulted. -/
theorem custom_allow_stops (c : Cfg) (host : Host) (qt : QType)
    (h : ruleListVerdict c host qt = .allowed .custom) :
    filterRequest c host qt = .allowed .custom := by
  unfold filterRequest; rw [h]

/-- **custom_allow_decides.**  When the profile's own list holds a matching allow rule that no
matching rule of any source outranks, the deciding allow is the profile's own (it comes first in
source order) and nothing else — no safety filter — is consulted. -/
theorem custom_allow_decides (c : Cfg) (host : Host) (qt : QType) (rs : List Rule) (n : Nat)
    (hrw : firstRewrite host qt c.rewriteSources = .none)
    (hc : c.custom = some rs)
    (hmem : (ListId.custom, true, n) ∈ netHits .custom rs host qt)
    (hmax : ∀ y ∈ allNets c.allSources host qt, y.2.1 = true → y.2.2 ≤ n) :
    filterRequest c host qt = .allowed .custom := by
  have hsrc : c.allSources = (ListId.custom, rs) :: ((c.lists.map fun p => (ListId.shared p.1, p.2)) ++ c.svcSources) := by
    simp [Cfg.allSources, Cfg.rewriteSources, hc]
  have hin : (ListId.custom, true, n) ∈ allNets c.allSources host qt :=
    (mem_allNets ..).mpr ⟨(.custom, rs), by rw [hsrc]; exact List.mem_cons_self .., hmem⟩
  have hne : allNets c.allSources host qt ≠ [] := by
    intro he; rw [he] at hin; cases hin
  obtain ⟨r, hv, hmx, p1, p2, hsplit, hp1⟩ := deciding_rule_first_max c host qt hrw hne
  -- `r` is an allow of maximal modifier count
  have hr_allow : r.2.1 = true := by
    have := hmx _ hin
    obtain ⟨ri, ra, rn⟩ := r
    cases ra with
    | true => rfl
    | false => simp [higher] at this
  have hr_in : r ∈ allNets c.allSources host qt := by rw [hsplit]; simp
  have hr_n : r.2.2 = n := by
    have h1 := hmx _ hin
    have h2 := hmax r hr_in hr_allow
    obtain ⟨ri, ra, rn⟩ := r
    simp only at hr_allow
    subst hr_allow
    simp only at h2
    simp [higher] at h1
    show rn = n
    omega
  -- every hit of the custom list that is not outranked by `r` cannot precede `r` unless it is `r`
  have hr_custom : r.1 = .custom := by
    -- the custom hit is either in p1 (impossible: r would strictly outrank it), r itself, or after r
    rw [hsplit] at hin
    rcases List.mem_append.mp hin with h | h
    · have := hp1 _ h
      obtain ⟨ri, ra, rn⟩ := r
      simp only at hr_allow hr_n
      subst hr_allow; subst hr_n
      simp [higher] at this
    · rcases List.mem_cons.mp h with h | h
      · rw [← h]
      · -- r precedes a custom hit: then r itself comes from the custom list, the first source
        have hall : allNets c.allSources host qt =
            netHits .custom rs host qt ++ allNets ((c.lists.map fun p => (ListId.shared p.1, p.2)) ++ c.svcSources) host qt := by
          rw [hsrc]; simp [allNets]
        have hnot : ∀ y ∈ allNets ((c.lists.map fun p => (ListId.shared p.1, p.2)) ++ c.svcSources) host qt, y.1 ≠ .custom := by
          intro y hy
          obtain ⟨p, hp, hy⟩ := (mem_allNets ..).mp hy
          obtain ⟨d, a, ts, _, _, _, rfl⟩ := (mem_netHits ..).mp hy
          simp only [List.mem_append, List.mem_map, Cfg.svcSources] at hp
          rcases hp with ⟨q, _, rfl⟩ | ⟨q, _, rfl⟩ <;> simp
        have hcust : ∀ y ∈ netHits .custom rs host qt, y.1 = .custom := by
          intro y hy
          obtain ⟨d, a, ts, _, _, _, rfl⟩ := (mem_netHits ..).mp hy
          rfl
        -- decompose: p1 ++ r :: p2 = A ++ B with a custom element in p2
        rw [hall] at hsplit
        by_cases hrA : r.1 = .custom
        · exact hrA
        · exfalso
          -- r ∈ B, so everything after r is in B, contradiction with h
          have hsplit' := hsplit
          rcases List.append_eq_append_iff.mp hsplit' with ⟨a', ha1, ha2⟩ | ⟨b', hb1, hb2⟩
          · -- p1 = A ++ a', B = a' ++ r :: p2
            have : (ListId.custom, true, n) ∈ allNets ((c.lists.map fun p => (ListId.shared p.1, p.2)) ++ c.svcSources) host qt := by
              rw [ha2]; simp [h]
            exact hnot _ this rfl
          · -- A = p1 ++ b', r :: p2 = b' ++ B
            cases b' with
            | nil =>
              simp at hb2
              have : (ListId.custom, true, n) ∈ allNets ((c.lists.map fun p => (ListId.shared p.1, p.2)) ++ c.svcSources) host qt := by
                rw [← hb2]; simp [h]
              exact hnot _ this rfl
            | cons b0 bs =>
              simp at hb2
              obtain ⟨rfl, _⟩ := hb2
              exact hrA (hcust _ (by rw [hb1]; simp))
  apply custom_allow_stops
  rw [hv, hr_allow, hr_custom]
  rfl

example : let c : Cfg := { custom := some [.net ["a", "test"] true .any],
                           lists := [(0, [.net ["test"] true .any, .net ["a", "test"] false (.only 1)])],
                           sb := some { hosts := [["a", "test"]], repl := ["r", "test"] } }
    (ListId.custom, true, 0) ∈ netHits .custom [.net ["a", "test"] true .any] ["a", "test"] 1 ∧
    (∀ y ∈ allNets c.allSources ["a", "test"] 1, y.2.1 = true → y.2.2 ≤ 0) ∧
    filterRequest c ["a", "test"] 1 = .allowed .custom := by decide

/-- **other_allow_continues.** When the rule lists allow through a shared or service list, or say
nothing, the verdict is that of the first request filter that has one, and the rule-list verdict
only if none has. -/
theorem other_allow_continues (c : Cfg) (host : Host) (qt : QType)
    (h : ruleListVerdict c host qt = .none ∨ ∃ l, l ≠ .custom ∧ ruleListVerdict c host qt = .allowed l) :
    filterRequest c host qt =
      (if firstSome (reqFilterVerdicts c host qt) = .none then ruleListVerdict c host qt
       else firstSome (reqFilterVerdicts c host qt)) := by
  unfold filterRequest
  rcases h with h | ⟨l, hl, h⟩
  · rw [h]; cases firstSome (reqFilterVerdicts c host qt) <;> simp
  · rw [h]
    cases l <;> first | exact absurd rfl hl | (cases firstSome (reqFilterVerdicts c host qt) <;> simp)

/-- **request_filters_in_order.** The request filters are consulted in the order dangerous domains,
adult, general safe search, YouTube safe search, newly registered; the first one with a verdict
decides (stated for all five enabled; a disabled one is simply absent from the list). -/
theorem request_filters_in_order (c : Cfg) (host : Host) (qt : QType)
    (f1 f2 f5 : HashFilter) (g y : List Rule)
    (h1 : c.sb = some f1) (h2 : c.adult = some f2) (h3 : c.genSS = some g) (h4 : c.ytSS = some y)
    (h5 : c.newReg = some f5) :
    reqFilterVerdicts c host qt =
      [hashVerdict .safeBrowsing f1 host qt, hashVerdict .adult f2 host qt, ssVerdict .genSS g host qt,
       ssVerdict .ytSS y host qt, hashVerdict .newReg f5 host qt] ∧
    ∀ (pre post : List Verdict) (v : Verdict), reqFilterVerdicts c host qt = pre ++ v :: post →
      (∀ x ∈ pre, x = .none) → v ≠ .none → firstSome (reqFilterVerdicts c host qt) = v := by
  refine ⟨by simp [reqFilterVerdicts, optV, h1, h2, h3, h4, h5], ?_⟩
  intro pre post v hs hp hv
  rw [hs]
  exact firstSome_split pre post v hp hv

example : let c : Cfg := { lists := [(0, [.net ["a", "test"] true .any])],
                           adult := some { hosts := [["a", "test"]], repl := ["ad", "test"] },
                           newReg := some { hosts := [["test"]], repl := ["nr", "test"] } }
    filterRequest c ["a", "test"] 1 = .modReq .adult ["ad", "test"] ∧
    filterRequest c ["a", "test"] 16 = .allowed (.shared 0) := by decide

/-- The verdict of one request-filter slot; a slot that is not enabled says nothing. -/
def slotVerdict {α : Type} (o : Option α) (f : α → Verdict) : Verdict :=
  match o with | some a => f a | Option.none => .none

/-- **request_filters_any_subset.**  For EVERY subset of enabled safety filters the deciding one is
found by going through the five slots in the fixed order dangerous domains, adult, general safe
search, YouTube safe search, newly registered, a disabled slot counting as silent: the order of the
enabled ones is never changed by which others are enabled. -/
theorem request_filters_any_subset (c : Cfg) (host : Host) (qt : QType) :
    firstSome (reqFilterVerdicts c host qt) =
      firstSome [slotVerdict c.sb (fun f => hashVerdict .safeBrowsing f host qt),
                 slotVerdict c.adult (fun f => hashVerdict .adult f host qt),
                 slotVerdict c.genSS (fun rs => ssVerdict .genSS rs host qt),
                 slotVerdict c.ytSS (fun rs => ssVerdict .ytSS rs host qt),
                 slotVerdict c.newReg (fun f => hashVerdict .newReg f host qt)] := by
  unfold reqFilterVerdicts
  cases c.sb <;> cases c.adult <;> cases c.genSS <;> cases c.ytSS <;> cases c.newReg <;>
    simp [optV, slotVerdict, firstSome_cons, firstSome]

/-- Dangerous-domains disabled, adult and newly-registered both match: adult decides. -/
example : let c : Cfg := { adult := some { hosts := [["a", "test"]], repl := ["ad", "test"] },
                           newReg := some { hosts := [["test"]], repl := ["nr", "test"] } }
    filterRequest c ["a", "test"] 1 = .modReq .adult ["ad", "test"] := by decide

/-- **safety_filter_verdict_kinds.**  A safety filter never allows and never blocks by itself: it
says nothing, sends the name elsewhere, or answers with a synthesised response. -/
theorem safety_filter_verdict_kinds (c : Cfg) (host : Host) (qt : QType) :
    firstSome (reqFilterVerdicts c host qt) = .none ∨
      (firstSome (reqFilterVerdicts c host qt)).isRewrite = true := by
  rcases firstSome_mem (reqFilterVerdicts c host qt) with h | h
  · exact Or.inl h
  · exact reqFilterVerdicts_shape c host qt _ h

/-! ## Clause 4: request verdict over response verdict; filtering off -/

/-- **request_over_response.** Whenever the request filter has a verdict, the answer is determined
by it alone: the right-hand side does not mention the response filter. -/
theorem request_over_response (e : Env) (host : Host) (qt : QType) (c : Cfg)
    (hf : selectFilter e.sw e.prof e.grp = some c) (hv : filterRequest c host qt ≠ .none) :
    serve e host qt =
      match filterRequest c host qt with
      | .modReq _ t => { e.upstream t qt with
                         ans := synthRR host qtCNAME e.ttl (".".intercalate t) :: (e.upstream t qt).ans }
      | .blocked _ => (blockedResp e.mode e.ttl host qt).getD blockedFallback
      | .allowed _ => e.upstream host qt
      | .modResp _ rc vals => rewriteMsg host qt e.ttl rc vals
      | .hashResp _ v4 ip => hashRespMsg e.mode e.ttl host qt v4 ip
      | .none => e.upstream host qt := by
  unfold serve serveWith
  simp only [hf]
  revert hv
  cases filterRequest c host qt <;> simp

/-- A request-level allow is kept although the response filter would block the upstream answer. -/
example : let c : Cfg := { custom := some [.net ["a", "test"] true .any, .net ["192", "0", "2", "1"] false .any] }
    let up : Host → QType → Msg := fun _ _ =>
      { rcode := 0, ans := [{ name := ["a", "test"], typ := 1, val := "192.0.2.1", ttl := 7, up := true }], soa := none }
    let e : Env := { sw := ⟨true, true, true⟩, prof := c, grp := {}, mode := .nxdomain, ttl := 10, upstream := up }
    filterResponse c [.a ["192", "0", "2", "1"]] = .blocked .custom ∧
    filterRequest c ["a", "test"] 1 = .allowed .custom ∧
    serve e ["a", "test"] 1 = up ["a", "test"] 1 := by decide

/-- **filtering_off_is_empty.** With filtering disabled for the profile or for the device, the
client gets the upstream answer unchanged. -/
theorem filtering_off_is_empty (e : Env) (host : Host) (qt : QType)
    (hp : e.sw.hasProfile = true) (hoff : e.sw.profOn = false ∨ e.sw.devOn = false) :
    serve e host qt = e.upstream host qt := by
  have : selectFilter e.sw e.prof e.grp = Option.none := by
    unfold selectFilter
    rcases hoff with h | h <;> simp [hp, h]
  unfold serve serveWith
  simp [this]

example : let e : Env := { sw := ⟨true, true, false⟩, prof := { custom := some [.net ["test"] false .any] },
                           grp := {}, mode := .nullIP, ttl := 10,
                           upstream := fun _ _ => { rcode := 0, ans := [], soa := none, upNs := 1 } }
    serve e ["a", "test"] 1 = { rcode := 0, ans := [], soa := none, upNs := 1 } := by decide

/-! ### The response filter: same precedence per answer record, never a rewrite -/

/-- Name and type under which an answer record is matched against the rules. -/
def Ans.key : Ans → Option (Host × QType)
  | .a ip => some (ip, qtA)
  | .aaaa ip => some (ip, qtAAAA)
  | .cname t => some (t, qtCNAME)
  | .https _ => Option.none
  | .other => Option.none

/-- **response_never_rewrites.**  `$dnsrewrite` rules are not applied to responses: the response
verdict is nothing, an allow or a block. -/
theorem response_never_rewrites (c : Cfg) (answers : List Ans) :
    (filterResponse c answers).isRewrite = false := by
  unfold filterResponse
  rcases firstSome_mem (answers.map (answerVerdict c)) with h | h
  · rw [h]; rfl
  · obtain ⟨a, _, ha⟩ := List.mem_map.mp h
    rw [← ha]
    cases a with
    | https hints =>
      simp only [answerVerdict]
      rcases firstSome_mem (hints.map fun h => combined c.respSources h qtHTTPS) with h' | h'
      · rw [h']; rfl
      · obtain ⟨x, _, hx⟩ := List.mem_map.mp h'
        rw [← hx]; exact toInternal_not_rewrite ..
    | a ip => exact toInternal_not_rewrite ..
    | aaaa ip => exact toInternal_not_rewrite ..
    | cname t => exact toInternal_not_rewrite ..
    | other => rfl

/-- **response_first_answer_decides.**  The answer records are looked at in order; the first one
for which the rules have a verdict decides. -/
theorem response_first_answer_decides (c : Cfg) (pre post : List Ans) (a : Ans)
    (hpre : ∀ x ∈ pre, answerVerdict c x = .none) (ha : answerVerdict c a ≠ .none) :
    filterResponse c (pre ++ a :: post) = answerVerdict c a := by
  unfold filterResponse
  simp only [List.map_append, List.map_cons]
  apply firstSome_split _ _ _ _ ha
  intro x hx
  obtain ⟨y, hy, rfl⟩ := List.mem_map.mp hx
  exact hpre y hy

/-- **response_allow_beats_block.**  For one answer record (address or CNAME target) an allow rule
of any source beats every block rule, and without an allow a matching block rule blocks — the same
precedence as for the question, over all three kinds of sources. -/
theorem resp_precedence (c : Cfg) (h : Host) (t : QType) :
    ((∃ p ∈ c.respSources, HasAllowRule p.2 h t) → ∃ l, combined c.respSources h t = .allowed l) ∧
    ((∀ p ∈ c.respSources, ¬ HasAllowRule p.2 h t) →
      (∃ p ∈ c.respSources, ∃ d ts, Rule.net d false ts ∈ p.2 ∧ domMatch d h = true ∧ ts.ok t = true) →
      ∃ l, combined c.respSources h t = .blocked l) := by
  constructor
  · rintro ⟨p, hp, d, ts, hr, hd, ht⟩
    obtain ⟨r, _, _, hc⟩ := combined_allow c.respSources h t
      ⟨(p.1, true, ts.count), (mem_allNets ..).mpr ⟨p, hp, (mem_netHits ..).mpr ⟨d, true, ts, hr, hd, ht, rfl⟩⟩, rfl⟩
    exact ⟨_, hc⟩
  · rintro hno ⟨p, hp, d, ts, hr, hd, ht⟩
    have hna : ∀ y ∈ allNets c.respSources h t, y.2.1 = false := by
      intro y hy
      obtain ⟨q, hq, hy⟩ := (mem_allNets ..).mp hy
      obtain ⟨d', a', ts', hr', hd', ht', rfl⟩ := (mem_netHits ..).mp hy
      cases a' with
      | false => rfl
      | true => exact absurd ⟨d', ts', hr', hd', ht'⟩ (hno q hq)
    have hne : allNets c.respSources h t ≠ [] := by
      intro he
      have : (p.1, false, ts.count) ∈ allNets c.respSources h t :=
        (mem_allNets ..).mpr ⟨p, hp, (mem_netHits ..).mpr ⟨d, false, ts, hr, hd, ht, rfl⟩⟩
      rw [he] at this; cases this
    obtain ⟨l, hl, _⟩ := combined_block c.respSources h t hna (Or.inl hne)
    exact ⟨l, hl⟩

theorem response_allow_beats_block (c : Cfg) (a : Ans) (h : Host) (t : QType) (hk : a.key = some (h, t)) :
    ((∃ p ∈ c.respSources, HasAllowRule p.2 h t) → ∃ l, answerVerdict c a = .allowed l) ∧
    ((∀ p ∈ c.respSources, ¬ HasAllowRule p.2 h t) →
      (∃ p ∈ c.respSources, ∃ d ts, Rule.net d false ts ∈ p.2 ∧ domMatch d h = true ∧ ts.ok t = true) →
      ∃ l, answerVerdict c a = .blocked l) := by
  have hv : answerVerdict c a = combined c.respSources h t := by
    cases a <;> simp [Ans.key] at hk <;> obtain ⟨rfl, rfl⟩ := hk <;> rfl
  rw [hv]
  exact resp_precedence c h t

/-- **response_https_hints.**  The `ipv4hint`/`ipv6hint` addresses of an HTTPS answer are filtered
like address records, matched under the record type HTTPS: they are looked at in record order, the
first hint the rules have a verdict for decides the record, and for that hint an allow rule of any
source beats every block rule while a block rule without an allow blocks. -/
theorem response_https_hints (c : Cfg) (pre post : List Host) (h : Host)
    (hpre : ∀ x ∈ pre, combined c.respSources x qtHTTPS = .none)
    (hh : combined c.respSources h qtHTTPS ≠ .none) :
    answerVerdict c (.https (pre ++ h :: post)) = combined c.respSources h qtHTTPS ∧
    ((∃ p ∈ c.respSources, HasAllowRule p.2 h qtHTTPS) →
      ∃ l, answerVerdict c (.https (pre ++ h :: post)) = .allowed l) ∧
    ((∀ p ∈ c.respSources, ¬ HasAllowRule p.2 h qtHTTPS) →
      (∃ p ∈ c.respSources, ∃ d ts, Rule.net d false ts ∈ p.2 ∧ domMatch d h = true ∧ ts.ok qtHTTPS = true) →
      ∃ l, answerVerdict c (.https (pre ++ h :: post)) = .blocked l) := by
  have hv : answerVerdict c (.https (pre ++ h :: post)) = combined c.respSources h qtHTTPS := by
    simp only [answerVerdict, List.map_append, List.map_cons]
    apply firstSome_split _ _ _ _ hh
    intro x hx
    obtain ⟨y, hy, rfl⟩ := List.mem_map.mp hx
    exact hpre y hy
  rw [hv]
  exact ⟨rfl, resp_precedence c h qtHTTPS⟩

/-- An HTTPS answer without hints, or whose hints no rule mentions, has no verdict. -/
theorem response_https_no_hint_no_verdict (c : Cfg) (hints : List Host)
    (h : ∀ x ∈ hints, combined c.respSources x qtHTTPS = .none) : answerVerdict c (.https hints) = .none := by
  simp only [answerVerdict]
  apply firstSome_all_none
  intro x hx
  obtain ⟨y, hy, rfl⟩ := List.mem_map.mp hx
  exact h y hy

/-- An HTTPS answer whose second hint (an IPv6 address) a `$dnstype=HTTPS` rule blocks; the same
address in an AAAA record is not blocked by that rule. -/
example : let c : Cfg := { lists := [(4, [.net ["2001:db8::1"] false (.only qtHTTPS)])] }
    answerVerdict c (.https [["192", "0", "2", "1"], ["2001:db8::1"]]) = .blocked (.shared 4) ∧
    answerVerdict c (.aaaa ["2001:db8::1"]) = .none ∧
    filterResponse c [.cname ["t", "test"], .https [["2001:db8::1"]]] = .blocked (.shared 4) := by decide

/-- The first answer (a CNAME) has no verdict, the second (an address) is blocked by a shared list
although a later address is allowed by the custom list. -/
example : let c : Cfg := { custom := some [.net ["192", "0", "2", "2"] true .any],
                           lists := [(4, [.net ["192", "0", "2", "1"] false .any])] }
    filterResponse c [.cname ["t", "test"], .a ["192", "0", "2", "1"], .a ["192", "0", "2", "2"]] = .blocked (.shared 4) ∧
    answerVerdict c (.a ["192", "0", "2", "2"]) = .allowed .custom := by decide

/-! ### Letter case: the response verdict does not depend on how a CNAME target is spelled -/

/-- What `parseRespAnswer` hands to the rule lists for a CNAME record is the case-folded target. -/
theorem ansOf_cname (r : RR) (h : r.typ = qtCNAME) : ansOf r = .cname (normName r.target) := by
  simp [ansOf, ansOfWith, h, qtA, qtAAAA, qtCNAME]

/-- **response_verdict_ignores_case.**  Two records that differ only in the spelling of the CNAME
target (equal after case folding — the same DNS name) get the same verdict from every configuration. -/
theorem response_verdict_ignores_case (c : Cfg) (r : RR) (t' : Host)
    (h : normName t' = normName r.target) :
    answerVerdict c (ansOf { r with target := t' }) = answerVerdict c (ansOf r) := by
  simp [ansOf, ansOfWith, h]

/-- **response_verdict_of_lower_case.**  Case folding is a normal form (`normName_idem`), and the
verdict on a CNAME record spelled in any way is the verdict on the same record with its target in
lower case — the spelling the rule lists are written in. -/
theorem response_verdict_of_lower_case (c : Cfg) (r : RR) :
    normName (normName r.target) = normName r.target ∧
    answerVerdict c (ansOf { r with target := normName r.target }) = answerVerdict c (ansOf r) :=
  ⟨normName_idem _, response_verdict_ignores_case c r _ (normName_idem _)⟩

/-- **response_filter_ignores_case.**  Respelling the CNAME targets of a whole answer section (any
function that keeps the folded name) does not change the response verdict. -/
theorem response_filter_ignores_case (c : Cfg) (rs : List RR) (f : Host → Host)
    (hf : ∀ t, normName (f t) = normName t) :
    filterResponse c ((rs.map fun r => { r with target := f r.target }).map ansOf) =
      filterResponse c (rs.map ansOf) := by
  unfold filterResponse
  congr 1
  simp only [List.map_map]
  apply List.map_congr_left
  intro r _
  simp [Function.comp, ansOf, ansOfWith, hf]

/-- **cname_block_any_spelling.**  Rule-level reading: when some source holds a block rule that
matches the (folded) CNAME target under the type CNAME and no source holds a matching allow rule, the
record is blocked — however the upstream spelled the target. -/
theorem cname_block_any_spelling (c : Cfg) (r : RR) (hr : r.typ = qtCNAME)
    (hno : ∀ p ∈ c.respSources, ¬ HasAllowRule p.2 (normName r.target) qtCNAME)
    (hb : ∃ p ∈ c.respSources, ∃ d ts, Rule.net d false ts ∈ p.2 ∧
      domMatch d (normName r.target) = true ∧ ts.ok qtCNAME = true) :
    ∃ l, answerVerdict c (ansOf r) = .blocked l := by
  rw [ansOf_cname r hr]
  exact (resp_precedence c (normName r.target) qtCNAME).2 hno hb

/-- The upstream spells the target `T1.Test`; the list blocks `||t1.test^`. -/
def caseCfg : Cfg := { lists := [(0, [.net ["t1", "test"] false .any])] }
def caseRR (t : Host) : RR := { name := ["a", "test"], typ := 5, val := "", ttl := 7777, up := true, target := t }

example : normName ["T1", "Test"] = normName ["t1", "test"] ∧ normName ["T1", "Test"] = ["t1", "test"] := by decide

example : answerVerdict caseCfg (ansOf (caseRR ["T1", "Test"])) = .blocked (.shared 0) ∧
    answerVerdict caseCfg (ansOf (caseRR ["t1", "test"])) = .blocked (.shared 0) := by decide

/-- **cname_case_counterexample.**  Before the `fix:` commit (`ansOfUnfixed`: the target reaches the
rule lists in its wire spelling) the verdict DID depend on the spelling: `CNAME T1.Test` passed a
list that blocks `||t1.test^`, so a blocked name could be reached by capitalising it. -/
theorem cname_case_counterexample :
    ¬ (∀ (c : Cfg) (r : RR) (t' : Host), normName t' = normName r.target →
        answerVerdict c (ansOfUnfixed { r with target := t' }) = answerVerdict c (ansOfUnfixed r)) := by
  intro h
  have := h caseCfg (caseRR ["t1", "test"]) ["T1", "Test"] (by decide)
  exact absurd this (by decide)

/-- The same on a whole exchange: the pre-fix middleware hands the upstream answer through, the fixed
one answers in the requester's blocking mode. -/
def caseEnv : Env :=
  { sw := ⟨true, true, true⟩, prof := caseCfg, grp := {}, mode := .nxdomain, ttl := 10,
    upstream := fun _ _ => { rcode := 0, ans := [caseRR ["T1", "Test"]], soa := Option.none } }

example : serveCaseSensitive caseEnv ["a", "test"] 1 = caseEnv.upstream ["a", "test"] 1 ∧
    serve caseEnv ["a", "test"] 1 = { rcode := 3, ans := [], soa := some 10 } := by decide

/-! ### Which lists fill which slots: `filterstorage.Default.ForConfig` -/

/-- **disabled_parental_contributes_nothing.**  With parental control switched off, or inside its
pause schedule, no blocked-service list, no adult filter and no safe search is part of the filter,
whatever the individual switches say. -/
theorem disabled_parental_contributes_nothing (st : Storage) (p : PCfg)
    (h : p.parentalOn = false ∨ p.paused st.now = true) :
    (assemble st p).svcs = [] ∧ (assemble st p).adult = Option.none ∧
      (assemble st p).genSS = Option.none ∧ (assemble st p).ytSS = Option.none := by
  rcases h with h | h <;> simp [assemble, onlyIf, h]

/-- **disabled_rule_lists_contribute_nothing** / **disabled_safe_browsing_contributes_nothing**. -/
theorem disabled_rule_lists_contribute_nothing (st : Storage) (p : PCfg) (h : p.ruleListOn = false) :
    (assemble st p).lists = [] := by
  simp [assemble, h]

theorem disabled_safe_browsing_contributes_nothing (st : Storage) (p : PCfg) (h : p.sbOn = false) :
    (assemble st p).sb = Option.none ∧ (assemble st p).newReg = Option.none := by
  simp [assemble, onlyIf, h]

/-- **custom_slot.**  The custom slot is filled exactly for a client configuration whose custom
rules are enabled and non-empty, with those rules. -/
theorem custom_slot (st : Storage) (p : PCfg) (rs : List Rule) :
    (assemble st p).custom = some rs ↔
      p.isClient = true ∧ p.customOn = true ∧ p.customRules ≠ [] ∧ rs = p.customRules := by
  unfold assemble
  by_cases h : (p.isClient && p.customOn && !p.customRules.isEmpty) = true
  · simp only [h, if_true, Option.some.injEq]
    simp only [Bool.and_eq_true, Bool.not_eq_true', List.isEmpty_eq_false_iff] at h
    constructor
    · intro he; exact ⟨h.1.1, h.1.2, h.2, he.symm⟩
    · intro he; exact he.2.2.2.symm
  · simp only [h]
    constructor
    · intro he; cases he
    · rintro ⟨h1, h2, h3, _⟩
      exfalso; apply h
      simp [h1, h2, h3]

/-- **shared_lists_in_configured_order.**  The shared lists of the filter are the configured IDs
that the storage knows, in the configured order (unknown IDs are skipped), each with the rules the
storage holds for it. -/
theorem shared_lists_in_configured_order (st : Storage) (p : PCfg) (h : p.ruleListOn = true) :
    (assemble st p).lists.map (·.1) = p.listIds.filter (fun i => (st.lists.lookup i).isSome) ∧
    ∀ q ∈ (assemble st p).lists, st.lists.lookup q.1 = some q.2 := by
  have hl : (assemble st p).lists = pickKnown st.lists p.listIds := by simp [assemble, h]
  rw [hl]
  unfold pickKnown
  constructor
  · induction p.listIds with
    | nil => rfl
    | cons i is ih =>
      cases hlk : st.lists.lookup i with
      | none => simp [hlk, ih]
      | some rs => simp [hlk, ih]
  · intro q hq
    obtain ⟨i, _, hi⟩ := List.mem_filterMap.mp hq
    cases hlk : st.lists.lookup i with
    | none => simp [hlk] at hi
    | some rs => simp [hlk] at hi; subst hi; exact hlk

/-- Everything switched off: the assembled filter is empty and nothing is filtered. -/
theorem all_off_filters_nothing (st : Storage) (p : PCfg) (host : Host) (qt : QType) (answers : List Ans)
    (h1 : p.parentalOn = false) (h2 : p.ruleListOn = false) (h3 : p.sbOn = false) (h4 : p.customOn = false) :
    filterRequest (assemble st p) host qt = .none ∧ filterResponse (assemble st p) answers = .none := by
  have he : assemble st p = {} := by simp [assemble, onlyIf, h1, h2, h3, h4]
  rw [he]
  constructor
  · simp [filterRequest, ruleListVerdict, Cfg.rewriteSources, Cfg.svcSources, firstRewrite, combined, allNets,
      allHosts, toInternal, basicRule, basicFrom, reqFilterVerdicts, optV, firstSome]
  · have hc : ∀ (h : Host) (t : QType), combined ({} : Cfg).respSources h t = .none := by
      intro h t
      simp [combined, Cfg.respSources, Cfg.svcSources, allNets, allHosts, toInternal, basicRule, basicFrom]
    unfold filterResponse
    apply firstSome_all_none
    intro x hx
    obtain ⟨a, _, rfl⟩ := List.mem_map.mp hx
    cases a with
    | https hints =>
      simp only [answerVerdict]
      apply firstSome_all_none
      intro y hy
      obtain ⟨z, _, rfl⟩ := List.mem_map.mp hy
      exact hc z qtHTTPS
    | a ip => exact hc ..
    | aaaa ip => exact hc ..
    | cname t => exact hc ..
    | other => rfl

example : let st : Storage := { lists := [(0, [.net ["a", "test"] false .any]), (1, [.rewrite ["a", "test"] (.rcode 3)])],
                                svcs := [(0, [.net ["a", "test"] false .any])] }
    let p : PCfg := { customOn := false, customRules := [.net ["a", "test"] false .any], parentalOn := true,
                      pause := some { week := [none, none, none, none, some ⟨0, 1440⟩], zone := {} },
                      svcIds := [0], ruleListOn := true, listIds := [9, 1, 0] }
    p.paused st.now = true ∧ (assemble st p).lists.map (·.1) = [1, 0] ∧ (assemble st p).custom = none ∧ (assemble st p).svcs = [] ∧
    filterRequest (assemble st p) ["a", "test"] 1 = .modResp (.shared 1) 3 [] := by decide

/-! ### The pause schedule against a calendar reading -/

/-- What a wall clock in the zone shows at the instant `t`: weekday (0 = Sunday) and seconds since
that day's 00:00 on the clock face. -/
def wallClock (z : Zone) (t : Int) : Nat × Int :=
  ((((t + z.off t) / 86400 + 4) % 7).toNat, (t + z.off t) % 86400)

/-- **Independent calendar specification** of the pause schedule: the instant `t` lies in the pause
when the wall clock of the profile's zone shows a weekday that has an interval and a time of day
`start ≤ hh:mm:ss < end` (start inclusive, end exclusive, the zero interval never).  No `time.Date`,
no elapsed-time arithmetic. -/
def Sched.calendarContains (s : Sched) (t : Int) : Bool :=
  match s.week.getD (wallClock s.zone t).1 Option.none with
  | Option.none => false
  | some iv =>
    !(iv.start == 0 && iv.stop == 0) &&
      decide ((iv.start : Int) * 60 ≤ (wallClock s.zone t).2) && decide ((wallClock s.zone t).2 < (iv.stop : Int) * 60)

/-- `time.Date` found the midnight of today's civil day with the offset that is in force now. -/
def MidnightOffsetCurrent (z : Zone) (t : Int) : Prop :=
  goMidnight z ((t + z.off t) / 86400 * 86400) = (t + z.off t) / 86400 * 86400 - z.off t

/-- **pause_matches_calendar.**  Whenever the zone's offset has not changed since local midnight (as
`time.Date` sees it), `ConfigSchedule.Contains` — weekday, `time.Date`, minutes added as elapsed time —
is exactly the calendar reading: for every schedule, zone and instant. -/
theorem pause_matches_calendar (s : Sched) (t : Int) (h : MidnightOffsetCurrent s.zone t) :
    s.contains t = s.calendarContains t := by
  unfold MidnightOffsetCurrent at h
  unfold Sched.contains Sched.calendarContains wallClock secPerDay
  simp only
  cases s.week.getD (((t + s.zone.off t) / 86400 + 4) % 7).toNat Option.none with
  | none => rfl
  | some iv =>
    simp only
    by_cases hz : (iv.start == 0 && iv.stop == 0) = true
    · simp [hz]
    · simp only [hz, Bool.false_eq_true, if_false, Bool.not_false, Bool.true_and]
      rw [h]
      generalize s.zone.off t = o
      congr 1
      · apply decide_eq_decide.mpr; omega
      · apply decide_eq_decide.mpr; omega

/-- A zone with one fixed offset (`time.FixedZone`, UTC): the hypothesis always holds. -/
theorem fixed_zone_midnight (z : Zone) (t : Int) (h : z.periods = []) : MidnightOffsetCurrent z t := by
  unfold MidnightOffsetCurrent goMidnight Zone.off Zone.find
  simp [h]

/-- **pause_fixed_zone.**  In every fixed-offset zone the pause is the calendar reading. -/
theorem pause_fixed_zone (s : Sched) (t : Int) (h : s.zone.periods = []) :
    s.contains t = s.calendarContains t :=
  pause_matches_calendar s t (fixed_zone_midnight s.zone t h)

/-- A zone with transitions, on a day without one: when one period holds the instant, the local
midnight read as UTC, and the true instant of local midnight, the hypothesis holds. -/
theorem same_period_midnight (z : Zone) (t : Int) (p : Period)
    (ht : z.find t = some p) (hl : z.find ((t + p.off) / 86400 * 86400) = some p)
    (hm : p.start ≤ (t + p.off) / 86400 * 86400 - p.off ∧ (t + p.off) / 86400 * 86400 - p.off < p.stop) :
    MidnightOffsetCurrent z t := by
  have ho : z.off t = p.off := by simp [Zone.off, ht]
  unfold MidnightOffsetCurrent
  rw [ho]
  unfold goMidnight
  rw [hl]
  simp only
  by_cases h0 : (p.off == 0) = true
  · have : p.off = 0 := by simpa using h0
    simp [this]
  · have h1 : ¬ ((t + p.off) / 86400 * 86400 - p.off < p.start) := by omega
    have h2 : ¬ ((t + p.off) / 86400 * 86400 - p.off ≥ p.stop) := by omega
    simp [h0, h1, h2]

theorem pause_same_period (s : Sched) (t : Int) (p : Period)
    (ht : s.zone.find t = some p) (hl : s.zone.find ((t + p.off) / 86400 * 86400) = some p)
    (hm : p.start ≤ (t + p.off) / 86400 * 86400 - p.off ∧ (t + p.off) / 86400 * 86400 - p.off < p.stop) :
    s.contains t = s.calendarContains t :=
  pause_matches_calendar s t (same_period_midnight s.zone t p ht hl hm)

/-- Europe/Berlin around the spring transition of 2024: CET until 2024-03-31 01:00 UTC, CEST after. -/
def berlin2024 : Zone :=
  { periods := [⟨1698541200, 1711846800, 3600⟩, ⟨1711846800, 1729990800, 7200⟩], base := 3600 }

/-- Pause on Sundays from 10:00 to 11:00. -/
def sundayTen : Sched := { week := [some ⟨600, 660⟩], zone := berlin2024 }

/-- An ordinary Sunday (2024-03-24, 10:30 CET = 09:30 UTC): hypotheses of `pause_same_period` hold,
the pause is on, both readings agree; at 11:00 sharp the pause is over (exclusive end), at 10:00 sharp
it has begun (inclusive start); Wednesday 2024-01-03 12:00 UTC is weekday 3. -/
example : berlin2024.find 1711272600 = some ⟨1698541200, 1711846800, 3600⟩ ∧
    sundayTen.contains 1711272600 = true ∧ sundayTen.calendarContains 1711272600 = true ∧
    sundayTen.contains (1711270800 - 1) = false ∧ sundayTen.contains 1711270800 = true ∧
    sundayTen.contains (1711274400 - 1) = true ∧ sundayTen.contains 1711274400 = false ∧
    (wallClock {} 1704283200).1 = 3 := by decide

/-- **pause_dst_day_differs.**  The hypothesis cannot be dropped: on the day of a time-zone
transition the code's reading is off by the size of the transition.  Sunday 2024-03-31 in Berlin, a
wall clock showing 10:30 (08:30 UTC): the calendar says the 10:00–11:00 pause is on, but `Contains`
adds 600 elapsed minutes to a midnight that was still on winter time and gets 11:00–12:00. -/
theorem pause_dst_day_differs :
    sundayTen.calendarContains 1711873800 = true ∧ sundayTen.contains 1711873800 = false ∧
    ¬ MidnightOffsetCurrent berlin2024 1711873800 := by
  refine ⟨by decide, by decide, ?_⟩
  unfold MidnightOffsetCurrent
  decide

/-- **paused_disables_parental.**  Inside the pause (calendar reading, offset unchanged since
midnight) a profile's parental control contributes nothing — no blocked service, no adult filter, no
safe search — whatever its individual switches say; rule lists, custom rules and safe browsing are
untouched by the pause. -/
theorem paused_disables_parental (st : Storage) (p : PCfg) (s : Sched) (hs : p.pause = some s)
    (hmid : MidnightOffsetCurrent s.zone st.now) (hin : s.calendarContains st.now = true) :
    (assemble st p).svcs = [] ∧ (assemble st p).adult = Option.none ∧
      (assemble st p).genSS = Option.none ∧ (assemble st p).ytSS = Option.none ∧
      (assemble st p).lists = (assemble st { p with pause := Option.none }).lists ∧
      (assemble st p).custom = (assemble st { p with pause := Option.none }).custom ∧
      (assemble st p).sb = (assemble st { p with pause := Option.none }).sb ∧
      (assemble st p).newReg = (assemble st { p with pause := Option.none }).newReg := by
  have hp : p.paused st.now = true := by
    simp [PCfg.paused, hs, pause_matches_calendar s st.now hmid, hin]
  obtain ⟨h1, h2, h3, h4⟩ := disabled_parental_contributes_nothing st p (Or.inr hp)
  exact ⟨h1, h2, h3, h4, rfl, rfl, rfl, rfl⟩

/-- **outside_pause_schedule_is_ignored.**  Outside the pause (calendar reading) the schedule changes
nothing: the assembled filter is the one of the same configuration without a schedule. -/
theorem outside_pause_schedule_is_ignored (st : Storage) (p : PCfg) (s : Sched) (hs : p.pause = some s)
    (hmid : MidnightOffsetCurrent s.zone st.now) (hout : s.calendarContains st.now = false) :
    assemble st p = assemble st { p with pause := Option.none } := by
  have hp : p.paused st.now = false := by
    simp [PCfg.paused, hs, pause_matches_calendar s st.now hmid, hout]
  have hq : ({ p with pause := Option.none } : PCfg).paused st.now = false := rfl
  unfold assemble
  simp only [hp, hq]

/-- A paused profile (Wednesdays all day, UTC, the clock at Wednesday noon): the adult filter that would
rewrite the name is not applied, the shared list still blocks. -/
example : let st : Storage := { lists := [(0, [.net ["b", "test"] false .any])],
                                adult := { hosts := [["a", "test"]], repl := ["ad", "test"] }, now := 1704283200 }
    let s : Sched := { week := [none, none, none, some ⟨0, 1440⟩], zone := {} }
    let p : PCfg := { parentalOn := true, adultOn := true, pause := some s, ruleListOn := true, listIds := [0] }
    s.calendarContains st.now = true ∧
    filterRequest (assemble st p) ["a", "test"] 1 = .none ∧
    filterRequest (assemble st { p with pause := none }) ["a", "test"] 1 = .modReq .adult ["ad", "test"] ∧
    filterRequest (assemble st p) ["b", "test"] 1 = .blocked (.shared 0) := by decide

/-! ### Whose blocking mode and TTL: the requester's own -/

/-- **requesters_own_mode.**  A requester with a profile (whose TTL is not negative) is answered
with that profile's blocking mode and TTL (the whole seconds of the configured duration,
`ttl_whole_seconds`) whatever the server-wide settings are: changing the
server's mode and TTL changes nothing in any answer.  An anonymous requester gets the server's. -/
theorem requesters_own_mode (srv : Server) (p : Profile) (up : Host → QType → Msg) (host : Host) (qt : QType)
    (m : Mode) (m' : Mode) (t' : Nat) (hm : p.mode = some m) (hp : 0 ≤ p.ttl) :
    (envOf srv (some p) up).mode = m ∧ (envOf srv (some p) up).ttl = durSecs p.ttl ∧
    serveReq { srv with mode := m', ttl := t' } (some p) up host qt = serveReq srv (some p) up host qt := by
  have hn : ¬ p.ttl < 0 := by omega
  refine ⟨by simp [envOf, ctorOf, hn, hm], by simp [envOf, ctorOf, hn, hm], ?_⟩
  unfold serveReq envOf ctorOf
  simp [hn, hm]

/-- **ttl_whole_seconds.**  Independent reading of "that profile's TTL": the TTL written into every
synthesised record is the largest number of whole seconds that fits into the configured duration
(no rounding up, no minimum) — `n` seconds exactly when `n s ≤ d < (n+1) s`. -/
theorem ttl_whole_seconds (d : Int) (hd : 0 ≤ d) (n : Nat) :
    durSecs d = n ↔ (n : Int) * nsPerSec ≤ d ∧ d < ((n : Int) + 1) * nsPerSec := by
  unfold durSecs nsPerSec
  constructor
  · intro h
    have : d / 1000000000 = (n : Int) := by omega
    omega
  · intro h
    have : d / 1000000000 = (n : Int) := by omega
    omega

example : durSecs 1500000000 = 1 ∧ durSecs 999999999 = 0 ∧ durSecs 0 = 0 ∧ durSecs 3600000000000 = 3600 := by decide

/-- **no_constructor_gets_server_mode.**  The two ways a profile can fail to yield a message
constructor — no blocking mode at all, or a negative TTL — leave the server's constructor in place:
such a requester is answered exactly like an anonymous one as far as mode and TTL go (its own filter
configuration still applies). -/
theorem no_constructor_gets_server_mode (srv : Server) (p : Profile) (up : Host → QType → Msg)
    (h : p.mode = Option.none ∨ p.ttl < 0) :
    (envOf srv (some p) up).mode = srv.mode ∧ (envOf srv (some p) up).ttl = srv.ttl ∧
    (envOf srv (some p) up).prof = assemble srv.st p.conf := by
  rcases h with h | h
  · simp [envOf, ctorOf, h]
  · cases hm : p.mode <;> simp [envOf, ctorOf, h, hm]

/-- A profile without a blocking mode on a REFUSED server: blocked by its own rule list, answered in
the server's shape. -/
example : let srv : Server := { st := { lists := [(0, [.net ["a", "test"] false .any])] }, mode := .refused, ttl := 10, grp := {} }
    let p : Profile := { conf := { ruleListOn := true, listIds := [0] }, mode := none, ttl := 77000000000,
                         filteringOn := true, devFilteringOn := true }
    serveReq srv (some p) (fun _ _ => { rcode := 0, ans := [], soa := none }) ["a", "test"] 1 =
      { rcode := 5, ans := [], soa := some 10 } := by decide

theorem anonymous_gets_server_mode (srv : Server) (up : Host → QType → Msg) :
    (envOf srv Option.none up).mode = srv.mode ∧ (envOf srv Option.none up).ttl = srv.ttl ∧
    (envOf srv Option.none up).sw.hasProfile = false := by
  simp [envOf, ctorOf]

/-- A profile in NXDOMAIN mode on a server in null-IP mode: the blocked answer is NXDOMAIN with the
profile's TTL; the anonymous requester of the same server gets `0.0.0.0` with the server's TTL. -/
example : let srv : Server := { st := { lists := [(0, [.net ["a", "test"] false .any])] }, mode := .nullIP, ttl := 10,
                                grp := { ruleListOn := true, listIds := [0] } }
    let p : Profile := { conf := { ruleListOn := true, listIds := [0] }, mode := some .nxdomain, ttl := 77999999999,
                         filteringOn := true, devFilteringOn := true }
    let up : Host → QType → Msg := fun _ _ => { rcode := 0, ans := [], soa := none }
    serveReq srv (some p) up ["a", "test"] 1 = { rcode := 3, ans := [], soa := some 77 } ∧
    serveReq srv none up ["a", "test"] 1 = { rcode := 0, ans := [synthRR ["a", "test"] 1 10 "0.0.0.0"], soa := none } := by
  decide

/-! ## Clause 5: shape of a blocked answer; no upstream data -/

/-- The query is blocked: by the request filter, or — the request filter being silent — by the
response filter on the upstream answer. -/
def Blocked (e : Env) (host : Host) (qt : QType) : Prop :=
  ∃ c, selectFilter e.sw e.prof e.grp = some c ∧
    ((∃ l, filterRequest c host qt = .blocked l) ∨
     (filterRequest c host qt = .none ∧
      ∃ l, filterResponse c ((e.upstream host qt).ans.map ansOf) = .blocked l))

theorem serve_blocked (e : Env) (host : Host) (qt : QType) (h : Blocked e host qt) :
    serve e host qt = (blockedResp e.mode e.ttl host qt).getD blockedFallback := by
  obtain ⟨c, hf, h⟩ := h
  unfold serve serveWith
  simp only [hf]
  rcases h with ⟨l, h⟩ | ⟨h, l, hl⟩
  · rw [h]
  · rw [h]; simp only; rw [hl]

/-- **blocked_shape.** A blocked query is answered in the shape of the requester's blocking mode,
every synthesised record and the SOA carrying the profile's TTL: null IP (`0.0.0.0` / `::`, NODATA
with SOA for other types), custom IP (the configured addresses of the family, NODATA when the family
has none or for other types), NXDOMAIN with SOA, REFUSED with SOA. -/
theorem blocked_shape (e : Env) (host : Host) (qt : QType) (h : Blocked e host qt) :
    serve e host qt =
      match e.mode with
      | .nullIP =>
        if qt = qtA then { rcode := 0, ans := [synthRR host qtA e.ttl "0.0.0.0"], soa := none }
        else if qt = qtAAAA then { rcode := 0, ans := [synthRR host qtAAAA e.ttl "::"], soa := none }
        else { rcode := 0, ans := [], soa := some e.ttl }
      | .customIP v4 v6 =>
        if qt = qtA ∧ v4 ≠ [] then
          if v4.all (fun p => p.1) = true then
            { rcode := 0, ans := v4.map (fun p => synthRR host qtA e.ttl p.2), soa := none }
          else { rcode := 2, ans := [], soa := none }
        else if qt = qtAAAA ∧ v6 ≠ [] then
          if v6.all (fun p => !p.1) = true then
            { rcode := 0, ans := v6.map (fun p => synthRR host qtAAAA e.ttl p.2), soa := none }
          else { rcode := 2, ans := [], soa := none }
        else { rcode := 0, ans := [], soa := some e.ttl }
      | .nxdomain => { rcode := 3, ans := [], soa := some e.ttl }
      | .refused => { rcode := 5, ans := [], soa := some e.ttl } := by
  rw [serve_blocked e host qt h]
  cases hm : e.mode with
  | nullIP =>
    simp only [blockedResp, nodata]
    by_cases h1 : qt = qtA
    · simp [h1]
    · by_cases h2 : qt = qtAAAA
      · subst h2; simp [qtA, qtAAAA]
      · simp [h1, h2]
  | customIP v4 v6 =>
    simp only [blockedResp, nodata, blockedFallback]
    by_cases h1 : qt = qtA
    · subst h1
      by_cases hv : v4 = []
      · subst hv; simp [qtA, qtAAAA]
      · have : v4.isEmpty = false := by cases v4 <;> simp_all
        by_cases hw : v4.all (fun p => p.1) = true
        · simp [this, hv, hw]
        · simp [this, hv, hw]
    · by_cases h2 : qt = qtAAAA
      · subst h2
        by_cases hv : v6 = []
        · subst hv; simp [qtA, qtAAAA]
        · have : v6.isEmpty = false := by cases v6 <;> simp_all
          by_cases hw : v6.all (fun p => !p.1) = true
          · simp [this, hv, hw, qtA, qtAAAA]
          · simp [this, hv, hw, qtA, qtAAAA]
      · simp [h1, h2]
  | nxdomain => simp [blockedResp]
  | refused => simp [blockedResp]

example : let e : Env := { sw := ⟨false, false, false⟩, prof := {}, grp := { lists := [(0, [.net ["test"] false .any])] },
                           mode := .customIP [(true, "198.51.100.1")] [], ttl := 30,
                           upstream := fun _ _ => { rcode := 0, ans := [], soa := none } }
    e.mode.WF = true ∧ (serve e ["a", "test"] 1).ans = [synthRR ["a", "test"] 1 30 "198.51.100.1"] ∧
    serve e ["a", "test"] 28 = { rcode := 0, ans := [], soa := some 30 } := by decide

/-- Nothing in the message was obtained from upstream. -/
def NoUpstream (m : Msg) : Prop := (∀ r ∈ m.ans, r.up = false) ∧ m.upNs = 0 ∧ m.upExtra = 0

/-- **blocked_no_upstream.** The answer to a blocked query contains no record obtained from
upstream — for every blocking mode, including custom-IP lists with addresses of the wrong family
(where the blocked response cannot be built and the fixed code answers SERVFAIL). -/
theorem blocked_no_upstream (e : Env) (host : Host) (qt : QType) (h : Blocked e host qt) :
    NoUpstream (serve e host qt) := by
  rw [serve_blocked e host qt h]
  unfold NoUpstream
  cases hm : e.mode with
  | nullIP =>
    simp only [blockedResp, nodata]
    split
    · simp [synthRR]
    · split <;> simp [synthRR]
  | customIP v4 v6 =>
    simp only [blockedResp, nodata]
    split
    · split
      · refine ⟨?_, by simp⟩
        intro r hr
        simp only [Option.getD_some, List.mem_map] at hr
        obtain ⟨p, _, rfl⟩ := hr
        rfl
      · simp [blockedFallback]
    · split
      · split
        · refine ⟨?_, by simp⟩
          intro r hr
          simp only [Option.getD_some, List.mem_map] at hr
          obtain ⟨p, _, rfl⟩ := hr
          rfl
        · simp [blockedFallback]
      · simp
  | nxdomain => simp [blockedResp]
  | refused => simp [blockedResp]

/-- **rewrite_no_upstream.** A `$dnsrewrite` answer (IP values or rcode) is synthesised entirely,
with the profile's TTL. -/
theorem rewrite_no_upstream (e : Env) (host : Host) (qt : QType) (c : Cfg) (l : ListId) (rc : Nat)
    (vals : List String) (hf : selectFilter e.sw e.prof e.grp = some c)
    (hv : filterRequest c host qt = .modResp l rc vals) :
    NoUpstream (serve e host qt) ∧ ∀ r ∈ (serve e host qt).ans, r.ttl = e.ttl := by
  have : serve e host qt = rewriteMsg host qt e.ttl rc vals := by
    rw [request_over_response e host qt c hf (by rw [hv]; simp), hv]
  rw [this]
  simp [NoUpstream, rewriteMsg, synthRR]

/-- **safety_block_https_uses_mode.**  A safety filter with a replacement address answers an HTTPS
query in the shape of the requester's blocking mode (NXDOMAIN, REFUSED, or NODATA for the IP modes)
with the requester's TTL; an address query of the replacement's family gets that address, anything
else NODATA — and nothing in these answers comes from upstream. -/
theorem safety_block_https_uses_mode (m : Mode) (ttl : Nat) (host : Host) (v4 : Bool) (ip : String) :
    hashRespMsg m ttl host qtHTTPS v4 ip =
      (match m with
       | .nxdomain => { rcode := 3, ans := [], soa := some ttl }
       | .refused => { rcode := 5, ans := [], soa := some ttl }
       | _ => { rcode := 0, ans := [], soa := some ttl }) := by
  cases m <;> simp [hashRespMsg, blockedResp, nodata, qtHTTPS, qtA, qtAAAA]

theorem safety_block_no_upstream (m : Mode) (ttl : Nat) (host : Host) (qt : QType) (v4 : Bool) (ip : String) :
    NoUpstream (hashRespMsg m ttl host qt v4 ip) ∧ ∀ r ∈ (hashRespMsg m ttl host qt v4 ip).ans, r.ttl = ttl := by
  unfold hashRespMsg
  by_cases h1 : (qt == qtHTTPS) = true
  · have hq : qt = qtHTTPS := by simpa using h1
    subst hq
    have := safety_block_https_uses_mode m ttl host v4 ip
    unfold hashRespMsg at this
    simp only [h1, if_true] at this ⊢
    rw [this]
    cases m <;> simp [NoUpstream]
  · simp only [h1, Bool.false_eq_true, if_false]
    split
    · simp [NoUpstream, synthRR]
    · split
      · simp [NoUpstream, synthRR]
      · simp [NoUpstream, nodata]

example : let e : Env := { sw := ⟨true, true, true⟩,
                           prof := { sb := some { hosts := [["a", "test"]], repl := [], replIP := some (true, "203.0.113.7") } },
                           grp := {}, mode := .refused, ttl := 30, upstream := fun _ _ => { rcode := 0, ans := [], soa := none } }
    serve e ["a", "test"] 65 = { rcode := 5, ans := [], soa := some 30 } ∧
    serve e ["a", "test"] 1 = { rcode := 0, ans := [synthRR ["a", "test"] 1 30 "203.0.113.7"], soa := none } ∧
    serve e ["a", "test"] 28 = { rcode := 0, ans := [], soa := some 30 } := by decide

/-- An environment in which a block rule matches and the custom-IP mode is ill-formed (an IPv6
address in the IPv4 list, which `backendpb`'s `UnmarshalBinary` lets through). -/
def leakEnv : Env :=
  { sw := ⟨true, true, true⟩, prof := { custom := some [.net ["a", "test"] false .any] }, grp := {},
    mode := .customIP [(false, "2001:db8::4")] [], ttl := 10,
    upstream := fun _ _ =>
      { rcode := 0, ans := [{ name := ["a", "test"], typ := 1, val := "192.0.2.1", ttl := 7777, up := true }],
        soa := none } }

/-- `Blocked` is satisfiable (request-level block; `leakEnv` has an ill-formed mode, which
`blocked_no_upstream` covers and `blocked_shape` excludes by `WF`). -/
example : Blocked leakEnv ["a", "test"] 1 ∧ leakEnv.mode.WF = false ∧
    serve leakEnv ["a", "test"] 1 = blockedFallback :=
  ⟨⟨leakEnv.prof, rfl, Or.inl ⟨.custom, by decide⟩⟩, by decide, by decide⟩

/-- **blocked_leaks_upstream_counterexample.** Before the fix (`serveUnfixed`: fall back to the
upstream reply when `NewBlockedResp` fails) the property was false: the blocked query
`a.test A` of `leakEnv` was answered with the upstream record. -/
theorem blocked_leaks_upstream_counterexample :
    ¬ (∀ (e : Env) (host : Host) (qt : QType), Blocked e host qt → NoUpstream (serveUnfixed e host qt)) := by
  intro h
  have hb : Blocked leakEnv ["a", "test"] 1 :=
    ⟨leakEnv.prof, rfl, Or.inl ⟨.custom, by decide⟩⟩
  have := (h leakEnv ["a", "test"] 1 hb).1
    { name := ["a", "test"], typ := 1, val := "192.0.2.1", ttl := 7777, up := true } (by decide)
  exact absurd this (by decide)

/-! ### Debug queries: same answer, and the request's verdict is the one reported -/

/-- **reported_request_first.**  What a debug answer reports is the request's verdict whenever there
is one — whatever the response filter would have said about the upstream answer — and the response's
verdict only when the request filter was silent. -/
theorem reported_request_first (e : Env) (host : Host) (qt : QType) (c : Cfg)
    (hf : selectFilter e.sw e.prof e.grp = some c) :
    (filterRequest c host qt ≠ .none → reportedVerdict e host qt = (true, filterRequest c host qt)) ∧
    (filterRequest c host qt = .none →
      reportedVerdict e host qt = (false, filterResponse c ((e.upstream host qt).ans.map ansOf))) := by
  unfold reportedVerdict
  rw [hf]
  constructor
  · intro h
    cases hv : filterRequest c host qt <;> simp_all
  · intro h
    simp [h]

/-- **debug_filtering_off_reports_nothing.**  With filtering disabled for the profile or the device a
debug answer reports no verdict (and is the upstream answer, `filtering_off_is_empty`). -/
theorem debug_filtering_off_reports_nothing (e : Env) (host : Host) (qt : QType)
    (hp : e.sw.hasProfile = true) (hoff : e.sw.profOn = false ∨ e.sw.devOn = false) :
    reportedVerdict e host qt = (false, .none) ∧ serveDebug e host qt = e.upstream host qt := by
  refine ⟨?_, filtering_off_is_empty e host qt hp hoff⟩
  unfold reportedVerdict selectFilter
  rcases hoff with h | h <;> simp [hp, h]

/-- **debug_blocked_no_upstream.**  A blocked query asked in the CHAOS class is answered like any
other blocked query: in the requester's shape and without upstream records. -/
theorem debug_blocked_no_upstream (e : Env) (host : Host) (qt : QType) (h : Blocked e host qt) :
    serveDebug e host qt = (blockedResp e.mode e.ttl host qt).getD blockedFallback ∧
    NoUpstream (serveDebug e host qt) :=
  ⟨serve_blocked e host qt h, blocked_no_upstream e host qt h⟩

/-- Request allow + response block on one exchange: reported is the request's allow; for another name
the response's block is reported and the answer carries nothing from upstream. -/
example :
    let c : Cfg := { custom := some [.net ["a", "test"] true .any], lists := [(0, [.net ["t1", "test"] false .any])] }
    let e : Env := { sw := ⟨true, true, true⟩, prof := c, grp := {}, mode := .nxdomain, ttl := 10,
                     upstream := fun _ _ => { rcode := 0, ans := [caseRR ["T1", "Test"]], soa := none } }
    reportedVerdict e ["a", "test"] 1 = (true, .allowed .custom) ∧
    reportedVerdict e ["b", "test"] 1 = (false, .blocked (.shared 0)) ∧
    serveDebug e ["b", "test"] 1 = { rcode := 3, ans := [], soa := some 10 } := by decide

#print axioms rewrite_wins
#print axioms rewrite_wins_rules
#print axioms terminal_some
#print axioms terminal_none
#print axioms terminal_cons_terminal
#print axioms rewrite_order_candidates
#print axioms rewrite_order_irrelevant
#print axioms allow_beats_block_rules
#print axioms block_iff_rules
#print axioms deciding_rule_first_max
#print axioms custom_allow_decides
#print axioms request_filters_any_subset
#print axioms safety_filter_verdict_kinds
#print axioms response_never_rewrites
#print axioms response_first_answer_decides
#print axioms response_allow_beats_block
#print axioms disabled_parental_contributes_nothing
#print axioms disabled_rule_lists_contribute_nothing
#print axioms disabled_safe_browsing_contributes_nothing
#print axioms custom_slot
#print axioms shared_lists_in_configured_order
#print axioms all_off_filters_nothing
#print axioms requesters_own_mode
#print axioms no_constructor_gets_server_mode
#print axioms resp_precedence
#print axioms response_https_hints
#print axioms response_https_no_hint_no_verdict
#print axioms pause_matches_calendar
#print axioms fixed_zone_midnight
#print axioms pause_fixed_zone
#print axioms same_period_midnight
#print axioms pause_same_period
#print axioms pause_dst_day_differs
#print axioms paused_disables_parental
#print axioms outside_pause_schedule_is_ignored
#print axioms anonymous_gets_server_mode
#print axioms safety_block_https_uses_mode
#print axioms safety_block_no_upstream
#print axioms firstRewrite_none_of_NoRewriteRule
#print axioms custom_rewrite_first
#print axioms services_never_rewrite
#print axioms allow_beats_block
#print axioms block_blocks
#print axioms custom_allow_stops
#print axioms other_allow_continues
#print axioms request_filters_in_order
#print axioms request_over_response
#print axioms filtering_off_is_empty
#print axioms serve_blocked
#print axioms blocked_shape
#print axioms blocked_no_upstream
#print axioms rewrite_no_upstream
#print axioms blocked_leaks_upstream_counterexample
#print axioms ansOf_cname
#print axioms response_verdict_ignores_case
#print axioms response_filter_ignores_case
#print axioms response_verdict_of_lower_case
#print axioms cname_block_any_spelling
#print axioms cname_case_counterexample
#print axioms ttl_whole_seconds
#print axioms reported_request_first
#print axioms debug_filtering_off_reports_nothing
#print axioms debug_blocked_no_upstream

/-! ## Faults on the way (round 4) -/

/-- The upstream made total: a missing reply reads as an empty SERVFAIL (never used when it matters:
`serveFaulty` writes nothing when the reply that is needed is missing). -/
def totalUp (up : Host → QType → Option Msg) : Host → QType → Msg :=
  fun h q => (up h q).getD { rcode := 2, ans := [], soa := Option.none }

theorem fault_writes_nothing (e : Env) (up : Host → QType → Option Msg) (host : Host) (qt : QType)
    (cancelled : Bool)
    (h : cancelled = true ∨ up (askedName e host qt) qt = Option.none) :
    serveFaulty e cancelled up host qt = Option.none := by
  unfold serveFaulty
  rcases h with h | h
  · simp [h]
  · cases cancelled <;> simp [h]

theorem no_fault_is_serve (e : Env) (up : Host → QType → Msg) (host : Host) (qt : QType) :
    serveFaulty e false (fun h q => some (up h q)) host qt = some (serve { e with upstream := up } host qt) := by
  unfold serveFaulty
  simp

theorem faulty_answer_is_serve (e : Env) (cancelled : Bool) (up : Host → QType → Option Msg)
    (host : Host) (qt : QType) (m : Msg) (h : serveFaulty e cancelled up host qt = some m) :
    m = serve { e with upstream := totalUp up } host qt := by
  unfold serveFaulty at h
  cases cancelled
  · simp only [Bool.false_eq_true, ↓reduceIte] at h
    split at h
    · cases h
    · injection h with h
      exact h.symm
  · simp at h

theorem faulty_blocked_no_upstream (e : Env) (cancelled : Bool) (up : Host → QType → Option Msg)
    (host : Host) (qt : QType) (m : Msg) (h : serveFaulty e cancelled up host qt = some m)
    (hb : Blocked { e with upstream := totalUp up } host qt) :
    NoUpstream m ∧ m = (blockedResp e.mode e.ttl host qt).getD blockedFallback := by
  have hm := faulty_answer_is_serve e cancelled up host qt m h
  subst hm
  exact ⟨blocked_no_upstream _ host qt hb, serve_blocked _ host qt hb⟩

/-! ## Production wiring (round 4) -/

theorem own_group_decides (w : Wiring) (st : Storage) (ttl : Int) (sg id : String) (g : GroupYaml)
    (h1 : w.serverGroups.lookup sg = some id) (h2 : w.groups.lookup id = some g) :
    w.server st ttl sg = some { st := st, mode := .nullIP, ttl := durSecs ttl, grp := g.toPCfg } := by
  simp [Wiring.server, Wiring.groupOf, h1, h2]

theorem other_groups_irrelevant (w : Wiring) (st : Storage) (ttl : Int) (sg id id' : String)
    (g' : GroupYaml) (h1 : w.serverGroups.lookup sg = some id) (hne : id' ≠ id) :
    (w.setGroup id' g').server st ttl sg = w.server st ttl sg := by
  have hl := lookup_setGroup_ne w.groups id id' g' hne
  unfold Wiring.server Wiring.groupOf Wiring.setGroup
  simp only [h1, Option.bind_some]
  rw [hl]

/-- A filter that the environment switches off for the whole process is in force for nobody: the
storage the builder creates gives every configuration exactly the request verdict it would get from
the full storage with that switch turned off in the configuration itself. -/
theorem env_off_is_switch_off_request (sw : EnvSw) (st : Storage) (p : PCfg) (host : Host) (qt : QType) :
    filterRequest (assemble (builtStorage sw (st.sb.repl, st.sb.replIP) (st.adult.repl, st.adult.replIP) st) p) host qt =
    filterRequest (assemble { st with newReg := { st.newReg with repl := st.sb.repl, replIP := st.sb.replIP } } (maskPCfg sw p)) host qt := by
  obtain ⟨a, b, c, d, e, f⟩ := sw
  unfold filterRequest
  have hrl : ruleListVerdict (assemble (builtStorage ⟨a, b, c, d, e, f⟩ (st.sb.repl, st.sb.replIP) (st.adult.repl, st.adult.replIP) st) p) host qt =
      ruleListVerdict (assemble { st with newReg := { st.newReg with repl := st.sb.repl, replIP := st.sb.replIP } } (maskPCfg ⟨a, b, c, d, e, f⟩ p)) host qt := by
    have hnone : ∀ ids : List Nat, List.filterMap (fun _ => (none : Option (Nat × List Rule))) ids = [] := by
      intro ids
      induction ids <;> simp_all
    unfold ruleListVerdict
    cases d <;> simp [hnone, assemble, builtStorage, maskPCfg, PCfg.paused, Cfg.rewriteSources, Cfg.svcSources, pickKnown]
  have hrf : firstSome (reqFilterVerdicts (assemble (builtStorage ⟨a, b, c, d, e, f⟩ (st.sb.repl, st.sb.replIP) (st.adult.repl, st.adult.replIP) st) p) host qt) =
      firstSome (reqFilterVerdicts (assemble { st with newReg := { st.newReg with repl := st.sb.repl, replIP := st.sb.replIP } } (maskPCfg ⟨a, b, c, d, e, f⟩ p)) host qt) := by
    unfold reqFilterVerdicts
    simp only [firstSome_append]
    have e1 := fun cond => firstSome_optV_none cond (emptyHash st.sb) (fun f => hashVerdict .safeBrowsing f host qt) (hashVerdict_empty _ _ _ _)
    have e2 := fun cond => firstSome_optV_none cond (emptyHash st.adult) (fun f => hashVerdict .adult f host qt) (hashVerdict_empty _ _ _ _)
    have e3 := fun cond => firstSome_optV_none cond (emptyHash st.newReg) (fun f => hashVerdict .newReg f host qt) (hashVerdict_empty _ _ _ _)
    have e4 := fun cond => firstSome_optV_none cond ([] : List Rule) (fun rs => ssVerdict .genSS rs host qt) (ssVerdict_nil _ _ _)
    have e5 := fun cond => firstSome_optV_none cond ([] : List Rule) (fun rs => ssVerdict .ytSS rs host qt) (ssVerdict_nil _ _ _)
    have o0 : ∀ {α : Type} (x : α) (hv : α → Verdict), firstSome (optV (onlyIf false x) hv) = .none := by
      intro α x hv
      simp [onlyIf, optV, firstSome]
    cases a <;> cases b <;> cases c <;> cases e <;> cases f <;>
      simp only [assemble, builtStorage, maskPCfg, PCfg.paused, Bool.and_false, Bool.and_true, Bool.false_eq_true,
        ↓reduceIte, e1, e2, e3, e4, e5, o0]
  rw [hrl, hrf]

/-- **yaml_group_has_no_custom_services_pause.**  A filtering group of the configuration file has no
custom rules, no blocked services and no pause schedule: whatever the storage holds, its composite
filter has no custom list and no service lists. -/
theorem yaml_group_has_no_custom_services_pause (g : GroupYaml) (st : Storage) :
    (assemble st g.toPCfg).custom = Option.none ∧ (assemble st g.toPCfg).svcs = [] := by
  constructor
  · simp [assemble, GroupYaml.toPCfg]
  · simp [assemble, GroupYaml.toPCfg, pickKnown]

/-- **production_anonymous_blocked_shape.**  In production the server's own constructor is always
null IP with `filters.response_ttl`: a blocked A query of an anonymous requester on any server group
is answered `0.0.0.0` with the whole seconds of that duration. -/
theorem production_anonymous_blocked_shape (w : Wiring) (st : Storage) (ttl : Int) (sg : String) (srv : Server)
    (up : Host → QType → Msg) (host : Host) (hs : w.server st ttl sg = some srv)
    (hb : Blocked (envOf srv Option.none up) host qtA) :
    serveReq srv Option.none up host qtA =
      { rcode := 0, ans := [synthRR host qtA (durSecs ttl) "0.0.0.0"], soa := Option.none } := by
  unfold Wiring.server at hs
  cases hg : w.groupOf sg with
  | none => simp [hg] at hs
  | some g =>
    simp only [hg, Option.map_some, Option.some.injEq] at hs
    subst hs
    unfold serveReq
    rw [serve_blocked _ host qtA hb]
    simp [envOf, ctorOf, blockedResp, qtA]

/-- **blocked_query_needs_upstream** (observation, not a defect of the verdict): the next handler is
called for a blocked query too, so when the upstream fails the blocked answer is not given (the
server answers SERVFAIL without records instead). -/
theorem blocked_query_needs_upstream :
    ∃ (e : Env) (host : Host) (qt : QType) (up : Host → QType → Option Msg),
      (∃ c l, selectFilter e.sw e.prof e.grp = some c ∧ filterRequest c host qt = .blocked l) ∧
      serveFaulty e false up host qt = Option.none :=
  ⟨{ sw := ⟨true, true, true⟩, prof := { custom := some [.net ["test"] false .any] }, grp := {}, mode := .nullIP, ttl := 10,
     upstream := fun _ _ => { rcode := 0, ans := [], soa := Option.none } },
   ["a", "test"], 1, fun _ _ => Option.none,
   ⟨{ custom := some [.net ["test"] false .any] }, .custom, rfl, by decide⟩, by decide⟩

/-! Non-vacuity of the round-4 theorems. -/

def exWiring : Wiring :=
  { groups := [("fg0", { rlEnabled := true, rlIds := [0] }), ("fg1", { sbEnabled := true, blockDangerous := true })]
    serverGroups := [("sg0", "fg1"), ("sg1", "fg0")] }

def exStorage : Storage :=
  { lists := [(0, [.net ["a", "test"] false .any])]
    sb := { hosts := [["b", "test"]], repl := [], replIP := some (true, "203.0.113.77") } }

example : exWiring.server exStorage 1500000000 "sg0" =
    some { st := exStorage, mode := .nullIP, ttl := 1, grp := (GroupYaml.toPCfg { sbEnabled := true, blockDangerous := true }) } :=
  own_group_decides exWiring exStorage 1500000000 "sg0" "fg1" _ (by decide) rfl

example : (exWiring.setGroup "fg0" {}).server exStorage 10 "sg0" = exWiring.server exStorage 10 "sg0" :=
  other_groups_irrelevant exWiring exStorage 10 "sg0" "fg1" "fg0" {} (by decide) (by decide)

-- the two server groups really behave differently: a.test is blocked on sg1 only
def exUp : Host → QType → Msg := fun _ _ => { rcode := 0, ans := [], soa := Option.none }

def exAnswers (sg : String) : Option Nat :=
  (exWiring.server exStorage 10000000000 sg).map fun s => (serveReq s Option.none exUp ["a", "test"] 1).ans.length

example : exAnswers "sg1" = some 1 ∧ exAnswers "sg0" = some 0 := by decide

def exEnv : Env :=
  { sw := ⟨false, false, false⟩, prof := {}, grp := {}, mode := .nullIP, ttl := 10, upstream := exUp }

example : serveFaulty exEnv false (fun _ _ => Option.none) ["a", "test"] 1 = Option.none :=
  fault_writes_nothing _ _ _ _ _ (Or.inr rfl)

example : serveFaulty exEnv false (fun h q => some (exUp h q)) ["a", "test"] 1 = some (exUp ["a", "test"] 1) := by decide

-- the environment really matters: with SAFE_BROWSING_ENABLED=0 the dangerous-domain filter is gone
example : filterRequest (assemble (builtStorage { sb := false } (exStorage.sb.repl, exStorage.sb.replIP) (exStorage.adult.repl, exStorage.adult.replIP) exStorage)
      { sbOn := true, dangerousOn := true }) ["b", "test"] 1 = .none ∧
    filterRequest (assemble (builtStorage {} (exStorage.sb.repl, exStorage.sb.replIP) (exStorage.adult.repl, exStorage.adult.replIP) exStorage)
      { sbOn := true, dangerousOn := true }) ["b", "test"] 1 = .hashResp .safeBrowsing true "203.0.113.77" := by
  decide

#print axioms fault_writes_nothing
#print axioms no_fault_is_serve
#print axioms faulty_answer_is_serve
#print axioms faulty_blocked_no_upstream
#print axioms own_group_decides
#print axioms other_groups_irrelevant
#print axioms env_off_is_switch_off_request
#print axioms yaml_group_has_no_custom_services_pause
#print axioms production_anonymous_blocked_shape
#print axioms blocked_query_needs_upstream

/-! ## Round 5: the backend's profile message (`backendpb.DNSProfile.toInternal`) -/

theorem onlyIf_isSome {α : Type} (b : Bool) (a : α) : (onlyIf b a).isSome = b := by
  cases b <;> rfl

/-- **backend_settings_in_force** (round 5).  A profile as the backend sends it
(`backendpb.DNSProfile.toInternal`): whatever the storage holds, each safety filter / list slot of the
profile's composite filter is filled iff the setting OF THE SAME NAME of the message (inside its
section's master switch, absent sections counting as switched off, parental control outside its
pause) says so; the custom rules are in force iff there are any; the profile-level filtering switch
is the message's, the device-level one the device's. -/
theorem backend_settings_in_force (x : PbProfile) (devOn : Bool) (p : Profile) (st : Storage)
    (h : x.toProfile devOn = some p) :
    let c := assemble st p.conf
    let par := x.parental.getD {}
    let rl := x.ruleLists.getD {}
    let sb := x.safeBrowsing.getD {}
    let parOn := par.enabled && !p.conf.paused st.now
    c.adult.isSome = (parOn && par.blockAdult) ∧
    c.genSS.isSome = (parOn && par.generalSafeSearch) ∧
    c.ytSS.isSome = (parOn && par.youtubeSafeSearch) ∧
    c.svcs = (if parOn then pickKnown st.svcs par.blockedServices else []) ∧
    c.sb.isSome = (sb.enabled && sb.blockDangerous) ∧
    c.newReg.isSome = (sb.enabled && sb.blockNrd) ∧
    c.lists = (if rl.enabled then pickKnown st.lists rl.ids else []) ∧
    c.custom = (if x.customRules.isEmpty then Option.none else some x.customRules) ∧
    p.filteringOn = x.filteringEnabled ∧ p.devFilteringOn = devOn := by
  unfold PbProfile.toProfile at h
  split at h
  · simp only [Option.some.injEq] at h
    subst h
    simp [assemble, onlyIf_isSome]
  · exact absurd h (by simp)

/-- **backend_absent_is_default.**  A message without parental, rule-list and safe-browsing
sections, without custom rules, blocking mode and TTL is accepted; nothing is filtered for that
profile and its blocked answers (none can arise from its own settings) would be null IP with TTL 0. -/
theorem backend_absent_is_default (x : PbProfile) (devOn : Bool) (srv : Server)
    (hp : x.parental = Option.none) (hr : x.ruleLists = Option.none) (hs : x.safeBrowsing = Option.none)
    (hc : x.customRules = []) (hm : x.mode = .unset) (ht : x.ttl = Option.none) :
    ∃ p, x.toProfile devOn = some p ∧ assemble srv.st p.conf = {} ∧ ctorOf srv (some p) = (.nullIP, 0) := by
  have hpz : x.pause = some Option.none := by simp [PbProfile.pause, hp]
  have hmz : x.mode.toMode = some .nullIP := by simp [hm, PbMode.toMode]
  simp only [PbProfile.toProfile, hpz, hmz]
  refine ⟨_, rfl, ?_, ?_⟩
  · simp [assemble, hp, hr, hs, hc, onlyIf, PCfg.paused]
  · simp [ctorOf, ht, durSecs]

/-- **backend_mode_of_message.**  The requester's own blocking mode and TTL are the message's: NXDOMAIN
is NXDOMAIN, REFUSED is REFUSED, null IP or no mode at all is null IP, an absent TTL is zero. -/
theorem backend_mode_of_message (x : PbProfile) (devOn : Bool) (p : Profile) (h : x.toProfile devOn = some p) :
    p.mode = x.mode.toMode ∧ p.ttl = x.ttl.getD 0 ∧
    (x.mode = .nxdomain → p.mode = some .nxdomain) ∧ (x.mode = .refused → p.mode = some .refused) ∧
    (x.mode = .nullIP ∨ x.mode = .unset → p.mode = some .nullIP) := by
  unfold PbProfile.toProfile at h
  split at h
  · rename_i sched m hs hm
    simp only [Option.some.injEq] at h
    subst h
    refine ⟨hm.symm, rfl, ?_, ?_, ?_⟩
    · intro hx; rw [hx] at hm; simpa [PbMode.toMode] using hm.symm
    · intro hx; rw [hx] at hm; simpa [PbMode.toMode] using hm.symm
    · intro hx; rcases hx with hx | hx <;> (rw [hx] at hm; simpa [PbMode.toMode] using hm.symm)
  · exact absurd h (by simp)

/-- **backend_day_range_inclusive** (independent reading of a day range): the backend names the first
and the LAST minute of the pause; whatever seconds (below a minute) either duration carries, the
stored interval is `[s, e+1)` — it covers the whole of minute `e` — and is accepted for every
`s ≤ e ≤ 23:59`. -/
theorem backend_day_range_inclusive (s e a b : Nat) (hse : s ≤ e) (he : e < 1440)
    (ha : a < 60000000000) (hb : b < 60000000000) :
    PbDayRange.toIv { startNs := (s : Int) * nsPerMin + a, endNs := (e : Int) * nsPerMin + b } =
      some { start := s, stop := e + 1 } := by
  have h1 : ((s : Int) * 60000000000 + a) / 60000000000 = s := by omega
  have h2 : ((e : Int) * 60000000000 + b) / 60000000000 = e := by omega
  have h0 : ¬ ((s : Int) * 60000000000 + (a : Int) ≤ -60000000000) := by omega
  have h3 : ¬ ((e : Int) + 1).toNat < s := by omega
  have h4 : ¬ (((e : Int) + 1).toNat = 0) := by omega
  have h5 : ((e : Int) + 1).toNat = e + 1 := by omega
  simp [PbDayRange.toIv, nsPerMin, nsPerSec, h1, h2, h0, h5]
  omega


/-- **backend_no_address_rejected.**  A custom-IP mode without any address rejects the whole profile
message (the profile is not stored), whatever else it says. -/
theorem backend_no_address_rejected (x : PbProfile) (devOn : Bool) (h : x.mode = .customIP Option.none Option.none) :
    x.toProfile devOn = Option.none := by
  unfold PbProfile.toProfile
  simp [h, PbMode.toMode]

/-- **backend_ipv4_field_takes_ipv6** (observation, the origin of the round-2 finding): the ipv4 field
of the custom-IP mode is read by length, not by family; a 16-byte value gives an accepted profile whose
mode is ill-formed — its blocked A queries are answered SERVFAIL (`blocked_shape`). -/
theorem backend_ipv4_field_takes_ipv6 :
    ∃ (x : PbProfile) (p : Profile), x.toProfile true = some p ∧ (p.mode.map Mode.WF) = some false :=
  ⟨{ mode := .customIP (some (false, "2001:db8:1::4")) Option.none }, _, rfl, by decide⟩

-- non-vacuity: a message with every section, a pause on Wednesday 11:40–13:20 (last minute 13:19)
def exPb : PbProfile :=
  { filteringEnabled := true, customRules := [.net ["c", "test"] false .any]
    parental := some { enabled := true, blockAdult := true, youtubeSafeSearch := true, blockedServices := [1]
                       schedule := some { zone := {}, days := [Option.none, Option.none, Option.none,
                         some { startNs := 700 * nsPerMin + 30 * nsPerSec, endNs := 799 * nsPerMin + 59 * nsPerSec }] } }
    ruleLists := some { enabled := true, ids := [0] }
    safeBrowsing := some { enabled := true, blockNrd := true }
    mode := .refused, ttl := some 1500000000 }

example : ((exPb.toProfile true).map fun p => (p.mode, p.ttl, p.conf.adultOn, p.conf.gssOn, p.conf.yssOn, p.conf.nrdOn, p.conf.dangerousOn)) =
    some (some .refused, 1500000000, true, false, true, true, false) := by rfl
example : ((exPb.toProfile true).bind fun p => p.conf.pause.map fun s => s.week) =
    some [Option.none, Option.none, Option.none, some { start := 700, stop := 800 }] := by decide
example : PbDayRange.toIv { startNs := (700 : Nat) * nsPerMin + (30000000000 : Nat), endNs := (799 : Nat) * nsPerMin + (59000000000 : Nat) } =
    some { start := 700, stop := 800 } := backend_day_range_inclusive 700 799 _ _ (by decide) (by decide) (by decide) (by decide)
-- beyond the hypotheses the message is rejected: a last minute of 24:00, an end before the start
example : PbDayRange.toIv { startNs := 0, endNs := 1440 * nsPerMin } = Option.none := by decide
example : PbDayRange.toIv { startNs := 600 * nsPerMin, endNs := 500 * nsPerMin } = Option.none := by decide
example : (PbProfile.toProfile {} false).isSome = true := by decide
example : PbProfile.toProfile { mode := .customIP Option.none Option.none } true = Option.none :=
  backend_no_address_rejected _ _ rfl

#print axioms onlyIf_isSome
#print axioms backend_settings_in_force
#print axioms backend_absent_is_default
#print axioms backend_mode_of_message
#print axioms backend_day_range_inclusive
#print axioms backend_no_address_rejected
#print axioms backend_ipv4_field_takes_ipv6

/-! ## Round 5: the special domains of the initial middleware -/

/-- **special_off_is_serve** (round 5).  With the three special-domain switches off the initial
middleware answers nothing itself: the whole stack is `serve`, for every name and type — every theorem
about `serve` is a theorem about the stack. -/
theorem special_off_is_serve (e : Env) (host : Host) (qt : QType) :
    serveSpecial {} e host qt = serve e host qt := by
  unfold serveSpecial specialRcode
  simp only [onlyIf]
  split <;> (try rfl)
  rename_i rc h
  split at h <;> (try split at h) <;> (try split at h) <;> (try split at h) <;> simp_all

/-- **special_only_fixed_names.**  Whatever the switches, the initial middleware answers itself only
address queries for the five fixed names, and then with NXDOMAIN or REFUSED; every other question
reaches the filters unchanged. -/
theorem special_only_fixed_names (sw : SpecialSw) (host : Host) (qt : QType) (rc : Nat)
    (h : specialRcode sw host qt = some rc) :
    (qt = qtA ∨ qt = qtAAAA) ∧ (host ∈ relayHosts ∨ host = prefetchHost ∨ host = canaryHost) ∧ (rc = 3 ∨ rc = 5) := by
  unfold specialRcode at h
  split at h
  · simp at h
  · rename_i hq
    have hq' : qt = qtA ∨ qt = qtAAAA := by
      have hq2 : ¬qt = qtA → qt = qtAAAA := by simpa using hq
      by_cases h1 : qt = qtA
      · exact Or.inl h1
      · exact Or.inr (hq2 h1)
    split at h
    · rename_i hr
      refine ⟨hq', Or.inl (by simpa using hr), ?_⟩
      cases hs : sw.relay <;> simp [onlyIf, hs] at h; omega
    · split at h
      · rename_i hp
        refine ⟨hq', Or.inr (Or.inl (by simpa using hp)), ?_⟩
        cases hs : sw.prefetch <;> simp [onlyIf, hs] at h; omega
      · split at h
        · rename_i hc
          refine ⟨hq', Or.inr (Or.inr (by simpa using hc)), ?_⟩
          cases hs : sw.canary <;> simp [onlyIf, hs] at h; omega
        · simp at h

/-- **special_answer_no_upstream.**  An answer of the initial middleware carries no record at all
(nothing from the upstream in any section) and depends on nothing but the requester's TTL: not on the
rules, the filtering switches, the blocking mode or the upstream. -/
theorem special_answer_no_upstream (sw : SpecialSw) (e : Env) (host : Host) (qt : QType) (rc : Nat)
    (h : specialRcode sw host qt = some rc) :
    serveSpecial sw e host qt = { rcode := rc, ans := [], soa := some e.ttl, upNs := 0, upExtra := 0 } := by
  simp [serveSpecial, h]

/-- **special_domain_ignores_filtering** (observation, kernel-checked; confirmed on the real stack,
counted as `special-domain-answered-while-filtering-off` / `-beats-custom-allow`): a profile with
"block Private Relay" on gets NXDOMAIN for `mask.icloud.com` although filtering is switched off for
it and the upstream has an answer — the special-domain switches are not part of what
`filtering_enabled` switches off. -/
theorem special_domain_ignores_filtering :
    ∃ (e : Env) (host : Host), e.sw = ⟨true, false, false⟩ ∧
      serve e host qtA = e.upstream host qtA ∧ (e.upstream host qtA).ans ≠ [] ∧
      serveSpecial { relay := true } e host qtA = { rcode := 3, ans := [], soa := some e.ttl } :=
  ⟨{ sw := ⟨true, false, false⟩, prof := {}, grp := {}, mode := .nullIP, ttl := 10,
     upstream := fun h _ => { rcode := 0, ans := [synthRR h qtA 300 "192.0.2.1"], soa := Option.none } },
   ["mask", "icloud", "com"], rfl, by decide, by decide, by decide⟩

example : specialRcode { canary := true } canaryHost qtAAAA = some 5 := by decide
example : specialRcode { relay := true, prefetch := true, canary := true } ["sub", "mask", "icloud", "com"] qtA = Option.none := by decide
example : specialRcode { relay := true, prefetch := true, canary := true } prefetchHost 65 = Option.none := by decide

#print axioms special_off_is_serve
#print axioms special_only_fixed_names
#print axioms special_answer_no_upstream
#print axioms special_domain_ignores_filtering

end Agd.Filter
#print axioms Agd.Tie.TrC02.translation_complete
#print axioms Agd.Tie.TrC02.blocked_never_upstream
#print axioms Agd.Tie.TrC02.fallback_is_servfail
#print axioms Agd.Tie.TrC02.request_over_response
#print axioms Agd.Tie.TrC02.allowed_and_rewritten
#print axioms Agd.Tie.TrC02.response_stage
#print axioms Agd.Tie.TrC02.filter_choice
#print axioms Agd.Tie.TrC02.wrap_effect_order
#print axioms Agd.Tie.TrC02.filterRequest_effects
#print axioms Agd.Tie.TrC02.filterRequest_nil_ctx
#print axioms Agd.Tie.TrC02.filterRequest_error_independent
