import Agd.Tie.TrC10
import Agd.Lemmas.Access
import Agd.Tie.C10
/-!
# C10 — access-blocked clients and names are dropped silently and leave no trace

Property theorems only.  The model is `Agd/Model/Access.lean`, helper lemmas are in
`Agd/Lemmas/Access.lean`.  Every theorem about the middleware quantifies over *all* urlfilter engines
(`Global.eng`, `ProfAcc.eng` are arbitrary functions), all subnet and ASN lists, all addresses, ports,
names, types, locations and device-finder results.
-/
namespace Agd.Access

/-! ## Who is blocked -/

/-- **blocked_iff.** A request is rejected exactly when its client address is in a globally blocked
subnet, or the global engine blocks its question, or it has a profile whose access settings reject it:
a blocked ASN or subnet with no allowed ASN or subnet, or a blocked-name rule.  Nothing else is
rejected ("every request that no rule rejects is processed normally" is `unblocked_proceeds`). -/
theorem blocked_iff (g : Global) (r : Req) :
    blocked g r = true ↔
      matchNets g.nets r.addr = true ∨
      engBlocked (g.eng (normQueryDomain r.qname) r.qtype) = true ∨
      ∃ p a, r.dev = .ok (some p) a ∧
        (((matchASNs p.allowedASN r.asn = false ∧ matchNets p.allowedNets r.addr = false) ∧
            (matchASNs p.blockedASN r.asn = true ∨ matchNets p.blockedNets r.addr = true)) ∨
          engBlocked (p.eng (normQueryDomain r.qname) r.qtype) = true) := by
  unfold blocked accessReason Global.isBlockedIP Global.isBlockedHost
  by_cases h1 : matchNets g.nets r.addr = true
  · simp [h1]
  · by_cases h2 : engBlocked (g.eng (normQueryDomain r.qname) r.qtype) = true
    · simp [h1, h2]
    · cases hd : r.dev with
      | ok acc da =>
        cases acc with
        | none => simp [h1, h2, DevRes.profAcc]
        | some p =>
          simp only [DevRes.profAcc, ProfAcc.isBlocked, ProfAcc.isBlockedByNets, ProfAcc.isBlockedByHostsEng]
          by_cases a1 : matchASNs p.allowedASN r.asn = true <;>
            by_cases a2 : matchNets p.allowedNets r.addr = true <;>
            by_cases a3 : matchASNs p.blockedASN r.asn = true <;>
            by_cases a4 : matchNets p.blockedNets r.addr = true <;>
            by_cases a5 : engBlocked (p.eng (normQueryDomain r.qname) r.qtype) = true <;>
            simp [h1, h2, a1, a2, a3, a4, a5]
      | none => simp [h1, h2, DevRes.profAcc]
      | authFail => simp [h1, h2, DevRes.profAcc]
      | unknownDedicated => simp [h1, h2, DevRes.profAcc]
      | error => simp [h1, h2, DevRes.profAcc]

/-- Non-vacuity: a client inside a blocked /24 of its profile, not in any allowed set, is rejected. -/
example :
    blocked { nets := [], eng := fun _ _ => ⟨false, none⟩ }
      { addr := ⟨true, 0xC0000207⟩, port := 4000, qname := "ok.test.", qtype := 1, asn := some 7, ecsBad := false,
        dev := .ok (some { allowedNets := [⟨true, 0xC0000201, 32⟩], blockedNets := [⟨true, 0xC0000200, 24⟩],
                           allowedASN := [1], blockedASN := [42], eng := fun _ _ => ⟨false, none⟩ }) {} } = true := by
  decide

/-- **prefix_contains_iff.** Subnet membership in the model is equality of the leading `bits` bits. -/
theorem prefix_contains_iff (p : Prefix) (a : Addr) :
    p.contains a = true ↔
      p.is4 = a.is4 ∧ a.val / 2 ^ (width a.is4 - p.bits) = p.val / 2 ^ (width a.is4 - p.bits) := by
  simp [Prefix.contains, Nat.shiftRight_eq_div_pow]

example : (⟨true, 0x0A010200, 24⟩ : Prefix).contains ⟨true, 0x0A0102FF⟩ = true ∧
    (⟨true, 0x0A010200, 24⟩ : Prefix).contains ⟨true, 0x0A010300⟩ = false ∧
    (⟨true, 0x0A010200, 24⟩ : Prefix).contains ⟨false, 0x0A0102FF⟩ = false := by decide

/-- **prefix_contains_bits.** … equivalently, bit by bit: the address and the prefix address agree on
every bit above the host part (bit `i` counted from the least significant one; for an address below
`2 ^ width` these are exactly the leading `bits` bits). -/
theorem prefix_contains_bits (p : Prefix) (a : Addr) : p.contains a = true ↔ InSubnet p a := by
  simp [Prefix.contains, InSubnet, shiftRight_eq_iff_testBit]

example : InSubnet ⟨true, 0x0A010200, 24⟩ ⟨true, 0x0A0102FF⟩ ∧ ¬ InSubnet ⟨true, 0x0A010200, 24⟩ ⟨true, 0x0A010300⟩ := by
  rw [← prefix_contains_bits, ← prefix_contains_bits]; decide

/-- **blocked_iff_rejected.** The executable decision equals the declarative reading of the statement
(`Rejected`: written with `∃ subnet ∈ list`, bit-level subnet membership and `∃ ASN`, without any of
the model's list-scanning functions). -/
theorem blocked_iff_rejected (g : Global) (r : Req) : blocked g r = true ↔ Rejected g r := by
  have nets : ∀ (l : List Prefix) (a : Addr), matchNets l a = true ↔ ∃ n ∈ l, InSubnet n a := by
    intro l a
    simp [matchNets, List.any_eq_true, prefix_contains_bits]
  have asns : ∀ (l : List Nat) (o : Option Nat), matchASNs l o = true ↔ AsnIn l o := by
    intro l o
    cases o <;> simp [matchASNs, AsnIn]
  have nnets : ∀ (l : List Prefix) (a : Addr), matchNets l a = false ↔ ¬ ∃ n ∈ l, InSubnet n a := by
    intro l a; rw [← nets]; simp
  have nasns : ∀ (l : List Nat) (o : Option Nat), matchASNs l o = false ↔ ¬ AsnIn l o := by
    intro l o; rw [← asns]; simp
  rw [blocked_iff]
  unfold Rejected Allowed NameBlocked
  simp only [nets, asns, nnets, nasns, not_or]

/-- Non-vacuity of `Rejected`: blocked ASN, not allowed. -/
example :
    Rejected { nets := [], eng := fun _ _ => ⟨false, none⟩ }
      { addr := ⟨true, 0xC0000207⟩, port := 4000, qname := "ok.test.", qtype := 1, asn := some 42, ecsBad := false,
        dev := .ok (some { allowedNets := [⟨true, 0xC0000201, 32⟩], blockedNets := [],
                           allowedASN := [1], blockedASN := [42], eng := fun _ _ => ⟨false, none⟩ })
                  { profFiltering := false, devFiltering := false } } := by
  rw [← blocked_iff_rejected]; decide

/-! ## IPv6 zones: "all client addresses" includes `fe80::1%eth0` -/

/-- **zone_irrelevant.** Read literally — the remote address reaches the access package with whatever
IPv6 zone the transport reported, the package removes the zone and then asks `netip.Prefix.Contains`,
which refuses every zoned address — the code's decision is the decision over the bits of the address
alone: a zone never lets a client out of a blocked subnet or out of an allowed one.  (All the theorems
of this file speak about `accessReason`, the decision over the bits.) -/
theorem zone_irrelevant (g : Global) (r : Req) : accessReasonZ g r = accessReason g r := by
  have hn : ∀ (l : List Prefix), matchNetsZ l r.zaddr.withoutZone = matchNets l r.addr := by
    intro l
    simp [matchNetsZ, matchNets, Prefix.containsZ, ZAddr.withoutZone, Req.zaddr]
  unfold accessReasonZ accessReason Global.isBlockedIPZ Global.isBlockedIP ProfAcc.isBlockedZ ProfAcc.isBlocked
    ProfAcc.isBlockedByNetsZ ProfAcc.isBlockedByNets
  simp only [hn]

/-- … in particular a zoned client inside a blocked subnet is rejected, by the declarative reading. -/
theorem zoned_client_rejected_iff (g : Global) (r : Req) :
    (accessReasonZ g r != .pass) = true ↔ Rejected g r := by
  rw [zone_irrelevant]; exact blocked_iff_rejected g r

/-- Non-vacuity: `fe80::1%eth0` against a globally blocked `fe80::/10`, and against the blocked subnet
of its profile. -/
example :
    accessReasonZ { nets := [⟨false, 0xfe800000000000000000000000000000, 10⟩], eng := fun _ _ => ⟨false, none⟩ }
      { addr := ⟨false, 0xfe800000000000000000000000000001⟩, zoned := true, port := 4000, qname := "ok.test.", qtype := 1,
        asn := none, ecsBad := false, dev := .none } = .globalIP ∧
    accessReasonZ { nets := [], eng := fun _ _ => ⟨false, none⟩ }
      { addr := ⟨false, 0xfe800000000000000000000000000001⟩, zoned := true, port := 4000, qname := "ok.test.", qtype := 1,
        asn := none, ecsBad := false,
        dev := .ok (some { allowedNets := [], blockedNets := [⟨false, 0xfe800000000000000000000000000000, 10⟩],
                           allowedASN := [], blockedASN := [], eng := fun _ _ => ⟨false, none⟩ }) {} } = .profile := by
  decide

/-- **pre_fix_zoned_client_counterexample.** Before the repair (`Global.IsBlockedIP` and
`DefaultProfile.IsBlocked` handed the zoned address to `netip.Prefix.Contains`) the statement failed for
link-local clients: `fe80::1%eth0` is in the globally blocked `fe80::/10` (`Rejected`), yet the request
passed; and a client that its profile allows by subnet (`fe80::/10` allowed, its ASN blocked) — no rule
rejects it — was dropped. -/
theorem pre_fix_zoned_client_counterexample :
    ¬ (∀ (g : Global) (r : Req), Rejected g r ↔ (accessReasonZPreFix g r != .pass) = true) := by
  intro h
  have := (h { nets := [⟨false, 0xfe800000000000000000000000000000, 10⟩], eng := fun _ _ => ⟨false, none⟩ }
      { addr := ⟨false, 0xfe800000000000000000000000000001⟩, zoned := true, port := 4000, qname := "ok.test.", qtype := 1,
        asn := none, ecsBad := false, dev := .none }).1
    (by rw [← blocked_iff_rejected]; decide)
  revert this
  decide

example :
    accessReasonZPreFix { nets := [], eng := fun _ _ => ⟨false, none⟩ }
      { addr := ⟨false, 0xfe800000000000000000000000000001⟩, zoned := true, port := 4000, qname := "ok.test.", qtype := 1,
        asn := some 42, ecsBad := false,
        dev := .ok (some { allowedNets := [⟨false, 0xfe800000000000000000000000000000, 10⟩], blockedNets := [],
                           allowedASN := [], blockedASN := [42], eng := fun _ _ => ⟨false, none⟩ }) {} } = .profile ∧
    accessReasonZ { nets := [], eng := fun _ _ => ⟨false, none⟩ }
      { addr := ⟨false, 0xfe800000000000000000000000000001⟩, zoned := true, port := 4000, qname := "ok.test.", qtype := 1,
        asn := some 42, ecsBad := false,
        dev := .ok (some { allowedNets := [⟨false, 0xfe800000000000000000000000000000, 10⟩], blockedNets := [],
                           allowedASN := [], blockedASN := [42], eng := fun _ _ => ⟨false, none⟩ }) {} } = .pass := by
  decide

/-! ## The profile's settings, from the backend's message to the decision — and across a restart -/

/-- The client address lies in the range a `CidrRange` message denotes: 4 address bytes for an IPv4
client, 16 for an IPv6 one, a prefix length within the width of the family, and the leading bits of the
two addresses equal.  (Written over the message itself: no `netip`, no conversion.) -/
def CidrHas (c : Cidr) (a : Addr) : Prop :=
  ((c.nbytes = 4 ∧ a.is4 = true) ∨ (c.nbytes = 16 ∧ a.is4 = false)) ∧ c.bits ≤ width a.is4 ∧
    ∀ i, width a.is4 - c.bits ≤ i → a.val.testBit i = c.val.testBit i

theorem converted_nets_iff (l : List Cidr) (a : Addr) :
    matchNets (l.filterMap cidrToPrefix) a = true ↔ ∃ c ∈ l, CidrHas c a := by
  simp only [matchNets, List.any_eq_true, prefix_contains_bits, List.mem_filterMap]
  constructor
  · rintro ⟨n, ⟨c, hc, hcn⟩, h4, hb⟩
    refine ⟨c, hc, ?_⟩
    unfold cidrToPrefix at hcn
    split at hcn
    · split at hcn
      · cases hcn; simp_all [CidrHas, width]
      · cases hcn
    · split at hcn
      · split at hcn
        · cases hcn
          have : a.is4 = false := by simpa using h4.symm
          simp_all [CidrHas, width]
        · cases hcn
      · cases hcn
  · rintro ⟨c, hc, hfam, hbits, hb⟩
    rcases hfam with ⟨h4, ha⟩ | ⟨h16, ha⟩
    · refine ⟨⟨true, c.val, c.bits⟩, ⟨c, hc, ?_⟩, by simp [ha], by simpa [ha] using hb⟩
      have : c.bits ≤ 32 := by simpa [ha, width] using hbits
      simp [cidrToPrefix, h4, this]
    · refine ⟨⟨false, c.val, c.bits⟩, ⟨c, hc, ?_⟩, by simp [ha], by simpa [ha] using hb⟩
      have : c.bits ≤ 128 := by simpa [ha, width] using hbits
      simp [cidrToPrefix, h16, this]

/-- **backend_access_blocked_iff.** From the message of the backend to the verdict, through
`AccessSettings.toInternal`, `cidrRangeToInternal`, `NewDefaultProfile` and `DefaultProfile.IsBlocked`
(zone removal included): a profile rejects a request exactly when it has access settings, they are
*enabled*, and either a blocked ASN or CIDR range covers the client while no allowed ASN or range does,
or a blocked-name rule matches.  Disabled or absent settings reject nothing; a range whose address is
neither 4 nor 16 bytes long or whose prefix length exceeds the family's covers nobody. -/
theorem backend_access_blocked_iff (x : Option AccessSettings) (qname : String) (qt : Nat) (z : ZAddr)
    (l : Option Nat) :
    confBlocked (accessFromBackend x) qname qt z l = true ↔
      ∃ s, x = some s ∧ s.enabled = true ∧
        ((¬ (AsnIn s.allowASN l ∨ ∃ c ∈ s.allowCidr, CidrHas c z.addr) ∧
            (AsnIn s.blockASN l ∨ ∃ c ∈ s.blockCidr, CidrHas c z.addr)) ∨
          engBlocked (ruleEngine s.rules (normQueryDomain qname) qt) = true) := by
  have hn : ∀ (l : List Prefix), matchNetsZ l z.withoutZone = matchNets l z.addr := by
    intro l
    simp [matchNetsZ, matchNets, Prefix.containsZ, ZAddr.withoutZone]
  have asns : ∀ (l : List Nat) (o : Option Nat), matchASNs l o = true ↔ AsnIn l o := by
    intro l o
    cases o <;> simp [matchASNs, AsnIn]
  cases x with
  | none => simp [accessFromBackend, confBlocked]
  | some s =>
    by_cases he : s.enabled = true
    · simp only [accessFromBackend, he, confBlocked, ProfAcc.isBlockedZ, ProfAcc.isBlockedByNetsZ, hn,
        ProfConf.acc, ProfAcc.isBlockedByHostsEng, Bool.not_true, Bool.false_eq_true, if_false]
      simp only [← converted_nets_iff, ← asns]
      by_cases a1 : matchASNs s.allowASN l = true <;>
        by_cases a2 : matchNets (s.allowCidr.filterMap cidrToPrefix) z.addr = true <;>
        by_cases a3 : matchASNs s.blockASN l = true <;>
        by_cases a4 : matchNets (s.blockCidr.filterMap cidrToPrefix) z.addr = true <;>
        by_cases a5 : engBlocked (ruleEngine s.rules (normQueryDomain qname) qt) = true <;>
        simp [a1, a2, a3, a4, a5, he]
    · have he' : s.enabled = false := by simpa using he
      simp [accessFromBackend, he', confBlocked]

/-- Non-vacuity: enabled settings with a blocked 16-byte range reject the (zoned) IPv6 client; the same
settings disabled do not; a 4-byte range with prefix length 33 covers nobody. -/
example :
    confBlocked (accessFromBackend (some { enabled := true, blockCidr := [⟨16, 0xfe800000000000000000000000000000, 10⟩] }))
      "ok.test." 1 ⟨⟨false, 0xfe800000000000000000000000000001⟩, true⟩ none = true ∧
    confBlocked (accessFromBackend (some { enabled := false, blockCidr := [⟨16, 0xfe800000000000000000000000000000, 10⟩] }))
      "ok.test." 1 ⟨⟨false, 0xfe800000000000000000000000000001⟩, true⟩ none = false ∧
    confBlocked (accessFromBackend (some { enabled := true, blockCidr := [⟨4, 0x0A010203, 33⟩, ⟨5, 0x0A010203, 8⟩] }))
      "ok.test." 1 ⟨⟨true, 0x0A010203⟩, false⟩ none = false := by decide

/-- Every prefix of the configuration has a length within its family's width. -/
def ProfConf.Valid (c : ProfConf) : Prop :=
  (∀ p ∈ c.allowedNets, p.bits ≤ width p.is4) ∧ (∀ p ∈ c.blockedNets, p.bits ≤ width p.is4)

theorem cidr_roundtrip (l : List Prefix) (h : ∀ p ∈ l, p.bits ≤ width p.is4) :
    (l.map cidrOfPrefix).filterMap cidrToPrefix = l := by
  induction l with
  | nil => rfl
  | cons p t ih =>
    have hp := h p (by simp)
    have ht := ih (fun q hq => h q (by simp [hq]))
    obtain ⟨is4, val, bits⟩ := p
    cases is4 <;> simp_all [cidrOfPrefix, cidrToPrefix, width]

/-- What the backend converter produces is valid in this sense … -/
theorem backend_conf_valid (x : Option AccessSettings) (c : ProfConf) (h : accessFromBackend x = some c) :
    c.Valid := by
  have key : ∀ (l : List Cidr), ∀ p ∈ l.filterMap cidrToPrefix, p.bits ≤ width p.is4 := by
    intro l p hp
    obtain ⟨c, _, hc⟩ := List.mem_filterMap.mp hp
    unfold cidrToPrefix at hc
    split at hc
    · split at hc
      · cases hc; simpa [width]
      · cases hc
    · split at hc
      · split at hc
        · cases hc; simpa [width]
        · cases hc
      · cases hc
  cases x with
  | none => simp [accessFromBackend] at h
  | some s =>
    by_cases he : s.enabled = true
    · simp only [accessFromBackend, he, Bool.not_true, Bool.false_eq_true, if_false, Option.some.injEq] at h
      subst h
      exact ⟨key _, key _⟩
    · have he' : s.enabled = false := by simpa using he
      simp [accessFromBackend, he'] at h

/-- **restart_preserves_access.** … and for every valid configuration — in particular every one that came
from the backend — writing the profile to the cache file (`DefaultProfile.Config`,
`accessToProtobuf`, `prefixesToProtobuf`) and reading it back after a restart
(`Access.toInternal`, `cidrRangeToInternal`) gives the same configuration, hence the same engine and
the same verdict on every request: a restart neither unblocks a rejected client nor rejects another
one.  "No access settings" (`EmptyProfile`) stays "no access settings". -/
theorem restart_preserves_access (c : Option ProfConf) (h : ∀ c', c = some c' → c'.Valid) :
    confOfCache (cacheOfConf c) = c := by
  cases c with
  | none => rfl
  | some c =>
    obtain ⟨h1, h2⟩ := h c rfl
    simp [confOfCache, cacheOfConf, cidr_roundtrip _ h1, cidr_roundtrip _ h2]

theorem restart_preserves_backend_access (x : Option AccessSettings) :
    confOfCache (cacheOfConf (accessFromBackend x)) = accessFromBackend x :=
  restart_preserves_access _ (fun c' h => backend_conf_valid x c' h)

def exSettings : AccessSettings :=
  { enabled := true, allowASN := [1], blockASN := [42, 42], allowCidr := [⟨4, 0xC0000201, 32⟩],
    blockCidr := [⟨4, 0xC0000200, 24⟩, ⟨16, 0xffff0A010200, 120⟩, ⟨4, 1, 40⟩] }

example :
    confOfCache (cacheOfConf (accessFromBackend (some exSettings))) =
    some { allowedNets := [⟨true, 0xC0000201, 32⟩], blockedNets := [⟨true, 0xC0000200, 24⟩, ⟨false, 0xffff0A010200, 120⟩],
           allowedASN := [1], blockedASN := [42, 42] } := by decide

/-! ## Blocked means silent and traceless -/

/-- **blocked_no_trace.** A rejected request makes neither the middleware nor the server do anything
that is visible outside: the middleware writes no response (not even FORMERR for a malformed ECS
option), does not call the next stage — so rate limiting, caches, resolution, filtering, query log,
billing and statistics, which all live behind `next`, never see it — builds no request information for
a later stage, and returns no error, so the server writes no SERVFAIL either (`wire = []`).  Holds
whatever the port, the device-finder result (including its errors) and the ECS option. -/
theorem blocked_no_trace (g : Global) (r : Req) (h : blocked g r = true) :
    (wrap g r).effects = [] ∧ (wrap g r).err = false ∧ (wrap g r).info = none ∧ wire g r = [] := by
  refine ⟨wrap_blocked_effects g r h, wrap_blocked_err g r h, wrap_blocked_info g r h, ?_⟩
  simp [wire, wrap_blocked_effects g r h, wrap_blocked_err g r h]

example :
    wire { nets := [⟨true, 0x0A010200, 24⟩], eng := fun _ _ => ⟨false, none⟩ }
      { addr := ⟨true, 0x0A010209⟩, port := 4000, qname := "ok.test.", qtype := 1, asn := none, ecsBad := true,
        dev := .error } = [] := by decide

/-- **wire_cases.** The complete table of what one request causes, for every request: nothing for a
spoofed port, nothing for a rejected request, and otherwise — "processed normally" — nothing for an
unknown dedicated address, the server's SERVFAIL for a device-finder error, exactly one FORMERR for a
malformed ECS option (since the C05 repair the answered error is no longer returned, so no SERVFAIL
follows it), and exactly one call of the next stage in every other case. -/
theorem wire_cases (g : Global) (r : Req) :
    wire g r =
      if r.port = 0 then []
      else if blocked g r = true then []
      else match r.dev with
        | .unknownDedicated => []
        | .error => [.servfail]
        | _ => if r.ecsBad then [.formerr] else [.next] := by
  by_cases hp : r.port = 0
  · simp [wire, wrap, hp]
  · by_cases hb : blocked g r = true
    · simp [hp, hb, (blocked_no_trace g r hb).2.2.2]
    · have hb' : blocked g r = false := by simpa using hb
      have hr : accessReason g r = .pass := by simpa [blocked] using hb'
      have hp' : (r.port == 0) = false := by simpa using hp
      simp only [hp, hb', if_false, Bool.false_eq_true]
      unfold wire wrap
      simp only [hp', hr]
      cases r.dev <;> simp <;> split <;> simp_all

/-- **silent_iff.** A request causes nothing at all exactly when its source port is 0, a rule rejects
it, or it came to an unknown dedicated address — nothing else is ever dropped by this stage. -/
theorem silent_iff (g : Global) (r : Req) :
    wire g r = [] ↔ r.port = 0 ∨ blocked g r = true ∨ r.dev matches .unknownDedicated := by
  rw [wire_cases]
  by_cases hp : r.port = 0
  · simp [hp]
  · by_cases hb : blocked g r = true
    · simp [hp, hb]
    · simp only [hp, hb, if_false, false_or]
      cases r.dev <;> simp <;> split <;> simp

/-- **blocked_invisible_to_downstream.** Over any history of requests and for an arbitrary stateful
downstream (`next : σ → Req → σ × Option ρ` — rate limiter, caches, resolver, filters, query log,
billing), deleting the rejected requests from the history changes neither the final downstream state
nor what any other client receives; and each rejected request receives nothing. -/
theorem blocked_invisible_to_downstream {σ ρ : Type} (g : Global) (next : σ → Req → σ × Option ρ)
    (s : σ) (rs : List Req) :
    (run g next s (rs.filter (fun r => !blocked g r))).1 = (run g next s rs).1 ∧
    (run g next s (rs.filter (fun r => !blocked g r))).2 =
      (run g next s rs).2.filter (fun e => !blocked g e.1) ∧
    ∀ e ∈ (run g next s rs).2, blocked g e.1 = true → e.2 = Resp.nothing := by
  induction rs generalizing s with
  | nil => simp [run]
  | cons r rs ih =>
    by_cases hb : blocked g r = true
    · have hs := serve_blocked g next s r hb
      obtain ⟨i1, i2, i3⟩ := ih s
      simp only [List.filter_cons, hb, Bool.not_true, run, hs]
      refine ⟨i1, by simpa [hb] using i2, ?_⟩
      intro e he
      rcases List.mem_cons.mp he with rfl | he
      · intro _; rfl
      · exact i3 e he
    · have hb' : blocked g r = false := by simpa using hb
      obtain ⟨i1, i2, i3⟩ := ih (serve g next s r).1
      simp only [List.filter_cons, hb', Bool.not_false, if_true, run]
      refine ⟨i1, by simpa [hb'] using i2, ?_⟩
      intro e he
      rcases List.mem_cons.mp he with rfl | he
      · intro h; simp [hb'] at h
      · exact i3 e he

/-- Non-vacuity: a history with a rejected request between two served ones; the downstream counts calls. -/
example :
    let g : Global := { nets := [⟨true, 0x0A010200, 24⟩], eng := fun _ _ => ⟨false, none⟩ }
    let ok : Req := { addr := ⟨true, 9⟩, port := 5, qname := "a.", qtype := 1, asn := none, ecsBad := false, dev := .none }
    let bad : Req := { ok with addr := ⟨true, 0x0A010209⟩ }
    (run g (fun (n : Nat) _ => (n + 1, some n)) 0 [ok, bad, ok]).1 = 2 ∧ blocked g bad = true ∧ blocked g ok = false := by
  decide

/-! ## Precedence -/

/-- **allow_over_block.** Within a profile, a client in an allowed subnet or from an allowed ASN is
never rejected by the profile's blocked subnets or ASNs, whatever those contain (overlapping, equal,
wider or narrower prefixes). -/
theorem allow_over_block (p : ProfAcc) (a : Addr) (l : Option Nat)
    (h : matchNets p.allowedNets a = true ∨ matchASNs p.allowedASN l = true) :
    p.isBlockedByNets a l = false := by
  unfold ProfAcc.isBlockedByNets
  rcases h with h | h <;> simp [h]

/-- … and such a request is processed normally unless a global rule or a name rule rejects it. -/
theorem allow_over_block_proceeds (g : Global) (r : Req) (p : ProfAcc) (da : DevAttrs) (hd : r.dev = .ok (some p) da)
    (h : matchNets p.allowedNets r.addr = true ∨ matchASNs p.allowedASN r.asn = true)
    (hg1 : matchNets g.nets r.addr = false)
    (hg2 : engBlocked (g.eng (normQueryDomain r.qname) r.qtype) = false)
    (hn : engBlocked (p.eng (normQueryDomain r.qname) r.qtype) = false) :
    blocked g r = false := by
  have := allow_over_block p r.addr r.asn h
  simp [blocked, accessReason, Global.isBlockedIP, Global.isBlockedHost, hg1, hg2, hd, DevRes.profAcc,
    ProfAcc.isBlocked, ProfAcc.isBlockedByHostsEng, hn, this]

/-- Non-vacuity: the address is in a blocked /24 *and* an allowed /32, the ASN is blocked. -/
example :
    let p : ProfAcc := { allowedNets := [⟨true, 0xC0000201, 32⟩], blockedNets := [⟨true, 0xC0000200, 24⟩],
                         allowedASN := [1], blockedASN := [42], eng := fun _ _ => ⟨false, none⟩ }
    matchNets p.allowedNets ⟨true, 0xC0000201⟩ = true ∧ matchNets p.blockedNets ⟨true, 0xC0000201⟩ = true ∧
      matchASNs p.blockedASN (some 42) = true ∧ p.isBlockedByNets ⟨true, 0xC0000201⟩ (some 42) = false ∧
      p.isBlockedByNets ⟨true, 0xC0000202⟩ (some 7) = true := by
  decide

/-- **global_before_profile.** A globally blocked address or name is rejected whatever the profile
says — an allowed subnet or ASN of the profile does not override global access. -/
theorem global_before_profile (g : Global) (r : Req)
    (h : matchNets g.nets r.addr = true ∨ engBlocked (g.eng (normQueryDomain r.qname) r.qtype) = true) :
    blocked g r = true ∧ accessReason g r ≠ .profile := by
  unfold blocked accessReason Global.isBlockedIP Global.isBlockedHost
  rcases h with h | h
  · simp [h]
  · by_cases h1 : matchNets g.nets r.addr = true <;> simp [h, h1]

example :
    accessReason { nets := [⟨true, 0xC0000200, 24⟩], eng := fun _ _ => ⟨false, none⟩ }
      { addr := ⟨true, 0xC0000201⟩, port := 4000, qname := "ok.test.", qtype := 1, asn := some 1, ecsBad := false,
        dev := .ok (some { allowedNets := [⟨true, 0xC0000201, 32⟩], blockedNets := [], allowedASN := [1],
                           blockedASN := [], eng := fun _ _ => ⟨false, none⟩ }) {} } = .globalIP := by decide

/-! ## Nothing else in the profile or the device matters -/

/-- **device_attributes_irrelevant.** The access decision and everything this stage does with a request
are the same whatever the rest of the profile and device records says: filtering switched off for the
profile or the device, query log or IP log off, a deleted profile, automatic devices, the blocking
mode, the filter configuration, a linked or dedicated address, device authentication.  A profile's
access settings apply (and an unrejected request is passed on) for every value of these switches —
"for all per-profile access configurations" includes the profiles whose filtering is off. -/
theorem device_attributes_irrelevant (g : Global) (r : Req) (acc : Option ProfAcc) (a b : DevAttrs) :
    accessReason g { r with dev := .ok acc a } = accessReason g { r with dev := .ok acc b } ∧
    blocked g { r with dev := .ok acc a } = blocked g { r with dev := .ok acc b } ∧
    wrap g { r with dev := .ok acc a } = wrap g { r with dev := .ok acc b } ∧
    wire g { r with dev := .ok acc a } = wire g { r with dev := .ok acc b } := by
  have h : accessReason g { r with dev := .ok acc a } = accessReason g { r with dev := .ok acc b } := by
    cases acc <;> rfl
  have hw : wrap g { r with dev := .ok acc a } = wrap g { r with dev := .ok acc b } := by
    unfold wrap
    rw [h]
    rfl
  exact ⟨h, by unfold blocked; rw [h], hw, by unfold wire; rw [hw]⟩

/-- **profile_block_whatever_switches.** A request that its profile's access settings reject is
rejected — silently and without trace (`blocked_no_trace`) — whatever the switches of the profile and
the device are. -/
theorem profile_block_whatever_switches (g : Global) (r : Req) (p : ProfAcc) (a : DevAttrs)
    (hb : p.isBlocked r.qname r.qtype r.addr r.asn = true) :
    blocked g { r with dev := .ok (some p) a } = true ∧ wire g { r with dev := .ok (some p) a } = [] := by
  have h : blocked g { r with dev := .ok (some p) a } = true := by
    unfold blocked accessReason
    simp only [DevRes.profAcc, hb]
    split
    · rfl
    · split <;> rfl
  exact ⟨h, (blocked_no_trace g _ h).2.2.2⟩

/-- Non-vacuity: profile and device filtering off, query log off, profile deleted; the client is in a
blocked /24 of the profile: rejected, nothing on the wire; the same client of a profile without that
subnet, same switches, is served. -/
example :
    let g : Global := { nets := [], eng := fun _ _ => ⟨false, none⟩ }
    let a : DevAttrs := { profFiltering := false, devFiltering := false, queryLog := false, deleted := true }
    let p : ProfAcc := { allowedNets := [], blockedNets := [⟨true, 0xC0000200, 24⟩], allowedASN := [], blockedASN := [],
                         eng := fun _ _ => ⟨false, none⟩ }
    let r : Req := { addr := ⟨true, 0xC0000207⟩, port := 4000, qname := "ok.test.", qtype := 1, asn := some 7, ecsBad := false,
                     dev := .ok (some p) a }
    p.isBlocked r.qname r.qtype r.addr r.asn = true ∧ wire g r = [] ∧
      wire g { r with dev := .ok (some { p with blockedNets := [] }) a } = [.next] := by
  decide

/-! ## Everything else is processed normally -/

/-- **unblocked_proceeds.** A request that no rule rejects (and that the stages around access control
do not drop: non-zero source port, device finder neither failed nor reported an unknown dedicated
address) reaches the next stage exactly once, with request information built from this very request —
or, with a malformed ECS option, is answered FORMERR exactly once. -/
theorem unblocked_proceeds (g : Global) (r : Req) (hb : blocked g r = false) (hp : r.port ≠ 0)
    (hu : ¬ r.dev matches .unknownDedicated) (he : ¬ r.dev matches .error) :
    (wrap g r).effects = (if r.ecsBad then [.formerr] else [.next]) ∧
    (r.ecsBad = false → (wrap g r).info = some (reqInfo r) ∧ (wrap g r).err = false) := by
  unfold blocked at hb
  have hr : accessReason g r = .pass := by simpa using hb
  unfold wrap
  have hp' : (r.port == 0) = false := by simpa using hp
  simp only [hp', hr]
  cases hd : r.dev <;> simp_all <;> split <;> simp_all

example :
    (wrap { nets := [⟨true, 0x0A010200, 24⟩], eng := fun _ _ => ⟨false, none⟩ }
      { addr := ⟨true, 0x0A010309⟩, port := 4000, qname := "Ok.test.", qtype := 1, asn := none, ecsBad := false,
        dev := .authFail }).info = some ⟨"ok.test", 1, 1, ⟨true, 0x0A010309⟩, none, false, .authFail, false⟩ := by decide

/-- **pool_irrelevant.** The request information is taken from a pool and may still hold the data of an
earlier (possibly rejected) request; after `newRequestInfo` and the assignments in `Wrap` nothing of
it is left: the result is a function of the current request alone. -/
theorem pool_irrelevant (pooled : RI) (r : Req) : fillInfo pooled r = reqInfo r := rfl

example : fillInfo ⟨"secret.blocked.test", 16, 3, ⟨false, 7⟩, some 42, true, .ok, true⟩
    { addr := ⟨true, 9⟩, port := 5, qname := "a.", qtype := 1, asn := none, ecsBad := false, dev := .none } =
    ⟨"a", 1, 1, ⟨true, 9⟩, none, false, .none, false⟩ := by decide

/-! ## Name rules over the modelled grammar -/

/-- **rule_engine_blocks_iff.** Over the modelled rule grammar — hosts-style rules (`name`,
`IP name1 name2 …`: exact names, several per rule) and network-style rules: a pattern with an optional
start anchor `||` or `|`, literal characters, `*`, `^` and an optional final `|`, an optional `@@`
(exception), `$important`, and `$dnstype=` with a list of permitted and `~`restricted types; rules
that urlfilter refuses as too wide (pattern text shorter than three characters and no `$dnstype`) are
ignored — the engine + wrapper block a name and type exactly when the name is non-empty and: no
important exception matches, and an important blocking rule matches, or no exception matches and some
blocking rule (network-style or hosts-style) matches.  "A network rule matches" is `Rule.netMatches`:
valid, the pattern matches the name (`pattern_matches_iff_spec`), the type is not restricted and is
permitted if there is a list of permitted types. -/
theorem rule_engine_blocks_iff (rules : List Rule) (h : String) (qt : Nat) :
    engBlocked (ruleEngine rules h qt) = nameBlockedSpec rules h qt :=
  ruleEngine_blocked rules h qt

/-- Non-vacuity: `||net.test^`, `@@||allow.net.test^`, `||imp.allow.net.test^$important`, `*$dnstype=NS`,
hosts-style `host.test`. -/
example :
    let rules : List Rule := [{ kind := .net, pat := dom "net.test" },
      { kind := .net, pat := dom "allow.net.test", allow := true },
      { kind := .net, pat := dom "imp.allow.net.test", important := true },
      { kind := .net, pat := ⟨.none, [.star], false⟩, permitted := [2] },
      { kind := .host, hosts := ["host.test"] }]
    engBlocked (ruleEngine rules "a.net.test" 1) = true ∧ engBlocked (ruleEngine rules "anet.test" 1) = false ∧
      engBlocked (ruleEngine rules "x.allow.net.test" 1) = false ∧ engBlocked (ruleEngine rules "imp.allow.net.test" 1) = true ∧
      engBlocked (ruleEngine rules "." 2) = true ∧ engBlocked (ruleEngine rules "." 1) = false ∧
      engBlocked (ruleEngine rules "host.test" 28) = true ∧ engBlocked (ruleEngine rules "x.host.test" 28) = false ∧
      engBlocked (ruleEngine rules "" 2) = false := by
  decide

/-- **pattern_matches_iff_spec.** The executable pattern matcher decides exactly the declarative
reading of a pattern (`PatMatches`, written with "the name splits into …" and without the model's
recursive matchers): each literal character consumes one character equal up to letter case, `*`
consumes any string, `^` consumes one separator character (anything but letters, digits, space, `.`,
`%`, `_`, `-`) or nothing at the very end of the name; with a final `|` the tokens must consume the
name to its end, otherwise a prefix; `|` makes the tokens start at the beginning of the name, no anchor
lets them start anywhere, and `||` at the beginning or right after a dot that ends a non-empty run of
host characters (letters, digits, `-`, `_`, `.`). -/
theorem pattern_matches_iff_spec (p : Pat) (h : List Char) : p.matches h = true ↔ PatMatches p h :=
  pat_matches_iff p h

/-- Non-vacuity, on the spec side: `|a*c^` over `"abc"` — `a` takes `a`, `*` takes `b`, `c` takes `c`,
`^` takes the end. -/
example : PatMatches ⟨.start, [.lit 'a', .star, .lit 'c', .sep], false⟩ ['a', 'b', 'c'] :=
  ⟨['a'], ['b', 'c'], rfl, ⟨'a', rfl, rfl⟩, ['b'], ['c'], rfl, trivial, ['c'], [], rfl, ⟨'c', rfl, rfl⟩,
    [], [], rfl, Or.inr ⟨rfl, rfl⟩, by simp [SeqMatch]⟩

/-- … and through the theorem in both directions. -/
example : PatMatches (dom "net.test") "a.net.test".toList ∧ ¬ PatMatches (dom "net.test") "anet.test".toList := by
  rw [← pattern_matches_iff_spec, ← pattern_matches_iff_spec]; decide

/-- **net_rule_matches_iff_spec.** A network-style rule applies to a name and a query type exactly when
it is a network rule that urlfilter keeps (not too wide), its pattern matches the name in the
declarative reading (`PatMatches`), the type is not among the `~`restricted ones and — if any type is
permitted — is among the permitted ones. -/
theorem net_rule_matches_iff_spec (r : Rule) (h : String) (qt : Nat) :
    r.netMatches h qt = true ↔
      r.kind = .net ∧ ¬ (r.pat.textLen < 3 ∧ r.permitted = [] ∧ r.restricted = []) ∧ PatMatches r.pat h.toList ∧
        qt ∉ r.restricted ∧ (r.permitted = [] ∨ qt ∈ r.permitted) := by
  rw [← pattern_matches_iff_spec]
  cases hk : r.kind <;>
    simp [Rule.netMatches, Rule.isNet, Rule.valid, Rule.typeOk, hk, List.isEmpty_iff, and_assoc]
  intro _ _ _
  by_cases h1 : r.pat.textLen < 3 <;> by_cases h2 : r.permitted = [] <;> by_cases h3 : r.restricted = [] <;>
    simp [h1, h2, h3] <;> omega

example :
    let r : Rule := { kind := .net, pat := ⟨.none, lits "track".toList, false⟩, permitted := [1, 28], restricted := [16] }
    r.netMatches "mytracker.test" 28 = true ∧ r.netMatches "mytracker.test" 16 = false ∧ r.netMatches "mytracker.test" 2 = false := by
  decide

/-- **domain_rule_iff.** The most common rule, `||d^`: on names of host characters (letters, digits,
`-`, `_`, `.`), with `d` and the name in lower case (the engine sees normalised names), it matches
exactly `d` itself and the names `q.d` with non-empty `q` — the domain and its subdomains, and nothing
that merely ends in the same letters. -/
theorem domain_rule_matches_iff (d h : List Char) (hh : ∀ c ∈ h, hostChar c = true)
    (hdl : ∀ c ∈ d, c.toLower = c) (hhl : ∀ c ∈ h, c.toLower = c) :
    (⟨.domain, lits d ++ [.sep], false⟩ : Pat).matches h = true ↔
      h = d ∨ ∃ q, q ≠ [] ∧ h = q ++ '.' :: d :=
  domain_rule_iff d h hh hdl hhl

/-- Non-vacuity: the hypotheses hold for `d = net.test`, `h = a.net.test`, and both sides are true. -/
example :
    (∀ c ∈ "a.net.test".toList, hostChar c = true) ∧ (∀ c ∈ "net.test".toList, c.toLower = c) ∧
      (∀ c ∈ "a.net.test".toList, c.toLower = c) ∧ (dom "net.test").matches "a.net.test".toList = true ∧
      "a.net.test".toList = ['a'] ++ '.' :: "net.test".toList := by decide

/-- Wildcards, anchors, `$dnstype` lists and too-wide rules: `||*.cdn.test^`, `|ads.`,
`track$dnstype=A|AAAA`, `||noa.test^$dnstype=~A`, `ab` (ignored), `ab$dnstype=TXT` (kept),
`exact.test|`, and a hosts-style rule with two names. -/
example :
    let star : Pat := ⟨.domain, [.star] ++ lits ".cdn.test".toList ++ [.sep], false⟩
    let ads : Pat := ⟨.start, lits "ads.".toList, false⟩
    let ab : Pat := ⟨.none, lits "ab".toList, false⟩
    let rules : List Rule := [{ kind := .net, pat := star }, { kind := .net, pat := ads },
      { kind := .net, pat := ⟨.none, lits "track".toList, false⟩, permitted := [1, 28] },
      { kind := .net, pat := dom "noa.test", restricted := [1] },
      { kind := .net, pat := ab },
      { kind := .net, pat := ⟨.none, lits "exact.test".toList, true⟩ },
      { kind := .host, hosts := ["h1.test", "H2.test"] }]
    star.matches "a.cdn.test".toList = true ∧ star.matches "cdn.test".toList = false ∧
      ads.matches "ads.x.test".toList = true ∧ ads.matches "bads.x.test".toList = false ∧
      engBlocked (ruleEngine rules "a.cdn.test" 1) = true ∧ engBlocked (ruleEngine rules "cdn.test" 1) = false ∧
      engBlocked (ruleEngine rules "ads.x.test" 1) = true ∧ engBlocked (ruleEngine rules "bads.x.test" 1) = false ∧
      engBlocked (ruleEngine rules "mytracker.test" 1) = true ∧ engBlocked (ruleEngine rules "mytracker.test" 28) = true ∧
      engBlocked (ruleEngine rules "mytracker.test" 16) = false ∧
      engBlocked (ruleEngine rules "noa.test" 28) = true ∧ engBlocked (ruleEngine rules "noa.test" 1) = false ∧
      ab.matches "abc.test".toList = true ∧ (⟨.net, [], ab, false, false, [], []⟩ : Rule).valid = false ∧
      engBlocked (ruleEngine rules "abc.test" 16) = false ∧
      engBlocked (ruleEngine ({ kind := .net, pat := ab, permitted := [16] } :: rules) "abc.test" 16) = true ∧
      engBlocked (ruleEngine rules "my.exact.test" 1) = true ∧ engBlocked (ruleEngine rules "exact.test.x" 1) = false ∧
      engBlocked (ruleEngine rules "h1.test" 1) = true ∧ engBlocked (ruleEngine rules "h2.test" 1) = true ∧
      engBlocked (ruleEngine rules "h3.test" 1) = false := by
  decide

/-! ## The two repaired defects: counter-examples against the code as it was -/

/-- **pre_fix_bad_ecs_counterexample.** Before the repair (`wrapPre`: ECS error handled first) a
client in a globally blocked subnet that sent a malformed ECS option received a FORMERR response. -/
theorem pre_fix_bad_ecs_counterexample :
    ¬ ∀ (g : Global) (r : Req), blocked g r = true → (wrapPre accessReason g r).effects = [] := by
  intro h
  have := h { nets := [⟨true, 0x0A010200, 24⟩], eng := fun _ _ => ⟨false, none⟩ }
    { addr := ⟨true, 0x0A010209⟩, port := 4000, qname := "ok.test.", qtype := 1, asn := none, ecsBad := true,
      dev := .none } (by decide)
  revert this
  decide

/-- **pre_fix_root_query_counterexample.** Before the repair (`accessReasonPre`: the global engine saw
the empty host for the root domain) the query `. NS` reached the next stage although the global rule
`*$dnstype=NS` blocks it (and `com. NS` was dropped). -/
theorem pre_fix_root_query_counterexample :
    ¬ ∀ (rules : List Rule) (r : Req),
        engBlocked (ruleEngine rules (normQueryDomain r.qname) r.qtype) = true →
        (wrapPre accessReasonPre { nets := [], eng := ruleEngine rules } r).effects = [] := by
  intro h
  have := h [{ kind := .net, pat := ⟨.none, [.star], false⟩, permitted := [2] }]
    { addr := ⟨true, 9⟩, port := 4000, qname := ".", qtype := 2, asn := none, ecsBad := false, dev := .none }
    (by decide)
  revert this
  decide

/-- **pre_fix_device_error_counterexample.** Before the third repair (`wrapDevFirst`: device result
handled before the access check) a client in a globally blocked subnet whose request made the device
finder fail (e.g. a malformed device-ID option) got a SERVFAIL from the server. -/
theorem pre_fix_device_error_counterexample :
    ¬ ∀ (g : Global) (r : Req), blocked g r = true → wireOf (wrapDevFirst g r) = [] := by
  intro h
  have := h { nets := [⟨true, 0x7F000000, 8⟩], eng := fun _ _ => ⟨false, none⟩ }
    { addr := ⟨true, 0x7F000001⟩, port := 4000, qname := "ok.test.", qtype := 1, asn := none, ecsBad := false,
      dev := .error } (by decide)
  revert this
  decide

/-- The repaired handler drops all three witnesses. -/
example :
    (wrap { nets := [], eng := ruleEngine [{ kind := .net, pat := ⟨.none, [.star], false⟩, permitted := [2] }] }
      { addr := ⟨true, 9⟩, port := 4000, qname := ".", qtype := 2, asn := none, ecsBad := false, dev := .none }).effects = [] ∧
    (wrap { nets := [⟨true, 0x0A010200, 24⟩], eng := fun _ _ => ⟨false, none⟩ }
      { addr := ⟨true, 0x0A010209⟩, port := 4000, qname := "ok.test.", qtype := 1, asn := none, ecsBad := true,
        dev := .none }).effects = [] ∧
    wire { nets := [⟨true, 0x7F000000, 8⟩], eng := fun _ _ => ⟨false, none⟩ }
      { addr := ⟨true, 0x7F000001⟩, port := 4000, qname := "ok.test.", qtype := 1, asn := none, ecsBad := false,
        dev := .error } = [] := by decide

/-! ## Through the server: what a rejected client sees on the wire

`blocked_no_trace` is about the handler.  Around it, the server looks at the shape of the message
before the handler runs (`acceptMsg`) and the protocol server reacts when nothing was written
(`noResponse`), so "receives no response at all" holds only in part; "reaches no later stage" holds in
full. -/

/-- **accept_iff.** `acceptMsg` lets a message through to the handler exactly when it is a query (not
a response) with opcode QUERY or NOTIFY, one question, at most one answer and at most one authority
record. -/
theorem accept_iff (m : MsgShape) :
    acceptMsg m = .accept ↔
      m.response = false ∧ (m.opcode = 0 ∨ m.opcode = 4) ∧ m.nQ = 1 ∧ m.nAns ≤ 1 ∧ m.nNs ≤ 1 := by
  unfold acceptMsg
  cases hr : m.response
  · by_cases h0 : m.opcode = 0 <;> by_cases h4 : m.opcode = 4 <;> by_cases hq : m.nQ = 1 <;>
      by_cases ha : m.nAns > 1 <;> by_cases hn : m.nNs > 1 <;> simp [h0, h4, hq, ha, hn] <;> omega
  · simp

example : acceptMsg {} = .accept ∧ acceptMsg { opcode := 4, nAns := 1, nNs := 1 } = .accept ∧
    acceptMsg { opcode := 2 } = .notImpl ∧ acceptMsg { nQ := 2 } = .reject ∧ acceptMsg { nQ := 0 } = .reject ∧
    acceptMsg { nAns := 2 } = .reject ∧ acceptMsg { nNs := 2 } = .reject ∧
    acceptMsg { response := true, opcode := 2 } = .ignore := by decide

/-- **server_wire_blocked.** For a rejected request, exactly what the client gets, for every protocol
and every message shape: the server's own FORMERR or NOTIMP when `acceptMsg` refuses the message (the
handler, and with it access control, never runs), and otherwise the protocol's reaction to silence —
nothing over UDP, TCP and DoT, HTTP 500 over DoH, SERVFAIL over DoQ and DNSCrypt. -/
theorem server_wire_blocked (p : Proto) (m : MsgShape) (g : Global) (r : Req) (nw : Bool)
    (h : blocked g r = true) :
    serverWire p m g r nw =
      match acceptMsg m with
      | .reject => [.srvFormerr]
      | .notImpl => [.srvNotimp]
      | _ => noResponse p := by
  unfold serverWire
  rw [wrap_blocked_effects g r h, wrap_blocked_err g r h]
  cases acceptMsg m <;> simp [sent]

def exBlockedG : Global := { nets := [⟨true, 0x0A010200, 24⟩], eng := fun _ _ => ⟨false, none⟩ }
def exBlockedR : Req :=
  { addr := ⟨true, 0x0A010209⟩, port := 4000, qname := "ok.test.", qtype := 1, asn := none, ecsBad := true, dev := .error }

/-- Non-vacuity: a client in a globally blocked subnet, malformed ECS, failing device finder. -/
example : blocked exBlockedG exBlockedR = true ∧
    serverWire .udp {} exBlockedG exBlockedR true = [] ∧ serverWire .tcp {} exBlockedG exBlockedR true = [] ∧
    serverWire .dot {} exBlockedG exBlockedR true = [] ∧ serverWire .doh {} exBlockedG exBlockedR true = [.http500] ∧
    serverWire .doq {} exBlockedG exBlockedR true = [.srvServfail] ∧
    serverWire .dnscrypt {} exBlockedG exBlockedR true = [.srvServfail] ∧
    serverWire .udp { nQ := 2 } exBlockedG exBlockedR true = [.srvFormerr] ∧
    serverWire .udp { opcode := 5 } exBlockedG exBlockedR true = [.srvNotimp] ∧
    serverWire .udp { response := true } exBlockedG exBlockedR true = [] := by decide

/-- **blocked_server_no_later_stage.** "Reaches no later stage" holds at full strength through the
server: for a rejected request, whatever the protocol and the message shape, the next stage does not
run, and neither a response of the next stage nor the middleware's FORMERR reaches the client. -/
theorem blocked_server_no_later_stage (p : Proto) (m : MsgShape) (g : Global) (r : Req) (nw : Bool)
    (h : blocked g r = true) :
    serverReachedNext m g r = false ∧ Reply.fromNext ∉ serverWire p m g r nw ∧
      Reply.mwFormerr ∉ serverWire p m g r nw := by
  rw [server_wire_blocked p m g r nw h]
  refine ⟨by simp [serverReachedNext, wrap_blocked_effects g r h], ?_, ?_⟩ <;>
    cases acceptMsg m <;> cases p <;> simp [noResponse]

/-- Non-vacuity: the same request from an address outside the blocked subnet does reach the next stage. -/
example : serverReachedNext {} exBlockedG exBlockedR = false ∧
    serverReachedNext {} exBlockedG { exBlockedR with addr := ⟨true, 0x0A010309⟩, ecsBad := false, dev := .none } = true ∧
    serverWire .doq {} exBlockedG { exBlockedR with addr := ⟨true, 0x0A010309⟩, ecsBad := false, dev := .none } true = [.fromNext] := by
  decide

/-- **blocked_silent_on_server_iff.** A rejected request gets nothing at all on the wire exactly when
`acceptMsg` accepts or ignores the message and the protocol is UDP, TCP or DoT. -/
theorem blocked_silent_on_server_iff (p : Proto) (m : MsgShape) (g : Global) (r : Req) (nw : Bool)
    (h : blocked g r = true) :
    serverWire p m g r nw = [] ↔
      (acceptMsg m = .accept ∨ acceptMsg m = .ignore) ∧ (p = .udp ∨ p = .tcp ∨ p = .dot) := by
  rw [server_wire_blocked p m g r nw h]
  cases acceptMsg m <;> cases p <;> simp [noResponse]

example : serverWire .dot { response := true } exBlockedG exBlockedR false = [] ∧
    serverWire .doh { response := true } exBlockedG exBlockedR false ≠ [] := by decide

/-- **blocked_silent_on_wire_partial.** The part of "receives no response at all" that holds: a
well-formed query (one `acceptMsg` accepts) of a rejected client over UDP, TCP or DoT is answered with
nothing. -/
theorem blocked_silent_on_wire_partial (p : Proto) (m : MsgShape) (g : Global) (r : Req) (nw : Bool)
    (h : blocked g r = true) (ha : acceptMsg m = .accept) (hp : p = .udp ∨ p = .tcp ∨ p = .dot) :
    serverWire p m g r nw = [] :=
  (blocked_silent_on_server_iff p m g r nw h).mpr ⟨Or.inl ha, hp⟩

example : blocked exBlockedG exBlockedR = true ∧ acceptMsg {} = .accept ∧
    serverWire .udp {} exBlockedG exBlockedR true = [] := by decide

/-- **server_rejected_message_counterexample.** The full statement "a rejected client receives no
response at all" is false through the server: a STATUS message (opcode 2) over UDP from a client in a
globally blocked subnet is answered NOTIMP, because `acceptMsg` runs before access control. -/
theorem server_rejected_message_counterexample :
    ¬ ∀ (p : Proto) (m : MsgShape) (g : Global) (r : Req) (nw : Bool),
        blocked g r = true → serverWire p m g r nw = [] := by
  intro h
  have := h .udp { opcode := 2 } exBlockedG exBlockedR true (by decide)
  revert this
  decide

example : serverWire .udp { opcode := 2 } exBlockedG exBlockedR true = [.srvNotimp] := by decide

/-- **doq_no_response_counterexample.** … and even for well-formed queries it is false over DoQ (and
DNSCrypt): the handler writes nothing, and the protocol server answers SERVFAIL for "no response". -/
theorem doq_no_response_counterexample :
    ¬ ∀ (m : MsgShape) (g : Global) (r : Req) (nw : Bool),
        blocked g r = true → acceptMsg m = .accept → serverWire .doq m g r nw = [] := by
  intro h
  have := h {} exBlockedG exBlockedR true (by decide) (by decide)
  revert this
  decide

example : serverWire .doq {} exBlockedG exBlockedR true = [.srvServfail] ∧
    serverWire .dnscrypt {} exBlockedG exBlockedR true = [.srvServfail] := by decide

/-! ## Rule texts: what reaches the engine (fourth deepening)

"Matches a blocked-name rule" is a statement about the rule *as configured*.  The access package rewrites
every rule text before the engine sees it. -/

/-- **lower_rule_keeps_regex.** For every rule whose pattern is a regular expression — optional `@@`, `/`,
any body (also one with `/` or upper-case escapes inside), `/`, options without a `/` — the text that
reaches the engine has the regular expression exactly as configured; only the options are lower-cased. -/
theorem lower_rule_keeps_regex (allow : Bool) (body opts : List Char) (hopts : '/' ∉ opts)
    (htrim : trimSpaceL (regexRuleText allow body opts) = regexRuleText allow body opts) :
    lowerRuleL (regexRuleText allow body opts) = regexRuleText allow body (lowerL opts) := by
  unfold lowerRuleL
  simp only [htrim]
  cases allow <;> simp [regexRuleText, stripAllow, splitLastSlash_append body opts hopts]

example : trimSpaceL (regexRuleText true "^\\D+$".toList "$DNSTYPE=A".toList) = regexRuleText true "^\\D+$".toList "$DNSTYPE=A".toList ∧
    String.ofList (lowerRuleL "@@/^\\D+$/$DNSTYPE=A".toList) = "@@/^\\D+$/$dnstype=a" := by decide

/-- **lower_rule_plain.** Every other rule (hosts-style names, `||domain^` patterns, comments) is
lower-cased as a whole, as before the repair. -/
theorem lower_rule_plain (t : List Char) (h : ∀ r, (stripAllow (trimSpaceL t)).2 ≠ '/' :: r) :
    lowerRuleL t = lowerL (trimSpaceL t) := by
  unfold lowerRuleL
  show (match (stripAllow (trimSpaceL t)).2 with
    | '/' :: rest =>
      match splitLastSlash rest with
      | some ab => (stripAllow (trimSpaceL t)).1 ++ '/' :: ab.1 ++ lowerL ab.2
      | none => lowerL (trimSpaceL t)
    | _ => lowerL (trimSpaceL t)) = _
  generalize hq : (stripAllow (trimSpaceL t)).2 = q at h
  cases q with
  | nil => rfl
  | cons c r =>
    by_cases hc : c = '/'
    · exact absurd (by rw [hc]) (h r)
    · simp

/-- Non-vacuity: a domain rule in upper case is no regular expression and is lower-cased; a pattern that
only starts with a slash likewise. -/
example : (∀ r, (stripAllow (trimSpaceL "||Example.ORG^".toList)).2 ≠ '/' :: r) ∧
    String.ofList (lowerRuleL " ||Example.ORG^ ".toList) = "||example.org^" ∧ String.ofList (lowerRuleL "/Path".toList) = "/path" := by
  refine ⟨fun r h => ?_, by decide, by decide⟩
  have e : (stripAllow (trimSpaceL "||Example.ORG^".toList)).2 = "||Example.ORG^".toList := by decide
  rw [e] at h
  cases h

/-- **regex_rule_reaches_engine_as_written.** Whatever the engine does with a text: for an option-free
regular-expression rule it does it with the configured text. -/
theorem regex_rule_reaches_engine_as_written {α : Type} (engine : List Char → α) (allow : Bool) (body : List Char)
    (htrim : trimSpaceL (regexRuleText allow body []) = regexRuleText allow body []) :
    engine (lowerRuleL (regexRuleText allow body [])) = engine (regexRuleText allow body []) := by
  rw [lower_rule_keeps_regex allow body [] (by simp) htrim]; rfl

example : trimSpaceL (regexRuleText false "^\\D+\\.t$".toList []) = regexRuleText false "^\\D+\\.t$".toList [] ∧
    String.ofList (regexRuleText false "^\\D+\\.t$".toList []) = "/^\\D+\\.t$/" := by decide

/-- **pre_fix_regex_rule_counterexample.** The code before the repair (`strings.ToLower` of the whole
text): `/^\\D+\\.t$/` reached the engine as `/^\\d+\\.t$/`, so `ab.t`, which the configured rule matches, was
not rejected — and `12.t`, which no rule matches, was (second example below). -/
theorem pre_fix_regex_rule_counterexample :
    ¬ (∀ t h : List Char, rxRuleBlocksPreFix t h = rxTextBlocks t h) := by
  intro h
  have := h "/^\\D+\\.t$/".toList "ab.t".toList
  revert this
  decide

example : rxRuleBlocksPreFix "/^\\D+\\.t$/".toList "ab.t".toList = false ∧ rxRuleBlocksPreFix "/^\\D+\\.t$/".toList "12.t".toList = true ∧
    rxRuleBlocks "/^\\D+\\.t$/".toList "ab.t".toList = true ∧ rxRuleBlocks "/^\\D+\\.t$/".toList "12.t".toList = false := by decide


/-- **rx_match_iff_spec.** The executable matcher of the regular-expression fragment equals the declarative
"there is a way to cut the name into blocks" reading. -/
theorem rx_match_iff_spec (items : List RxItem) (h : List Char) : rxMatch items h = true ↔ RxMatches items h := by
  induction h generalizing items with
  | nil =>
    cases items with
    | nil => exact ⟨fun _ => .nil, fun _ => rfl⟩
    | cons it its => exact ⟨fun e => by simp [rxMatch] at e, fun e => by cases e⟩
  | cons c h ih =>
    cases items with
    | nil => exact ⟨fun e => by simp [rxMatch] at e, fun e => by cases e⟩
    | cons it its =>
      constructor
      · intro e
        simp only [rxMatch, Bool.and_eq_true, Bool.or_eq_true] at e
        rcases e with ⟨ha, e | ⟨hp, e⟩⟩
        · exact .one it its c h ha ((ih its).1 e)
        · exact .more it its c h hp ha ((ih (it :: its)).1 e)
      · intro e
        simp only [rxMatch, Bool.and_eq_true, Bool.or_eq_true]
        cases e with
        | one _ _ _ _ ha e => exact ⟨ha, Or.inl ((ih its).2 e)⟩
        | more _ _ _ _ hp ha e => exact ⟨ha, Or.inr ⟨hp, (ih (it :: its)).2 e⟩⟩

example : RxMatches [⟨.esc 'D', true⟩, ⟨.esc '.', false⟩, ⟨.lit 'T', false⟩] "ab.t".toList := by
  rw [← rx_match_iff_spec]; decide

/-! ## The global settings as written in the configuration file (fourth deepening) -/

/-- **yaml_entry_covers_iff.** The prefix that `netutil.Prefix.UnmarshalText` makes of an entry of
`blocked_client_subnets` covers exactly what the entry says: a bare address that one client, `addr/len`
the clients that agree with `addr` on the leading `len` bits (the address need not be masked). -/
theorem yaml_entry_covers_iff (y : YamlNet) (p : Prefix) (h : y.toPrefix = some p) (a : Addr) :
    p.contains a = true ↔ YamlCovers y a := by
  unfold YamlNet.toPrefix at h
  unfold YamlCovers
  cases hb : y.bits with
  | none =>
    simp only [hb, Option.some.injEq] at h
    subst h
    cases a with
    | mk a4 av =>
      by_cases h4 : y.is4 = a4
      · subst h4
        simp only [Prefix.contains, Nat.sub_self, Nat.shiftRight_zero, beq_self_eq_true, Bool.true_and, beq_iff_eq,
          Addr.mk.injEq, true_and]
      · have h4' : ¬ a4 = y.is4 := fun e => h4 e.symm
        simp [Prefix.contains, h4, h4']
  | some b =>
    simp only [hb] at h
    split at h
    · simp only [Option.some.injEq] at h
      subst h
      exact prefix_contains_bits _ a
    · cases h

/-- **yaml_nets_rejected_iff.** The program refuses to start exactly when some entry has a prefix length
beyond the width of its family (within the modelled shapes: well-formed addresses). -/
theorem yaml_nets_rejected_iff (ys : List YamlNet) :
    yamlNets ys = none ↔ ∃ y ∈ ys, ∃ b, y.bits = some b ∧ width y.is4 < b := by
  induction ys with
  | nil => simp [yamlNets]
  | cons y ys ih =>
    unfold yamlNets
    cases hp : y.toPrefix with
    | none =>
      simp only [List.mem_cons, exists_eq_or_imp, true_iff]
      left
      unfold YamlNet.toPrefix at hp
      cases hb : y.bits with
      | none => simp [hb] at hp
      | some b =>
        simp only [hb] at hp
        split at hp
        · cases hp
        · exact ⟨b, rfl, by omega⟩
    | some p =>
      have hno : ¬ ∃ b, y.bits = some b ∧ width y.is4 < b := by
        rintro ⟨b, hb, hw⟩
        unfold YamlNet.toPrefix at hp
        simp only [hb] at hp
        split at hp
        · omega
        · cases hp
      cases hn : yamlNets ys with
      | none => simp [List.mem_cons, ih.1 hn]
      | some ps =>
        simp only [List.mem_cons, exists_eq_or_imp, hno, false_or, false_iff, reduceCtorEq]
        intro hex
        rw [ih.2 hex] at hn
        cases hn

/-- **yaml_global_blocks_iff.** From the file to the verdict: the access manager built from the entries
blocks a client address (zone or not) iff some entry, read as written, covers it. -/
theorem yaml_global_blocks_iff (ys : List YamlNet) (ps : List Prefix) (h : yamlNets ys = some ps) (eng : Eng) (z : ZAddr) :
    ({ nets := ps, eng := eng } : Global).isBlockedIPZ z = true ↔ ∃ y ∈ ys, YamlCovers y z.addr := by
  induction ys generalizing ps with
  | nil =>
    simp only [yamlNets, Option.some.injEq] at h
    subst h
    simp [Global.isBlockedIPZ, matchNetsZ]
  | cons y ys ih =>
    unfold yamlNets at h
    cases hp : y.toPrefix with
    | none => simp [hp] at h
    | some p =>
      cases hn : yamlNets ys with
      | none => simp [hp, hn] at h
      | some qs =>
        simp only [hp, hn, Option.some.injEq] at h
        subst h
        have := ih qs hn
        simp only [Global.isBlockedIPZ, matchNetsZ, List.any_cons, Bool.or_eq_true, List.mem_cons, exists_eq_or_imp] at this ⊢
        rw [this]
        have hc : p.containsZ z.withoutZone = true ↔ YamlCovers y z.addr := by
          simp only [Prefix.containsZ, ZAddr.withoutZone, Bool.not_false, Bool.true_and]
          exact yaml_entry_covers_iff y p hp z.addr
        rw [hc]

example : yamlNets [⟨true, 0x01020300, some 8⟩, ⟨false, 0xfe800000000000000000000000000001, none⟩] =
      some [⟨true, 0x01020300, 8⟩, ⟨false, 0xfe800000000000000000000000000001, 128⟩] ∧
    yamlNets [⟨true, 0x01020300, some 33⟩] = none := by decide


/-! ## The device lookup and automatic devices (fifth deepening)

"Leaves no trace" also covers what happens *before* the decision: the device lookup can create an
automatic device through the backend.  The finder is an arbitrary state machine here. -/

/-- The global clauses are the first two of the decision list: a request is globally rejected iff the
access decision names a global clause, whatever the device result. -/
theorem global_reason_spec (g : Global) (r : Req) :
    (globalReason g r = .globalIP ↔ accessReason g r = .globalIP) ∧
    (globalReason g r = .globalHost ↔ accessReason g r = .globalHost) ∧
    (globalReason g r ≠ .pass ↔ (matchNets g.nets r.addr = true ∨
        engBlocked (g.eng (normQueryDomain r.qname) r.qtype) = true)) := by
  unfold globalReason accessReason Global.isBlockedIP Global.isBlockedHost
  by_cases h1 : matchNets g.nets r.addr = true
  · simp [h1]
  · by_cases h2 : engBlocked (g.eng (normQueryDomain r.qname) r.qtype) = true
    · simp [h1, h2]
    · simp [h1, h2]
      cases hd : r.dev.profAcc with
      | none => simp
      | some p => simp; split <;> simp

/-- The global decision does not look at the device result. -/
theorem global_reason_dev_irrelevant (g : Global) (r : Req) (d : DevRes) :
    globalReason g { r with dev := d } = globalReason g r := rfl

/-- **wrapF_outcome.** With the lookup inside, the handler's outcome is exactly what `wrap` — and hence every
theorem above — says for the device result the finder returns for this connection. -/
theorem wrapF_outcome {φ κ : Type} (g : Global) (find : φ → κ → φ × DevRes) (s : φ) (k : κ) (r : Req) :
    (wrapF g find s k r).2 = wrap g { r with dev := (find s k).2 } := by
  unfold wrapF wrap
  by_cases hp : r.port == 0
  · simp [hp]
  · simp only [hp]
    have hg := global_reason_spec g { r with dev := (find s k).2 }
    rw [global_reason_dev_irrelevant] at hg
    cases h : globalReason g r with
    | globalIP => simp [hg.1.mp h]
    | globalHost => simp [hg.2.1.mp h]
    | profile => simp
    | pass => simp

/-- **global_blocked_no_lookup.** A request from a globally blocked subnet or for a globally blocked name
(and likewise one with source port 0) leaves the device finder — profile database and backend — exactly
as it was, for every finder, every state and every connection data, and its outcome is silence: no
automatic device, no backend call, nothing written, no error. -/
theorem global_blocked_no_lookup {φ κ : Type} (g : Global) (find : φ → κ → φ × DevRes) (s : φ) (k : κ) (r : Req)
    (h : r.port = 0 ∨ matchNets g.nets r.addr = true ∨ engBlocked (g.eng (normQueryDomain r.qname) r.qtype) = true) :
    (wrapF g find s k r).1 = s ∧ (wrapF g find s k r).2.effects = [] ∧ (wrapF g find s k r).2.err = false ∧
      (wrapF g find s k r).2.info = none := by
  unfold wrapF
  by_cases hp : r.port == 0
  · simp [hp]
  · have hp' : r.port ≠ 0 := by simpa using hp
    have hb : globalReason g r ≠ .pass := (global_reason_spec g r).2.2.mpr (by
      rcases h with h | h | h
      · exact absurd h hp'
      · exact Or.inl h
      · exact Or.inr h)
    simp only [hp]
    cases hr : globalReason g r with
    | globalIP => simp
    | globalHost => simp
    | profile =>
      exfalso
      unfold globalReason at hr
      split at hr
      · cases hr
      · split at hr <;> cases hr
    | pass => exact absurd hr hb

/-- **lookup_iff.** Conversely the lookup runs for every other request: usable port, no global clause. -/
theorem lookup_runs {φ κ : Type} (g : Global) (find : φ → κ → φ × DevRes) (s : φ) (k : κ) (r : Req)
    (hp : r.port ≠ 0) (h1 : matchNets g.nets r.addr = false)
    (h2 : engBlocked (g.eng (normQueryDomain r.qname) r.qtype) = false) :
    (wrapF g find s k r).1 = (find s k).1 := by
  have hg : globalReason g r = .pass := by
    unfold globalReason Global.isBlockedIP Global.isBlockedHost
    simp [h1, h2]
  have hp' : (r.port == 0) = false := by simpa using hp
  simp [wrapF, hp', hg]

/-- The global part of the decision as a Boolean, for histories. -/
def globallyDropped (g : Global) (r : Req) : Bool :=
  r.port == 0 || matchNets g.nets r.addr || engBlocked (g.eng (normQueryDomain r.qname) r.qtype)

/-- **global_blocked_invisible_to_finder.** Over any history and any finder, deleting the globally rejected
requests changes neither the final state of the finder (devices created, backend calls) nor the outcome of
any other request. -/
theorem global_blocked_invisible_to_finder {φ κ : Type} (g : Global) (find : φ → κ → φ × DevRes) (s : φ)
    (l : List (κ × Req)) :
    (runF g find s (l.filter (fun e => !globallyDropped g e.2))).1 = (runF g find s l).1 ∧
    (runF g find s (l.filter (fun e => !globallyDropped g e.2))).2 =
      ((l.zip (runF g find s l).2).filter (fun e => !globallyDropped g e.1.2)).map (·.2) := by
  induction l generalizing s with
  | nil => simp [runF]
  | cons e l ih =>
    obtain ⟨k, r⟩ := e
    by_cases hb : globallyDropped g r = true
    · have h : r.port = 0 ∨ matchNets g.nets r.addr = true ∨
          engBlocked (g.eng (normQueryDomain r.qname) r.qtype) = true := by
        simp [globallyDropped] at hb
        rcases hb with (hb | hb) | hb
        · exact Or.inl hb
        · exact Or.inr (Or.inl hb)
        · exact Or.inr (Or.inr hb)
      have hs := (global_blocked_no_lookup g find s k r h).1
      simp only [List.filter_cons, hb, Bool.not_true, runF, hs, List.zip_cons_cons]
      simpa using ih s
    · have hb' : globallyDropped g r = false := by simpa using hb
      simp only [List.filter_cons, hb', Bool.not_false, if_true, runF, List.zip_cons_cons, List.map_cons]
      obtain ⟨i1, i2⟩ := ih (wrapF g find s k r).1
      exact ⟨i1, by simp [i2]⟩

/-- **auto_create_iff.** The modelled finder (`deviceByExtID` over the profile database) calls the backend exactly
when the connection names an existing profile with automatic devices and a human-readable ID no device of that
profile has; otherwise the database and the backend stay as they were. -/
theorem auto_create_iff (db : AutoDB) (k : ExtKey) :
    ((db.find k).1.creates = db.creates + 1 ↔
      ∃ i e, k.prof = some i ∧ db.profs.find? (fun e => e.1 == i) = some e ∧ e.2.1 = true ∧
        db.devs.contains (i, k.hid) = false) ∧
    ((db.find k).1.creates ≠ db.creates + 1 → (db.find k).1.creates = db.creates ∧ (db.find k).1.devs = db.devs) := by
  unfold AutoDB.find
  cases hk : k.prof with
  | none => simp
  | some i =>
    cases hf : db.profs.find? (fun e => e.1 == i) with
    | none => simp [hf]
    | some e =>
      obtain ⟨j, auto, acc⟩ := e
      by_cases hd : (i, k.hid) ∈ db.devs
      · simp [hf, hd]
      · cases auto <;> cases hb : k.backendFails <;> simp [hf, hd]

/-- The witness: profile 0 allows automatic devices and blocks `10.1.2.0/24`; the global settings block `10.9.0.0/16`. -/
def autoWitnessDB : AutoDB :=
  { profs := [(0, true, some { allowedNets := [], blockedNets := [⟨true, 0x0A010200, 24⟩], allowedASN := [], blockedASN := [],
                               eng := fun _ _ => ⟨false, none⟩ })] }
def autoWitnessGlobal : Global := { nets := [⟨true, 0x0A090000, 16⟩], eng := fun _ _ => ⟨false, none⟩ }
def autoWitnessKey : ExtKey := { prof := some 0, hid := "phone" }

/-- **pre_fix_auto_device_counterexample.** Before the repair the lookup came first: a DoT client in the globally
blocked `10.9.0.0/16` naming `otr-prof0-phone` was dropped silently — after one `CreateAutoDevice` call to the backend
and with a new device in the profile database.  The repaired order leaves both untouched. -/
theorem pre_fix_auto_device_counterexample :
    let r : Req := { addr := ⟨true, 0x0A090001⟩, port := 4000, qname := "ok.test.", qtype := 1, asn := none, ecsBad := false, dev := .none }
    blocked autoWitnessGlobal r = true ∧
    (wrapFPreFix autoWitnessGlobal AutoDB.find autoWitnessDB autoWitnessKey r).1.creates = 1 ∧
    (wrapFPreFix autoWitnessGlobal AutoDB.find autoWitnessDB autoWitnessKey r).1.devs = [(0, "phone")] ∧
    (wrapFPreFix autoWitnessGlobal AutoDB.find autoWitnessDB autoWitnessKey r).2.effects = [] ∧
    (wrapF autoWitnessGlobal AutoDB.find autoWitnessDB autoWitnessKey r).1.creates = 0 ∧
    (wrapF autoWitnessGlobal AutoDB.find autoWitnessDB autoWitnessKey r).1.devs = [] := by decide

/-- **profile_blocked_lookup_happens.** What the repair cannot reach: a request that only its profile rejects has
necessarily been through the lookup — the finder's state is the state after `find`, for every finder. -/
theorem profile_blocked_lookup_happens {φ κ : Type} (g : Global) (find : φ → κ → φ × DevRes) (s : φ) (k : κ) (r : Req)
    (h : (wrapF g find s k r).2.why = "profile") :
    (wrapF g find s k r).1 = (find s k).1 ∧ accessReason g { r with dev := (find s k).2 } = .profile := by
  unfold wrapF at h ⊢
  by_cases hp : r.port == 0
  · simp [hp] at h
  · simp only [hp] at h ⊢
    cases hr : globalReason g r with
    | globalIP => simp [hr] at h
    | globalHost => simp [hr] at h
    | profile =>
      refine ⟨by simp, ?_⟩
      simp only [hr] at h
      have hp' : ((r.port == 0) = false) := by simpa using hp
      unfold wrap at h
      simp only [hp'] at h
      cases ha : accessReason g { r with dev := (find s k).2 } <;> simp [ha] at h ⊢
      all_goals (revert h; cases (find s k).2 <;> simp <;> split <;> simp)
    | pass =>
      refine ⟨by simp, ?_⟩
      simp only [hr] at h
      have hp' : ((r.port == 0) = false) := by simpa using hp
      unfold wrap at h
      simp only [hp'] at h
      cases ha : accessReason g { r with dev := (find s k).2 } <;> simp [ha] at h ⊢
      all_goals (revert h; cases (find s k).2 <;> simp <;> split <;> simp)

/-- **profile_blocked_creates_device_counterexample** (known finding).  A DoT client in `10.1.2.0/24`, which profile 0
blocks, naming the new device `otr-prof0-phone`: the repaired handler drops the request silently — and the device has
been created (one backend call, one new entry in the profile database). -/
theorem profile_blocked_creates_device_counterexample :
    let r : Req := { addr := ⟨true, 0x0A010209⟩, port := 4000, qname := "ok.test.", qtype := 1, asn := none, ecsBad := false, dev := .none }
    (wrapF autoWitnessGlobal AutoDB.find autoWitnessDB autoWitnessKey r).2.why = "profile" ∧
    (wrapF autoWitnessGlobal AutoDB.find autoWitnessDB autoWitnessKey r).2.effects = [] ∧
    (wrapF autoWitnessGlobal AutoDB.find autoWitnessDB autoWitnessKey r).1.creates = 1 ∧
    (wrapF autoWitnessGlobal AutoDB.find autoWitnessDB autoWitnessKey r).1.devs = [(0, "phone")] := by decide

/-- Non-vacuity: an unblocked client creates its device once and is served; the same ID again creates nothing. -/
example :
    let r : Req := { addr := ⟨true, 0x0B000001⟩, port := 4000, qname := "ok.test.", qtype := 1, asn := none, ecsBad := false, dev := .none }
    let st := wrapF autoWitnessGlobal AutoDB.find autoWitnessDB autoWitnessKey r
    st.1.creates = 1 ∧ st.2.effects = [.next] ∧
      (wrapF autoWitnessGlobal AutoDB.find st.1 autoWitnessKey r).1.creates = 1 := by decide

/-- Non-vacuity of the history theorem: the blocked request in the middle changes nothing. -/
example :
    let ok : Req := { addr := ⟨true, 0x0B000001⟩, port := 4000, qname := "ok.test.", qtype := 1, asn := none, ecsBad := false, dev := .none }
    let bad : Req := { ok with addr := ⟨true, 0x0A090001⟩ }
    (runF autoWitnessGlobal AutoDB.find autoWitnessDB
        [(autoWitnessKey, ok), ({ autoWitnessKey with hid := "tv" }, bad), (autoWitnessKey, ok)]).1.devs = [(0, "phone")] := by decide

#print axioms blocked_iff
#print axioms global_reason_spec
#print axioms global_reason_dev_irrelevant
#print axioms wrapF_outcome
#print axioms global_blocked_no_lookup
#print axioms lookup_runs
#print axioms global_blocked_invisible_to_finder
#print axioms auto_create_iff
#print axioms pre_fix_auto_device_counterexample
#print axioms profile_blocked_lookup_happens
#print axioms profile_blocked_creates_device_counterexample
#print axioms prefix_contains_iff
#print axioms prefix_contains_bits
#print axioms blocked_iff_rejected
#print axioms zone_irrelevant
#print axioms zoned_client_rejected_iff
#print axioms pre_fix_zoned_client_counterexample
#print axioms converted_nets_iff
#print axioms backend_access_blocked_iff
#print axioms cidr_roundtrip
#print axioms backend_conf_valid
#print axioms restart_preserves_access
#print axioms restart_preserves_backend_access
#print axioms wire_cases
#print axioms silent_iff
#print axioms pool_irrelevant
#print axioms pre_fix_device_error_counterexample
#print axioms blocked_no_trace
#print axioms blocked_invisible_to_downstream
#print axioms allow_over_block
#print axioms allow_over_block_proceeds
#print axioms global_before_profile
#print axioms unblocked_proceeds
#print axioms device_attributes_irrelevant
#print axioms profile_block_whatever_switches
#print axioms rule_engine_blocks_iff
#print axioms pre_fix_bad_ecs_counterexample
#print axioms pre_fix_root_query_counterexample
#print axioms pattern_matches_iff_spec
#print axioms net_rule_matches_iff_spec
#print axioms domain_rule_matches_iff
#print axioms accept_iff
#print axioms server_wire_blocked
#print axioms blocked_server_no_later_stage
#print axioms blocked_silent_on_server_iff
#print axioms blocked_silent_on_wire_partial
#print axioms server_rejected_message_counterexample
#print axioms doq_no_response_counterexample

#print axioms lower_rule_keeps_regex
#print axioms lower_rule_plain
#print axioms regex_rule_reaches_engine_as_written
#print axioms pre_fix_regex_rule_counterexample
#print axioms rx_match_iff_spec
#print axioms yaml_entry_covers_iff
#print axioms yaml_nets_rejected_iff
#print axioms yaml_global_blocks_iff
end Agd.Access
#print axioms Agd.Tie.TrC10.translation_complete
#print axioms Agd.Tie.TrC10.matchASNs_spec
#print axioms Agd.Tie.TrC10.allowed_over_blocked
#print axioms Agd.Tie.TrC10.profile_blocked_iff
#print axioms Agd.Tie.TrC10.access_blocked_iff
#print axioms Agd.Tie.TrC10.access_order
#print axioms Agd.Tie.TrC10.blocked_reaches_nothing
#print axioms Agd.Tie.TrC10.global_blocked_does_nothing
#print axioms Agd.Tie.TrC10.access_checked_first
#print axioms Agd.Tie.TrC10.unblocked_is_processed
#print axioms Agd.Tie.TrC10.backend_access_total
#print axioms Agd.Tie.TrC10.backend_access_enabled_iff
#print axioms Agd.Tie.TrC10.cache_access_present_iff
#print axioms Agd.Tie.TrC10.lowerRule_tr
