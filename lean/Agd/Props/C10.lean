import Agd.Lemmas.Access
import Agd.Tie.C10
/-!
# C10 — access-blocked clients and names are dropped silently and leave no trace

Property theorems only.  The model is `Agd/Model/Access.lean`, helper lemmas are in
`Agd/Lemmas/Access.lean`.  Every theorem about the middleware quantifies over *all* urlfilter engines
(`Global.eng`, `ProfAcc.eng` are arbitrary functions), all subnet and ASN lists, all addresses, ports,
names, types, locations and device-finder results.
-/
namespace Agd.Access

/-! ## Who is blocked -/

/-- **blocked_iff.** A request is rejected exactly when its client address is in a globally blocked
subnet, or the global engine blocks its question, or it has a profile whose access settings reject it:
a blocked ASN or subnet with no allowed ASN or subnet, or a blocked-name rule.  Nothing else is
rejected ("every request that no rule rejects is processed normally" is `unblocked_proceeds`). -/
theorem blocked_iff (g : Global) (r : Req) :
    blocked g r = true ↔
      matchNets g.nets r.addr = true ∨
      engBlocked (g.eng (normQueryDomain r.qname) r.qtype) = true ∨
      ∃ p, r.dev = .ok (some p) ∧
        (((matchASNs p.allowedASN r.asn = false ∧ matchNets p.allowedNets r.addr = false) ∧
            (matchASNs p.blockedASN r.asn = true ∨ matchNets p.blockedNets r.addr = true)) ∨
          engBlocked (p.eng (normQueryDomain r.qname) r.qtype) = true) := by
  unfold blocked accessReason Global.isBlockedIP Global.isBlockedHost
  by_cases h1 : matchNets g.nets r.addr = true
  · simp [h1]
  · by_cases h2 : engBlocked (g.eng (normQueryDomain r.qname) r.qtype) = true
    · simp [h1, h2]
    · cases hd : r.dev with
      | ok acc =>
        cases acc with
        | none => simp [h1, h2, DevRes.profAcc]
        | some p =>
          simp only [DevRes.profAcc, ProfAcc.isBlocked, ProfAcc.isBlockedByNets, ProfAcc.isBlockedByHostsEng]
          by_cases a1 : matchASNs p.allowedASN r.asn = true <;>
            by_cases a2 : matchNets p.allowedNets r.addr = true <;>
            by_cases a3 : matchASNs p.blockedASN r.asn = true <;>
            by_cases a4 : matchNets p.blockedNets r.addr = true <;>
            by_cases a5 : engBlocked (p.eng (normQueryDomain r.qname) r.qtype) = true <;>
            simp [h1, h2, a1, a2, a3, a4, a5]
      | none => simp [h1, h2, DevRes.profAcc]
      | authFail => simp [h1, h2, DevRes.profAcc]
      | unknownDedicated => simp [h1, h2, DevRes.profAcc]
      | error => simp [h1, h2, DevRes.profAcc]

/-- Non-vacuity: a client inside a blocked /24 of its profile, not in any allowed set, is rejected. -/
example :
    blocked { nets := [], eng := fun _ _ => ⟨false, none⟩ }
      { addr := ⟨true, 0xC0000207⟩, port := 4000, qname := "ok.test.", qtype := 1, asn := some 7, ecsBad := false,
        dev := .ok (some { allowedNets := [⟨true, 0xC0000201, 32⟩], blockedNets := [⟨true, 0xC0000200, 24⟩],
                           allowedASN := [1], blockedASN := [42], eng := fun _ _ => ⟨false, none⟩ }) } = true := by
  decide

/-- **prefix_contains_iff.** Subnet membership in the model is equality of the leading `bits` bits. -/
theorem prefix_contains_iff (p : Prefix) (a : Addr) :
    p.contains a = true ↔
      p.is4 = a.is4 ∧ a.val / 2 ^ (width a.is4 - p.bits) = p.val / 2 ^ (width a.is4 - p.bits) := by
  simp [Prefix.contains, Nat.shiftRight_eq_div_pow]

example : (⟨true, 0x0A010200, 24⟩ : Prefix).contains ⟨true, 0x0A0102FF⟩ = true ∧
    (⟨true, 0x0A010200, 24⟩ : Prefix).contains ⟨true, 0x0A010300⟩ = false ∧
    (⟨true, 0x0A010200, 24⟩ : Prefix).contains ⟨false, 0x0A0102FF⟩ = false := by decide

/-- **prefix_contains_bits.** … equivalently, bit by bit: the address and the prefix address agree on
every bit above the host part (bit `i` counted from the least significant one; for an address below
`2 ^ width` these are exactly the leading `bits` bits). -/
theorem prefix_contains_bits (p : Prefix) (a : Addr) : p.contains a = true ↔ InSubnet p a := by
  simp [Prefix.contains, InSubnet, shiftRight_eq_iff_testBit]

example : InSubnet ⟨true, 0x0A010200, 24⟩ ⟨true, 0x0A0102FF⟩ ∧ ¬ InSubnet ⟨true, 0x0A010200, 24⟩ ⟨true, 0x0A010300⟩ := by
  rw [← prefix_contains_bits, ← prefix_contains_bits]; decide

/-- **blocked_iff_rejected.** The executable decision equals the declarative reading of the statement
(`Rejected`: written with `∃ subnet ∈ list`, bit-level subnet membership and `∃ ASN`, without any of
the model's list-scanning functions). -/
theorem blocked_iff_rejected (g : Global) (r : Req) : blocked g r = true ↔ Rejected g r := by
  have nets : ∀ (l : List Prefix) (a : Addr), matchNets l a = true ↔ ∃ n ∈ l, InSubnet n a := by
    intro l a
    simp [matchNets, List.any_eq_true, prefix_contains_bits]
  have asns : ∀ (l : List Nat) (o : Option Nat), matchASNs l o = true ↔ AsnIn l o := by
    intro l o
    cases o <;> simp [matchASNs, AsnIn]
  have nnets : ∀ (l : List Prefix) (a : Addr), matchNets l a = false ↔ ¬ ∃ n ∈ l, InSubnet n a := by
    intro l a; rw [← nets]; simp
  have nasns : ∀ (l : List Nat) (o : Option Nat), matchASNs l o = false ↔ ¬ AsnIn l o := by
    intro l o; rw [← asns]; simp
  rw [blocked_iff]
  unfold Rejected Allowed NameBlocked
  simp only [nets, asns, nnets, nasns, not_or]

/-- Non-vacuity of `Rejected`: blocked ASN, not allowed. -/
example :
    Rejected { nets := [], eng := fun _ _ => ⟨false, none⟩ }
      { addr := ⟨true, 0xC0000207⟩, port := 4000, qname := "ok.test.", qtype := 1, asn := some 42, ecsBad := false,
        dev := .ok (some { allowedNets := [⟨true, 0xC0000201, 32⟩], blockedNets := [],
                           allowedASN := [1], blockedASN := [42], eng := fun _ _ => ⟨false, none⟩ }) } := by
  rw [← blocked_iff_rejected]; decide

/-! ## Blocked means silent and traceless -/

/-- **blocked_no_trace.** A rejected request makes neither the middleware nor the server do anything
that is visible outside: the middleware writes no response (not even FORMERR for a malformed ECS
option), does not call the next stage — so rate limiting, caches, resolution, filtering, query log,
billing and statistics, which all live behind `next`, never see it — builds no request information for
a later stage, and returns no error, so the server writes no SERVFAIL either (`wire = []`).  Holds
whatever the port, the device-finder result (including its errors) and the ECS option. -/
theorem blocked_no_trace (g : Global) (r : Req) (h : blocked g r = true) :
    (wrap g r).effects = [] ∧ (wrap g r).err = false ∧ (wrap g r).info = none ∧ wire g r = [] := by
  refine ⟨wrap_blocked_effects g r h, wrap_blocked_err g r h, wrap_blocked_info g r h, ?_⟩
  simp [wire, wrap_blocked_effects g r h, wrap_blocked_err g r h]

example :
    wire { nets := [⟨true, 0x0A010200, 24⟩], eng := fun _ _ => ⟨false, none⟩ }
      { addr := ⟨true, 0x0A010209⟩, port := 4000, qname := "ok.test.", qtype := 1, asn := none, ecsBad := true,
        dev := .error } = [] := by decide

/-- **wire_cases.** The complete table of what one request causes, for every request: nothing for a
spoofed port, nothing for a rejected request, and otherwise — "processed normally" — nothing for an
unknown dedicated address, the server's SERVFAIL for a device-finder error, FORMERR (and the server's
SERVFAIL for the returned error) for a malformed ECS option, and exactly one call of the next stage in
every other case. -/
theorem wire_cases (g : Global) (r : Req) :
    wire g r =
      if r.port = 0 then []
      else if blocked g r = true then []
      else match r.dev with
        | .unknownDedicated => []
        | .error => [.servfail]
        | _ => if r.ecsBad then [.formerr, .servfail] else [.next] := by
  by_cases hp : r.port = 0
  · simp [wire, wrap, hp]
  · by_cases hb : blocked g r = true
    · simp [hp, hb, (blocked_no_trace g r hb).2.2.2]
    · have hb' : blocked g r = false := by simpa using hb
      have hr : accessReason g r = .pass := by simpa [blocked] using hb'
      have hp' : (r.port == 0) = false := by simpa using hp
      simp only [hp, hb', if_false, Bool.false_eq_true]
      unfold wire wrap
      simp only [hp', hr]
      cases r.dev <;> simp <;> split <;> simp_all

/-- **silent_iff.** A request causes nothing at all exactly when its source port is 0, a rule rejects
it, or it came to an unknown dedicated address — nothing else is ever dropped by this stage. -/
theorem silent_iff (g : Global) (r : Req) :
    wire g r = [] ↔ r.port = 0 ∨ blocked g r = true ∨ r.dev matches .unknownDedicated := by
  rw [wire_cases]
  by_cases hp : r.port = 0
  · simp [hp]
  · by_cases hb : blocked g r = true
    · simp [hp, hb]
    · simp only [hp, hb, if_false, false_or]
      cases r.dev <;> simp <;> split <;> simp

/-- **blocked_invisible_to_downstream.** Over any history of requests and for an arbitrary stateful
downstream (`next : σ → Req → σ × Option ρ` — rate limiter, caches, resolver, filters, query log,
billing), deleting the rejected requests from the history changes neither the final downstream state
nor what any other client receives; and each rejected request receives nothing. -/
theorem blocked_invisible_to_downstream {σ ρ : Type} (g : Global) (next : σ → Req → σ × Option ρ)
    (s : σ) (rs : List Req) :
    (run g next s (rs.filter (fun r => !blocked g r))).1 = (run g next s rs).1 ∧
    (run g next s (rs.filter (fun r => !blocked g r))).2 =
      (run g next s rs).2.filter (fun e => !blocked g e.1) ∧
    ∀ e ∈ (run g next s rs).2, blocked g e.1 = true → e.2 = Resp.nothing := by
  induction rs generalizing s with
  | nil => simp [run]
  | cons r rs ih =>
    by_cases hb : blocked g r = true
    · have hs := serve_blocked g next s r hb
      obtain ⟨i1, i2, i3⟩ := ih s
      simp only [List.filter_cons, hb, Bool.not_true, run, hs]
      refine ⟨i1, by simpa [hb] using i2, ?_⟩
      intro e he
      rcases List.mem_cons.mp he with rfl | he
      · intro _; rfl
      · exact i3 e he
    · have hb' : blocked g r = false := by simpa using hb
      obtain ⟨i1, i2, i3⟩ := ih (serve g next s r).1
      simp only [List.filter_cons, hb', Bool.not_false, if_true, run]
      refine ⟨i1, by simpa [hb'] using i2, ?_⟩
      intro e he
      rcases List.mem_cons.mp he with rfl | he
      · intro h; simp [hb'] at h
      · exact i3 e he

/-- Non-vacuity: a history with a rejected request between two served ones; the downstream counts calls. -/
example :
    let g : Global := { nets := [⟨true, 0x0A010200, 24⟩], eng := fun _ _ => ⟨false, none⟩ }
    let ok : Req := { addr := ⟨true, 9⟩, port := 5, qname := "a.", qtype := 1, asn := none, ecsBad := false, dev := .none }
    let bad : Req := { ok with addr := ⟨true, 0x0A010209⟩ }
    (run g (fun (n : Nat) _ => (n + 1, some n)) 0 [ok, bad, ok]).1 = 2 ∧ blocked g bad = true ∧ blocked g ok = false := by
  decide

/-! ## Precedence -/

/-- **allow_over_block.** Within a profile, a client in an allowed subnet or from an allowed ASN is
never rejected by the profile's blocked subnets or ASNs, whatever those contain (overlapping, equal,
wider or narrower prefixes). -/
theorem allow_over_block (p : ProfAcc) (a : Addr) (l : Option Nat)
    (h : matchNets p.allowedNets a = true ∨ matchASNs p.allowedASN l = true) :
    p.isBlockedByNets a l = false := by
  unfold ProfAcc.isBlockedByNets
  rcases h with h | h <;> simp [h]

/-- … and such a request is processed normally unless a global rule or a name rule rejects it. -/
theorem allow_over_block_proceeds (g : Global) (r : Req) (p : ProfAcc) (hd : r.dev = .ok (some p))
    (h : matchNets p.allowedNets r.addr = true ∨ matchASNs p.allowedASN r.asn = true)
    (hg1 : matchNets g.nets r.addr = false)
    (hg2 : engBlocked (g.eng (normQueryDomain r.qname) r.qtype) = false)
    (hn : engBlocked (p.eng (normQueryDomain r.qname) r.qtype) = false) :
    blocked g r = false := by
  have := allow_over_block p r.addr r.asn h
  simp [blocked, accessReason, Global.isBlockedIP, Global.isBlockedHost, hg1, hg2, hd, DevRes.profAcc,
    ProfAcc.isBlocked, ProfAcc.isBlockedByHostsEng, hn, this]

/-- Non-vacuity: the address is in a blocked /24 *and* an allowed /32, the ASN is blocked. -/
example :
    let p : ProfAcc := { allowedNets := [⟨true, 0xC0000201, 32⟩], blockedNets := [⟨true, 0xC0000200, 24⟩],
                         allowedASN := [1], blockedASN := [42], eng := fun _ _ => ⟨false, none⟩ }
    matchNets p.allowedNets ⟨true, 0xC0000201⟩ = true ∧ matchNets p.blockedNets ⟨true, 0xC0000201⟩ = true ∧
      matchASNs p.blockedASN (some 42) = true ∧ p.isBlockedByNets ⟨true, 0xC0000201⟩ (some 42) = false ∧
      p.isBlockedByNets ⟨true, 0xC0000202⟩ (some 7) = true := by
  decide

/-- **global_before_profile.** A globally blocked address or name is rejected whatever the profile
says — an allowed subnet or ASN of the profile does not override global access. -/
theorem global_before_profile (g : Global) (r : Req)
    (h : matchNets g.nets r.addr = true ∨ engBlocked (g.eng (normQueryDomain r.qname) r.qtype) = true) :
    blocked g r = true ∧ accessReason g r ≠ .profile := by
  unfold blocked accessReason Global.isBlockedIP Global.isBlockedHost
  rcases h with h | h
  · simp [h]
  · by_cases h1 : matchNets g.nets r.addr = true <;> simp [h, h1]

example :
    accessReason { nets := [⟨true, 0xC0000200, 24⟩], eng := fun _ _ => ⟨false, none⟩ }
      { addr := ⟨true, 0xC0000201⟩, port := 4000, qname := "ok.test.", qtype := 1, asn := some 1, ecsBad := false,
        dev := .ok (some { allowedNets := [⟨true, 0xC0000201, 32⟩], blockedNets := [], allowedASN := [1],
                           blockedASN := [], eng := fun _ _ => ⟨false, none⟩ }) } = .globalIP := by decide

/-! ## Everything else is processed normally -/

/-- **unblocked_proceeds.** A request that no rule rejects (and that the stages around access control
do not drop: non-zero source port, device finder neither failed nor reported an unknown dedicated
address) reaches the next stage exactly once, with request information built from this very request —
or, with a malformed ECS option, is answered FORMERR exactly once. -/
theorem unblocked_proceeds (g : Global) (r : Req) (hb : blocked g r = false) (hp : r.port ≠ 0)
    (hu : ¬ r.dev matches .unknownDedicated) (he : ¬ r.dev matches .error) :
    (wrap g r).effects = (if r.ecsBad then [.formerr] else [.next]) ∧
    (r.ecsBad = false → (wrap g r).info = some (reqInfo r) ∧ (wrap g r).err = false) := by
  unfold blocked at hb
  have hr : accessReason g r = .pass := by simpa using hb
  unfold wrap
  have hp' : (r.port == 0) = false := by simpa using hp
  simp only [hp', hr]
  cases hd : r.dev <;> simp_all <;> split <;> simp_all

example :
    (wrap { nets := [⟨true, 0x0A010200, 24⟩], eng := fun _ _ => ⟨false, none⟩ }
      { addr := ⟨true, 0x0A010309⟩, port := 4000, qname := "Ok.test.", qtype := 1, asn := none, ecsBad := false,
        dev := .authFail }).info = some ⟨"ok.test", 1, 1, ⟨true, 0x0A010309⟩, none, false, .authFail⟩ := by decide

/-- **pool_irrelevant.** The request information is taken from a pool and may still hold the data of an
earlier (possibly rejected) request; after `newRequestInfo` and the assignments in `Wrap` nothing of
it is left: the result is a function of the current request alone. -/
theorem pool_irrelevant (pooled : RI) (r : Req) : fillInfo pooled r = reqInfo r := rfl

example : fillInfo ⟨"secret.blocked.test", 16, 3, ⟨false, 7⟩, some 42, true, .ok⟩
    { addr := ⟨true, 9⟩, port := 5, qname := "a.", qtype := 1, asn := none, ecsBad := false, dev := .none } =
    ⟨"a", 1, 1, ⟨true, 9⟩, none, false, .none⟩ := by decide

/-! ## Name rules over the modelled grammar -/

/-- **rule_engine_blocks_iff.** Over the rule grammar (`dom`, `||dom^`, `*`, `@@`, `$important`,
`$dnstype=[~]T`), the engine + wrapper block a name and type exactly when it is non-empty and: no
important exception matches, and an important blocking rule matches, or no exception matches and some
blocking rule (network-style or hosts-style) matches. -/
theorem rule_engine_blocks_iff (rules : List Rule) (h : String) (qt : Nat) :
    engBlocked (ruleEngine rules h qt) = nameBlockedSpec rules h qt :=
  ruleEngine_blocked rules h qt

/-- Non-vacuity: `||net.test^`, `@@||allow.net.test^`, `||imp.allow.net.test^$important`, `*$dnstype=NS`. -/
example :
    let rules : List Rule := [⟨.net, "net.test", false, false, .all⟩, ⟨.net, "Allow.net.test", true, false, .all⟩,
      ⟨.net, "imp.allow.net.test", false, true, .all⟩, ⟨.any, "", false, false, .only 2⟩, ⟨.host, "host.test", false, false, .all⟩]
    engBlocked (ruleEngine rules "a.net.test" 1) = true ∧ engBlocked (ruleEngine rules "anet.test" 1) = false ∧
      engBlocked (ruleEngine rules "x.allow.net.test" 1) = false ∧ engBlocked (ruleEngine rules "imp.allow.net.test" 1) = true ∧
      engBlocked (ruleEngine rules "." 2) = true ∧ engBlocked (ruleEngine rules "." 1) = false ∧
      engBlocked (ruleEngine rules "host.test" 28) = true ∧ engBlocked (ruleEngine rules "x.host.test" 28) = false ∧
      engBlocked (ruleEngine rules "" 2) = false := by
  decide

/-! ## The two repaired defects: counter-examples against the code as it was -/

/-- **pre_fix_bad_ecs_counterexample.** Before the repair (`wrapPre`: ECS error handled first) a
client in a globally blocked subnet that sent a malformed ECS option received a FORMERR response. -/
theorem pre_fix_bad_ecs_counterexample :
    ¬ ∀ (g : Global) (r : Req), blocked g r = true → (wrapPre accessReason g r).effects = [] := by
  intro h
  have := h { nets := [⟨true, 0x0A010200, 24⟩], eng := fun _ _ => ⟨false, none⟩ }
    { addr := ⟨true, 0x0A010209⟩, port := 4000, qname := "ok.test.", qtype := 1, asn := none, ecsBad := true,
      dev := .none } (by decide)
  revert this
  decide

/-- **pre_fix_root_query_counterexample.** Before the repair (`accessReasonPre`: the global engine saw
the empty host for the root domain) the query `. NS` reached the next stage although the global rule
`*$dnstype=NS` blocks it (and `com. NS` was dropped). -/
theorem pre_fix_root_query_counterexample :
    ¬ ∀ (rules : List Rule) (r : Req),
        engBlocked (ruleEngine rules (normQueryDomain r.qname) r.qtype) = true →
        (wrapPre accessReasonPre { nets := [], eng := ruleEngine rules } r).effects = [] := by
  intro h
  have := h [⟨.any, "", false, false, .only 2⟩]
    { addr := ⟨true, 9⟩, port := 4000, qname := ".", qtype := 2, asn := none, ecsBad := false, dev := .none }
    (by decide)
  revert this
  decide

/-- **pre_fix_device_error_counterexample.** Before the third repair (`wrapDevFirst`: device result
handled before the access check) a client in a globally blocked subnet whose request made the device
finder fail (e.g. a malformed device-ID option) got a SERVFAIL from the server. -/
theorem pre_fix_device_error_counterexample :
    ¬ ∀ (g : Global) (r : Req), blocked g r = true → wireOf (wrapDevFirst g r) = [] := by
  intro h
  have := h { nets := [⟨true, 0x7F000000, 8⟩], eng := fun _ _ => ⟨false, none⟩ }
    { addr := ⟨true, 0x7F000001⟩, port := 4000, qname := "ok.test.", qtype := 1, asn := none, ecsBad := false,
      dev := .error } (by decide)
  revert this
  decide

/-- The repaired handler drops all three witnesses. -/
example :
    (wrap { nets := [], eng := ruleEngine [⟨.any, "", false, false, .only 2⟩] }
      { addr := ⟨true, 9⟩, port := 4000, qname := ".", qtype := 2, asn := none, ecsBad := false, dev := .none }).effects = [] ∧
    (wrap { nets := [⟨true, 0x0A010200, 24⟩], eng := fun _ _ => ⟨false, none⟩ }
      { addr := ⟨true, 0x0A010209⟩, port := 4000, qname := "ok.test.", qtype := 1, asn := none, ecsBad := true,
        dev := .none }).effects = [] ∧
    wire { nets := [⟨true, 0x7F000000, 8⟩], eng := fun _ _ => ⟨false, none⟩ }
      { addr := ⟨true, 0x7F000001⟩, port := 4000, qname := "ok.test.", qtype := 1, asn := none, ecsBad := false,
        dev := .error } = [] := by decide

#print axioms blocked_iff
#print axioms prefix_contains_iff
#print axioms prefix_contains_bits
#print axioms blocked_iff_rejected
#print axioms wire_cases
#print axioms silent_iff
#print axioms pool_irrelevant
#print axioms pre_fix_device_error_counterexample
#print axioms blocked_no_trace
#print axioms blocked_invisible_to_downstream
#print axioms allow_over_block
#print axioms allow_over_block_proceeds
#print axioms global_before_profile
#print axioms unblocked_proceeds
#print axioms rule_engine_blocks_iff
#print axioms pre_fix_bad_ecs_counterexample
#print axioms pre_fix_root_query_counterexample

end Agd.Access
