import Agd.Tie.TrC20
import Agd.Lemmas.Config
import Agd.Lemmas.ConfigShape
import Agd.Tie.C20
import Agd.Model.ConfigBackend
/-!
# C20 — a configuration that passes validation cannot make request handling fail

Property theorems only.  `validate false` is the validation of the repaired tree, `validate true`
the tree as found.  Helper lemmas live in `Agd/Lemmas/Config.lean`.
-/
namespace Agd.Config

/-- **accepted_meets_documented.** In an accepted configuration no property breaks its documented
constraint: values documented as positive are positive, key lengths fit their address family,
`resume ≤ stop`, enum values are known, conditional requirements (`ecs_size` for `ecs`, KV TTL
ranges, `sde` needs `ede`) hold and every required section is present. -/
theorem accepted_meets_documented (c : Config) (h : validate false c = []) :
    ∀ f : F, violates c f = false :=
  accepted_meets c h

example : validate false dist = [] := by decide
def exBoundary : Config :=
  { dist with v4Len := 32, v6Len := 128, caType := "ecs", caEcs := 1, kvType := "redis", kvTtl := 1000000,
              clStop := 6, clResume := 6, dnsIdle := 6553500000000, dnsUdp := 65535 }
example : validate false exBoundary = [] := by decide

set_option maxHeartbeats 4000000 in
/-- **validate_sound.** An accepted configuration satisfies every precondition of the
constructors and of the per-query code (`Safe`). -/
theorem validate_sound (c : Config) (h : validate false c = []) : Safe c := by
  simp [validate, valRatelimit, valAllow, valConn, valOpts, valKeyLen, valUpstream, valCache, valDnsdb,
    valDns, valBackend, valGeo, valKv_eq_nil, valCheck, valWeb, valSb, valFilters, valIface, valNetwork,
    valQueryLog, valFltGroups, valSrvGroups, valConnCheck, valAccess, valConnN] at h
  constructor <;> first | omega | (simp_all; done) | (simp_all; omega) | grind

/-- The channels of the interface listeners can be allocated (`8n ≤ maxAlloc - hchanSize`). -/
def ChanFits (c : Config) : Prop := c.pIl = true → c.ilBuf * 8 ≤ chanAllocLimit

/-- With safe values the start-up constructors do exactly this: nothing panics except the channel
allocation of the interface listeners when the configured buffer cannot be allocated at all. -/
theorem safe_build_eq (c : Config) (s : Safe c) :
    build c = if c.pIl = true ∧ c.ilBuf * 8 > chanAllocLimit then .error .chanAlloc else .ok () := by
  have h1 := s.conn; have h2 := s.caSize; have h3 := s.caEcs; have h4 := s.flSizes
  have h5 := s.sb; have h6 := s.ab; have h7 := s.geo; have h8 := s.il; have h9 := s.dnsTimeouts
  have h10 := s.caType
  have e1 : ¬ (c.clEnabled = true ∧ (c.clStop = 0 ∨ c.clResume > c.clStop)) := by
    intro ⟨a, b⟩; have := h1 a; omega
  have e2 : ¬ (c.pIl = true ∧ c.ilBuf < 0) := by intro ⟨a, b⟩; have := h8 a; omega
  have e3 : ¬ (c.dnsIdle < 0 ∨ c.dnsIdle > maxIdle) := by omega
  have l : ∀ f n, 0 < n → lru f n = .ok () := by intro f n h; simp [lru]; omega
  unfold build
  simp only [e1, e2, e3, if_false, l _ _ h4.1, l _ _ h4.2.1, l _ _ h4.2.2.1, l _ _ h5.1, l _ _ h6.1, l _ _ h7.1, l _ _ h7.2.1]
  by_cases hc : c.pIl = true ∧ c.ilBuf * 8 > chanAllocLimit
  · rcases (by omega : c.caSize = 0 ∨ 0 < c.caSize) with hs | hs
    · simp [cacheType, hs, hc, bind, Except.bind, pure, Except.pure, throw, throwThe, MonadExceptOf.throw]
    · have ne : c.caSize ≠ 0 := by omega
      rcases h10 with ht | ht
      · simp [cacheType, ne, ht, hc, l _ _ hs, bind, Except.bind, pure, Except.pure, throw, throwThe,
          MonadExceptOf.throw]
      · simp [cacheType, ne, ht, hc, l _ _ hs, l _ _ (h3 ht), bind, Except.bind, pure, Except.pure, throw,
          throwThe, MonadExceptOf.throw]
  · rcases (by omega : c.caSize = 0 ∨ 0 < c.caSize) with hs | hs
    · simp [cacheType, hs, hc, bind, Except.bind, pure, Except.pure]
    · have ne : c.caSize ≠ 0 := by omega
      rcases h10 with ht | ht
      · simp [cacheType, ne, ht, hc, l _ _ hs, bind, Except.bind, pure, Except.pure]
      · simp [cacheType, ne, ht, hc, l _ _ hs, l _ _ (h3 ht), bind, Except.bind, pure, Except.pure]

/-- **safe_build_ok.** With safe values and channel buffers that can be allocated none of the
start-up constructors panics. -/
theorem safe_build_ok (c : Config) (s : Safe c) (hf : ChanFits c) : build c = .ok () := by
  rw [safe_build_eq c s, if_neg]
  intro ⟨a, b⟩; have := hf a; omega

/-- **safe_build_modes.** Full strength, no size hypothesis: with safe values start-up succeeds or
fails in exactly one way — the channel allocation of the interface listeners for a buffer size
of 2^45 − 11 entries or more (round-4 finding `accepted-then-panic:huge-channel-buffer-size`). -/
theorem safe_build_modes (c : Config) (s : Safe c) :
    build c = .ok () ∨ (build c = .error .chanAlloc ∧ c.pIl = true ∧ chanAllocLimit < c.ilBuf * 8) := by
  rw [safe_build_eq c s]
  by_cases hc : c.pIl = true ∧ c.ilBuf * 8 > chanAllocLimit
  · exact Or.inr ⟨by rw [if_pos hc], hc.1, hc.2⟩
  · exact Or.inl (by rw [if_neg hc])

example : ChanFits dist := by intro _; decide
example : build { dist with ilBuf := 35184372088821 } = .error .chanAlloc := by decide
example : build { dist with ilBuf := 35184372088820 } = .ok () := by decide

/-- Sizes the operating system may refuse: the three `known` findings (no documented upper bound). -/
def Bounded (c : Config) : Prop :=
  c.v4Count < allocLimit ∧ c.v6Count < allocLimit ∧ c.tcpMax ≤ maxInt ∧ ChanFits c

/-- **safe_handle_partial.** With safe values and counts below the allocation limit every query —
IPv4 or IPv6, UDP or TCP, any response size — is served: no division by zero, no invalid prefix,
no stuck pipeline, no window that admits nothing. -/
theorem safe_handle_partial (c : Config) (s : Safe c) (b : Bounded c) (q : Query) :
    ∃ w, handle c q = .ok (.served w) := by
  obtain ⟨b1, b2, b3, _⟩ := b
  have h1 := s.tcp; have h2 := s.v4Len; have h3 := s.v6Len; have h4 := s.v4Count; have h5 := s.v6Count
  have h6 := s.est
  unfold allocLimit at b1 b2; unfold maxInt at b3
  refine ⟨q.respLen / c.est.toNat, ?_⟩
  unfold handle
  have e1 : ¬ (q.tcp = true ∧ c.tcpEnabled = true ∧ c.tcpMax = 0) := by omega
  have e2 : ¬ (q.tcp = true ∧ c.tcpEnabled = true ∧ c.tcpMax > maxInt) := by unfold maxInt; omega
  have e5 : ¬ (c.est = 0) := by omega
  have a1 : ¬ (c.v4Len < 0 ∨ 32 < c.v4Len) := by omega
  have a2 : ¬ (c.v4Count = 0) := by omega
  have a3 : ¬ (35184372088832 < c.v4Count + 1 ∧ ¬ c.v4Count + 1 = 18446744073709551616) := by omega
  have b1' : ¬ (c.v6Len < 0 ∨ 128 < c.v6Len) := by omega
  have b2' : ¬ (c.v6Count = 0) := by omega
  have b3' : ¬ (35184372088832 < c.v6Count + 1 ∧ ¬ c.v6Count + 1 = 18446744073709551616) := by omega
  cases hq : q.is4 <;>
    simp [e1, e2, e5, a1, a2, a3, b1', b2', b3', allocLimit, uintRange, pure, Except.pure]

/-- **accepted_serves_partial.** Accepted ⇒ start-up succeeds and every query is served (for
counts below the allocation limit; see `huge_count_counterexample`). -/
theorem accepted_serves_partial (c : Config) (h : validate false c = []) (b : Bounded c) (q : Query) :
    ∃ w, run c q = .ok (.served w) := by
  have s := validate_sound c h
  obtain ⟨w, hw⟩ := safe_handle_partial c s b q
  exact ⟨w, by simp [run, safe_build_ok c s b.2.2.2, hw, bind, Except.bind]⟩

/-- The rate-limit count that applies to `q`. -/
def countOf (c : Config) (q : Query) : Int := if q.is4 then c.v4Count else c.v6Count

/-- **safe_handle_modes.** Full strength, no size hypothesis: with safe values a query is either
served, or fails in exactly one of the two recorded ways — the request-counter allocation for a
count of at least 2^45, or the pipeline semaphore for a TCP query with a count above `MaxInt`.
In particular: never a division by zero, never an invalid prefix, never a stuck limit. -/
theorem safe_handle_modes (c : Config) (s : Safe c) (q : Query) :
    (∃ w, handle c q = .ok (.served w)) ∨
    (handle c q = .error .makeslice ∧ allocLimit ≤ countOf c q) ∨
    (handle c q = .error .makechan ∧ q.tcp = true ∧ c.tcpEnabled = true ∧ maxInt < c.tcpMax) := by
  have h1 := s.tcp; have h2 := s.v4Len; have h3 := s.v6Len; have h4 := s.v4Count; have h5 := s.v6Count
  have h6 := s.est
  have e1 : ¬ (q.tcp = true ∧ c.tcpEnabled = true ∧ c.tcpMax = 0) := by omega
  have e5 : ¬ (c.est = 0) := by omega
  have a1 : ¬ (c.v4Len < 0 ∨ 32 < c.v4Len) := by omega
  have a2 : ¬ (c.v4Count = 0) := by omega
  have b1' : ¬ (c.v6Len < 0 ∨ 128 < c.v6Len) := by omega
  have b2' : ¬ (c.v6Count = 0) := by omega
  by_cases hm : q.tcp = true ∧ c.tcpEnabled = true ∧ c.tcpMax > maxInt
  · refine Or.inr (Or.inr ⟨?_, hm.1, hm.2.1, hm.2.2⟩)
    unfold handle
    simp [hm, bind, Except.bind, pure, Except.pure, throw, throwThe, MonadExceptOf.throw]
    omega
  · cases hq : q.is4
    · by_cases hs : c.v6Count + 1 > allocLimit ∧ c.v6Count + 1 ≠ uintRange
      · refine Or.inr (Or.inl ⟨?_, ?_⟩)
        · unfold handle
          simp [e1, hm, hq, hs, b1', b2', bind, Except.bind, pure, Except.pure, throw, throwThe,
            MonadExceptOf.throw]
        · simp only [countOf, hq]; unfold allocLimit at *; simp; omega
      · refine Or.inl ⟨q.respLen / c.est.toNat, ?_⟩
        unfold handle
        simp [e1, hm, hq, hs, e5, b1', b2', bind, Except.bind, pure, Except.pure]
    · by_cases hs : c.v4Count + 1 > allocLimit ∧ c.v4Count + 1 ≠ uintRange
      · refine Or.inr (Or.inl ⟨?_, ?_⟩)
        · unfold handle
          simp [e1, hm, hq, hs, a1, a2, bind, Except.bind, pure, Except.pure, throw, throwThe,
            MonadExceptOf.throw]
        · simp only [countOf, hq]; unfold allocLimit at *; simp; omega
      · refine Or.inl ⟨q.respLen / c.est.toNat, ?_⟩
        unfold handle
        simp [e1, hm, hq, hs, e5, a1, a2, bind, Except.bind, pure, Except.pure]

/-- **accepted_failure_modes.** Full strength: an accepted configuration starts and every query is
served, unless it runs into one of the three recorded unbounded-size findings: the channel buffers
of the interface listeners at start-up, the request counter or the TCP pipeline semaphore on a
query. -/
theorem accepted_failure_modes (c : Config) (h : validate false c = []) (q : Query) :
    (∃ w, run c q = .ok (.served w)) ∨
    (run c q = .error .makeslice ∧ allocLimit ≤ countOf c q) ∨
    (run c q = .error .makechan ∧ q.tcp = true ∧ c.tcpEnabled = true ∧ maxInt < c.tcpMax) ∨
    (run c q = .error .chanAlloc ∧ c.pIl = true ∧ chanAllocLimit < c.ilBuf * 8) := by
  have s := validate_sound c h
  rcases safe_build_modes c s with hb | ⟨hb, hp, hl⟩
  · have hr : run c q = handle c q := by simp [run, hb, bind, Except.bind]
    rw [hr]
    rcases safe_handle_modes c s q with h1 | h2 | h3
    · exact Or.inl h1
    · exact Or.inr (Or.inl h2)
    · exact Or.inr (Or.inr (Or.inl h3))
  · exact Or.inr (Or.inr (Or.inr ⟨by simp [run, hb, bind, Except.bind], hp, hl⟩))

/-- All four modes occur (the statement is not vacuously a two-way split). -/
example : run { dist with ilBuf := 9223372036854775807 } { is4 := true, tcp := false, respLen := 1 } =
    .error .chanAlloc := by decide
example : run dist { is4 := false, tcp := false, respLen := 9000 } = .ok (.served 8) := by decide
example : run { dist with v6Count := 35184372088832 } { is4 := false, tcp := false, respLen := 1 } =
    .error .makeslice := by decide
example : run { dist with tcpMax := 9223372036854775808 } { is4 := true, tcp := true, respLen := 1 } =
    .error .makechan := by decide

example : Bounded dist := ⟨by decide, by decide, by decide, by intro _; decide⟩
example : run dist { is4 := true, tcp := true, respLen := 3000 } = .ok (.served 2) := by decide

/-- **reject_names_property.** Every error reported for a rejected configuration names a property
(or missing section) that really breaks its documented constraint. -/
theorem reject_names_property (c : Config) (e : Err) (h : e ∈ validate false c) :
    violates c e.1 = true := by
  obtain ⟨f, k⟩ := e
  have h' := mem_firstOf h
  simp only [List.flatten_cons, List.flatten_nil, List.mem_append, List.not_mem_nil, or_false] at h'
  rcases h' with h' | h' | h' | h' | h' | h' | h' | h' | h' | h' | h' | h' | h' | h' | h' | h' | h' | h' | h' | h'
  · exact names_ratelimit c f k h'
  · exact names_upstream c f k h'
  · exact names_cache c f k h'
  · exact names_dnsdb c f k h'
  · exact names_dns c f k h'
  · exact names_backend c f k h'
  · exact names_querylog c f k h'
  · exact names_geo c f k h'
  · exact names_check c f k h'
  · exact names_web c f k h'
  · exact names_sb c f k h'
  · exact names_ab c f k h'
  · exact names_filters c f k h'
  · exact names_fltgroups c f k h'
  · exact names_srvgroups c f k h'
  · exact names_conncheck c f k h'
  · exact names_iface c f k h'
  · exact names_network c f k h'
  · exact names_access c f k h'
  · exact names_connN c f k h'

example : validate false { dist with est := 0, dbMax := 0 } = [(.rlEst, .notPositive)] := by decide
example : validate false { dist with flCustom := 0, flMax := 0, flEde := false } =
    [(.flCustom, .notPositive), (.flMax, .notPositive), (.flSde, .cross)] := by decide

/-- **legacy_counterexample.** On the tree as found the property is false: `response_size_estimate: 0`
is accepted and the first counted response divides by zero. -/
theorem legacy_counterexample :
    ¬ ∀ (c : Config) (q : Query), validate true c = [] → ∀ p, run c q ≠ .error p := by
  intro h
  exact h { dist with est := 0 } { is4 := true, tcp := false, respLen := 60 } (by decide) .divZero (by decide)

/-- `subnet_key_len: 33` for IPv4 was accepted and `subnetKey` panics. -/
theorem legacy_keylen_counterexample :
    ¬ ∀ (c : Config) (q : Query), validate true c = [] → ∀ p, run c q ≠ .error p := by
  intro h
  exact h { dist with v4Len := 33 } { is4 := true, tcp := false, respLen := 60 } (by decide) .badPrefix (by decide)

/-- `cache.type: ecs` with `ecs_size: 0` was accepted and the cache constructor panics at start-up. -/
theorem legacy_ecs_counterexample :
    ¬ ∀ (c : Config) (q : Query), validate true c = [] → ∀ p, run c q ≠ .error p := by
  intro h
  exact h { dist with caType := "ecs", caEcs := 0 } { is4 := true, tcp := false, respLen := 60 } (by decide)
    (.lruSize .caEcs) (by decide)

/-- `max_pipeline_count: 0` was accepted and no TCP query is ever served. -/
theorem legacy_pipeline_counterexample :
    ¬ ∀ (c : Config) (q : Query), validate true c = [] → ∀ f, run c q ≠ .ok (.stuck f) := by
  intro h
  exact h { dist with tcpMax := 0 } { is4 := true, tcp := true, respLen := 60 } (by decide) .rlTcpMax (by decide)

/-- **huge_count_counterexample.** Also on the repaired tree the unrestricted statement is false:
counts have no upper bound, and a count above 2^45 makes the request counter's allocation panic
(known finding `accepted-then-query-panic:huge-ratelimit-count`). -/
theorem huge_count_counterexample :
    ¬ ∀ (c : Config) (q : Query), validate false c = [] → ∀ p, run c q ≠ .error p := by
  intro h
  exact h { dist with v4Count := 9223372036854775807 } { is4 := true, tcp := false, respLen := 60 }
    (by decide) .makeslice (by decide)

/-- Known finding `accepted-then-query-panic:huge-tcp-pipeline-count`. -/
theorem huge_pipeline_counterexample :
    ¬ ∀ (c : Config) (q : Query), validate false c = [] → ∀ p, run c q ≠ .error p := by
  intro h
  exact h { dist with tcpMax := 18446744073709551615 } { is4 := true, tcp := true, respLen := 60 }
    (by decide) .makechan (by decide)


/-! ## Cross-references and the stream listeners (round 3) -/

/-- Every cross-reference of the configuration resolves (declarative reading). -/
structure Resolved (c : Config) : Prop where
  ports : c.pIl = true → c.ilPort0 ≠ c.ilPort1
  list : c.fg0List0 = indexListId
  group : c.sgFg = c.fg0Id ∨ c.sgFg = "family" ∨ c.sgFg = "non_filtering"
  ifaces : c.pIl = true
  bind : c.bi0Id = "eth0_plain_dns"

/-- What each start-up error of the conversions claims about the configuration. -/
def dangling (c : Config) : XErr → Prop
  | .dupPort => c.pIl = true ∧ c.ilPort0 = c.ilPort1
  | .unknownList => c.fg0List0 ≠ indexListId
  | .unknownFg => c.sgFg ≠ c.fg0Id ∧ c.sgFg ≠ "family" ∧ c.sgFg ≠ "non_filtering"
  | .noIface => c.pIl = false
  | .unknownIface => c.bi0Id ≠ "eth0_plain_dns" ∧ c.bi0Id ≠ "eth0_plain_dns_secondary"
  | .dupBind => c.bi0Id = "eth0_plain_dns_secondary"

/-- **xconv_ok_iff.** The conversions succeed exactly when every cross-reference resolves, and then
they produce the stream listeners counted by `streamN`. -/
theorem xconv_ok_iff (c : Config) (n : Int) : xconv c = .ok n ↔ Resolved c ∧ n = streamN c := by
  unfold xconv
  constructor
  · intro h
    repeat' split at h
    all_goals first | (cases h; done) | skip
    all_goals
      injection h with h
      refine ⟨⟨?_, ?_, ?_, ?_, ?_⟩, h.symm⟩ <;> first | (simp_all; done) | (simp_all; grind) | grind
  · rintro ⟨r, rfl⟩
    have h1 := r.ports; have h2 := r.list; have h3 := r.group; have h4 := r.ifaces; have h5 := r.bind
    simp_all

/-- **xconv_error_dangling.** A start-up error of the conversions names a reference that really does
not resolve (or a listener that really is declared twice): no crash, no misreport. -/
theorem xconv_error_dangling (c : Config) (e : XErr) (h : xconv c = .error e) : dangling c e := by
  unfold xconv at h
  repeat' split at h
  all_goals first | (cases h; done) | skip
  all_goals
    injection h with h
    subst h
    simp_all [dangling]

example : xconv dist = .ok 6 := by decide
example : xconv { dist with sgFg := "nope" } = .error .unknownFg := by decide
example : xconv { dist with pIl := false } = .error .noIface := by decide
example : Resolved dist := ⟨by decide, by decide, by decide, by decide, by decide⟩

/-- **accepted_listeners_accept.** In an accepted configuration every stream listener of the
configured servers reaches its `Accept` on the fresh connection limiter (C18's model of
`limitListener`) and none is parked: no listener is starved by the thresholds. -/
theorem accepted_listeners_accept (c : Config) (h : validate false c = []) (hu : c.clStop < 18446744073709551616) :
    startListeners c = ((streamN c).toNat, 0) := by
  have s := validate_sound c h
  unfold startListeners
  split
  · rename_i he
    have h1 := s.conn he; have h2 := s.connN he
    apply limStart_all
    · unfold ConnLimit.two64; omega
    · omega
  · rfl

/-- **starved_listeners.** Conversely, with `stop` below the number of stream listeners exactly `stop`
of them ever accept; the others wait on a limiter that does not accept, with nobody left to wake
them. -/
theorem starved_listeners (c : Config) (he : c.clEnabled = true) (h0 : 0 < c.clStop)
    (hu : c.clStop < 18446744073709551616) (hn : c.clStop < streamN c) :
    startListeners c = (c.clStop.toNat, (streamN c).toNat - c.clStop.toNat) := by
  unfold startListeners
  rw [if_pos he]
  apply limStart_starved
  · unfold ConnLimit.two64; omega
  · omega
  · omega

example : validate false dist = [] ∧ startListeners dist = (6, 0) := by decide

/-- **legacy_connlimit_counterexample.** On the tree as found `stop: 1, resume: 1` is accepted, all
cross-references resolve, and five of the six stream listeners never accept a connection. -/
theorem legacy_connlimit_counterexample :
    ¬ ∀ c : Config, validate true c = [] → xconv c = .ok (streamN c) → (startListeners c).2 = 0 := by
  intro h
  exact absurd (h { dist with clStop := 1, clResume := 1 } (by decide) (by decide)) (by decide)

example : validate false { dist with clStop := 1, clResume := 1 } = [(.rlClResume, .range)] := by decide
example : validate false { dist with proto1 := "quic", proto2 := "quic", clStop := 4, clResume := 4 } = [] := by decide
example : validate false { dist with proto1 := "bogus" } = [(.sgProto1, .enum)] := by decide
example : validate false { dist with proto1 := "dns", proto2 := "dns", proto3 := "dns" } = [(.sgTls, .cross)] := by decide
example : validate false { dist with fg0Id := "family" } = [(.fg1Id, .dup)] := by decide

/-- **huge_chanbuf_counterexample.** Round-4 finding: `interface_listeners.channel_buffer_size` has no
upper bound; 2^63 − 1 is accepted and `bindtodevice.Manager.Add` panics at start-up with
`makechan: size out of range` (known finding `accepted-then-panic:huge-channel-buffer-size`). -/
theorem huge_chanbuf_counterexample :
    ¬ ∀ (c : Config) (q : Query), validate false c = [] → ∀ p, run c q ≠ .error p := by
  intro h
  exact h { dist with ilBuf := 9223372036854775807 } { is4 := true, tcp := false, respLen := 60 }
    (by decide) .chanAlloc (by decide)

/-! ## Enumerations that refer to the environment (round 4) -/

/-- **env_checked_builds.** When the environment passes the checks that depend on the configuration,
the builder steps that dereference the selected variables (`newRemoteKV`, `initRateLimiter`) do not
panic: no nil URL, no empty LRU, no unknown store type — for every accepted configuration. -/
theorem env_checked_builds (c : Config) (e : Env) (h : validate false c = []) (he : envCheck c e = []) :
    envBuild c e = .ok () := by
  have hk : violates c .ckKvType = false := accepted_meets_documented c h .ckKvType
  have ha : violates c .rlAlType = false := accepted_meets_documented c h .rlAlType
  simp only [violates, Bool.not_eq_false', decide_eq_true_eq] at hk ha
  simp only [envCheck, needUrl, List.append_eq_nil_iff] at he
  obtain ⟨he1, he2⟩ := he
  have k : kvBuild c e = .ok () := by
    unfold kvBuild
    by_cases b1 : c.kvType = "backend"
    · simp only [b1, if_true] at he1 ⊢
      by_cases g : e.kvUrl = .good <;> simp_all
    · by_cases b2 : c.kvType = "cache"
      · simp only [b1, b2, if_true, if_false] at he1 ⊢
        by_cases g : e.kvSize ≤ 0 <;> simp_all
      · have : c.kvType = "redis" ∨ c.kvType = "consul" := by
          rcases hk with h | h | h | h <;> simp_all
        simp [b1, b2, this]
  have r : rlBuild c e = .ok () := by
    unfold rlBuild
    by_cases b1 : c.alType = "consul"
    · have nb : c.alType ≠ "backend" := by rw [b1]; decide
      simp only [b1, if_true] at he2
      by_cases g : e.consulUrl = .good <;> simp_all
    · have bb : c.alType = "backend" := by rcases ha with h | h <;> simp_all
      simp only [b1, if_false] at he2
      by_cases g : e.rlUrl = .good <;> simp_all
  simp [envBuild, k, r]

/-- **env_accepts_iff.** The check accepts exactly the environments in which no selected variable is
missing or unusable. -/
theorem env_accepts_iff (c : Config) (e : Env) : envCheck c e = [] ↔ ∀ v, envViolates c e v = false := by
  constructor
  · intro h v
    cases hv : envViolates c e v with
    | false => rfl
    | true =>
      exfalso
      simp only [envCheck, needUrl, List.append_eq_nil_iff] at h
      obtain ⟨h1, h2⟩ := h
      cases v <;> simp only [envViolates, Bool.and_eq_true, decide_eq_true_eq, Bool.not_eq_true',
        bne_iff_ne, ne_eq] at hv <;> simp_all
  · intro h
    have a1 := h .kvUrl; have a2 := h .kvSize; have a3 := h .redisAddr; have a4 := h .redisIdle
    have a5 := h .redisMaxActive; have a6 := h .redisMaxIdle; have a7 := h .rlUrl; have a8 := h .consulUrl
    simp only [envViolates, Bool.and_eq_false_iff, decide_eq_false_iff_not, bne_eq_false_iff_eq,
      Bool.not_eq_false'] at a1 a2 a3 a4 a5 a6 a7 a8
    simp only [envCheck, needUrl, List.append_eq_nil_iff]
    constructor
    · by_cases b1 : c.kvType = "backend"
      · simp_all
      · by_cases b2 : c.kvType = "cache"
        · simp_all
        · by_cases b3 : c.kvType = "redis"
          · simp_all
          · simp [b1, b2, b3]
    · by_cases b1 : c.alType = "consul" <;> simp_all

/-- Without the check the builder crashes: the store type `cache` with an unset cache size. -/
theorem env_unchecked_counterexample : envBuild dist { kvSize := 0 } = .error .kvLru := by decide

example : envCheck dist { kvSize := 100 } = [] ∧ validate false dist = [] := by decide
example : envCheck { dist with kvType := "redis" } { redisIdle := 0, redisMaxIdle := -1 } =
    [.redisAddr, .redisIdle, .redisMaxIdle] := by decide
example : envCheck { dist with alType := "backend" } { kvSize := 1, rlUrl := .badScheme } = [.rlUrl] := by decide

/-- **parse_range.** Values that do not fit the Go type never reach validation. -/
theorem parse_range_uint (v : Int) : Ty.inRange .uint v = true ↔ 0 ≤ v ∧ v < 18446744073709551616 := by
  simp [Ty.inRange]; omega


/-! ## Round 5 — the structure of the tree: any number of server groups, optional sections

`Shape.validate` is `serverGroups.validate`, `Shape.collect legacy` is
`serverGroups.collectSessTicketPaths` (called by `builder.initTLSManager`), `Shape.startup legacy` the
builder steps of `Main` that follow.  `legacy = true` is the tree as found. -/
namespace Shape

/-- The documented requirements on one server group, written down independently of the order of the
checks: `ddr` is there, there is a server, the `tls` section is there exactly when one of the servers
speaks an encrypted protocol, and then it lists certificates, none of them `null`. -/
structure Documented (g : Group) : Prop where
  ddr : g.ddr = true
  servers : g.srvs ≠ []
  tlsIff : g.tls.isSome = g.needsTls
  certs : ∀ t, g.tls = some t → 0 < t.certs ∧ t.nilCert = false

theorem valGroup_none_iff (g : Group) : valGroup g = none ↔ Documented g := by
  obtain ⟨ddr, tls, srvs, prof⟩ := g
  constructor
  · intro h
    unfold valGroup at h
    simp only at h
    split at h; · cases h
    split at h; · cases h
    rename_i hd hs
    have hd' : ddr = true := by simpa using hd
    have hs' : srvs ≠ [] := by simpa [List.isEmpty_iff] using hs
    cases tls with
    | none =>
      refine ⟨hd', hs', ?_, by simp⟩
      simp only [valTls] at h
      split at h
      · cases h
      · rename_i hn; simpa using hn
    | some t =>
      simp only [valTls] at h
      split at h; · cases h
      split at h; · cases h
      split at h; · cases h
      rename_i h1 h2 h3
      refine ⟨hd', hs', ?_, ?_⟩
      · simpa using h1
      · intro t' ht'; cases ht'
        exact ⟨by omega, by simpa using h3⟩
  · intro ⟨hd, hs, ht, hc⟩
    simp only [Group.needsTls] at hd hs ht hc
    have hse : srvs.isEmpty = false := by cases srvs <;> simp_all
    unfold valGroup
    simp only [hd, Bool.not_true, Bool.false_eq_true, ↓reduceIte, hse]
    cases tls with
    | none =>
      simp only [Option.isSome_none] at ht
      simp [valTls, Group.needsTls, ← ht]
    | some t =>
      simp only [Option.isSome_some] at ht
      obtain ⟨h1, h2⟩ := hc t rfl
      have h0 : t.certs ≠ 0 := by omega
      simp [valTls, Group.needsTls, ← ht, h0, h2]

/-- **shape_accepts_iff.** A list of server groups passes validation exactly when it is not empty and
every group — not only the first — meets the documented requirements; in particular every accepted group
has a `tls` section exactly when one of its servers needs it. -/
theorem shape_accepts_iff (s : Shape) :
    validate s = none ↔ s.groups ≠ [] ∧ ∀ g ∈ s.groups, Documented g := by
  unfold validate
  cases h : s.groups with
  | nil => simp
  | cons g gs =>
    simp only [List.isEmpty_cons, Bool.false_eq_true, ↓reduceIte, valFrom_none, ne_eq, reduceCtorEq,
      not_false_eq_true, true_and]
    exact ⟨fun hh g' hg' => (valGroup_none_iff g').mp (hh g' hg'), fun hh g' hg' => (valGroup_none_iff g').mpr (hh g' hg')⟩

/-- **shape_reject_names_group.** A rejection names a group that exists and that really breaks a
documented requirement (or the empty list of groups). -/
theorem shape_reject_names_group (s : Shape) (i : Nat) (p : Part) (k : Kind) (h : validate s = some (i, p, k)) :
    (s.groups = [] ∧ p = .groups) ∨ ∃ g, s.groups[i]? = some g ∧ ¬ Documented g ∧ valGroup g = some (p, k) := by
  unfold validate at h
  split at h
  · rename_i he
    left; simp at h; exact ⟨by simpa [List.isEmpty_iff] using he, h.2.1.symm⟩
  · right
    obtain ⟨_, g, hg, hv⟩ := valFrom_some 0 s.groups i (p, k) h
    refine ⟨g, by simpa using hg, ?_, hv⟩
    intro hd; rw [(valGroup_none_iff g).mpr hd] at hv; cases hv

/-- **shape_legacy_collect_panics_iff.** In the tree as found the collection of the session-ticket
files crashes exactly when some group has no `tls` section. -/
theorem shape_legacy_collect_panics_iff (gs : List Group) :
    collect true gs = none ↔ ∃ g ∈ gs, g.tls = none :=
  collectFrom_legacy_none gs []

/-- **shape_legacy_accepted_panics_iff.** For configurations that PASS validation the tree as found
crashes in `initTLSManager` exactly when some group consists of plain-DNS / DNSCrypt servers only —
the very groups for which validation forbids the section. -/
theorem shape_legacy_accepted_panics_iff (s : Shape) (h : validate s = none) :
    startup true s = .panic .tlsManager ↔ ∃ g ∈ s.groups, g.needsTls = false := by
  have hd := ((shape_accepts_iff s).mp h).2
  have hc := shape_legacy_collect_panics_iff s.groups
  unfold startup
  cases hcol : collect true s.groups with
  | none =>
    simp only [true_iff]
    obtain ⟨g, hg, ht⟩ := hc.mp hcol
    refine ⟨g, hg, ?_⟩
    have := (hd g hg).tlsIff; rw [ht] at this; simpa using this.symm
  | some ts =>
    have hno : ¬ ∃ g ∈ s.groups, g.tls = none := fun hh => by rw [hc.mpr hh] at hcol; cases hcol
    constructor
    · intro hp; simp only at hp; split at hp; · cases hp
      split at hp <;> cases hp
    · rintro ⟨g, hg, hn⟩
      exfalso; apply hno
      refine ⟨g, hg, ?_⟩
      have := (hd g hg).tlsIff; rw [hn] at this
      cases ht : g.tls <;> simp_all

/-- **shape_legacy_nil_tls_counterexample.** The finding: one group with one plain-DNS server and no
`tls` section passes validation, and the start-up of the tree as found panics in the TLS-manager step. -/
theorem shape_legacy_nil_tls_counterexample :
    ¬ (∀ s : Shape, validate s = none → startup true s ≠ .panic .tlsManager) := by
  intro h
  exact h { groups := [{ srvs := [.dns] }] } (by decide) (by decide)

/-- The second example of the report: the distributed group next to a plain-DNS-only group. -/
def exTwoGroups : Shape :=
  { groups := [{ tls := some { keys := [1, 0] }, srvs := [.dnsIf, .tls, .https, .quic, .dnscrypt], profiles := true },
               { srvs := [.dns, .dnscrypt] }] }
example : validate exTwoGroups = none ∧ startup true exTwoGroups = .panic .tlsManager ∧
    startup false exTwoGroups = .ok { tickets := [0, 1], tlsSrvs := 3, web := true, qlog := true, profiles := true, groups := 2 } := by
  decide

/-- **shape_collect_total.** The repaired collection never fails, whatever the groups look like
(validated or not), and its result is the set of files listed by the groups that have a section:
strictly increasing (sorted, no duplicates) and with exactly those members. -/
theorem shape_collect_total (gs : List Group) :
    ∃ r, collect false gs = some r ∧ Sorted r ∧
      ∀ x, x ∈ r ↔ ∃ g ∈ gs, ∃ t, g.tls = some t ∧ x ∈ t.keys := by
  obtain ⟨r, hr, hs, hm⟩ := collectFrom_repaired gs [] List.Pairwise.nil
  exact ⟨r, hr, hs, fun x => by simpa using hm x⟩

/-- Where every group has a section the repair changes nothing. -/
theorem shape_collect_same (gs : List Group) (h : ∀ g ∈ gs, g.tls ≠ none) : collect true gs = collect false gs :=
  collectFrom_same gs [] h

/-- **shape_startup_never_panics.** Repaired tree: no list of groups and optional sections makes the
modelled start-up steps panic. -/
theorem shape_startup_never_panics (s : Shape) (g : Stage) : startup false s ≠ .panic g := by
  obtain ⟨r, hr, _⟩ := shape_collect_total s.groups
  unfold startup; rw [hr]; simp only
  split; · simp
  split <;> simp

/-- **shape_startup_ok_iff.** Repaired tree: the start-up steps succeed exactly when the two references
that only start-up can resolve do resolve — `bind_interfaces` needs `interface_listeners`, `web.linked_ip`
needs `LINKED_IP_TARGET_URL` — and then the program holds what the file says: the ticket files of the
groups with a section, a TLS configuration for every encrypted server, the web service and the query log
as configured, all groups. -/
theorem shape_startup_ok_iff (s : Shape) :
    (∃ st, startup false s = .ok st) ↔ (usesIfaces s = true → s.ifaces = true) ∧
      (s.web = true → s.linkedIp = true → s.linkedUrl = true) := by
  obtain ⟨r, hr, _⟩ := shape_collect_total s.groups
  unfold startup; rw [hr]; simp only
  cases usesIfaces s <;> cases s.ifaces <;> cases s.web <;> cases s.linkedIp <;> cases s.linkedUrl <;> simp

theorem shape_startup_ok_holds (s : Shape) (st : Started) (h : startup false s = .ok st) :
    collect false s.groups = some st.tickets ∧ st.tlsSrvs = tlsSrvs s ∧ st.web = s.web ∧ st.qlog = s.qlog ∧
      st.groups = s.groups.length := by
  obtain ⟨r, hr, _⟩ := shape_collect_total s.groups
  unfold startup at h; rw [hr] at h; simp only at h
  split at h; · cases h
  split at h; · cases h
  cases h; simp [hr]

/-- **shape_startup_error_dangling.** A start-up error of the repaired tree names a reference that
really dangles. -/
theorem shape_startup_error_dangling (s : Shape) (g : Stage) (h : startup false s = .xerr g) :
    (g = .serverGroups ∧ usesIfaces s = true ∧ s.ifaces = false) ∨
    (g = .web ∧ s.web = true ∧ s.linkedIp = true ∧ s.linkedUrl = false) := by
  obtain ⟨r, hr, _⟩ := shape_collect_total s.groups
  unfold startup at h; rw [hr] at h; simp only at h
  split at h
  · rename_i h1; cases h; left; simpa using h1
  · split at h
    · rename_i h2; cases h; right; simpa [and_assoc] using h2
    · cases h

example : startup false { groups := [{ srvs := [.dnsIf] }], ifaces := false } = .xerr .serverGroups := by decide
example : startup false { groups := [{ srvs := [.dns] }], linkedUrl := false } = .xerr .web := by decide
example : validate { groups := [{ srvs := [.dns] }, { srvs := [.tls] }] } = some (1, .tls, .noValue) := by decide
example : validate { groups := [{ tls := some {}, srvs := [.dnscrypt] }] } = some (0, .tls, .cross) := by decide
example : Documented { tls := some { keys := [3, 2] }, srvs := [.dns, .quic] } :=
  ⟨rfl, by simp, by decide, fun t h => by cases h; exact ⟨by decide, rfl⟩⟩

end Shape

/-! ## Backend stage (round 6): billing statistics, profile database, profile rate limiters -/
namespace Backend

/-- The refresh workers of the backend-facing steps panic exactly when one of the three intervals they
are given is not positive (`time.NewTicker`). -/
theorem start_ok_iff (w : Wiring) : start w = .ok () ↔ 0 < w.billIvl ∧ 0 < w.profIvl ∧ 0 < w.allowIvl := by
  unfold start ticker
  by_cases h1 : w.billIvl ≤ 0 <;> by_cases h2 : w.profIvl ≤ 0 <;> by_cases h3 : w.allowIvl ≤ 0 <;>
    simp [h1, h2, h3, bind, Except.bind] <;> omega

/-- **accepted_backend_starts.** With an accepted configuration none of `initBillStat`,
`initProfileDB`, `initRateLimiter` panics when it creates its refresh worker. -/
theorem accepted_backend_starts (c : Config) (h : validate false c = []) : start (wire c) = .ok () := by
  have h1 := accepted_meets c h .beBill
  have h2 := accepted_meets c h .beRefresh
  have h3 := accepted_meets c h .rlAlRefresh
  simp [violates] at h1 h2 h3
  exact (start_ok_iff _).2 ⟨h1, h2, h3⟩

/-- The division in `CountResponses` is the only way the probe fails, and it does not look at the
client subnets or at the limit first. -/
theorem probe_panics_iff (est : Int) (applies : Bool) (rps len : Nat) :
    probe est applies rps len = .error .divZero ↔ est = 0 := by
  unfold probe; by_cases h : est = 0 <;> cases applies <;> simp [h]

/-- **accepted_profile_query_served.** With an accepted configuration the backend-facing parts start
and the request of a profile is handled without a panic whether its limiter was built from the
backend's answer or restored from the cache file; a client the custom limit does not cover is left to
the global limiter; for a covered client the first request of a second passes whenever the limit is
at least one per second, and the next one is dropped exactly when the response, weighed with the
configured estimate, has used the second up. -/
theorem accepted_profile_query_served (c : Config) (h : validate false c = []) (src : Source) (applies : Bool)
    (rps len : Nat) :
    run c src applies rps len =
      .ok (if applies then (event rps 1, event rps (2 + len / c.est.toNat)) else (.global, .global)) := by
  have he := accepted_meets c h .rlEst
  simp [violates] at he
  have e0 : c.est ≠ 0 := by omega
  unfold run; rw [accepted_backend_starts c h]
  cases src <;> cases applies <;> simp [probe, estOf, wire, e0, bind, Except.bind]

theorem first_query_passes (rps : Nat) (h : 1 ≤ rps) : event rps 1 = .pass := by
  unfold event; simp; omega

theorem second_query_drop_iff (rps len est : Nat) : event rps (2 + len / est) = .drop ↔ rps < 2 + len / est := by
  unfold event; by_cases h : 2 + len / est > rps <;> simp [h] <;> omega

/-- **unwired_estimate_panics.** Whatever else the builder does: a consumer that is not given the
estimate (the zero value of the field) panics on the first response of every profile it has built —
also for clients outside the custom limit. -/
theorem unwired_estimate_panics (w : Wiring) (src : Source) (h : estOf w src = 0) (applies : Bool) (rps len : Nat) :
    probe (estOf w src) applies rps len = .error .divZero :=
  (probe_panics_iff _ _ _ _).2 h

/-- **cache_unwired_counterexample.** Why both consumers are tied to the source: a builder that gives
the estimate of the distributed (accepted) file to the profile storage only starts, serves every
profile that comes from the backend, and panics for every profile restored from the cache file after
a restart within `full_refresh_interval`. -/
theorem cache_unwired_counterexample :
    let w : Wiring := { wire dist with cacheEst := 0 }
    validate false dist = [] ∧ start w = .ok () ∧
      (∀ a r l, probe (estOf w .backend) a r l ≠ .error .divZero) ∧
      restartSource w true 1000000000 = .cache ∧
      (∀ a r l, probe (estOf w .cache) a r l = .error .divZero) := by
  refine ⟨by decide, by decide, ?_, by decide, ?_⟩
  · intro a r l hp; have := (probe_panics_iff _ a r l).1 hp; revert this; decide
  · intro a r l; exact (probe_panics_iff _ a r l).2 (by decide)

example : run dist .cache true 5 709 = .ok (.pass, .pass) := by decide
example : run dist .backend true 2 3009 = .ok (.pass, .drop) := by decide
example : run { dist with est := 1 } .cache false 60 5005 = .ok (.global, .global) := by decide
example : run { dist with beBill := 0 } .cache true 5 709 = .error (.ticker .billStat) := by decide
example : validate false { dist with est := 1, beRefresh := 1, beBill := 1, alRefresh := 1, beTimeout := 0 } = [] := by decide

end Backend

#print axioms Backend.start_ok_iff
#print axioms Backend.accepted_backend_starts
#print axioms Backend.probe_panics_iff
#print axioms Backend.accepted_profile_query_served
#print axioms Backend.first_query_passes
#print axioms Backend.second_query_drop_iff
#print axioms Backend.unwired_estimate_panics
#print axioms Backend.cache_unwired_counterexample

#print axioms Shape.shape_accepts_iff
#print axioms Shape.shape_reject_names_group
#print axioms Shape.shape_legacy_collect_panics_iff
#print axioms Shape.shape_legacy_accepted_panics_iff
#print axioms Shape.shape_legacy_nil_tls_counterexample
#print axioms Shape.shape_collect_total
#print axioms Shape.shape_collect_same
#print axioms Shape.shape_startup_never_panics
#print axioms Shape.shape_startup_ok_iff
#print axioms Shape.shape_startup_ok_holds
#print axioms Shape.shape_startup_error_dangling
#print axioms Shape.valGroup_none_iff

#print axioms accepted_meets_documented
#print axioms validate_sound
#print axioms safe_build_eq
#print axioms safe_build_ok
#print axioms safe_build_modes
#print axioms huge_chanbuf_counterexample
#print axioms env_checked_builds
#print axioms env_accepts_iff
#print axioms env_unchecked_counterexample
#print axioms safe_handle_partial
#print axioms accepted_serves_partial
#print axioms safe_handle_modes
#print axioms accepted_failure_modes
#print axioms reject_names_property
#print axioms legacy_counterexample
#print axioms legacy_keylen_counterexample
#print axioms legacy_ecs_counterexample
#print axioms legacy_pipeline_counterexample
#print axioms huge_count_counterexample
#print axioms huge_pipeline_counterexample
#print axioms parse_range_uint
#print axioms xconv_ok_iff
#print axioms xconv_error_dangling
#print axioms accepted_listeners_accept
#print axioms starved_listeners
#print axioms legacy_connlimit_counterexample

end Agd.Config
#print axioms Agd.Tie.TrC20.translation_complete
#print axioms Agd.Tie.TrC20.ite_some_some
#print axioms Agd.Tie.TrC20.posErr_eq_none
#print axioms Agd.Tie.TrC20.firstErr_cons_eq_none
#print axioms Agd.Tie.TrC20.connLimit_total
#print axioms Agd.Tie.TrC20.connLimit_accepts
#print axioms Agd.Tie.TrC20.connLimit_tr
#print axioms Agd.Tie.TrC20.allow_total
#print axioms Agd.Tie.TrC20.allow_accepts
#print axioms Agd.Tie.TrC20.opts_total
#print axioms Agd.Tie.TrC20.opts_accepts
#print axioms Agd.Tie.TrC20.keyLen_total
#print axioms Agd.Tie.TrC20.keyLen_accepts
#print axioms Agd.Tie.TrC20.tcp_total
#print axioms Agd.Tie.TrC20.tcp_accepts
#print axioms Agd.Tie.TrC20.quic_total
#print axioms Agd.Tie.TrC20.quic_accepts
#print axioms Agd.Tie.TrC20.rateLimit_total
#print axioms Agd.Tie.TrC20.rateLimit_accepts
#print axioms Agd.Tie.TrC20.genOpts_accepts
#print axioms Agd.Tie.TrC20.rateLimit_tr
#print axioms Agd.Tie.TrC20.ttl_total
#print axioms Agd.Tie.TrC20.ttl_accepts
#print axioms Agd.Tie.TrC20.cache_total
#print axioms Agd.Tie.TrC20.cache_accepts
#print axioms Agd.Tie.TrC20.cache_tr
#print axioms Agd.Tie.TrC20.dns_total
#print axioms Agd.Tie.TrC20.dns_accepts
#print axioms Agd.Tie.TrC20.dns_tr
#print axioms Agd.Tie.TrC20.dnsdb_total
#print axioms Agd.Tie.TrC20.dnsdb_accepts
#print axioms Agd.Tie.TrC20.dnsdb_tr
#print axioms Agd.Tie.TrC20.geo_total
#print axioms Agd.Tie.TrC20.geo_accepts
#print axioms Agd.Tie.TrC20.geo_tr
#print axioms Agd.Tie.TrC20.queryLog_total
#print axioms Agd.Tie.TrC20.queryLog_accepts
#print axioms Agd.Tie.TrC20.queryLog_tr
#print axioms Agd.Tie.TrC20.access_tr
#print axioms Agd.Tie.TrC20.backend_total
#print axioms Agd.Tie.TrC20.backend_accepts
#print axioms Agd.Tie.TrC20.backend_tr
#print axioms Agd.Tie.TrC20.network_total
#print axioms Agd.Tie.TrC20.network_accepts
#print axioms Agd.Tie.TrC20.network_tr
#print axioms Agd.Tie.TrC20.healthcheck_total
#print axioms Agd.Tie.TrC20.healthcheck_accepts
#print axioms Agd.Tie.TrC20.healthcheck_tr
#print axioms Agd.Tie.TrC20.healthcheck_tr_iff
#print axioms Agd.Tie.TrC20.upstreamServer_accepts
#print axioms Agd.Tie.TrC20.upstreamServer_total
#print axioms Agd.Tie.TrC20.upstreamServer_tr
#print axioms Agd.Tie.TrC20.rlc_total
#print axioms Agd.Tie.TrC20.rlc_accepts
#print axioms Agd.Tie.TrC20.filters_total
#print axioms Agd.Tie.TrC20.filters_accepts
#print axioms Agd.Tie.TrC20.filters_tr
#print axioms Agd.Tie.TrC20.safeBrowsing_total
#print axioms Agd.Tie.TrC20.safeBrowsing_accepts
#print axioms Agd.Tie.TrC20.safeBrowsing_tr
#print axioms Agd.Tie.TrC20.kv_total
#print axioms Agd.Tie.TrC20.kv_accepts
#print axioms Agd.Tie.TrC20.kv_tr
#print axioms Agd.Tie.TrC20.ports_nil
#print axioms Agd.Tie.TrC20.ports_total
#print axioms Agd.Tie.TrC20.ports_accepts
#print axioms Agd.Tie.TrC20.ports_tr
#print axioms Agd.Tie.TrC20.ifaceListener_total
#print axioms Agd.Tie.TrC20.ifaceListener_accepts
#print axioms Agd.Tie.TrC20.ifaceListener_tr
#print axioms Agd.Tie.TrC20.web_accepts
#print axioms Agd.Tie.TrC20.web_total
#print axioms Agd.Tie.TrC20.web_timeout_first
#print axioms Agd.Tie.TrC20.web_tr
#print axioms Agd.Tie.TrC20.limiter_new
#print axioms Agd.Tie.TrC20.limiter_new_nil
#print axioms Agd.Tie.TrC20.connLimit_toInternal_panics_iff
#print axioms Agd.Tie.TrC20.connLimit_toInternal_ok
#print axioms Agd.Tie.TrC20.connLimit_toInternal_build
#print axioms Agd.Tie.TrC20.cache_toInternal_panics_iff
#print axioms Agd.Tie.TrC20.cache_toInternal_eq
#print axioms Agd.Tie.TrC20.cache_toInternal_ok
#print axioms Agd.Tie.TrC20.cache_toInternal_type
#print axioms Agd.Tie.TrC20.rateLimit_toInternal_eq
#print axioms Agd.Tie.TrC20.newBackoff_eq
#print axioms Agd.Tie.TrC20.rateLimit_toInternal_ok
#print axioms Agd.Tie.TrC20.toInternal_nil
#print axioms Agd.Tie.TrC20.network_toInternal_ok
#print axioms Agd.Tie.TrC20.subnetKey_prefix_len
#print axioms Agd.Tie.TrC20.subnetKey_panics_iff
#print axioms Agd.Tie.TrC20.missing_reported
#print axioms Agd.Tie.TrC20.rateLimit_names_ipv4
#print axioms Agd.Tie.TrC20.wrap_add
#print axioms Agd.Tie.TrC20.fold_mod
#print axioms Agd.Tie.TrC20.streamAddrNum_eq
#print axioms Agd.Tie.TrC20.streamAddrNum_exact
#print axioms Agd.Tie.TrC20.genGroups_noNil
#print axioms Agd.Tie.TrC20.streamTotal_gen
#print axioms Agd.Tie.TrC20.streamN_small
#print axioms Agd.Tie.TrC20.streamN_tr
#print axioms Agd.Tie.TrC20.validateConnLimit_panics_iff
#print axioms Agd.Tie.TrC20.validateConnLimit_accepts
#print axioms Agd.Tie.TrC20.validateConnLimit_tr
#print axioms Agd.Tie.TrC20.collectSessTicketPaths_trace
#print axioms Agd.Tie.TrC20.collectSessTicketPaths_total
#print axioms Agd.Tie.TrC20.collect_tr
