import Agd.Tie.TrC19
import Agd.Model.LinkIP
import Agd.Lemmas.LinkIP
import Agd.Tie.C19
/-! C19 — the linked-IP proxy forwards only its API and only with the real client address.

All theorems are about `Agd.LinkIP.serve` / `shouldProxy`, i.e. the code after the two `fix:`
commits (`Variant.fixed`).  The two `pinned_…` theorems show that the pinned tree
(`Variant.pinned`) violated the property. -/
namespace Agd.LinkIP

/-- A path segment of the documented API: no slash inside, and not a dot segment. -/
def Seg (s : Str) : Prop := '/' ∉ s ∧ s ≠ sDot ∧ s ≠ sDotDot

def path3 (a b c : Str) : Str := a ++ '/' :: (b ++ '/' :: c)
def path4 (a b c d : Str) : Str := a ++ '/' :: (b ++ '/' :: (c ++ '/' :: d))

/-- The four documented method / path shapes (`doc/http.md`), for the path without its leading
slash.  Segments may be any byte strings without `/` that are not `.` or `..` (also empty). -/
inductive Shape : Str → Str → Prop
  | getLink (dev enc : Str) : Seg dev → Seg enc → Shape mGET (path3 sLinkip dev enc)
  | getStatus (dev enc : Str) : Seg dev → Seg enc → Shape mGET (path4 sLinkip dev enc sStatus)
  | postDdns (dev enc dom : Str) : Seg dev → Seg enc → Seg dom → Shape mPOST (path4 sDdns dev enc dom)
  | postLink (dev enc : Str) : Seg dev → Seg enc → Shape mPOST (path3 sLinkip dev enc)

def pLinkip : Str := '/' :: sLinkip ++ ['/']
def pDdns : Str := '/' :: sDdns ++ ['/']

/-- "under the API prefixes" -/
def underPrefix (p : Str) : Bool := pLinkip.isPrefixOf p || pDdns.isPrefixOf p

/-! ### shouldProxy is exactly the four shapes -/

theorem shouldProxy_parts {m p : Str} (h : shouldProxy m p = true) :
    ((split (trimSlash p)).length = 3 ∨ (split (trimSlash p)).length = 4) ∧
    (split (trimSlash p)).any isDot = false ∧
    ((m = mGET ∧ shouldProxyGet (split (trimSlash p)) = true) ∨
     (m = mPOST ∧ shouldProxyPost (split (trimSlash p)) = true)) := by
  unfold shouldProxy shouldProxyV at h
  simp only [Variant.fixed, Bool.true_and] at h
  generalize trimSlash p = q at h ⊢
  by_cases hl : (splitN 5 q).length < 3 ∨ (splitN 5 q).length > 4
  · have : (decide ((splitN 5 q).length < 3) || decide ((splitN 5 q).length > 4)) = true := by
      simpa using hl
    simp [this] at h
  · have hl' : (decide ((splitN 5 q).length < 3) || decide ((splitN 5 q).length > 4)) = false := by
      simpa using hl
    have hlen : (splitN 5 q).length < 5 := by omega
    have heq := splitN_eq_split 5 q hlen
    rw [hl'] at h
    simp only [Bool.false_eq_true, if_false] at h
    rw [heq] at h hl
    refine ⟨by omega, ?_, ?_⟩
    · by_cases hd : (split q).any isDot = true
      · simp [hd] at h
      · simpa using hd
    · by_cases hd : (split q).any isDot = true
      · simp [hd] at h
      · rw [if_neg hd] at h
        by_cases hg : m = mGET
        · rw [if_pos hg] at h; exact Or.inl ⟨hg, h⟩
        · rw [if_neg hg] at h
          by_cases hp : m = mPOST
          · rw [if_pos hp] at h; exact Or.inr ⟨hp, h⟩
          · rw [if_neg hp] at h; exact absurd h (by simp)

theorem parts_seg {q : Str} (h : (split q).any isDot = false) : ∀ x ∈ split q, Seg x := by
  intro x hx
  have hd : isDot x = false := by
    have := List.any_eq_false.mp h x hx
    simpa using this
  exact ⟨mem_split_noslash q x hx, isDot_false hd⟩

theorem seg_not_dot {x : Str} (h : Seg x) : isDot x = false := by
  simp [isDot, h.2.1, h.2.2]

theorem shape_accepted {m q : Str} (h : Shape m q) : ∀ p, trimSlash p = q → shouldProxy m p = true := by
  intro p hp
  unfold shouldProxy shouldProxyV
  simp only [Variant.fixed, Bool.true_and]
  rw [hp]
  have hl : '/' ∉ sLinkip := by decide
  have hd : '/' ∉ sDdns := by decide
  have hst : '/' ∉ sStatus := by decide
  cases h with
  | getLink dev enc h1 h2 =>
    have hs : split (path3 sLinkip dev enc) = [sLinkip, dev, enc] := by
      simp [path3, split_append_slash _ hl, split_append_slash _ h1.1, split_noslash h2.1]
    have hn := splitN_of_split_short 5 (path3 sLinkip dev enc) (by rw [hs]; simp)
    rw [hn, hs]
    simp [seg_not_dot h1, seg_not_dot h2, shouldProxyGet, show isDot sLinkip = false by decide]
  | getStatus dev enc h1 h2 =>
    have hs : split (path4 sLinkip dev enc sStatus) = [sLinkip, dev, enc, sStatus] := by
      simp [path4, split_append_slash _ hl, split_append_slash _ h1.1, split_append_slash _ h2.1,
        split_noslash hst]
    have hn := splitN_of_split_short 5 (path4 sLinkip dev enc sStatus) (by rw [hs]; simp)
    rw [hn, hs]
    simp [seg_not_dot h1, seg_not_dot h2, shouldProxyGet, show isDot sLinkip = false by decide,
      show isDot sStatus = false by decide]
  | postDdns dev enc dom h1 h2 h3 =>
    have hs : split (path4 sDdns dev enc dom) = [sDdns, dev, enc, dom] := by
      simp [path4, split_append_slash _ hd, split_append_slash _ h1.1, split_append_slash _ h2.1,
        split_noslash h3.1]
    have hn := splitN_of_split_short 5 (path4 sDdns dev enc dom) (by rw [hs]; simp)
    rw [hn, hs]
    simp [seg_not_dot h1, seg_not_dot h2, seg_not_dot h3, shouldProxyPost,
      show isDot sDdns = false by decide, show mPOST ≠ mGET by decide]
  | postLink dev enc h1 h2 =>
    have hs : split (path3 sLinkip dev enc) = [sLinkip, dev, enc] := by
      simp [path3, split_append_slash _ hl, split_append_slash _ h1.1, split_noslash h2.1]
    have hn := splitN_of_split_short 5 (path3 sLinkip dev enc) (by rw [hs]; simp)
    rw [hn, hs]
    simp [seg_not_dot h1, seg_not_dot h2, shouldProxyPost, show isDot sLinkip = false by decide,
      show mPOST ≠ mGET by decide]

/-- **only_four_shapes / four_shapes_accepted**: a request is handed to the backend logic exactly
when its method and path (without the one leading slash) have one of the four documented shapes
with dot-free segments — for every method string and every raw path. -/
theorem shouldProxy_iff (m p : Str) : shouldProxy m p = true ↔ Shape m (trimSlash p) := by
  constructor
  · intro h
    obtain ⟨hlen, hdot, hm⟩ := shouldProxy_parts h
    generalize trimSlash p = q at *
    have hseg := parts_seg hdot
    have hj := join_split q
    rcases hlen with hlen | hlen
    · match hs : split q, hlen with
      | [a, b, c], _ =>
        rw [hs] at hseg hj hm
        have hq : q = path3 a b c := by rw [← hj]; simp [join, path3]
        rcases hm with ⟨rfl, hg⟩ | ⟨rfl, hp⟩
        · have ha : a = sLinkip := by simpa [shouldProxyGet] using hg
          rw [hq, ha]
          exact Shape.getLink b c (hseg b (by simp)) (hseg c (by simp))
        · have ha : a = sLinkip := by
            have : (a = sDdns ∧ False) ∨ a = sLinkip := by simpa [shouldProxyPost] using hp
            rcases this with ⟨_, f⟩ | h
            · exact absurd f id
            · exact h
          rw [hq, ha]
          exact Shape.postLink b c (hseg b (by simp)) (hseg c (by simp))
    · match hs : split q, hlen with
      | [a, b, c, d], _ =>
        rw [hs] at hseg hj hm
        have hq : q = path4 a b c d := by rw [← hj]; simp [join, path4]
        rcases hm with ⟨rfl, hg⟩ | ⟨rfl, hp⟩
        · have ha : a = sLinkip ∧ d = sStatus := by simpa [shouldProxyGet] using hg
          rw [hq, ha.1, ha.2]
          exact Shape.getStatus b c (hseg b (by simp)) (hseg c (by simp))
        · have ha : a = sDdns := by
            have : a = sDdns ∨ (a = sLinkip ∧ False) := by simpa [shouldProxyPost] using hp
            rcases this with h | ⟨_, f⟩
            · exact h
            · exact absurd f id
          rw [hq, ha]
          exact Shape.postDdns b c d (hseg b (by simp)) (hseg c (by simp)) (hseg d (by simp))
  · intro h
    exact shape_accepted h p rfl

theorem shape_underPrefix {m q : Str} (h : Shape m q) : underPrefix ('/' :: q) = true := by
  cases h <;> simp [underPrefix, pLinkip, pDdns, path3, path4, sLinkip, sDdns, List.isPrefixOf]

/-- **stays_under_prefix**: for every accepted request and every target base path, the path sent to
the backend is the base (minus one trailing slash) followed by `rel`, where `rel` is already a
fixed point of RFC 3986 dot-segment removal, starts with `/linkip/` or `/ddns/`, and still has the
documented shape. -/
theorem stays_under_prefix (base : Str) {m p : Str} (h : shouldProxy m p = true) :
    ∃ rel, joinPath base p = stripEnd base ++ rel ∧ normalize rel = rel ∧ underPrefix rel = true ∧
      Shape m rel.tail := by
  refine ⟨'/' :: trimSlash p, joinPath_eq base p, ?_, ?_, ?_⟩
  · exact normalize_nodot _ (shouldProxy_parts h).2.1
  · exact shape_underPrefix ((shouldProxy_iff m p).mp h)
  · exact (shouldProxy_iff m p).mp h

/-! ### the handler -/

/-- **else_local_404**: whatever is not one of the four shapes is answered locally — the robots
file for `/robots.txt`, 404 otherwise — for every method, path, peer address and header set. -/
theorem else_local_404 (e : Env) (r : Req) (h : shouldProxy r.method r.path = false) :
    serve e r = if r.path = robotsPath then .robots else .notFound := by
  have h' : shouldProxyV .fixed r.method r.path = false := h
  simp [serve, serveV, h']

theorem upgradeType_congr {h h' : Hdrs} (hc : vals hConnection h = vals hConnection h')
    (hu : vals hUpgrade h = vals hUpgrade h') : upgradeType h = upgradeType h' := by
  unfold upgradeType asksUpgrade hget
  rw [hc, hu]

/-- what `ServeHTTP` does to the header set does not touch the protocol-switch request. -/
theorem upgradeType_scrubbed (rid ip : Str) (hs : Hdrs) :
    upgradeType (hset hXRequestID rid (hset hXConnectingIP ip
      (hdel hXRealIP (hdel hTrueClientIP (hdel hForwarded (hdel hCFConnectingIP hs)))))) = upgradeType hs := by
  apply upgradeType_congr
  · rw [vals_hset_other (by decide), vals_hset_other (by decide), vals_hdel_other (by decide),
      vals_hdel_other (by decide), vals_hdel_other (by decide), vals_hdel_other (by decide)]
  · rw [vals_hset_other (by decide), vals_hset_other (by decide), vals_hdel_other (by decide),
      vals_hdel_other (by decide), vals_hdel_other (by decide), vals_hdel_other (by decide)]

/-- What `serve` returns when it contacts the backend. -/
theorem serve_proxied_inv {e : Env} {r : Req} {path : Str} {hd : Hdrs} (h : serve e r = .proxied path hd) :
    shouldProxy r.method r.path = true ∧ path = joinPath e.base r.path ∧
    ∃ ip, splitHost r.remote = some ip ∧ isPrint (upgradeType r.hdrs) = true ∧
      hd = proxyHeaders .fixed e.ua (hset hXRequestID e.reqID (hset hXConnectingIP ip
        (hdel hXRealIP (hdel hTrueClientIP (hdel hForwarded (hdel hCFConnectingIP r.hdrs)))))) := by
  unfold serve serveV at h
  by_cases hs : shouldProxyV .fixed r.method r.path = true
  · rw [if_pos hs] at h
    cases hip : splitHost r.remote with
    | none => rw [hip] at h; simp at h
    | some ip =>
      rw [hip] at h
      simp only at h
      rw [upgradeType_scrubbed] at h
      by_cases hpr : isPrint (upgradeType r.hdrs) = true
      · rw [if_pos hpr] at h
        simp only [Resp.proxied.injEq] at h
        exact ⟨hs, h.1.symm, ip, rfl, hpr, h.2.symm⟩
      · rw [if_neg hpr] at h
        simp at h
  · rw [if_neg hs] at h
    split at h <;> simp at h

/-- **backend_only_for_api**: the backend is contacted only for an accepted request, i.e. only for
the four shapes, and with the path of `stays_under_prefix`. -/
theorem backend_only_for_api {e : Env} {r : Req} {path : Str} {hd : Hdrs} (h : serve e r = .proxied path hd) :
    Shape r.method (trimSlash r.path) ∧
    ∃ rel, path = stripEnd e.base ++ rel ∧ normalize rel = rel ∧ underPrefix rel = true ∧
      Shape r.method rel.tail := by
  obtain ⟨hs, hp, _⟩ := serve_proxied_inv h
  refine ⟨(shouldProxy_iff _ _).mp hs, ?_⟩
  obtain ⟨rel, h1, h2, h3, h4⟩ := stays_under_prefix e.base hs
  exact ⟨rel, by rw [hp, h1], h2, h3, h4⟩

/-- a header that is absent stays absent through `ReverseProxy` and `Rewrite`, unless it is one of
the three that `Rewrite` sets (`Connection`/`Upgrade`, which the library may put back, are deleted
at the end). -/
theorem proxyHeaders_keeps_nil {n : Str} (ua : Str) {inH : Hdrs} (h1 : n ≠ hUserAgent) (h2 : n ≠ hXConnectingIP)
    (h3 : n ≠ hXRequestID) (hn : vals n inH = []) : vals n (proxyHeaders .fixed ua inH) = [] := by
  unfold proxyHeaders removeHopByHop dropUpgradeHdrs
  simp only [Variant.fixed, if_true]
  by_cases hu : n = hUpgrade
  · rw [hu]; exact vals_hdel_same _ _
  by_cases hc : n = hConnection
  · rw [hc]; exact vals_hdel_nil _ (vals_hdel_same _ _)
  apply vals_hdel_nil; apply vals_hdel_nil
  apply vals_hset_nil h3
  apply vals_hset_nil h2
  apply vals_hset_nil h1
  apply vals_hdel_nil; apply vals_hdel_nil; apply vals_hdel_nil; apply vals_hdel_nil
  unfold reAddUpgrade
  split
  · apply vals_hdelAll_nil
    apply vals_hdelAll_nil
    exact hn
  · apply vals_hset_nil hu
    apply vals_hset_nil hc
    apply vals_hdelAll_nil
    apply vals_hdelAll_nil
    exact hn

/-- **client_ip_header**: every forwarded request carries exactly one `X-Connecting-Ip`, and it is
the host part of the connecting peer's address — whatever header set the client sent, including
forged `X-Connecting-IP` values and `Connection` tokens naming it. -/
theorem client_ip_header {e : Env} {r : Req} {path : Str} {hd : Hdrs} (h : serve e r = .proxied path hd) :
    ∃ ip, splitHost r.remote = some ip ∧ vals hXConnectingIP hd = [ip] := by
  obtain ⟨_, _, ip, hip, _, hhd⟩ := serve_proxied_inv h
  refine ⟨ip, hip, ?_⟩
  rw [hhd]
  unfold proxyHeaders dropUpgradeHdrs
  simp only [Variant.fixed, if_true]
  have hne : hXConnectingIP ≠ hXRequestID := by decide
  rw [vals_hdel_other (by decide), vals_hdel_other (by decide), vals_hset_other hne, vals_hset_same]
  simp only [hget, vals_hset_other hne, vals_hset_same, List.headD_cons]

theorem served_keeps_nil {n : Str} (e : Env) (ip : Str) {h0 : Hdrs} (h1 : n ≠ hUserAgent)
    (h2 : n ≠ hXConnectingIP) (h3 : n ≠ hXRequestID) (hn : vals n h0 = []) :
    vals n (proxyHeaders .fixed e.ua (hset hXRequestID e.reqID (hset hXConnectingIP ip h0))) = [] :=
  proxyHeaders_keeps_nil _ h1 h2 h3 (vals_hset_nil h3 _ (vals_hset_nil h2 _ hn))

theorem proxy_strips (ua : Str) (inH : Hdrs) :
    vals hForwarded (proxyHeaders .fixed ua inH) = [] ∧ vals hXForwardedFor (proxyHeaders .fixed ua inH) = [] ∧
    vals hXForwardedHost (proxyHeaders .fixed ua inH) = [] ∧
    vals hXForwardedProto (proxyHeaders .fixed ua inH) = [] := by
  unfold proxyHeaders dropUpgradeHdrs
  simp only [Variant.fixed, if_true]
  generalize reAddUpgrade (upgradeType inH) (removeHopByHop inH) = h
  have k : ∀ n, n ≠ hUserAgent → n ≠ hXConnectingIP → n ≠ hXRequestID → ∀ h0 : Hdrs, vals n h0 = [] →
      vals n (hdel hUpgrade (hdel hConnection (hset hXRequestID (hget hXRequestID inH)
        (hset hXConnectingIP (hget hXConnectingIP inH) (hset hUserAgent ua h0))))) = [] := by
    intro n h1 h2 h3 h0 hn
    exact vals_hdel_nil _ (vals_hdel_nil _ (vals_hset_nil h3 _ (vals_hset_nil h2 _ (vals_hset_nil h1 _ hn))))
  refine ⟨?_, ?_, ?_, ?_⟩
  · exact k hForwarded (by decide) (by decide) (by decide) _
      (vals_hdel_nil hXForwardedProto (vals_hdel_nil hXForwardedHost (vals_hdel_nil hXForwardedFor
        (vals_hdel_same hForwarded h))))
  · exact k hXForwardedFor (by decide) (by decide) (by decide) _
      (vals_hdel_nil hXForwardedProto (vals_hdel_nil hXForwardedHost (vals_hdel_same hXForwardedFor _)))
  · exact k hXForwardedHost (by decide) (by decide) (by decide) _
      (vals_hdel_nil hXForwardedProto (vals_hdel_same hXForwardedHost _))
  · exact k hXForwardedProto (by decide) (by decide) (by decide) _ (vals_hdel_same hXForwardedProto _)

/-- **no_forged_forwarding**: no forwarded request carries any of the seven forwarding headers
(`Cf-Connecting-Ip`, `Forwarded`, `True-Client-Ip`, `X-Real-Ip`, `X-Forwarded-For`,
`X-Forwarded-Host`, `X-Forwarded-Proto`), whatever the client sent. -/
theorem no_forged_forwarding {e : Env} {r : Req} {path : Str} {hd : Hdrs} (h : serve e r = .proxied path hd) :
    ∀ n ∈ forwardingNames, vals n hd = [] := by
  obtain ⟨_, _, ip, _, _, hhd⟩ := serve_proxied_inv h
  intro n hn
  rw [hhd]
  simp only [forwardingNames, List.mem_cons, List.not_mem_nil, or_false] at hn
  rcases hn with hn | hn | hn | hn | hn | hn | hn <;> rw [hn]
  · exact served_keeps_nil e ip (by decide) (by decide) (by decide)
      (vals_hdel_nil hXRealIP (vals_hdel_nil hTrueClientIP (vals_hdel_nil hForwarded
        (vals_hdel_same hCFConnectingIP r.hdrs))))
  · exact (proxy_strips e.ua _).1
  · exact served_keeps_nil e ip (by decide) (by decide) (by decide)
      (vals_hdel_nil hXRealIP (vals_hdel_same hTrueClientIP _))
  · exact served_keeps_nil e ip (by decide) (by decide) (by decide) (vals_hdel_same hXRealIP _)
  · exact (proxy_strips e.ua _).2.1
  · exact (proxy_strips e.ua _).2.2.1
  · exact (proxy_strips e.ua _).2.2.2

/-- **peer_address_hostport**: for the `host:port` form in which `net/http` reports an IPv4 peer (no
colon or bracket inside host or port) the address that `client_ip_header` puts into the header is
exactly `host`.  (The bracketed IPv6 form is `splitHost_bracketed` below.) -/
theorem splitHost_hostport {ip port : Str} (h1 : ':' ∉ ip) (h2 : '[' ∉ ip) (h3 : ']' ∉ ip)
    (p1 : ':' ∉ port) (p2 : '[' ∉ port) (p3 : ']' ∉ port) : splitHost (ip ++ ':' :: port) = some ip := by
  have hl := lastIdx_append ':' ip port p1
  have hne : ∀ r, ip ++ ':' :: port ≠ '[' :: r := by
    intro r e
    cases ip with
    | nil => simp at e
    | cons x t => simp at e; exact h2 (by simp [e.1])
  have hc1 : (ip ++ ':' :: port).contains '[' = false := by simp [h2, p2]
  have hc2 : (ip ++ ':' :: port).contains ']' = false := by simp [h3, p3]
  have hc3 : (List.take ip.length (ip ++ ':' :: port)).contains ':' = false := by simp [h1]
  have hp : splitHostPort (ip ++ ':' :: port) = .ok ip := by
    unfold splitHostPort
    rw [hl]
    simp only
    split
    · next heq => rw [hc3] at heq; exact absurd heq (by simp)
    · simp [h2, h3, p2, p3]
  simp [splitHost, hp]

/-- **C19, combined**: if the backend is contacted then the request had one of the four shapes, the
backend path is a normalised path under `/linkip/` or `/ddns/` (after the target's base path), the
client-IP header is the peer's address and no forwarding header survives. -/
theorem forwards_only_api_with_real_address {e : Env} {r : Req} {path : Str} {hd : Hdrs}
    (h : serve e r = .proxied path hd) :
    Shape r.method (trimSlash r.path) ∧
    (∃ rel, path = stripEnd e.base ++ rel ∧ normalize rel = rel ∧ underPrefix rel = true) ∧
    (∃ ip, splitHost r.remote = some ip ∧ vals hXConnectingIP hd = [ip]) ∧
    (∀ n ∈ forwardingNames, vals n hd = []) := by
  obtain ⟨hs, rel, h1, h2, h3, _⟩ := backend_only_for_api h
  exact ⟨hs, ⟨rel, h1, h2, h3⟩, client_ip_header h, no_forged_forwarding h⟩

/-! ### deepening: independent statements, peer address forms, base path, wire level -/

/-- **not_api_answered_locally**: stated with the documented shapes only (no reference to
`shouldProxy`): a request that has none of the four shapes is answered locally, with the robots file
exactly for `/robots.txt` and 404 otherwise. -/
theorem not_api_answered_locally (e : Env) (r : Req) (h : ¬ Shape r.method (trimSlash r.path)) :
    (r.path = robotsPath → serve e r = .robots) ∧ (r.path ≠ robotsPath → serve e r = .notFound) := by
  have hs : shouldProxy r.method r.path = false := by
    cases hb : shouldProxy r.method r.path with
    | false => rfl
    | true => exact absurd ((shouldProxy_iff _ _).mp hb) h
  have := else_local_404 e r hs
  constructor
  · intro hp; rw [this, if_pos hp]
  · intro hp; rw [this, if_neg hp]

/-- the robots path itself is never an API request, for any method. -/
theorem robots_not_api (m : Str) : ¬ Shape m (trimSlash robotsPath) := by
  intro h
  have := (shouldProxy_iff m robotsPath).mpr h
  have hf : ∀ m, shouldProxy m robotsPath = false := by
    intro m
    unfold shouldProxy shouldProxyV
    have : (splitN 5 (trimSlash robotsPath)).length = 1 := by decide
    simp [this]
  rw [hf] at this
  exact absurd this (by simp)

/-- **backend_iff_api**: the backend is contacted exactly for the four documented shapes coming
from a peer whose address has a host part (and, a refusal of `httputil.ReverseProxy` itself, not
asking to switch to a protocol whose name is not printable ASCII). -/
theorem backend_iff_api (e : Env) (r : Req) :
    (∃ path hd, serve e r = .proxied path hd) ↔
      (Shape r.method (trimSlash r.path) ∧ (∃ ip, splitHost r.remote = some ip) ∧
        isPrint (upgradeType r.hdrs) = true) := by
  constructor
  · rintro ⟨path, hd, h⟩
    obtain ⟨hs, _, ip, hip, hpr, _⟩ := serve_proxied_inv h
    exact ⟨(shouldProxy_iff _ _).mp hs, ⟨ip, hip⟩, hpr⟩
  · rintro ⟨hs, ⟨ip, hip⟩, hpr⟩
    have hs' : shouldProxyV .fixed r.method r.path = true := (shouldProxy_iff _ _).mpr hs
    simp [serve, serveV, hs', hip, upgradeType_scrubbed, hpr]

/-- **api_request_outcomes**: a request with one of the four shapes is never answered with 404 or
the robots file: it is forwarded, or refused with 500 (no usable peer address), or dropped by the
reverse proxy with an empty answer (unprintable protocol switch); in the last two cases the backend
is not contacted. -/
theorem api_request_outcomes (e : Env) (r : Req) (hs : Shape r.method (trimSlash r.path)) :
    (splitHost r.remote = none → serve e r = .err500) ∧
    ((∃ ip, splitHost r.remote = some ip) → isPrint (upgradeType r.hdrs) = false → serve e r = .proxyErr) := by
  have hs' : shouldProxyV .fixed r.method r.path = true := (shouldProxy_iff _ _).mpr hs
  constructor
  · intro hn; simp [serve, serveV, hs', hn]
  · rintro ⟨ip, hip⟩ hpr
    simp [serve, serveV, hs', hip, upgradeType_scrubbed, hpr]

/-- **bad_peer_not_forwarded**: without a usable peer address nothing reaches the backend. -/
theorem bad_peer_not_forwarded (e : Env) (r : Req) (h : splitHost r.remote = none) :
    ∀ path hd, serve e r ≠ .proxied path hd := by
  intro path hd hp
  obtain ⟨_, _, ip, hip, _⟩ := serve_proxied_inv hp
  rw [h] at hip
  exact absurd hip (by simp)

/-- **no_protocol_switch**: no forwarded request asks the backend to switch protocols — it carries
neither an `Upgrade` nor a `Connection` header, whatever the client sent (`Connection: Upgrade` with
any protocol name, which `httputil.ReverseProxy` would pass on and, on a `101` answer, turn into a
raw byte tunnel between client and backend that bypasses the allow-list and the header rewriting). -/
theorem no_protocol_switch {e : Env} {r : Req} {path : Str} {hd : Hdrs} (h : serve e r = .proxied path hd) :
    vals hUpgrade hd = [] ∧ vals hConnection hd = [] ∧ upgradeType hd = [] := by
  obtain ⟨_, _, ip, _, _, hhd⟩ := serve_proxied_inv h
  have h1 : vals hUpgrade hd = [] := by
    rw [hhd]; unfold proxyHeaders dropUpgradeHdrs
    simp only [Variant.fixed, if_true]
    exact vals_hdel_same _ _
  have h2 : vals hConnection hd = [] := by
    rw [hhd]; unfold proxyHeaders dropUpgradeHdrs
    simp only [Variant.fixed, if_true]
    exact vals_hdel_nil _ (vals_hdel_same _ _)
  refine ⟨h1, h2, ?_⟩
  unfold upgradeType asksUpgrade
  rw [h2]
  simp

/-- What the backend can use to identify the client: the client-IP header and the seven forwarding
headers. -/
def identityHeaders (hd : Hdrs) : List (List Str) := (hXConnectingIP :: forwardingNames).map (vals · hd)

/-- **client_cannot_choose_address** (non-interference): the identity headers of a forwarded request
are a function of the peer address alone — two requests from the same peer that differ arbitrarily
in method, path, header set (forged values, `Connection` tokens, …), target and request ID are
forwarded with identical identity headers, namely the peer's address and nothing else. -/
theorem client_cannot_choose_address {e e' : Env} {r r' : Req} {path path' : Str} {hd hd' : Hdrs}
    (hr : r.remote = r'.remote) (h : serve e r = .proxied path hd) (h' : serve e' r' = .proxied path' hd') :
    identityHeaders hd = identityHeaders hd' ∧
    ∃ ip, splitHost r.remote = some ip ∧ identityHeaders hd = [ip] :: forwardingNames.map (fun _ => []) := by
  obtain ⟨ip, hip, hv⟩ := client_ip_header h
  obtain ⟨ip', hip', hv'⟩ := client_ip_header h'
  have hf := no_forged_forwarding h
  have hf' := no_forged_forwarding h'
  rw [← hr, hip] at hip'
  have hii : ip' = ip := by simpa using hip'.symm
  have e1 : identityHeaders hd = [ip] :: forwardingNames.map (fun _ => []) := by
    unfold identityHeaders
    rw [List.map_cons, hv]
    congr 1
    exact List.map_congr_left (fun n hn => hf n hn)
  have e2 : identityHeaders hd' = [ip] :: forwardingNames.map (fun _ => []) := by
    unfold identityHeaders
    rw [List.map_cons, hv', hii]
    congr 1
    exact List.map_congr_left (fun n hn => hf' n hn)
  exact ⟨by rw [e1, e2], ip, hip, e1⟩

/-- the `[host]:port` form in which `net/http` reports an IPv6 peer (zone included in `ip`). -/
theorem splitHost_bracketed {ip port : Str} (h2 : '[' ∉ ip) (h3 : ']' ∉ ip)
    (p1 : ':' ∉ port) (p2 : '[' ∉ port) (p3 : ']' ∉ port) :
    splitHost ('[' :: (ip ++ ']' :: ':' :: port)) = some ip := by
  have hl : lastIdx ':' ('[' :: (ip ++ ']' :: ':' :: port)) = some (ip.length + 2) := by
    have := lastIdx_append ':' ('[' :: (ip ++ [']'])) port p1
    simpa using this
  have hf : firstIdx ']' ('[' :: (ip ++ ']' :: ':' :: port)) = some (ip.length + 1) := by
    have := firstIdx_append ']' ('[' :: ip) (':' :: port) (by simp [h3])
    simpa using this
  have hp : splitHostPort ('[' :: (ip ++ ']' :: ':' :: port)) = .ok ip := by
    unfold splitHostPort
    rw [hl]
    simp only [hf]
    have hlen : ¬ (ip.length + 1 + 1 = ('[' :: (ip ++ ']' :: ':' :: port)).length) := by
      simp
    rw [if_neg hlen]
    have hd : List.drop (ip.length + 1 + 1) ('[' :: (ip ++ ']' :: ':' :: port)) = ':' :: port := by
      simp [List.drop_append]
    have ht : List.take (ip.length + 1) ('[' :: (ip ++ ']' :: ':' :: port)) = '[' :: ip := by
      simp
    simp [hd, ht, h2, p2, p3]
  simp [splitHost, hp]

/-- The two forms of `http.Request.RemoteAddr` that `net/http` produces for a TCP peer. -/
inductive PeerAddr : Str → Str → Prop
  | v4 (ip port : Str) : ':' ∉ ip → '[' ∉ ip → ']' ∉ ip → ':' ∉ port → '[' ∉ port → ']' ∉ port →
      PeerAddr (ip ++ ':' :: port) ip
  | v6 (ip port : Str) : '[' ∉ ip → ']' ∉ ip → ':' ∉ port → '[' ∉ port → ']' ∉ port →
      PeerAddr ('[' :: (ip ++ ']' :: ':' :: port)) ip

/-- **client_ip_is_peer_ip**: for both forms of a TCP peer address the forwarded client-IP header is
exactly the peer's IP (no port, no brackets), and the request is never refused with 500. -/
theorem client_ip_is_peer_ip {e : Env} {r : Req} {ip : Str} (hp : PeerAddr r.remote ip)
    (hs : Shape r.method (trimSlash r.path)) (hpr : isPrint (upgradeType r.hdrs) = true) :
    ∃ path hd, serve e r = .proxied path hd ∧ vals hXConnectingIP hd = [ip] := by
  have hgen : ∀ rem, PeerAddr rem ip → splitHost rem = some ip := by
    intro rem hp
    cases hp with
    | v4 _ port a b c d e f => exact splitHost_hostport a b c d e f
    | v6 _ port a b c d e => exact splitHost_bracketed a b c d e
  have hip : splitHost r.remote = some ip := hgen _ hp
  obtain ⟨path, hd, h⟩ := (backend_iff_api e r).mpr ⟨hs, ⟨ip, hip⟩, hpr⟩
  obtain ⟨ip', hip', hv⟩ := client_ip_header h
  rw [hip] at hip'
  have : ip' = ip := by simpa using hip'.symm
  exact ⟨path, hd, h, by rw [hv, this]⟩

/-! #### the configured base path -/

/-- a target base path free of dot segments: empty, or absolute with no `.`/`..` segment. -/
def CleanBase (base : Str) : Prop := base = [] ∨ ∃ b, base = '/' :: b ∧ (split b).any isDot = false

theorem any_isDot_append_slash {a q : Str} (ha : (split a).any isDot = false) (hq : (split q).any isDot = false) :
    (split (a ++ '/' :: q)).any isDot = false := by
  rw [split_append, List.any_append, ha, hq]; rfl

theorem stripEnd_clean {b : Str} (hb : (split b).any isDot = false) : (split (stripEnd b)).any isDot = false := by
  cases he : endsSlash b with
  | false => rw [stripEnd_of_not_endsSlash b he]; exact hb
  | true =>
    have := stripEnd_of_endsSlash b he
    rw [this] at hb
    have hx : stripEnd b ++ ['/'] = stripEnd b ++ '/' :: [] := rfl
    rw [hx, split_append, List.any_append] at hb
    simp only [Bool.or_eq_false_iff] at hb
    exact hb.1

/-- **backend_path_normalised**: with a dot-free base path the *whole* path sent to the backend is a
fixed point of RFC 3986 dot-segment removal — normalisation cannot move it anywhere. -/
theorem backend_path_normalised {base m p : Str} (hb : CleanBase base) (h : shouldProxy m p = true) :
    normalize (joinPath base p) = joinPath base p := by
  have hq := (shouldProxy_parts h).2.1
  rw [joinPath_eq]
  rcases hb with rfl | ⟨b, rfl, hb⟩
  · simp only [stripEnd, List.nil_append]
    exact normalize_nodot _ hq
  · cases b with
    | nil =>
      simp only [stripEnd, if_true, List.nil_append]
      exact normalize_nodot _ hq
    | cons c r =>
      have hse : stripEnd ('/' :: c :: r) = '/' :: stripEnd (c :: r) := by simp [stripEnd]
      rw [hse, List.cons_append]
      exact normalize_nodot _ (any_isDot_append_slash (stripEnd_clean hb) hq)

/-! #### the request target as it is on the wire -/

/-- **wire_segments_dot_free**: for every origin-form request target that `net/http` accepts and the
proxy forwards, every raw `/`-separated segment of the target's path (the bytes the backend receives
when the client's escaping is kept) percent-decodes, and its decoding neither is a dot segment nor
contains one — so a backend that decodes before or after normalising stays under the prefix too. -/
theorem wire_segments_dot_free {m t p : Str} (ht : parseTarget ('/' :: t) = some p)
    (h : shouldProxy m p = true) :
    ∀ s ∈ split (rawPath t), ∃ d, unescape s = some d ∧ (∀ x ∈ split d, Seg x) ∧ d ≠ sDot ∧ d ≠ sDotDot := by
  unfold parseTarget at ht
  split at ht
  · exact absurd ht (by simp)
  · have hrp : rawPath ('/' :: t) = '/' :: rawPath t := by simp [rawPath, List.takeWhile]
    rw [hrp, unescape_cons_noPct (by decide)] at ht
    cases hd : unescape (rawPath t) with
    | none => simp [hd] at ht
    | some d0 =>
      simp [hd] at ht
      subst ht
      have hseg := parts_seg (shouldProxy_parts h).2.1
      simp only [trimSlash] at hseg
      intro s hs
      obtain ⟨d, h1, h2⟩ := raw_segments_decode (rawPath t).length (rawPath t) d0 (Nat.le_refl _) hd s hs
      have hall : ∀ x ∈ split d, Seg x := fun x hx => hseg x (h2 x hx)
      refine ⟨d, h1, hall, ?_, ?_⟩
      · intro hdot
        have : sDot ∈ split d := by rw [hdot]; decide
        exact (hall _ this).2.1 rfl
      · intro hdot
        have : sDotDot ∈ split d := by rw [hdot]; decide
        exact (hall _ this).2.2 rfl

/-- **C19 on the wire**: for every method, origin-form request target, peer address and header set:
if `net/http` accepts the target and the backend is contacted, then the decoded path has one of the
four shapes, no raw segment of the target decodes to (or contains) a dot segment, the backend path
is normalised under the prefix, the client-IP header is the peer's address, no forwarding header
survives and no protocol switch is requested from the backend. -/
theorem wire_forwards_only_api_with_real_address {e : Env} {m t p remote : Str} {hs : Hdrs} {path : Str}
    {hd : Hdrs} (ht : parseTarget ('/' :: t) = some p)
    (h : serve e { method := m, path := p, remote := remote, hdrs := hs } = .proxied path hd) :
    Shape m (trimSlash p) ∧
    (∀ s ∈ split (rawPath t), ∃ d, unescape s = some d ∧ (∀ x ∈ split d, Seg x) ∧ d ≠ sDot ∧ d ≠ sDotDot) ∧
    (∃ rel, path = stripEnd e.base ++ rel ∧ normalize rel = rel ∧ underPrefix rel = true) ∧
    (∃ ip, splitHost remote = some ip ∧ vals hXConnectingIP hd = [ip]) ∧
    (∀ n ∈ forwardingNames, vals n hd = []) ∧ upgradeType hd = [] := by
  obtain ⟨h1, h2, h3, h4⟩ := forwards_only_api_with_real_address h
  have hsp : shouldProxy m p = true := (shouldProxy_iff m p).mpr h1
  exact ⟨h1, wire_segments_dot_free ht hsp, h2, h3, h4, (no_protocol_switch h).2.2⟩

/-! #### every form of request target (origin form, absolute form, `*`, the authority of CONNECT) -/

theorem shouldProxy_nil (m : Str) : shouldProxy m [] = false := by
  unfold shouldProxy shouldProxyV
  have : (splitN 5 (trimSlash [])).length = 1 := by decide
  simp [this]

theorem shouldProxy_star (m : Str) : shouldProxy m ['*'] = false := by
  unfold shouldProxy shouldProxyV
  have : (splitN 5 (trimSlash ['*'])).length = 1 := by decide
  simp [this]

/-- an accepted request had a path-and-query part `/q` on the wire — `*`, opaque URLs and absolute
URLs without a path are never accepted — and its path is `parseTarget` of that part. -/
theorem accepted_target_origin {m t p : Str} (ht : parseAnyTarget m t = .path p) (hs : shouldProxy m p = true) :
    ∃ q, classify m t = .origin q ∧ parseTarget ('/' :: q) = some p := by
  unfold parseAnyTarget at ht
  cases hc : classify m t with
  | refused => rw [hc] at ht; simp at ht
  | unmodelled => rw [hc] at ht; simp at ht
  | noPath star =>
    rw [hc] at ht
    cases star
    · simp at ht; subst ht; rw [shouldProxy_nil] at hs; exact absurd hs (by simp)
    · simp at ht; subst ht; rw [shouldProxy_star] at hs; exact absurd hs (by simp)
  | origin q =>
    rw [hc] at ht
    simp only at ht
    cases hp : parseTarget ('/' :: q) with
    | none => rw [hp] at ht; simp at ht
    | some p' =>
      rw [hp] at ht
      simp only [Parsed.path.injEq] at ht
      exact ⟨q, rfl, by rw [← ht, hp]⟩

/-- **C19 on the wire, every target form**: like `wire_forwards_only_api_with_real_address`, but for
every request target `net/http` accepts — origin form, absolute form `scheme://host[:port]/…`
(whatever scheme and host the client names), `*`, opaque URLs, the authority of CONNECT: if the
backend is contacted, the target had a path-and-query part `/q`, and that part satisfies all clauses. -/
theorem wire_any_form_forwards_only_api_with_real_address {e : Env} {m t p remote : Str} {hs : Hdrs}
    {path : Str} {hd : Hdrs} (ht : parseAnyTarget m t = .path p)
    (h : serve e { method := m, path := p, remote := remote, hdrs := hs } = .proxied path hd) :
    ∃ q, classify m t = .origin q ∧
      Shape m (trimSlash p) ∧
      (∀ s ∈ split (rawPath q), ∃ d, unescape s = some d ∧ (∀ x ∈ split d, Seg x) ∧ d ≠ sDot ∧ d ≠ sDotDot) ∧
      (∃ rel, path = stripEnd e.base ++ rel ∧ normalize rel = rel ∧ underPrefix rel = true) ∧
      (∃ ip, splitHost remote = some ip ∧ vals hXConnectingIP hd = [ip]) ∧
      (∀ n ∈ forwardingNames, vals n hd = []) ∧ upgradeType hd = [] := by
  have hsp : shouldProxy m p = true := (serve_proxied_inv h).1
  obtain ⟨q, hc, hq⟩ := accepted_target_origin ht hsp
  exact ⟨q, hc, wire_forwards_only_api_with_real_address hq h⟩

/-! ### the pinned tree violated the property (counter-examples, replayed by the harness) -/

def cxPath : Str := ['/', 'l', 'i', 'n', 'k', 'i', 'p', '/', '.', '.', '/', 'x']

/-- `GET /linkip/../x` was accepted and normalises to `/x`, outside both prefixes. -/
theorem pinned_path_escapes_counterexample :
    ¬ (∀ m p, shouldProxyV .pinned m p = true → underPrefix (normalize (joinPath [] p)) = true) := by
  intro h
  have h1 : shouldProxyV .pinned mGET cxPath = true := by decide
  have h2 : normalize (joinPath [] cxPath) = ['/', 'x'] := by
    simp [normalize, joinPath, endsSlash, startsSlash, cxPath, split, normSegs, join, sDot, sDotDot]
  have h3 := h mGET cxPath h1
  rw [h2] at h3
  exact absurd h3 (by decide)

def cxReq : Req :=
  { method := mGET, path := ['/', 'l', 'i', 'n', 'k', 'i', 'p', '/', 'a', '/', 'b'],
    remote := ['1', '.', '2', '.', '3', '.', '4', ':', '5'],
    hdrs := [(hConnection, ['X', '-', 'C', 'o', 'n', 'n', 'e', 'c', 't', 'i', 'n', 'g', '-', 'I', 'P'])] }

def cxEnv : Env := { base := [], reqID := ['I', 'D'], ua := ['U', 'A'] }

def connIPOf : Resp → Option (List Str)
  | .proxied _ hd => some (vals hXConnectingIP hd)
  | _ => none

/-- `Connection: X-Connecting-IP` made the pinned proxy forward the request without the header. -/
theorem pinned_client_ip_stripped_counterexample :
    ¬ (∀ e r path hd, serveV .pinned e r = .proxied path hd →
        ∃ ip, splitHost r.remote = some ip ∧ vals hXConnectingIP hd = [ip]) := by
  intro h
  have hw : connIPOf (serveV .pinned cxEnv cxReq) = some [] := by decide
  cases hr : serveV .pinned cxEnv cxReq with
  | proxied path hd =>
    obtain ⟨ip, _, hv⟩ := h cxEnv cxReq path hd hr
    rw [hr] at hw
    simp [connIPOf, hv] at hw
  | notFound => rw [hr] at hw; simp [connIPOf] at hw
  | robots => rw [hr] at hw; simp [connIPOf] at hw
  | err500 => rw [hr] at hw; simp [connIPOf] at hw
  | proxyErr => rw [hr] at hw; simp [connIPOf] at hw

/-- `GET /linkip/a/b` from 1.2.3.4 with `Connection: Upgrade` and `Upgrade: h2c`. -/
def cxUpgradeReq : Req :=
  { cxReq with hdrs := [(hConnection, hUpgrade), (hUpgrade, ['h', '2', 'c'])] }

def upgradeOf : Resp → Option Str
  | .proxied _ hd => some (upgradeType hd)
  | _ => none

/-- Before the third `fix:` commit the proxy passed a protocol-switch request on to the backend
(`Connection: Upgrade`, `Upgrade: h2c` reached it).  If the backend answers `101`,
`httputil.ReverseProxy` joins client and backend with a raw byte tunnel, and what the client sends
through it is neither checked against the four shapes nor given the peer's address (replayed by the
harness with a backend that accepts the switch). -/
theorem upgrade_forwarded_counterexample :
    ¬ (∀ e r path hd, serveV .upgradeForwarding e r = .proxied path hd → upgradeType hd = []) := by
  intro h
  have hw : upgradeOf (serveV .upgradeForwarding cxEnv cxUpgradeReq) = some ['h', '2', 'c'] := by decide
  cases hr : serveV .upgradeForwarding cxEnv cxUpgradeReq with
  | proxied path hd =>
    have := h cxEnv cxUpgradeReq path hd hr
    rw [hr] at hw
    simp [upgradeOf, this] at hw
  | notFound => rw [hr] at hw; simp [upgradeOf] at hw
  | robots => rw [hr] at hw; simp [upgradeOf] at hw
  | err500 => rw [hr] at hw; simp [upgradeOf] at hw
  | proxyErr => rw [hr] at hw; simp [upgradeOf] at hw

/-! ### requests in flight together (schedules of `Rewrite` and `send` events) -/

/-- every entry is the outgoing request of its own client request. -/
def FlightOK (e : Env) (reqs : List Req) (l : List (Nat × Out)) : Prop :=
  ∀ io ∈ l, ∃ r, reqs[io.1]? = some r ∧ outOf e r = some io.2

theorem stepFlight_ok {e : Env} {reqs : List Req} {s : Flight} (ev : Ev)
    (hw : FlightOK e reqs s.waiting) (hl : FlightOK e reqs s.log) :
    FlightOK e reqs (stepFlight .none e reqs s ev).waiting ∧ FlightOK e reqs (stepFlight .none e reqs s ev).log := by
  cases ev with
  | rewrite i =>
    cases hr : reqs[i]? with
    | none => simp only [stepFlight, hr]; exact ⟨hw, hl⟩
    | some r =>
      cases ho : outOf e r with
      | none => simp only [stepFlight, hr, ho]; exact ⟨hw, hl⟩
      | some o =>
        simp only [stepFlight, hr, ho]
        refine ⟨?_, hl⟩
        intro io hio
        rcases List.mem_append.mp hio with h | h
        · exact hw io h
        · have : io = (i, o) := by simpa using h
          subst this
          exact ⟨r, hr, ho⟩
  | send i =>
    cases hf : s.waiting.find? (fun io => io.1 == i) with
    | none => simp only [stepFlight, hf]; exact ⟨hw, hl⟩
    | some io =>
      simp only [stepFlight, hf]
      refine ⟨fun x hx => hw x (List.mem_of_mem_eraseP hx), ?_⟩
      intro x hx
      rcases List.mem_append.mp hx with h | h
      · exact hl x h
      · have hmem : io ∈ s.waiting := List.mem_of_find?_eq_some hf
        have hi : (io.1 == i) = true := by simpa using List.find?_some hf
        obtain ⟨r, hr, ho⟩ := hw io hmem
        have hx' : x = (i, io.2) := by simpa [Sharing.none] using h
        subst hx'
        have : io.1 = i := by simpa using hi
        exact ⟨r, this ▸ hr, ho⟩

theorem foldl_stepFlight_ok {e : Env} {reqs : List Req} (evs : List Ev) :
    ∀ s : Flight, FlightOK e reqs s.waiting → FlightOK e reqs s.log →
      FlightOK e reqs (evs.foldl (stepFlight .none e reqs) s).log := by
  induction evs with
  | nil => intro s _ hl; exact hl
  | cons ev evs ih =>
    intro s hw hl
    obtain ⟨h1, h2⟩ := stepFlight_ok ev hw hl
    exact ih _ h1 h2

/-- **No request in flight influences another**: under every schedule of `Rewrite` and `send` events
over any list of client requests, every request the backend receives is, method, path and headers,
what the handler produces for the one client request that caused it. -/
theorem flights_independent (e : Env) (reqs : List Req) (evs : List Ev) :
    ∀ io ∈ (runFlight .none e reqs evs).log,
      ∃ r, reqs[io.1]? = some r ∧ io.2.method = r.method ∧ serve e r = .proxied io.2.path io.2.hdrs := by
  intro io hio
  have h := foldl_stepFlight_ok (e := e) (reqs := reqs) evs Flight.init
    (by intro x hx; simp [Flight.init] at hx) (by intro x hx; simp [Flight.init] at hx)
  obtain ⟨r, hr, ho⟩ := h io hio
  refine ⟨r, hr, ?_⟩
  unfold outOf at ho
  split at ho
  · next p hd hs =>
    have : io.2 = { method := r.method, path := p, hdrs := hd } := by simpa using ho.symm
    rw [this]
    exact ⟨rfl, hs⟩
  · exact absurd ho (by simp)

/-- **C19 for requests in flight together**: whatever the interleaving, the backend is contacted
only with a documented method and path shape of the client request that caused the contact, under
the prefix after normalisation, with that client's peer address and without forwarding headers. -/
theorem interleaved_forwards_only_api_with_real_address (e : Env) (reqs : List Req) (evs : List Ev) :
    ∀ io ∈ (runFlight .none e reqs evs).log,
      ∃ r, reqs[io.1]? = some r ∧ io.2.method = r.method ∧
        Shape io.2.method (trimSlash r.path) ∧
        (∃ rel, io.2.path = stripEnd e.base ++ rel ∧ normalize rel = rel ∧ underPrefix rel = true) ∧
        (∃ ip, splitHost r.remote = some ip ∧ vals hXConnectingIP io.2.hdrs = [ip]) ∧
        (∀ n ∈ forwardingNames, vals n io.2.hdrs = []) ∧ upgradeType io.2.hdrs = [] := by
  intro io hio
  obtain ⟨r, hr, hm, hs⟩ := flights_independent e reqs evs io hio
  obtain ⟨h1, h2, h3, h4⟩ := forwards_only_api_with_real_address hs
  exact ⟨r, hr, hm, hm ▸ h1, h2, h3, h4, (no_protocol_switch hs).2.2⟩

/-- Two clients: `GET /linkip/a/b/status` from 1.2.3.4 and `POST /ddns/c/d/e` from 6.7.8.9. -/
def flReqs : List Req :=
  [{ method := mGET, path := "/linkip/a/b/status".toList, remote := "1.2.3.4:5".toList, hdrs := [] },
   { method := mPOST, path := "/ddns/c/d/e".toList, remote := "6.7.8.9:5".toList, hdrs := [] }]

/-- The second request runs `Rewrite` while the first one waits for its backend connection. -/
def flSched : List Ev := [.rewrite 0, .rewrite 1, .send 0, .send 1]

/-- the backend request has a documented shape (decidable form, base path empty). -/
def apiShaped (io : Nat × Out) : Bool := shouldProxy io.2.method io.2.path

/-- the backend request carries the peer address of the request that caused it. -/
def ownAddr (reqs : List Req) (io : Nat × Out) : Bool :=
  match reqs[io.1]? with
  | some r =>
    match splitHost r.remote with
    | some ip => vals hXConnectingIP io.2.hdrs == [ip]
    | none => false
  | none => false

/-- A `Rewrite` that writes the path into the one target URL object and points the outgoing request
at it (instead of `SetURL`, which copies) sends `GET /ddns/c/d/e`: not a documented request, and the
address of the first client is attached to the device of the second. -/
theorem shared_url_mixes_counterexample :
    ¬ (∀ e reqs evs, (runFlight { url := true, hdr := false } e reqs evs).log.all apiShaped = true) :=
  fun h => absurd (h cxEnv flReqs flSched) (by decide)

/-- A `Rewrite` that hands one header map to every outgoing request sends the first client's path
with the second client's address. -/
theorem shared_header_mixes_counterexample :
    ¬ (∀ e reqs evs, (runFlight { url := false, hdr := true } e reqs evs).log.all (ownAddr reqs) = true) :=
  fun h => absurd (h cxEnv flReqs flSched) (by decide)

/-! ### non-vacuity -/

-- the four documented requests are accepted …
example : shouldProxy mGET ['/', 'l', 'i', 'n', 'k', 'i', 'p', '/', 'a', '/', 'b'] = true := by decide
example : shouldProxy mGET
    ['/', 'l', 'i', 'n', 'k', 'i', 'p', '/', 'a', '/', 'b', '/', 's', 't', 'a', 't', 'u', 's'] = true := by decide
example : shouldProxy mPOST ['/', 'd', 'd', 'n', 's', '/', 'a', '/', 'b', '/', 'c'] = true := by decide
example : shouldProxy mPOST ['/', 'l', 'i', 'n', 'k', 'i', 'p', '/', 'a', '/', 'b'] = true := by decide
-- … the fixed code refuses the counter-example path, and an unknown path gets 404 / robots.
example : shouldProxy mGET cxPath = false := by decide
example : serve cxEnv { cxReq with path := cxPath } = .notFound := by decide
example : serve cxEnv { cxReq with path := robotsPath } = .robots := by decide
-- the fixed tree forwards the same request without any protocol switch
example : upgradeOf (serve cxEnv cxUpgradeReq) = some [] := by decide
example : (match serve cxEnv cxUpgradeReq with
    | .proxied _ hd => (vals hUpgrade hd, vals hConnection hd, vals hXConnectingIP hd) | _ => ([], [], [])) =
    ([], [], [['1', '.', '2', '.', '3', '.', '4']]) := by decide
-- an unprintable protocol name: the reverse proxy drops the request itself
example : serve cxEnv { cxReq with hdrs := [(hConnection, ['u', 'p', 'G', 'R', 'A', 'D', 'E']), (hUpgrade, ['a', '\t', 'b'])] }
    = .proxyErr := by decide
example : isPrint (upgradeType cxReq.hdrs) = true := by decide
-- `Shape` and `Seg` are inhabited with a non-trivial instance.
example : Shape mPOST (path4 sDdns ['a'] ['b'] ['c']) :=
  Shape.postDdns _ _ _ (by simp [Seg, sDot, sDotDot]) (by simp [Seg, sDot, sDotDot]) (by simp [Seg, sDot, sDotDot])
-- the hypothesis of the handler theorems is satisfiable: the fixed code forwards the witness request
-- (forged header and Connection token included) with the peer's address.
example : connIPOf (serve cxEnv cxReq) = some [['1', '.', '2', '.', '3', '.', '4']] := by decide
example : connIPOf (serve cxEnv { cxReq with hdrs := (hXConnectingIP, ['6']) :: (hXRealIP, ['6']) :: cxReq.hdrs })
    = some [['1', '.', '2', '.', '3', '.', '4']] := by decide
example : splitHost ['[', ':', ':', '1', ']', ':', '8', '0'] = some [':', ':', '1'] := by decide
-- an unusable peer address gives 500 and no backend contact.
example : serve cxEnv { cxReq with remote := ['[', ':', ':', '1'] } = .err500 := by decide
-- the normaliser does remove dot segments.
example : normalize ['/', 'a', '/', 'b', '/', '.', '.', '/', '.', '/', 'c'] = ['/', 'a', '/', 'c'] := by
  simp [normalize, split, normSegs, join, sDot, sDotDot]

-- deepening: both peer-address forms, a clean base path, and the wire-level parser are inhabited.
example : PeerAddr ['[', ':', ':', '1', ']', ':', '8', '0'] [':', ':', '1'] :=
  PeerAddr.v6 [':', ':', '1'] ['8', '0'] (by decide) (by decide) (by decide) (by decide) (by decide)
example : PeerAddr ['1', '.', '2', '.', '3', '.', '4', ':', '5'] ['1', '.', '2', '.', '3', '.', '4'] :=
  PeerAddr.v4 ['1', '.', '2', '.', '3', '.', '4'] ['5'] (by decide) (by decide) (by decide) (by decide)
    (by decide) (by decide)
example : CleanBase ['/', 'v', '1', '/'] := Or.inr ⟨['v', '1', '/'], rfl, by decide⟩
example : ¬ CleanBase ['/', 'a', '/', '.', '.'] := by
  intro h
  rcases h with h | ⟨b, hb, hd⟩
  · exact absurd h (by decide)
  · have : b = ['a', '/', '.', '.'] := by simpa using hb.symm
    subst this
    exact absurd hd (by decide)
-- `/linkip/a%2Eb/c?x=/../` is accepted by net/http, decodes to `/linkip/a.b/c`, and is forwarded …
example : parseTarget "/linkip/a%2Eb/c?x=/../".toList = some "/linkip/a.b/c".toList := by decide
example : shouldProxy mGET "/linkip/a.b/c".toList = true := by decide
-- … `/linkip/%2e%2e/x` decodes to a dot segment and is refused; a malformed escape never reaches the handler.
example : parseTarget "/linkip/%2e%2E/x".toList = some "/linkip/../x".toList := by decide
example : shouldProxy mGET "/linkip/../x".toList = false := by decide
example : parseTarget "/linkip/%2/x".toList = none := by decide
example : parseAnyTarget mGET "http://evil.example:80/linkip/%2e%2E/x?y".toList = .path "/linkip/../x".toList := by decide
example : parseAnyTarget mGET "HTTP://h/linkip/a/b".toList = .path "/linkip/a/b".toList := by decide
example : classify mGET "x-1://h/linkip/a/b?q=/..".toList = .origin "linkip/a/b".toList := by decide
example : parseAnyTarget mGET "http:/linkip/a/b".toList = .path "/linkip/a/b".toList := by decide
example : parseAnyTarget mGET "http:linkip/a/b".toList = .path [] := by decide
example : parseAnyTarget mGET "//evil/linkip/a/b".toList = .path "//evil/linkip/a/b".toList := by decide
example : parseAnyTarget mGET "linkip/a/b".toList = .refused := by decide
example : parseAnyTarget mGET ":x".toList = .refused := by decide
example : parseAnyTarget mGET "*".toList = .path ['*'] := by decide
example : parseAnyTarget mGET [] = .refused := by decide
example : parseAnyTarget mCONNECT "host:443".toList = .path [] := by decide
example : parseAnyTarget mCONNECT [] = .path [] := by decide
example : parseAnyTarget mGET "http://u:p@h/linkip/a/b".toList = .unmodelled := by decide
example : parseTarget "/linkip/a b/x".toList = none := by decide
-- the identity headers of the witness request with forged headers are the peer address and nothing else.
def idOf : Resp → Option (List (List Str))
  | .proxied _ hd => some (identityHeaders hd)
  | _ => none
example : idOf (serve cxEnv { cxReq with hdrs := (hXConnectingIP, ['6']) :: (hXRealIP, ['6']) ::
      (hXForwardedFor, ['6']) :: (hCFConnectingIP, ['6']) :: cxReq.hdrs })
    = some [[['1', '.', '2', '.', '3', '.', '4']], [], [], [], [], [], [], []] := by decide

-- requests in flight together: the schedule of the counter-examples delivers both requests, and the
-- code as it is (nothing shared) sends each with its own method, path and address.
example : ((runFlight .none cxEnv flReqs flSched).log.map (·.1)) = [0, 1] := by decide
example : (runFlight .none cxEnv flReqs flSched).log.all apiShaped = true := by decide
example : (runFlight .none cxEnv flReqs flSched).log.all (ownAddr flReqs) = true := by decide
example : ((runFlight .none cxEnv flReqs flSched).log.map (·.2.path)) =
    ["/linkip/a/b/status".toList, "/ddns/c/d/e".toList] := by decide
example : ((runFlight { url := true, hdr := false } cxEnv flReqs flSched).log.map (fun io => (io.2.method, io.2.path))) =
    [(mGET, "/ddns/c/d/e".toList), (mPOST, "/ddns/c/d/e".toList)] := by decide

/-! ### round 4: fault paths -/

/-- whatever the transport and the backend do, everything the backend receives is the one outgoing
request. -/
theorem roundTrip_sends_only (retryable : Bool) (o : Out) (atts : List Attempt) :
    ∀ x ∈ (roundTrip retryable o atts).2, x = o := by
  induction atts with
  | nil => simp [roundTrip]
  | cons a rest ih =>
    cases a with
    | noConn => simp [roundTrip]
    | broke =>
      cases retryable with
      | false => simp [roundTrip]
      | true =>
        intro x hx
        simp only [roundTrip, if_true, List.mem_cons] at hx
        rcases hx with hx | hx
        · exact hx
        · exact ih x hx
    | answered s => simp [roundTrip]

/-- no backend answer makes the proxy hand the client a protocol switch. -/
theorem roundTrip_never_101 (retryable : Bool) (o : Out) (atts : List Attempt) :
    (roundTrip retryable o atts).1 ≠ .backend 101 := by
  induction atts with
  | nil => simp [roundTrip]
  | cons a rest ih =>
    cases a with
    | noConn => simp [roundTrip]
    | broke =>
      cases retryable with
      | false => simp [roundTrip]
      | true => simpa [roundTrip] using ih
    | answered s =>
      by_cases hs : s = 101
      · simp [roundTrip, hs]
      · simp [roundTrip, hs]

/-- a failing target never turns the answer into a local 404 or the robots file, and the answer is
the backend's only if some attempt was answered. -/
theorem roundTrip_answer (retryable : Bool) (o : Out) (atts : List Attempt) :
    (roundTrip retryable o atts).1 = .empty ∨ ∃ s, .answered s ∈ atts ∧ (roundTrip retryable o atts).1 = .backend s := by
  induction atts with
  | nil => simp [roundTrip]
  | cons a rest ih =>
    cases a with
    | noConn => simp [roundTrip]
    | broke =>
      cases retryable with
      | false => simp [roundTrip]
      | true =>
        rcases ih with h | ⟨s, hm, h⟩
        · left; simpa [roundTrip] using h
        · right; exact ⟨s, List.mem_cons_of_mem _ hm, by simpa [roundTrip] using h⟩
    | answered s =>
      by_cases hs : s = 101
      · left; simp [roundTrip, hs]
      · right; exact ⟨s, by simp, by simp [roundTrip, hs]⟩

/-- **faults_forward_only_api_with_real_address**: for EVERY behaviour of the transport and the
backend (no connection, connections that break after the request was written, repeated attempts of
a replayable request, any final status including redirects and unrequested protocol switches), every
request the backend receives is the client's own request as `Rewrite` left it: same method, one of
the four shapes, normalised path under the prefix, the peer's address as the only `X-Connecting-Ip`,
no forwarding header, no protocol switch. -/
theorem faults_forward_only_api_with_real_address (e : Env) (r : Req) (retryable : Bool) (atts : List Attempt) :
    ∀ x ∈ (serveFaulty e r retryable atts).2,
      x.method = r.method ∧ serve e r = .proxied x.path x.hdrs ∧
      Shape r.method (trimSlash r.path) ∧
      (∃ rel, x.path = stripEnd e.base ++ rel ∧ normalize rel = rel ∧ underPrefix rel = true) ∧
      (∃ ip, splitHost r.remote = some ip ∧ vals hXConnectingIP x.hdrs = [ip]) ∧
      (∀ n ∈ forwardingNames, vals n x.hdrs = []) ∧ upgradeType x.hdrs = [] := by
  intro x hx
  unfold serveFaulty at hx
  cases hsv : serve e r with
  | notFound => rw [hsv] at hx; simp at hx
  | robots => rw [hsv] at hx; simp at hx
  | err500 => rw [hsv] at hx; simp at hx
  | proxyErr => rw [hsv] at hx; simp at hx
  | proxied p h =>
    rw [hsv] at hx
    have hxo := roundTrip_sends_only retryable _ atts x hx
    subst hxo
    obtain ⟨h1, h2, h3, h4⟩ := forwards_only_api_with_real_address hsv
    exact ⟨rfl, rfl, h1, h2, h3, h4, (no_protocol_switch hsv).2.2⟩

/-- **faults_non_api_stays_local**: whatever happens on the backend side, a request that has none of
the four shapes is answered locally (404 or the robots file) and nothing is sent. -/
theorem faults_non_api_stays_local (e : Env) (r : Req) (retryable : Bool) (atts : List Attempt)
    (h : ¬ Shape r.method (trimSlash r.path)) :
    (serveFaulty e r retryable atts).2 = [] ∧
    (r.path = robotsPath → (serveFaulty e r retryable atts).1 = .robots) ∧
    (r.path ≠ robotsPath → (serveFaulty e r retryable atts).1 = .notFound) := by
  obtain ⟨h1, h2⟩ := not_api_answered_locally e r h
  by_cases hp : r.path = robotsPath
  · simp [serveFaulty, h1 hp, hp]
  · simp [serveFaulty, h2 hp, hp]

/-- **faults_api_answer**: an API-shaped request is never answered with 404, the robots file or a
protocol switch, whatever the backend side does; when nobody listens on the target the answer is
empty (or 500 for an unusable peer address) and nothing was sent. -/
theorem faults_api_answer (e : Env) (r : Req) (retryable : Bool) (atts : List Attempt)
    (hs : Shape r.method (trimSlash r.path)) :
    (serveFaulty e r retryable atts).1 ≠ .notFound ∧ (serveFaulty e r retryable atts).1 ≠ .robots ∧
    (serveFaulty e r retryable atts).1 ≠ .backend 101 ∧
    (atts.head? = some .noConn → (serveFaulty e r retryable atts).2 = [] ∧
      ((serveFaulty e r retryable atts).1 = .empty ∨ (serveFaulty e r retryable atts).1 = .err500)) := by
  have hs' : shouldProxyV .fixed r.method r.path = true := (shouldProxy_iff _ _).mpr hs
  unfold serveFaulty
  cases hsv : serve e r with
  | notFound => simp [serve, serveV, hs'] at hsv; split at hsv <;> (try split at hsv) <;> simp at hsv
  | robots => simp [serve, serveV, hs'] at hsv; split at hsv <;> (try split at hsv) <;> simp at hsv
  | err500 => simp
  | proxyErr => simp
  | proxied p h =>
    simp only
    refine ⟨?_, ?_, roundTrip_never_101 _ _ _, ?_⟩
    · rcases roundTrip_answer retryable { method := r.method, path := p, hdrs := h } atts with h1 | ⟨s, _, h1⟩ <;> simp [h1]
    · rcases roundTrip_answer retryable { method := r.method, path := p, hdrs := h } atts with h1 | ⟨s, _, h1⟩ <;> simp [h1]
    · intro hh
      cases atts with
      | nil => simp at hh
      | cons a rest =>
        simp at hh; subst hh
        simp [roundTrip]

-- non-vacuity: a GET whose connection breaks twice is written three times, each time the same
-- request; a POST is written once; a dead target gets nothing; a redirect is handed on.
example : ((serveFaulty cxEnv cxReq true [.broke, .broke, .answered 200]).2.length,
    (serveFaulty cxEnv cxReq true [.broke, .broke, .answered 200]).1) = (3, .backend 200) := by decide
example : (serveFaulty cxEnv cxReq false [.broke, .answered 200]).2.length = 1 := by decide
example : serveFaulty cxEnv cxReq true [.noConn] = (.empty, []) := by decide
example : (serveFaulty cxEnv cxReq true [.answered 307]).1 = .backend 307 := by decide
example : (serveFaulty cxEnv cxReq true [.answered 101]).1 = .empty := by decide

/-! ### round 4: the path-and-query part `classify` returns is a piece of the target on the wire -/

/-- the request target as `url.ParseRequestURI` gets it from `readRequest`: the authority of a
`CONNECT` request gets `http://` in front. -/
def wireTarget (m t : Str) : Str := if m = mCONNECT && !startsSlash t then httpSlashSlash ++ t else t

theorem takeWhile_append_dropWhile_eq (p : Char → Bool) (l : Str) : l = l.takeWhile p ++ l.dropWhile p :=
  (List.takeWhile_append_dropWhile (p := p) (l := l)).symm

theorem not_mem_takeWhile_ne (c : Char) (l : Str) : c ∉ l.takeWhile (· ≠ c) := by
  induction l with
  | nil => simp
  | cons x r ih =>
    by_cases hx : x = c
    · simp [List.takeWhile, hx]
    · have hx' : (x != c) = true := by simp [hx]
      simp only [List.takeWhile, ne_eq, decide_not, hx, decide_false, Bool.not_false, List.mem_cons, not_or]
      exact ⟨fun h => hx h.symm, by simpa using ih⟩

theorem dropWhile_ne_head (c : Char) (l : Str) : l.dropWhile (· ≠ c) = [] ∨ ∃ r, l.dropWhile (· ≠ c) = c :: r := by
  induction l with
  | nil => simp
  | cons x r ih =>
    by_cases hx : x = c
    · right; exact ⟨r, by simp [List.dropWhile, hx]⟩
    · simpa [List.dropWhile, hx] using ih

theorem getSchemeGo_piece (whole : Str) : ∀ (s acc sc rest : Str), whole = acc.reverse ++ s →
    getSchemeGo whole acc s = some (sc, rest) → rest = whole ∨ ∃ pre, whole = pre ++ ':' :: rest := by
  intro s
  induction s with
  | nil => intro acc sc rest _ h; simp [getSchemeGo] at h; exact Or.inl h.2.symm
  | cons c r ih =>
    intro acc sc rest hw h
    unfold getSchemeGo at h
    have hw' : whole = (c :: acc).reverse ++ r := by simp [hw]
    split at h
    · exact ih _ _ _ hw' h
    · split at h
      · split at h
        · simp at h; exact Or.inl h.2.symm
        · exact ih _ _ _ hw' h
      · split at h
        · next hc =>
          split at h
          · simp at h
          · simp at h; right; exact ⟨acc.reverse, by rw [hw, h.2, hc]⟩
        · simp at h; exact Or.inl h.2.symm

theorem classifyRest_piece {scheme rest q : Str} (h : classifyRest scheme rest = .origin q) :
    ∃ pre post, rest = pre ++ '/' :: q ++ post ∧ '?' ∉ q ∧ (post = [] ∨ ∃ r, post = '?' :: r) := by
  have hsplit : rest = rawPath rest ++ rest.dropWhile (· ≠ '?') := takeWhile_append_dropWhile_eq _ rest
  have hq : '?' ∉ rawPath rest := not_mem_takeWhile_ne '?' rest
  have hpost := dropWhile_ne_head '?' rest
  unfold classifyRest at h
  split at h
  · next a hrp =>
    split at h
    · split at h
      · split at h
        · simp at h
        · next q' hd =>
          simp at h; subst h
          have ha : a = a.takeWhile (· ≠ '/') ++ '/' :: q' := by
            have := takeWhile_append_dropWhile_eq (· ≠ '/') a
            rw [hd] at this; exact this
          refine ⟨'/' :: '/' :: a.takeWhile (· ≠ '/'), rest.dropWhile (· ≠ '?'), ?_, ?_, hpost⟩
          · conv => lhs; rw [hsplit, hrp, ha]
            simp
          · intro hm
            apply hq
            rw [hrp, ha]
            simp [hm]
        · simp at h
      · simp at h
    · simp at h; subst h
      refine ⟨[], rest.dropWhile (· ≠ '?'), ?_, ?_, hpost⟩
      · conv => lhs; rw [hsplit, hrp]
        simp
      · intro hm; apply hq; rw [hrp]; simp at hm ⊢; exact hm
  · next q' hrp =>
    simp at h; subst h
    refine ⟨[], rest.dropWhile (· ≠ '?'), ?_, ?_, hpost⟩
    · conv => lhs; rw [hsplit, hrp]
      simp
    · intro hm; apply hq; rw [hrp]; simp [hm]
  · split at h <;> simp at h

/-- **classify_origin_is_piece**: the path-and-query part `/q` that `classify` hands to `parseTarget`
is a contiguous piece of the request target on the wire, it ends where the query (or the target)
ends, and it contains no `?`: the model's parser neither invents nor reorders bytes, for every method
and every target. -/
theorem classify_origin_is_piece {m t q : Str} (h : classify m t = .origin q) :
    ∃ pre post, wireTarget m t = pre ++ '/' :: q ++ post ∧ '?' ∉ q ∧ (post = [] ∨ ∃ r, post = '?' :: r) := by
  unfold classify at h
  simp only [] at h
  change (if (wireTarget m t).any badTargetByte = true then TargetForm.refused
    else if wireTarget m t = [] then .refused
    else if wireTarget m t = ['*'] then .noPath true
    else match getScheme (wireTarget m t) with
      | none => .refused
      | some sr => classifyRest sr.1 sr.2) = .origin q at h
  split at h
  · simp at h
  · split at h
    · simp at h
    · split at h
      · simp at h
      · cases hg : getScheme (wireTarget m t) with
        | none => rw [hg] at h; simp at h
        | some sr =>
          rw [hg] at h
          simp only at h
          obtain ⟨pre, post, h1, h2, h3⟩ := classifyRest_piece h
          have := getSchemeGo_piece (wireTarget m t) (wireTarget m t) [] sr.1 sr.2 (by simp) (by simpa [getScheme] using hg)
          rcases this with hw | ⟨p0, hw⟩
          · exact ⟨pre, post, by rw [← hw, h1], h2, h3⟩
          · exact ⟨p0 ++ ':' :: pre, post, by rw [hw, h1]; simp, h2, h3⟩

example : classify mGET "http://h:80/linkip/a/b?x=/../".toList = .origin "linkip/a/b".toList := by decide
example : wireTarget mCONNECT "h:443/x".toList = "http://h:443/x".toList := by decide

end Agd.LinkIP

#print axioms Agd.LinkIP.shouldProxy_iff
#print axioms Agd.LinkIP.stays_under_prefix
#print axioms Agd.LinkIP.else_local_404
#print axioms Agd.LinkIP.backend_only_for_api
#print axioms Agd.LinkIP.client_ip_header
#print axioms Agd.LinkIP.no_forged_forwarding
#print axioms Agd.LinkIP.forwards_only_api_with_real_address
#print axioms Agd.LinkIP.pinned_path_escapes_counterexample
#print axioms Agd.LinkIP.pinned_client_ip_stripped_counterexample
#print axioms Agd.LinkIP.upgrade_forwarded_counterexample
#print axioms Agd.LinkIP.no_protocol_switch
#print axioms Agd.LinkIP.api_request_outcomes
#print axioms Agd.LinkIP.upgradeType_congr
#print axioms Agd.LinkIP.shouldProxy_nil
#print axioms Agd.LinkIP.shouldProxy_star
#print axioms Agd.LinkIP.accepted_target_origin
#print axioms Agd.LinkIP.wire_any_form_forwards_only_api_with_real_address
#print axioms Agd.LinkIP.upgradeType_scrubbed
#print axioms Agd.LinkIP.shouldProxy_parts
#print axioms Agd.LinkIP.parts_seg
#print axioms Agd.LinkIP.seg_not_dot
#print axioms Agd.LinkIP.shape_underPrefix
#print axioms Agd.LinkIP.serve_proxied_inv
#print axioms Agd.LinkIP.proxyHeaders_keeps_nil
#print axioms Agd.LinkIP.shape_accepted
#print axioms Agd.LinkIP.served_keeps_nil
#print axioms Agd.LinkIP.proxy_strips
#print axioms Agd.LinkIP.splitHost_hostport
#print axioms Agd.LinkIP.not_api_answered_locally
#print axioms Agd.LinkIP.robots_not_api
#print axioms Agd.LinkIP.backend_iff_api
#print axioms Agd.LinkIP.bad_peer_not_forwarded
#print axioms Agd.LinkIP.client_cannot_choose_address
#print axioms Agd.LinkIP.splitHost_bracketed
#print axioms Agd.LinkIP.client_ip_is_peer_ip
#print axioms Agd.LinkIP.any_isDot_append_slash
#print axioms Agd.LinkIP.stripEnd_clean
#print axioms Agd.LinkIP.backend_path_normalised
#print axioms Agd.LinkIP.wire_segments_dot_free
#print axioms Agd.LinkIP.wire_forwards_only_api_with_real_address
#print axioms Agd.LinkIP.stepFlight_ok
#print axioms Agd.LinkIP.foldl_stepFlight_ok
#print axioms Agd.LinkIP.flights_independent
#print axioms Agd.LinkIP.interleaved_forwards_only_api_with_real_address
#print axioms Agd.LinkIP.shared_url_mixes_counterexample
#print axioms Agd.LinkIP.shared_header_mixes_counterexample

#print axioms Agd.Tie.TrC19.translation_complete
#print axioms Agd.Tie.TrC19.ofList_eq_iff
#print axioms Agd.Tie.TrC19.trimPrefix_slash
#print axioms Agd.Tie.TrC19.cutList_slash
#print axioms Agd.Tie.TrC19.cut_shorter
#print axioms Agd.Tie.TrC19.splitListN_slash
#print axioms Agd.Tie.TrC19.splitN_slash
#print axioms Agd.Tie.TrC19.goIndex_nat
#print axioms Agd.Tie.TrC19.goRange_any
#print axioms Agd.Tie.TrC19.shouldProxyGet_spec
#print axioms Agd.Tie.TrC19.shouldProxyGet_nil
#print axioms Agd.Tie.TrC19.shouldProxyPost_spec
#print axioms Agd.Tie.TrC19.shouldProxyPost_nil
#print axioms Agd.Tie.TrC19.any_ext
#print axioms Agd.Tie.TrC19.shouldProxy_spec
#print axioms Agd.Tie.TrC19.parts_tr
#print axioms Agd.Tie.TrC19.dec_beq
#print axioms Agd.Tie.TrC19.idx_map
#print axioms Agd.Tie.TrC19.getShape_map
#print axioms Agd.Tie.TrC19.postShape_map
#print axioms Agd.Tie.TrC19.dotSeg_map
#print axioms Agd.Tie.TrC19.shouldProxy_tr
#print axioms Agd.Tie.TrC19.shouldProxy_total
#print axioms Agd.Tie.TrC19.serve_total
#print axioms Agd.Tie.TrC19.serve_contacts_backend_iff
#print axioms Agd.Tie.TrC19.serve_local
#print axioms Agd.Tie.TrC19.serve_scrubs_then_sets_peer
#print axioms Agd.Tie.TrC19.serve_bad_peer_500
#print axioms Agd.Tie.TrC19.serve_class_tr
#print axioms Agd.Tie.TrC19.rewrite_resets_proxy_headers
#print axioms Agd.Tie.TrC19.modifyResponse_ok
#print axioms Agd.LinkIP.roundTrip_sends_only
#print axioms Agd.LinkIP.roundTrip_never_101
#print axioms Agd.LinkIP.roundTrip_answer
#print axioms Agd.LinkIP.faults_forward_only_api_with_real_address
#print axioms Agd.LinkIP.faults_non_api_stays_local
#print axioms Agd.LinkIP.faults_api_answer
#print axioms Agd.LinkIP.takeWhile_append_dropWhile_eq
#print axioms Agd.LinkIP.not_mem_takeWhile_ne
#print axioms Agd.LinkIP.dropWhile_ne_head
#print axioms Agd.LinkIP.getSchemeGo_piece
#print axioms Agd.LinkIP.classifyRest_piece
#print axioms Agd.LinkIP.classify_origin_is_piece
