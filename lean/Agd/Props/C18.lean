import Agd.Lemmas.ConnLimit
import Agd.Tie.C18
/-!
# C18 — stream connections and pipelined queries never exceed their configured limits

Property theorems only; the model is `Agd/Model/ConnLimit.lean`, helper lemmas are in
`Agd/Lemmas/ConnLimit.lean`.  Every theorem quantifies over **all** schedules `ops : List Op`
(accept / wake-up re-check / deliver / failed accept / close, repeated close / listener close, over
any number of listeners sharing the counter) and all thresholds `WF stop resume`
(`0 < stop`, `resume ≤ stop`, `stop < 2^64`: exactly what `connlimiter.New` lets through).
`repaired` is the variant pinned by `Tie/C18.lean`; `original` is the pinned tree before the two
`fix:` commits, for which the statements are refuted below.
-/
namespace Agd.ConnLimit

/-- **bound.**  In every reachable state the shared counter equals the number of accepted-and-open
connections plus pending accepts over all listeners, and that number never exceeds `stop`. -/
theorem bound (stop resume : Nat) (h : WF stop resume) (ops : List Op) :
    (run repaired (init stop resume) ops).c.current = count (run repaired (init stop resume) ops) ∧
    count (run repaired (init stop resume) ops) ≤ stop := by
  have hi := reach_inv h ops
  exact ⟨hi.cnt, by unfold count; rw [← hi.cnt]; exact hi.le⟩

example : WF 3 1 ∧ count (run repaired (init 3 1)
    [.accept 0, .deliver 0, .accept 1, .accept 0, .accept 1]) = 3 := by
  refine ⟨⟨by decide, by decide, by decide⟩, by decide⟩

/-- **hysteresis.**  Once the number has reached `stop` (after `pre`), then as long as it stays above
`resume` after every step of `mid`, no step whatsoever lets an acceptor past the limiter (`.pending`
is the only way in; `deliver` only serves acceptors admitted earlier). -/
theorem hysteresis (stop resume : Nat) (h : WF stop resume) (pre mid : List Op) (o : Op)
    (hfull : count (run repaired (init stop resume) pre) = stop)
    (habove : StaysAbove repaired resume (run repaired (init stop resume) pre) mid) :
    (step repaired (run repaired (init stop resume) (pre ++ mid)) o).2 ≠ .pending := by
  have hi := reach_inv h pre
  have hacc : (run repaired (init stop resume) pre).c.accepting = false := by
    cases ha : (run repaired (init stop resume) pre).c.accepting with
    | false => rfl
    | true =>
      have := hi.acc ha
      unfold count at hfull
      have := hi.cnt
      omega
  rw [run_append]
  exact no_pass_when_stopped _ o (stopped_throughout h mid _ hi hacc habove)

/-- Non-vacuity: stop 2, resume 0; two pending accepts reach the stop, one fails (1 > resume), and a
new acceptor indeed has to wait. -/
example : WF 2 0 ∧ count (run repaired (init 2 0) [.accept 0, .accept 1]) = 2 ∧
    StaysAbove repaired 0 (run repaired (init 2 0) [.accept 0, .accept 1]) [.fail 0] ∧
    (step repaired (run repaired (init 2 0) ([.accept 0, .accept 1] ++ [.fail 0])) (.accept 1)).2 = .wait := by
  refine ⟨⟨by decide, by decide, by decide⟩, by decide, ⟨by decide, trivial⟩, by decide⟩

/-- **resume_reopens.**  A release (`close` of an open connection or a failed pending accept) that
brings the number down to `resume` or below makes the counter accept again and wakes *every*
waiting acceptor. -/
theorem resume_reopens (stop resume : Nat) (h : WF stop resume) (ops : List Op) (o : Op)
    (hrel : (∃ k, o = .close k) ∨ (∃ l, o = .fail l))
    (hok : (step repaired (run repaired (init stop resume) ops) o).2 = .ok)
    (hlow : count (step repaired (run repaired (init stop resume) ops) o).1 ≤ resume) :
    (step repaired (run repaired (init stop resume) ops) o).1.c.accepting = true ∧
    (step repaired (run repaired (init stop resume) ops) o).1.waitq = [] ∧
    (step repaired (run repaired (init stop resume) ops) o).1.woken =
      (run repaired (init stop resume) ops).woken ++ (run repaired (init stop resume) ops).waitq := by
  have hi := reach_inv h ops
  have hi' := step_inv h _ o hi
  generalize run repaired (init stop resume) ops = s at *
  obtain ⟨h0, hrs, hlt⟩ := h
  have key : ∀ t : St, t.c = s.c → 0 < s.c.current →
      (release repaired t).c.current ≤ resume →
      (release repaired t).c.accepting = true ∧ (release repaired t).waitq = [] ∧
      (release repaired t).woken = t.woken ++ t.waitq := by
    intro t ht hpos hle
    have hd := dec_eq s.c hpos (by have := hi.le; omega)
    unfold release wake at *
    simp only [repaired, ht, hd] at *
    have : s.c.current - 1 ≤ resume := hle
    have hres := hi.hres
    refine ⟨?_, ?_, ?_⟩
    · simp; right; omega
    · first | rfl | trivial
    · first | rfl | trivial
  have hcur : (step repaired s o).1.c.current ≤ resume := by rw [hi'.cnt]; exact hlow
  rcases hrel with ⟨k, rfl⟩ | ⟨l, rfl⟩
  · simp only [step] at hok hcur ⊢
    split at hok
    · rename_i hk
      simp only [hk, if_true] at hcur ⊢
      have hpos : 0 < s.open_.length := List.length_pos_of_mem hk
      exact key _ rfl (by have := hi.cnt; omega) hcur
    · simp at hok
  · simp only [step] at hok hcur ⊢
    split at hok
    · rename_i hl
      simp only [hl, if_true] at hcur ⊢
      have hpos : 0 < s.pending.length := List.length_pos_of_mem hl
      exact key _ rfl (by have := hi.cnt; omega) hcur
    · simp at hok

example : WF 2 1 ∧
    (step repaired (run repaired (init 2 1) [.accept 0, .deliver 0, .accept 0, .accept 1, .accept 1])
      (.close 0)).2 = .ok ∧
    (step repaired (run repaired (init 2 1) [.accept 0, .deliver 0, .accept 0, .accept 1, .accept 1])
      (.close 0)).1.woken = [1, 1] := by
  refine ⟨⟨by decide, by decide, by decide⟩, by decide, by decide⟩

/-- **woken_proceeds.**  A woken acceptor of an open listener that finds the counter accepting gets
past the limiter ("waiting accepts proceed"). -/
theorem woken_proceeds (s : St) (l : Nat) (hw : l ∈ s.woken) (ho : l ∉ s.closed)
    (ha : s.c.accepting = true) : (step repaired s (.recheck l)).2 = .pending := by
  have : s.c.increment.2 = true := by rw [inc_snd]; exact ha
  simp [step, hw, attempt, repaired, ho, this]

/-- **no_stuck_waiter.**  In no reachable quiescent state is an acceptor of an open listener parked
while the counter accepts; in fact whenever the counter accepts nobody is parked at all. -/
theorem no_stuck_waiter (stop resume : Nat) (h : WF stop resume) (ops : List Op) :
    ¬ Stuck (run repaired (init stop resume) ops) := by
  intro ⟨_, hacc, l, hl, _⟩
  have := (reach_inv h ops).noWait hacc
  rw [this] at hl
  simp at hl

/-- **close_releases_waiters.**  No acceptor is ever parked on a closed listener; closing a listener
moves every parked acceptor to `woken`, and a woken acceptor of a closed listener returns
`net.ErrClosed` without touching the counter. -/
theorem close_releases_waiters (stop resume : Nat) (h : WF stop resume) (ops : List Op) :
    (∀ l ∈ (run repaired (init stop resume) ops).closed,
        l ∉ (run repaired (init stop resume) ops).waitq) ∧
    (∀ l, l ∉ (run repaired (init stop resume) ops).closed →
        (step repaired (run repaired (init stop resume) ops) (.lclose l)).1.waitq = [] ∧
        l ∈ (step repaired (run repaired (init stop resume) ops) (.lclose l)).1.closed) ∧
    (∀ l, l ∈ (run repaired (init stop resume) ops).woken →
        l ∈ (run repaired (init stop resume) ops).closed →
        (step repaired (run repaired (init stop resume) ops) (.recheck l)).2 = .closed ∧
        (step repaired (run repaired (init stop resume) ops) (.recheck l)).1.c =
          (run repaired (init stop resume) ops).c) := by
  have hi := reach_inv h ops
  generalize run repaired (init stop resume) ops = s at *
  refine ⟨fun l hc hw => hi.waitOpen l hw hc, ?_, ?_⟩
  · intro l hl
    simp [step, hl, wake]
  · intro l hw hc
    simp [step, hw, attempt, repaired, hc]

example : (run repaired (init 1 0) [.accept 0, .accept 1, .accept 1, .lclose 1]).woken = [1, 1] ∧
    (step repaired (run repaired (init 1 0) [.accept 0, .accept 1, .accept 1, .lclose 1])
      (.recheck 1)).2 = .closed := by decide

/-- **release_once.**  Closing an open connection lowers the counter by exactly one; afterwards the
connection stays closed whatever happens, and every further `Close` returns `net.ErrClosed` and
changes nothing.  (With `bound`: the counter always equals the connections that are still open plus
pending accepts, however often each connection was closed.) -/
theorem release_once (stop resume : Nat) (h : WF stop resume) (ops more : List Op) (k : Nat)
    (hk : k ∈ (run repaired (init stop resume) ops).open_) :
    (step repaired (run repaired (init stop resume) ops) (.close k)).1.c.current + 1 =
      (run repaired (init stop resume) ops).c.current ∧
    step repaired (run repaired (step repaired (run repaired (init stop resume) ops) (.close k)).1 more)
        (.close k) =
      (run repaired (step repaired (run repaired (init stop resume) ops) (.close k)).1 more,
        .errClosed) := by
  have hi := reach_inv h ops
  have hi' := step_inv h _ (.close k) hi
  generalize run repaired (init stop resume) ops = s at *
  have hcnt := hi'.cnt
  have hlen := List.length_erase_of_mem hk
  have hpos : 0 < s.open_.length := List.length_pos_of_mem hk
  have hopen : (step repaired s (.close k)).1.open_ = s.open_.erase k := by
    simp only [step, hk, if_true]; exact (release_open repaired _).1
  have hpend : (step repaired s (.close k)).1.pending = s.pending := by
    simp [step, hk, release, wake, repaired]
  have hnext : (step repaired s (.close k)).1.nextConn = s.nextConn := by
    simp only [step, hk, if_true]; exact (release_open repaired _).2
  constructor
  · rw [hcnt, hopen, hpend, hi.cnt]; omega
  · have hnot : k ∉ (step repaired s (.close k)).1.open_ := by
      rw [hopen]; exact fun hm => (List.Nodup.mem_erase_iff hi.nodup).1 hm |>.1 rfl
    have hlt : k < (step repaired s (.close k)).1.nextConn := by rw [hnext]; exact hi.fresh k hk
    have := (closed_conn_stays_run more _ k hnot hlt).1
    generalize run repaired (step repaired s (.close k)).1 more = t at this ⊢
    simp [step, this]

example : 0 ∈ (run repaired (init 2 1) [.accept 0, .deliver 0]).open_ ∧
    (run repaired (init 2 1) [.accept 0, .deliver 0, .close 0, .accept 0, .close 0]).c.current = 1 := by
  decide

/-- **pipeline_bound.**  With pipeline limiting enabled, at most `n` queries of one TCP/TLS connection
are in flight, for every burst and every order of arrivals and completions. -/
theorem pipeline_bound (n : Nat) (ops : List POp) : (Pipe.run (Pipe.init n) ops).inflight ≤ n := by
  have : ∀ p : Pipe, p.inflight ≤ p.n →
      (Pipe.run p ops).inflight ≤ (Pipe.run p ops).n ∧ (Pipe.run p ops).n = p.n := by
    induction ops with
    | nil => intro p hp; exact ⟨hp, rfl⟩
    | cons o r ih =>
      intro p hp
      have h1 := pstep_le p o hp
      have h2 := ih (p.step o) h1.1
      exact ⟨h2.1, h2.2.trans h1.2⟩
  have := this (Pipe.init n) (Nat.zero_le n)
  have h2 : (Pipe.init n).n = n := rfl
  omega

example : (Pipe.run (Pipe.init 2) [.query, .query, .query, .query]).inflight = 2 ∧
    (Pipe.run (Pipe.init 2) [.query, .query, .query, .query, .done]).queued = 0 := by decide

/-! ## The pinned tree before the repairs violates the property -/

/-- S6: with `Signal` in `limitListener.decrement` (stop 3, resume 1) two acceptors wait on two
listeners; two closes bring the number to 1 = resume, one acceptor proceeds, the other stays parked
although the counter accepts and only 2 of 3 slots are used.  Replayed on the real code by the
harness (`limiter.witness`). -/
def stuckTrace : List Op :=
  [.accept 0, .deliver 0, .accept 0, .deliver 0, .accept 0, .deliver 0,
   .accept 1, .accept 2, .close 0, .recheck 1, .close 1, .recheck 2]

theorem stuck_waiter_counterexample :
    ¬ ∀ ops, ¬ Stuck (run original (init 3 1) ops) := by
  intro h
  exact h stuckTrace (by decide)

/-- `Signal` alone is enough for the defect, `Broadcast` alone repairs this trace. -/
theorem stuck_waiter_signal_only :
    Stuck (run { wake := .signal, closedFirst := true } (init 3 1) stuckTrace) ∧
    ¬ Stuck (run { wake := .broadcast, closedFirst := false } (init 3 1)
      [.accept 0, .deliver 0, .accept 0, .deliver 0, .accept 0, .deliver 0,
       .accept 1, .accept 2, .close 0, .recheck 1, .recheck 2, .close 1, .recheck 1, .recheck 2]) := by
  decide

/-- Second defect: with the loop test `!l.counter.increment() && !l.isClosed`, one `Accept` on a
closed listener takes a slot that is never given back (stop 1): the counter says 1 with no
connection open or pending, and an acceptor of another, open listener waits forever. -/
theorem closed_accept_leak_counterexample :
    ¬ ∀ ops, (run original (init 1 1) ops).c.current = count (run original (init 1 1) ops) := by
  intro h
  exact absurd (h [.lclose 0, .accept 0, .accept 1]) (by decide)

theorem closed_accept_leak_blocks_others :
    (run { wake := .broadcast, closedFirst := false } (init 1 1) [.lclose 0, .accept 0, .accept 1]).waitq = [1] ∧
    count (run { wake := .broadcast, closedFirst := false } (init 1 1) [.lclose 0, .accept 0, .accept 1]) = 0 := by
  decide

#print axioms bound
#print axioms hysteresis
#print axioms resume_reopens
#print axioms woken_proceeds
#print axioms no_stuck_waiter
#print axioms close_releases_waiters
#print axioms release_once
#print axioms pipeline_bound
#print axioms stuck_waiter_counterexample
#print axioms stuck_waiter_signal_only
#print axioms closed_accept_leak_counterexample
#print axioms closed_accept_leak_blocks_others

end Agd.ConnLimit
