import Agd.Tie.TrC18
import Agd.Lemmas.ConnLimit
import Agd.Tie.C18
/-!
# C18 — stream connections and pipelined queries never exceed their configured limits

Property theorems only; the model is `Agd/Model/ConnLimit.lean`, helper lemmas are in
`Agd/Lemmas/ConnLimit.lean`.  Every theorem quantifies over **all** schedules `ops : List Op`
(accept / wake-up re-check / deliver, also racing with a listener close / failed accept / close and
repeated close, with or without an error from the wrapped connection / listener close, with or
without an error from the wrapped listener; over any number of listeners sharing the counter) and all thresholds `WF stop resume`
(`0 < stop`, `resume ≤ stop`, `stop < 2^64`: exactly what `connlimiter.New` lets through).
`repaired` is the variant pinned by `Tie/C18.lean`; `original` is the pinned tree before the two
`fix:` commits, for which the statements are refuted below.
-/
namespace Agd.ConnLimit

/-- **bound.**  In every reachable state the shared counter equals the number of accepted-and-open
connections plus pending accepts over all listeners, and that number never exceeds `stop`. -/
theorem bound (stop resume : Nat) (h : WF stop resume) (ops : List Op) :
    (run repaired (init stop resume) ops).c.current = count (run repaired (init stop resume) ops) ∧
    count (run repaired (init stop resume) ops) ≤ stop := by
  have hi := reach_inv h ops
  exact ⟨hi.cnt, by unfold count; rw [← hi.cnt]; exact hi.le⟩

example : WF 3 1 ∧ count (run repaired (init 3 1)
    [.accept 0, .deliver 0, .accept 1, .accept 0, .accept 1]) = 3 := by
  refine ⟨⟨by decide, by decide, by decide⟩, by decide⟩

/-- **hysteresis.**  Once the number has reached `stop` (after `pre`), then as long as it stays above
`resume` after every step of `mid`, no step whatsoever lets an acceptor past the limiter (`.pending`
is the only way in; `deliver` only serves acceptors admitted earlier). -/
theorem hysteresis (stop resume : Nat) (h : WF stop resume) (pre mid : List Op) (o : Op)
    (hfull : count (run repaired (init stop resume) pre) = stop)
    (habove : StaysAbove repaired resume (run repaired (init stop resume) pre) mid) :
    (step repaired (run repaired (init stop resume) (pre ++ mid)) o).2 ≠ .pending := by
  have hi := reach_inv h pre
  have hacc : (run repaired (init stop resume) pre).c.accepting = false := by
    cases ha : (run repaired (init stop resume) pre).c.accepting with
    | false => rfl
    | true =>
      have := hi.acc ha
      unfold count at hfull
      have := hi.cnt
      omega
  rw [run_append]
  exact no_pass_when_stopped _ o (stopped_throughout h mid _ hi hacc habove)

/-- Non-vacuity: stop 2, resume 0; two pending accepts reach the stop, one fails (1 > resume), and a
new acceptor indeed has to wait. -/
example : WF 2 0 ∧ count (run repaired (init 2 0) [.accept 0, .accept 1]) = 2 ∧
    StaysAbove repaired 0 (run repaired (init 2 0) [.accept 0, .accept 1]) [.fail 0] ∧
    (step repaired (run repaired (init 2 0) ([.accept 0, .accept 1] ++ [.fail 0])) (.accept 1)).2 = .wait := by
  refine ⟨⟨by decide, by decide, by decide⟩, by decide, ⟨by decide, trivial⟩, by decide⟩

/-- **resume_reopens.**  A release (`close` of an open connection, whatever the wrapped connection's
own `Close` returns, or a failed pending accept) that brings the number down to `resume` or below
makes the counter accept again and wakes *every* waiting acceptor. -/
theorem resume_reopens (stop resume : Nat) (h : WF stop resume) (ops : List Op) (o : Op)
    (hrel : (∃ k e, o = .close k e ∧ k ∈ (run repaired (init stop resume) ops).open_) ∨
            (∃ l, o = .fail l ∧ l ∈ (run repaired (init stop resume) ops).pending))
    (hlow : count (step repaired (run repaired (init stop resume) ops) o).1 ≤ resume) :
    (step repaired (run repaired (init stop resume) ops) o).1.c.accepting = true ∧
    (step repaired (run repaired (init stop resume) ops) o).1.waitq = [] ∧
    (step repaired (run repaired (init stop resume) ops) o).1.woken =
      (run repaired (init stop resume) ops).woken ++ (run repaired (init stop resume) ops).waitq := by
  have hi := reach_inv h ops
  have hi' := step_inv h _ o hi
  generalize run repaired (init stop resume) ops = s at *
  obtain ⟨h0, hrs, hlt⟩ := h
  have key : ∀ t : St, t.c = s.c → 0 < s.c.current →
      (release repaired t).c.current ≤ resume →
      (release repaired t).c.accepting = true ∧ (release repaired t).waitq = [] ∧
      (release repaired t).woken = t.woken ++ t.waitq := by
    intro t ht hpos hle
    have hd := dec_eq s.c hpos (by have := hi.le; omega)
    unfold release wake at *
    simp only [repaired, ht, hd] at *
    have : s.c.current - 1 ≤ resume := hle
    have hres := hi.hres
    refine ⟨?_, ?_, ?_⟩
    · simp; right; omega
    · first | rfl | trivial
    · first | rfl | trivial
  have hcur : (step repaired s o).1.c.current ≤ resume := by rw [hi'.cnt]; exact hlow
  rcases hrel with ⟨k, e, rfl, hk⟩ | ⟨l, rfl, hl⟩
  · simp only [step, hk, if_true] at hcur ⊢
    have hpos : 0 < s.open_.length := List.length_pos_of_mem hk
    exact key _ rfl (by have := hi.cnt; omega) hcur
  · simp only [step, hl, if_true] at hcur ⊢
    have hpos : 0 < s.pending.length := List.length_pos_of_mem hl
    exact key _ rfl (by have := hi.cnt; omega) hcur

example : WF 2 1 ∧
    0 ∈ (run repaired (init 2 1) [.accept 0, .deliver 0, .accept 0, .accept 1, .accept 1]).open_ ∧
    count (step repaired (run repaired (init 2 1) [.accept 0, .deliver 0, .accept 0, .accept 1, .accept 1])
      (.close 0 true)).1 ≤ 1 ∧
    (step repaired (run repaired (init 2 1) [.accept 0, .deliver 0, .accept 0, .accept 1, .accept 1])
      (.close 0 true)).1.woken = [1, 1] := by
  refine ⟨⟨by decide, by decide, by decide⟩, by decide, by decide, by decide⟩

/-- **woken_proceeds.**  A woken acceptor of an open listener that finds the counter accepting gets
past the limiter ("waiting accepts proceed"). -/
theorem woken_proceeds (s : St) (l : Nat) (hw : l ∈ s.woken) (ho : l ∉ s.closed)
    (ha : s.c.accepting = true) : (step repaired s (.recheck l)).2 = .pending := by
  have : s.c.increment.2 = true := by rw [inc_snd]; exact ha
  simp [step, hw, attempt, repaired, ho, this]

/-- **no_stuck_waiter.**  In no reachable quiescent state is an acceptor of an open listener parked
while the counter accepts; in fact whenever the counter accepts nobody is parked at all. -/
theorem no_stuck_waiter (stop resume : Nat) (h : WF stop resume) (ops : List Op) :
    ¬ Stuck (run repaired (init stop resume) ops) := by
  intro ⟨_, hacc, l, hl, _⟩
  have := (reach_inv h ops).noWait hacc
  rw [this] at hl
  simp at hl

/-- **close_releases_waiters.**  No acceptor is ever parked on a closed listener; closing a listener
moves every parked acceptor to `woken` (also when the wrapped listener's own `Close` fails), and a woken acceptor of a closed listener returns
`net.ErrClosed` without touching the counter. -/
theorem close_releases_waiters (stop resume : Nat) (h : WF stop resume) (ops : List Op) :
    (∀ l ∈ (run repaired (init stop resume) ops).closed,
        l ∉ (run repaired (init stop resume) ops).waitq) ∧
    (∀ l e, l ∉ (run repaired (init stop resume) ops).closed →
        (step repaired (run repaired (init stop resume) ops) (.lclose l e)).1.waitq = [] ∧
        (step repaired (run repaired (init stop resume) ops) (.lclose l e)).1.woken =
          (run repaired (init stop resume) ops).woken ++ (run repaired (init stop resume) ops).waitq ∧
        l ∈ (step repaired (run repaired (init stop resume) ops) (.lclose l e)).1.closed) ∧
    (∀ l, l ∈ (run repaired (init stop resume) ops).woken →
        l ∈ (run repaired (init stop resume) ops).closed →
        (step repaired (run repaired (init stop resume) ops) (.recheck l)).2 = .closed ∧
        (step repaired (run repaired (init stop resume) ops) (.recheck l)).1.c =
          (run repaired (init stop resume) ops).c) := by
  have hi := reach_inv h ops
  generalize run repaired (init stop resume) ops = s at *
  refine ⟨fun l hc hw => hi.waitOpen l hw hc, ?_, ?_⟩
  · intro l e hl
    simp [step, hl, wake]
  · intro l hw hc
    simp [step, hw, attempt, repaired, hc]

example : (run repaired (init 1 0) [.accept 0, .accept 1, .accept 1, .lclose 1 true]).woken = [1, 1] ∧
    (step repaired (run repaired (init 1 0) [.accept 0, .accept 1, .accept 1, .lclose 1 true])
      (.recheck 1)).2 = .closed := by decide

/-- **release_once.**  Closing an open connection lowers the counter by exactly one — also when the
wrapped connection's own `Close` fails (`e`); afterwards the connection stays closed whatever
happens, and every further `Close` returns `net.ErrClosed` and changes nothing.  (With `bound`: the
counter always equals the connections that are still open plus pending accepts, however often each
connection was closed.) -/
theorem release_once (stop resume : Nat) (h : WF stop resume) (ops more : List Op) (k : Nat)
    (e e' : Bool) (hk : k ∈ (run repaired (init stop resume) ops).open_) :
    (step repaired (run repaired (init stop resume) ops) (.close k e)).1.c.current + 1 =
      (run repaired (init stop resume) ops).c.current ∧
    step repaired (run repaired (step repaired (run repaired (init stop resume) ops) (.close k e)).1 more)
        (.close k e') =
      (run repaired (step repaired (run repaired (init stop resume) ops) (.close k e)).1 more,
        .errClosed) := by
  have hi := reach_inv h ops
  have hi' := step_inv h _ (.close k e) hi
  generalize run repaired (init stop resume) ops = s at *
  have hcnt := hi'.cnt
  have hlen := List.length_erase_of_mem hk
  have hpos : 0 < s.open_.length := List.length_pos_of_mem hk
  have hopen : (step repaired s (.close k e)).1.open_ = s.open_.erase k := by
    simp only [step, hk, if_true]; exact (release_open repaired _).1
  have hpend : (step repaired s (.close k e)).1.pending = s.pending := by
    simp [step, hk, release, wake, repaired]
  have hnext : (step repaired s (.close k e)).1.nextConn = s.nextConn := by
    simp only [step, hk, if_true]; exact (release_open repaired _).2
  constructor
  · rw [hcnt, hopen, hpend, hi.cnt]; omega
  · have hnot : k ∉ (step repaired s (.close k e)).1.open_ := by
      rw [hopen]; exact fun hm => (List.Nodup.mem_erase_iff hi.nodup).1 hm |>.1 rfl
    have hlt : k < (step repaired s (.close k e)).1.nextConn := by rw [hnext]; exact hi.fresh k hk
    have := (closed_conn_stays_run more _ k hnot hlt).1
    generalize run repaired (step repaired s (.close k e)).1 more = t at this ⊢
    simp [step, this]

example : 0 ∈ (run repaired (init 2 1) [.accept 0, .deliver 0]).open_ ∧
    (run repaired (init 2 1)
      [.accept 0, .deliver 0, .close 0 true, .accept 0, .close 0 false]).c.current = 1 := by
  decide

/-- **accepting_iff_log.**  Independent specification of the hysteresis: in every reachable state the
counter refuses **iff** the log of the observable number (open connections + pending accepts after
every step) says so — at some moment the number was `stop` and at every later moment, now included,
it was above `resume`.  Both directions: no admission between reaching `stop` and falling to
`resume`, *and* no refusal at any other time. -/
theorem accepting_iff_log (stop resume : Nat) (h : WF stop resume) (ops : List Op) :
    (run repaired (init stop resume) ops).c.accepting = false ↔
      StoppedLog stop resume (hist repaired (init stop resume) [0] ops) := by
  have hl := run_log h ops (init stop resume) (inv_init stop resume h) [0]
    (by have := h.1; simp [init, stoppedLogB]; omega)
  rw [← stoppedLogB_iff, hl]
  cases stoppedLogB stop resume (hist repaired (init stop resume) [0] ops) <;> simp

/-- **admission_iff_log.**  What a new `Accept` on an open listener does is a function of the log
alone: it waits iff the log says "stopped", and gets past the limiter otherwise. -/
theorem admission_iff_log (stop resume : Nat) (h : WF stop resume) (ops : List Op) (l : Nat)
    (ho : l ∉ (run repaired (init stop resume) ops).closed) :
    ((step repaired (run repaired (init stop resume) ops) (.accept l)).2 = .wait ↔
      StoppedLog stop resume (hist repaired (init stop resume) [0] ops)) ∧
    ((step repaired (run repaired (init stop resume) ops) (.accept l)).2 = .pending ↔
      ¬ StoppedLog stop resume (hist repaired (init stop resume) [0] ops)) := by
  rw [← accepting_iff_log stop resume h ops]
  generalize run repaired (init stop resume) ops = s at *
  have hinc := inc_snd s.c
  cases ha : s.c.accepting <;> simp [step, attempt, repaired, ho, hinc, ha]

/-- Non-vacuity: stop 3, resume 1.  The number goes 1,2,3 (stopped), 2 (still stopped: above resume),
1 (reopened), and the log says exactly that. -/
example : WF 3 1 ∧
    hist repaired (init 3 1) [0] [.accept 0, .accept 0, .accept 0, .fail 0] = [2, 3, 2, 1, 0] ∧
    StoppedLog 3 1 (hist repaired (init 3 1) [0] [.accept 0, .accept 0, .accept 0, .fail 0]) ∧
    ¬ StoppedLog 3 1 (hist repaired (init 3 1) [0] [.accept 0, .accept 0, .accept 0, .fail 0, .fail 0]) := by
  refine ⟨⟨by decide, by decide, by decide⟩, by decide, ?_, ?_⟩
  · rw [← stoppedLogB_iff]; decide
  · rw [← stoppedLogB_iff]; decide

/-- **reopened_when_low.**  Whenever the number is below `stop` and at or below `resume`, the counter
accepts — so nobody is parked (`no_stuck_waiter`) and a woken or new acceptor of an open listener
proceeds (`woken_proceeds`). -/
theorem reopened_when_low (stop resume : Nat) (h : WF stop resume) (ops : List Op)
    (hlt : count (run repaired (init stop resume) ops) < stop)
    (hle : count (run repaired (init stop resume) ops) ≤ resume) :
    (run repaired (init stop resume) ops).c.accepting = true ∧
    (run repaired (init stop resume) ops).waitq = [] := by
  have hi := reach_inv h ops
  generalize run repaired (init stop resume) ops = s at *
  unfold count at hlt hle
  have hc := hi.cnt
  cases ha : s.c.accepting with
  | true => exact ⟨rfl, hi.noWait ha⟩
  | false => rcases hi.high ha with h1 | h1 <;> omega

example : WF 3 1 ∧ count (run repaired (init 3 1)
    [.accept 0, .accept 0, .accept 0, .fail 0, .fail 0]) = 1 := by
  refine ⟨⟨by decide, by decide, by decide⟩, by decide⟩

/-- **woken_drain.**  Every re-check takes one acceptor out of `woken` and none is put back by it, so
after as many re-checks as there are woken acceptors the state is quiescent (the number of pending
wake-ups is a strictly decreasing measure: no live-lock among woken acceptors). -/
theorem woken_drain (v : Variant) (s : St) (l : Nat) (hw : l ∈ s.woken) :
    (step v s (.recheck l)).1.woken.length + 1 = s.woken.length := by
  simp only [step, hw, if_true]
  rw [attempt_woken]
  show (s.woken.erase l).length + 1 = s.woken.length
  rw [List.length_erase_of_mem hw]
  have := List.length_pos_of_mem hw
  omega

/-- **saturated_sawtooth.**  End-to-end reading of the hysteresis, as the service shows it under
saturating load (every serve loop always has a client waiting; the harness runs the real
`dnssvc.Service` this way): starting from nothing the limiter admits exactly `stop` connections and
stops; and in every reachable stopped state one release followed by all the admissions that succeed
leaves exactly `sawNext stop resume n` connections — `n - 1` while that is above `resume`, `stop`
again otherwise — with the limiter stopped again.  `sawNext` is stated from the property text, not
from the counter. -/
theorem saturated_sawtooth (stop resume : Nat) (h : WF stop resume) (ops : List Op)
    (hq : (run repaired (init stop resume) ops).c.accepting = false)
    (hpos : 0 < count (run repaired (init stop resume) ops)) :
    ((init stop resume).c.refill (stop + 1)).current = stop ∧
    ((init stop resume).c.refill (stop + 1)).accepting = false ∧
    ((run repaired (init stop resume) ops).c.decrement.refill (stop + 1)).current =
      sawNext stop resume (count (run repaired (init stop resume) ops)) ∧
    ((run repaired (init stop resume) ops).c.decrement.refill (stop + 1)).accepting = false := by
  have hi := reach_inv h ops
  generalize run repaired (init stop resume) ops = s at *
  obtain ⟨h0, hrs, hlt⟩ := h
  have hc : s.c.current = count s := hi.cnt
  have hle := hi.le
  have hst := hi.hstop
  have hre := hi.hres
  have hinit := refill_full (stop + 1) (init stop resume).c rfl (by simpa [init] using h0)
    (by simpa [init] using hlt) (by simp [init])
  refine ⟨by rw [hinit]; rfl, by rw [hinit], ?_⟩
  rw [dec_eq s.c (by omega) (by omega)]
  unfold sawNext
  rw [← hc]
  by_cases hlow : s.c.current - 1 ≤ resume
  · have hr := refill_full (stop + 1)
      { s.c with current := s.c.current - 1,
                 accepting := s.c.accepting || decide (s.c.current - 1 ≤ s.c.resume) }
      (by simp [hre, hlow]) (by simp; omega) (by simpa [hst] using hlt) (by simp; omega)
    rw [hr]
    simp [hlow, hst]
  · have hn : (s.c.accepting || decide (s.c.current - 1 ≤ s.c.resume)) = false := by
      simp [hq, hre, hlow]
    rw [refill_not_accepting _ _ hn]
    simp [hlow, hq, hre]

/-- Non-vacuity: stop 3, resume 1, three connections open (stopped).  One release leaves 2 (still
stopped), the next leaves 1 = resume and the limiter fills up to 3 again. -/
example : WF 3 1 ∧
    (run repaired (init 3 1) [.accept 0, .deliver 0, .accept 0, .deliver 0, .accept 0, .deliver 0]).c.accepting = false ∧
    sawNext 3 1 3 = 2 ∧ sawNext 3 1 2 = 3 ∧
    ((run repaired (init 3 1) [.accept 0, .deliver 0, .accept 0, .deliver 0, .accept 0, .deliver 0,
      .close 0 false]).c.decrement.refill 4).current = 3 := by
  refine ⟨⟨by decide, by decide, by decide⟩, by decide, by decide, by decide, by decide⟩

/-- **pipeline_bound.**  With pipeline limiting enabled, at most `n` queries of one TCP/TLS connection
are being processed, for every burst and every order of arrivals, completions and `Acquire`
time-outs; every running worker holds exactly one token of the connection's semaphore. -/
theorem pipeline_bound (n : Nat) (ops : List POp) :
    (Pipe.run (Pipe.init n) ops).running ≤ n ∧
    (Pipe.run (Pipe.init n) ops).running = (Pipe.run (Pipe.init n) ops).tokens := by
  have := prun_ok ops (Pipe.init n) ⟨rfl, Nat.zero_le n, fun _ => rfl⟩
  have h2 : (Pipe.init n).n = n := rfl
  obtain ⟨⟨h3, h4, _⟩, h5⟩ := this
  omega

/-- **pipeline_work_conserving.**  The limit is `n` and not less: whenever a message is held back
(the reader sits in `Acquire`), exactly `n` queries of the connection are being processed; and while
the reader is alive and not held back, nothing is left unread. -/
theorem pipeline_work_conserving (n : Nat) (ops : List POp) :
    ((Pipe.run (Pipe.init n) ops).blocked = true → (Pipe.run (Pipe.init n) ops).running = n) ∧
    ((Pipe.run (Pipe.init n) ops).blocked = false → (Pipe.run (Pipe.init n) ops).dead = false →
      (Pipe.run (Pipe.init n) ops).queued = 0) := by
  have hs := prun_settled ops (Pipe.init n) (Or.inr (Or.inr ⟨rfl, rfl⟩))
  have := prun_ok ops (Pipe.init n) ⟨rfl, Nat.zero_le n, fun _ => rfl⟩
  have h2 : (Pipe.init n).n = n := rfl
  obtain ⟨⟨h3, h4, h6⟩, h5⟩ := this
  generalize Pipe.run (Pipe.init n) ops = p at *
  constructor
  · intro hb
    rcases hs with hd | ⟨_, hn⟩ | ⟨hb', _⟩
    · rw [h6 hd] at hb; cases hb
    · omega
    · rw [hb] at hb'; cases hb'
  · intro hb hd
    rcases hs with hd' | ⟨hb', _⟩ | ⟨_, hq⟩
    · rw [hd] at hd'; cases hd'
    · rw [hb] at hb'; cases hb'
    · exact hq

example : (Pipe.run (Pipe.init 2) [.query, .query, .query, .query]).running = 2 ∧
    (Pipe.run (Pipe.init 2) [.query, .query, .query, .query]).blocked = true ∧
    (Pipe.run (Pipe.init 2) [.query, .query, .query, .query, .done]).queued = 0 ∧
    (Pipe.run (Pipe.init 2) [.query, .query, .query, .timeout, .query, .done]).running = 1 := by decide

/-! ## The configured limits are the limits of the theorems (round 4: production wiring) -/

/-- **wired_limiter.**  Whatever `ratelimit.connection_limit` section start-up validation lets
through with `enabled: true` (thresholds are `uint64`s, `addrs` bound stream addresses), the
conversion does not panic and the limiter handed to `dnssvc` is the initial counter of the theorems
above with *the configured* `stop` and `resume`; these satisfy `WF`, and `resume` leaves room for one
pending accept per listener. -/
theorem wired_limiter (c : ConnLimitYaml) (addrs : Nat) (he : c.enabled = true)
    (hv : ConnLimitYaml.validate (some c) addrs = true) (h64 : c.stop < two64) :
    ConnLimitYaml.wire (some c) addrs = .on (init c.stop c.resume).c ∧
    WF c.stop c.resume ∧ 0 < c.resume ∧ addrs ≤ c.resume := by
  unfold ConnLimitYaml.validate at hv
  simp only [he, Bool.not_true, Bool.false_eq_true, if_false] at hv
  by_cases h0 : c.stop = 0
  · simp [h0] at hv
  by_cases h1 : c.resume = 0
  · simp [h0, h1] at hv
  by_cases h2 : c.resume > c.stop
  · simp [h0, h1, h2] at hv
  simp only [h0, h1, h2, if_false, decide_eq_true_eq] at hv
  have hval : ConnLimitYaml.validate (some c) addrs = true := by
    unfold ConnLimitYaml.validate
    simp [he, h0, h1, h2, hv]
  refine ⟨?_, ⟨by omega, by omega, h64⟩, by omega, hv⟩
  show (if ConnLimitYaml.validate (some c) addrs = true then c.toInternal else Wired.rejected) = _
  rw [hval]
  simp [ConnLimitYaml.toInternal, he, newLimiter, h0, h2, init]

/-- **wired_bound.**  The bound in terms of the configuration file: with an accepted, enabled
section the number of open connections plus pending accepts never exceeds the configured `stop`,
under every schedule. -/
theorem wired_bound (c : ConnLimitYaml) (addrs : Nat) (he : c.enabled = true)
    (hv : ConnLimitYaml.validate (some c) addrs = true) (h64 : c.stop < two64) (ops : List Op) :
    count (run repaired (init c.stop c.resume) ops) ≤ c.stop :=
  (bound c.stop c.resume (wired_limiter c addrs he hv h64).2.1 ops).2

/-- **wired_never_panics / wired_off.**  No accepted section makes the conversion panic, and a
disabled one limits nothing (nil limiter), whatever its numbers. -/
theorem wired_never_panics (c : Option ConnLimitYaml) (addrs : Nat) :
    ConnLimitYaml.wire c addrs ≠ .panic ∧
    (∀ k, c = some k → k.enabled = false → ConnLimitYaml.wire c addrs = .off) := by
  constructor
  · cases c with
    | none => simp [ConnLimitYaml.wire]
    | some k =>
      show (if ConnLimitYaml.validate (some k) addrs = true then k.toInternal else Wired.rejected) ≠ _
      by_cases hv : ConnLimitYaml.validate (some k) addrs = true
      · simp only [hv, if_true]
        unfold ConnLimitYaml.validate at hv
        unfold ConnLimitYaml.toInternal newLimiter
        cases he : k.enabled
        · simp
        · simp only [he, Bool.not_true, Bool.false_eq_true, if_false] at hv ⊢
          by_cases h0 : k.stop = 0
          · simp [h0] at hv
          by_cases h1 : k.resume = 0
          · simp [h0, h1] at hv
          by_cases h2 : k.resume > k.stop
          · simp [h0, h1, h2] at hv
          simp [h0, h2]
      · simp [hv]
  · intro k hk he
    subst hk
    simp [ConnLimitYaml.wire, ConnLimitYaml.validate, ConnLimitYaml.toInternal, he]

/-- Non-vacuity: the shipped example (stop 1000, resume 800, 6 stream addresses) is accepted and
wired; resume below the number of listeners, resume 0 and resume > stop are rejected. -/
example : ConnLimitYaml.wire (some ⟨true, 1000, 800⟩) 6 = .on ⟨0, 1000, 800, true⟩ ∧
    ConnLimitYaml.wire (some ⟨true, 4, 2⟩) 3 = .rejected ∧
    ConnLimitYaml.wire (some ⟨true, 4, 0⟩) 0 = .rejected ∧
    ConnLimitYaml.wire (some ⟨true, 2, 3⟩) 1 = .rejected ∧
    ConnLimitYaml.wire (some ⟨false, 0, 7⟩) 9 = .off ∧
    ConnLimitYaml.wire none 0 = .rejected := by decide

/-- **wired_pipeline.**  With an accepted `ratelimit.tcp` section and `enabled: true`, every plain-DNS
and every DoT server serves each of its stream connections with a semaphore of exactly the configured
`max_pipeline_count` (at least one), so at most that many queries of one connection are processed at
the same time under every order of arrivals, completions and give-ups; with `enabled: false` no
semaphore is made.  Other protocols do not run the TCP message loop. -/
theorem wired_pipeline (t : TcpYaml) (p : Proto) (hv : TcpYaml.validate (some t) = true)
    (hp : p = .dns ∨ p = .dot) :
    (t.enabled = true → p.wireTcp (some t) = .on t.count ∧ 0 < t.count ∧
      ∀ ops, (Pipe.run (Pipe.init t.count) ops).running ≤ t.count) ∧
    (t.enabled = false → p.wireTcp (some t) = .off) := by
  have hpos : 0 < t.count := by simpa [TcpYaml.validate] using hv
  constructor
  · intro he
    refine ⟨?_, hpos, fun ops => (pipeline_bound t.count ops).1⟩
    rcases hp with rfl | rfl <;> simp [Proto.wireTcp, hv, Proto.tcpConf, he]
  · intro he
    rcases hp with rfl | rfl <;> simp [Proto.wireTcp, hv, Proto.tcpConf, he]

example : Proto.wireTcp .dot (some ⟨true, 100⟩) = .on 100 ∧ Proto.wireTcp .dns (some ⟨false, 100⟩) = .off ∧
    Proto.wireTcp .dns (some ⟨true, 0⟩) = .rejected ∧ Proto.wireTcp .dnscrypt (some ⟨true, 5⟩) = .off := by decide

/-! ## The pinned tree before the repairs violates the property -/

/-- S6: with `Signal` in `limitListener.decrement` (stop 3, resume 1) two acceptors wait on two
listeners; two closes bring the number to 1 = resume, one acceptor proceeds, the other stays parked
although the counter accepts and only 2 of 3 slots are used.  Replayed on the real code by the
harness (`limiter.witness`). -/
def stuckTrace : List Op :=
  [.accept 0, .deliver 0, .accept 0, .deliver 0, .accept 0, .deliver 0,
   .accept 1, .accept 2, .close 0 false, .recheck 1, .close 1 false, .recheck 2]

theorem stuck_waiter_counterexample :
    ¬ ∀ ops, ¬ Stuck (run original (init 3 1) ops) := by
  intro h
  exact h stuckTrace (by decide)

/-- `Signal` alone is enough for the defect, `Broadcast` alone repairs this trace. -/
theorem stuck_waiter_signal_only :
    Stuck (run { wake := .signal, closedFirst := true } (init 3 1) stuckTrace) ∧
    ¬ Stuck (run { wake := .broadcast, closedFirst := false } (init 3 1)
      [.accept 0, .deliver 0, .accept 0, .deliver 0, .accept 0, .deliver 0,
       .accept 1, .accept 2, .close 0 false, .recheck 1, .recheck 2, .close 1 false, .recheck 1, .recheck 2]) := by
  decide

/-- Second defect: with the loop test `!l.counter.increment() && !l.isClosed`, one `Accept` on a
closed listener takes a slot that is never given back (stop 1): the counter says 1 with no
connection open or pending, and an acceptor of another, open listener waits forever. -/
theorem closed_accept_leak_counterexample :
    ¬ ∀ ops, (run original (init 1 1) ops).c.current = count (run original (init 1 1) ops) := by
  intro h
  exact absurd (h [.lclose 0 false, .accept 0, .accept 1]) (by decide)

theorem closed_accept_leak_blocks_others :
    (run { wake := .broadcast, closedFirst := false } (init 1 1) [.lclose 0 false, .accept 0, .accept 1]).waitq = [1] ∧
    count (run { wake := .broadcast, closedFirst := false } (init 1 1) [.lclose 0 false, .accept 0, .accept 1]) = 0 := by
  decide

#print axioms bound
#print axioms hysteresis
#print axioms resume_reopens
#print axioms woken_proceeds
#print axioms no_stuck_waiter
#print axioms close_releases_waiters
#print axioms release_once
#print axioms accepting_iff_log
#print axioms admission_iff_log
#print axioms reopened_when_low
#print axioms woken_drain
#print axioms saturated_sawtooth
#print axioms pipeline_bound
#print axioms pipeline_work_conserving
#print axioms wired_limiter
#print axioms wired_bound
#print axioms wired_never_panics
#print axioms wired_pipeline
#print axioms stuck_waiter_counterexample
#print axioms stuck_waiter_signal_only
#print axioms closed_accept_leak_counterexample
#print axioms closed_accept_leak_blocks_others

end Agd.ConnLimit
#print axioms Agd.Tie.TrC18.translation_complete
#print axioms Agd.Tie.TrC18.increment_tr
#print axioms Agd.Tie.TrC18.decrement_tr
#print axioms Agd.Tie.TrC18.decrement_broadcasts
#print axioms Agd.Tie.TrC18.listener_close_releases_waiters
#print axioms Agd.Tie.TrC18.accept_slot_accounting
#print axioms Agd.Tie.TrC18.conn_released_once
#print axioms Agd.Tie.TrC18.serveTCPConn_exit
#print axioms Agd.Tie.TrC18.serveTCPConn_closes_once
#print axioms Agd.Tie.TrC18.serveTCPConn_terminates
#print axioms Agd.Tie.TrC18.serveTCPConn_semaphore
#print axioms Agd.Tie.TrC18.acceptTCPMsg_acquire_then_submit
#print axioms Agd.Tie.TrC18.acceptTCPMsg_task_releases_once
#print axioms Agd.Tie.TrC18.serveTCPMessage_close_iff_unwritten
#print axioms Agd.Tie.TrC18.acceptTCPConn_hands_over_once
#print axioms Agd.Tie.TrC18.serveTCP_closes_listener_once
