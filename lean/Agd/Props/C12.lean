import Agd.Tie.TrC12
import Agd.Lemmas.ResultCache
import Agd.Tie.C12
/-!
# C12 — filter result caches are invisible and never survive a list refresh

Property theorems only.  Helper lemmas live in `Agd/Lemmas/ResultCache.lean`.
-/
namespace Agd.ResultCache

/-! ## Rule-list, blocked-service and safe-search result caches -/

/-- **transparent_rulelist.** For every history of queries by arbitrary requesters, refreshes and
LRU evictions, a rule-list filter with its result cache enabled gives exactly the answers of the same
filter without a cache — provided the installed rule lists carry no client-specific rules (as in the
property) and the 64-bit key does not collide for two question tuples of one host (collisions
between different hosts are caught by the code's host comparison and need no assumption). -/
theorem transparent_rulelist {S R V : Type} [DecidableEq S] (hash : Key → S) (hok : HashOK hash)
    (e : Key → R → V) (he : ClientFree e) (ops : List (Op S R V)) (hops : OpsClientFree ops) :
    RL.run hash { engine := e, cache := Tbl.empty, enabled := true } ops =
      RL.run hash { engine := e, cache := Tbl.empty, enabled := false } ops := by
  have key : ∀ (ops : List (Op S R V)) (s u : RL S R V), s.Inv hash → ClientFree s.engine →
      u.enabled = false → u.engine = s.engine → OpsClientFree ops → RL.run hash s ops = RL.run hash u ops := by
    intro ops
    induction ops with
    | nil => intro _ _ _ _ _ _ _; rfl
    | cons op ops ih =>
      intro s u hi hcf hu heq hops
      have hul : ∀ k, u.lookup hash k = none := by intro k; simp [RL.lookup, hu]
      cases op with
      | query k r =>
        have hs := RL.step_query_out hok hi k r
        have hue := RL.step_query_miss (hash := hash) r (hul k)
        have hse := RL.step_engine_query (hash := hash) s k r
        simp only [RL.run]
        rw [hs, hue]
        simp only [hu, heq]
        congr 1
        exact ih _ _ (RL.step_inv hi hcf _) (by rw [hse.1]; exact hcf) hu (by rw [hse.1]; exact heq)
          (by simpa [OpsClientFree] using hops)
      | refresh e' =>
        simp only [RL.run, RL.step]
        congr 1
        exact ih _ _ (by intro slot it hc; simp [Tbl.empty] at hc) hops.1 hu rfl hops.2
      | evict sl =>
        simp only [RL.run, RL.step]
        congr 1
        exact ih _ _ (RL.step_inv (op := .evict sl) hi hcf) hcf hu heq (by simpa [OpsClientFree] using hops)
  exact key ops _ _ (by intro slot it hc; simp [Tbl.empty] at hc) he rfl rfl hops

/-- Non-vacuity: a two-rule engine without client rules, identity hash, a history with hits, an
eviction and a refresh. -/
example :
    let e : Key → Nat → String := fun k _ => if k.host = "ads.example" then "blocked" else "none"
    let e' : Key → Nat → String := fun _ _ => "none"
    ClientFree e ∧ ClientFree e' ∧ HashOK (fun k : Key => k) ∧
    RL.run (fun k : Key => k) { engine := e, cache := Tbl.empty, enabled := true }
      [.query ⟨"ads.example", 2⟩ 1, .query ⟨"ads.example", 2⟩ 2, .evict ⟨"ads.example", 2⟩,
       .refresh e', .query ⟨"ads.example", 2⟩ 1] =
      [some "blocked", some "blocked", none, none, some "none"] := by
  refine ⟨fun _ _ _ => rfl, fun _ _ _ => rfl, ?_, by decide⟩
  intro h a b hab
  exact (Key.mk.injEq ..).mp hab |>.2

/-- **rulelist_no_stale_after_refresh.** After a refresh has installed engine `e` (whatever happened
before, client-specific lists included), every later query — after any number of other queries and
evictions — is answered with `e`'s result: nothing computed with an older list survives `Clear`. -/
theorem rulelist_no_stale_after_refresh {S R V : Type} [DecidableEq S] (hash : Key → S)
    (hok : HashOK hash) (s : RL S R V) (e : Key → R → V) (he : ClientFree e)
    (ops : List (Op S R V)) (hnr : NoRefresh ops) (k : Key) (r : R) :
    ((RL.final hash (s.step hash (.refresh e)).1 ops).step hash (.query k r)).2 = some (e k r) := by
  have h0 : (s.step hash (.refresh e)).1.Inv hash := by
    intro slot it hc; simp [RL.step, Tbl.empty] at hc
  have h1 : (s.step hash (.refresh e)).1.engine = e := rfl
  have := RL.final_noRefresh (hash := hash) ops _ h0 (by rw [h1]; exact he) hnr
  rw [RL.step_query_out hok this.1, this.2, h1]

example : NoRefresh ([.query ⟨"a", 2⟩ 1, .evict 7] : List (Op Nat Nat String)) := by simp [NoRefresh]

/-- **rulelist_client_rule_counterexample.** The exclusion of client-specific rules in the property is
necessary: with a `$client` rule the cached filter answers the second client with the first
client's result. -/
theorem rulelist_client_rule_counterexample :
    let e : Key → Nat → String := fun _ c => if c = 1 then "blocked" else "none"
    RL.run (fun k : Key => k) { engine := e, cache := Tbl.empty, enabled := true }
        [.query ⟨"h", 2⟩ 1, .query ⟨"h", 2⟩ 2] ≠
      RL.run (fun k : Key => k) { engine := e, cache := Tbl.empty, enabled := false }
        [.query ⟨"h", 2⟩ 1, .query ⟨"h", 2⟩ 2] := by
  decide

/-- Non-vacuity with respect to key collisions: a key function that ignores the host altogether —
*every* two hosts collide — satisfies `HashOK`, so `transparent_rulelist` covers it; the run shows
the host comparison turning the colliding hit into a miss (and the overwritten slot into another). -/
example :
    let e : Key → Nat → String := fun k _ => if k.host = "ads.example" then "blocked" else "none"
    HashOK (fun k : Key => k.sub) ∧
    RL.run (fun k : Key => k.sub) { engine := e, cache := Tbl.empty, enabled := true }
      [.query ⟨"ok.example", 2⟩ 1, .query ⟨"ads.example", 2⟩ 1, .query ⟨"ok.example", 2⟩ 2] =
      [some "none", some "blocked", some "none"] := by
  exact ⟨fun _ _ _ h => h, by decide⟩

/-- **rulelist_same_host_collision_counterexample.** `HashOK` is necessary: the cached item carries the
host but not the question type, so if the keys of (h, A) and (h, AAAA) agree, a `$dnstype=A` rule's
verdict for the A question is served for the AAAA question.  (With the 64-bit `maphash` sum this needs
a collision among the handful of tuples of one host; the harness searches for such pairs with the
real key function on every run and would drive them through the real filter.) -/
theorem rulelist_same_host_collision_counterexample :
    let e : Key → Nat → String := fun k _ => if k.sub = 2 then "blocked" else "none"
    let hash : Key → String := fun k => k.host
    ClientFree e ∧ ¬ HashOK hash ∧
    RL.run hash { engine := e, cache := Tbl.empty, enabled := true } [.query ⟨"h", 2⟩ 1, .query ⟨"h", 56⟩ 1] ≠
      RL.run hash { engine := e, cache := Tbl.empty, enabled := false } [.query ⟨"h", 2⟩ 1, .query ⟨"h", 56⟩ 1] := by
  refine ⟨fun _ _ _ => rfl, ?_, by decide⟩
  intro h
  have := h "h" 2 56 rfl
  omega

/-- **rulelist_matches_spec.** Independent specification: the cached filter answers every query of
every history with the value of the engine installed by the latest refresh — a fold over the history
that tracks nothing but the current engine. -/
theorem rulelist_matches_spec {S R V : Type} [DecidableEq S] (hash : Key → S) (hok : HashOK hash)
    (e : Key → R → V) (he : ClientFree e) (ops : List (Op S R V)) (hops : OpsClientFree ops) :
    RL.run hash { engine := e, cache := Tbl.empty, enabled := true } ops = RL.spec e ops := by
  have key : ∀ (ops : List (Op S R V)) (s : RL S R V), s.Inv hash → ClientFree s.engine →
      OpsClientFree ops → RL.run hash s ops = RL.spec s.engine ops := by
    intro ops
    induction ops with
    | nil => intro _ _ _ _; rfl
    | cons op ops ih =>
      intro s hi hcf hops
      cases op with
      | query k r =>
        have hse := RL.step_engine_query (hash := hash) s k r
        simp only [RL.run, RL.spec]
        rw [RL.step_query_out hok hi k r,
          ih _ (RL.step_inv hi hcf _) (by rw [hse.1]; exact hcf) (by simpa [OpsClientFree] using hops), hse.1]
      | refresh e' =>
        simp only [RL.run, RL.spec, RL.step]
        congr 1
        exact ih _ (by intro slot it hc; simp [Tbl.empty] at hc) hops.1 hops.2
      | evict sl =>
        simp only [RL.run, RL.spec]
        rw [ih _ (RL.step_inv (op := .evict sl) hi hcf) (by simpa [RL.step] using hcf)
          (by simpa [OpsClientFree] using hops)]
        simp [RL.step]
  exact key ops _ (by intro slot it hc; simp [Tbl.empty] at hc) he hops

/-- Non-vacuity / the spec is not the model: the fold gives the expected literal answers. -/
example :
    let e : Key → Nat → String := fun k _ => if k.host = "ads.example" then "blocked" else "none"
    RL.spec (S := Key) e [.query ⟨"ads.example", 2⟩ 1, .refresh (fun _ _ => "none"), .query ⟨"ads.example", 2⟩ 2] =
      [some "blocked", none, some "none"] := by
  decide

/-- **transparent_safesearch.** The safe-search filter (question-type gate, the shared rule-list
cache, result rebuilt for each requester from the cached engine result) answers every history of
requests by arbitrary requesters, refreshes and evictions exactly like the gate followed by the
current engine and the per-requester construction, without any cache. -/
theorem transparent_safesearch {S R V W : Type} [DecidableEq S] (hash : Key → S) (hok : HashOK hash)
    (post : R → String → V → W) (e : Key → R → V) (he : ClientFree e) (ops : List (SSOp S R V))
    (hops : SSOpsClientFree ops) :
    RL.ssRun hash post { engine := e, cache := Tbl.empty, enabled := true } ops = ssSpec post e ops := by
  have key : ∀ (ops : List (SSOp S R V)) (s : RL S R V), s.Inv hash → ClientFree s.engine →
      SSOpsClientFree ops → RL.ssRun hash post s ops = ssSpec post s.engine ops := by
    intro ops
    induction ops with
    | nil => intro _ _ _ _; rfl
    | cons op ops ih =>
      intro s hi hcf hops
      cases op with
      | query host qt r =>
        simp only [RL.ssRun, ssSpec, RL.ssStep]
        split
        · have hse := RL.step_engine_query (hash := hash) s ⟨host, 2 * qt⟩ r
          simp only [RL.step_query_out hok hi ⟨host, 2 * qt⟩ r, Option.map_some]
          rw [ih _ (RL.step_inv hi hcf _) (by rw [hse.1]; exact hcf) (by simpa [SSOpsClientFree] using hops),
            hse.1]
        · rw [ih _ hi hcf (by simpa [SSOpsClientFree] using hops)]
      | refresh e' =>
        simp only [RL.ssRun, ssSpec, RL.ssStep, RL.step]
        congr 1
        exact ih _ (by intro slot it hc; simp [Tbl.empty] at hc) hops.1 hops.2
      | evict sl =>
        simp only [RL.ssRun, ssSpec, RL.ssStep]
        rw [ih _ (RL.step_inv (op := .evict sl) hi hcf) (by simpa [RL.step] using hcf)
          (by simpa [SSOpsClientFree] using hops)]
        simp [RL.step]
  exact key ops _ (by intro slot it hc; simp [Tbl.empty] at hc) he hops

/-- Non-vacuity: two requesters with different settings hit the same cached rewrite and each gets a
result built with its own settings; a TXT question never reaches the list; the refresh takes effect. -/
example :
    let e : Key → Nat → String := fun k _ => if k.host = "search.example" then "safe.search.example" else ""
    let post : Nat → String → String → String := fun ttl host v => host ++ "->" ++ v ++ " ttl=" ++ toString ttl
    RL.ssRun (fun k : Key => k) post { engine := e, cache := Tbl.empty, enabled := true }
      [.query "search.example" 1 10, .query "search.example" 1 3600, .query "search.example" 16 10,
       .refresh (fun _ _ => ""), .query "search.example" 1 10] =
      [some "search.example->safe.search.example ttl=10", some "search.example->safe.search.example ttl=3600",
       none, none, some "search.example-> ttl=10"] := by
  decide

/-- **cache_key_bytes_injective.** The byte string `NewCacheKey` hashes (host bytes, 16-bit type,
16-bit class, answer flag) determines all four components: two different questions never produce the
same input of `maphash`, so `HashOK` asks of `maphash` only what a hash can give. -/
theorem cache_key_bytes_injective (h₁ h₂ : List Nat) (qt₁ qt₂ cl₁ cl₂ : Nat) (a₁ a₂ : Bool)
    (hq₁ : qt₁ < 65536) (hq₂ : qt₂ < 65536) (hc₁ : cl₁ < 65536) (hc₂ : cl₂ < 65536)
    (h : keyBytes h₁ qt₁ cl₁ a₁ = keyBytes h₂ qt₂ cl₂ a₂) :
    h₁ = h₂ ∧ qt₁ = qt₂ ∧ cl₁ = cl₂ ∧ a₁ = a₂ := by
  unfold keyBytes at h
  have := List.append_inj' h (by simp [keyTail])
  refine ⟨this.1, ?_⟩
  have ht := this.2
  simp only [keyTail, List.cons.injEq, and_true] at ht
  obtain ⟨t1, t2, t3, t4, t5⟩ := ht
  refine ⟨by omega, by omega, ?_⟩
  cases a₁ <;> cases a₂ <;> simp_all

/-- **cache_key_truncated_type_counterexample.** The width matters: with the type cut to one byte, an
A (1) and a CAA (257) question for the same host get the same key bytes. -/
theorem cache_key_truncated_type_counterexample :
    keyBytes [104] (1 % 256) 1 false = keyBytes [104] (257 % 256) 1 false := by decide

example : keyBytes [97, 46, 98] 28 1 true = [97, 46, 98, 28, 0, 1, 0, 1] := by decide

/-! ### Any schedule of lookups and refreshes under the `RWMutex` -/

/-- **rulelist_no_stale_any_schedule.** For every interleaving of lookups (read lock · `Get` ·
`MatchRequest` · `Set`+unlock, any number of them overlapping), refreshes (write lock · `Clear` ·
engine swap+unlock) and evictions that respects the `RWMutex`: whatever any step hands back to a
lookup is the answer of the engine that is installed at that moment, for that lookup's own requester.
A lookup therefore never sees a value computed with a list that a completed refresh has replaced,
and never a value computed for another requester. -/
theorem rulelist_no_stale_any_schedule {S R V : Type} [DecidableEq S] (hash : Key → S)
    (hok : HashOK hash) (e : Key → R → V) (he : ClientFree e) (ops : List (ROp S R V))
    (hops : ROpsClientFree ops) (op : ROp S R V) (v : V) :
    let s := RLS.final true hash (RLS.init e) ops
    (s.step true hash op).2 = some v → ∃ t ∈ s.readers, v = s.engine t.key t.req := by
  intro s hout
  exact RLS.step_out hok (RLS.final_inv ops _ (RLS.init_inv hash e he) hops) op hout

/-- **rulelist_refresh_completes_any_schedule.** Once a refresh to engine `e'` has completed
(`wswap` in a state whose writer has cleared the cache), every answer handed out afterwards — until
the next refresh starts — is `e'`'s, whatever lookups were in flight before and whatever
interleaving follows. -/
theorem rulelist_refresh_completes_any_schedule {S R V : Type} [DecidableEq S] (hash : Key → S)
    (hok : HashOK hash) (e e' : Key → R → V) (he : ClientFree e) (ops₁ ops₂ : List (ROp S R V))
    (hops : ROpsClientFree ops₁) (hcl : (RLS.final true hash (RLS.init e) ops₁).writer = .cleared e')
    (hn : NoWlock ops₂) (op : ROp S R V) (v : V) :
    let s := RLS.final true hash ((RLS.final true hash (RLS.init e) ops₁).step true hash .wswap).1 ops₂
    (s.step true hash op).2 = some v → ∃ t ∈ s.readers, v = e' t.key t.req := by
  intro s hout
  have i1 := RLS.final_inv ops₁ _ (RLS.init_inv hash e he) hops
  have i2 := RLS.step_inv i1 .wswap trivial
  have i3 := RLS.final_inv ops₂ _ i2 (NoWlock.cf ops₂ hn)
  have hsw : ((RLS.final true hash (RLS.init e) ops₁).step true hash .wswap).1.engine = e' ∧
      ((RLS.final true hash (RLS.init e) ops₁).step true hash .wswap).1.writer = .idle := by
    simp [RLS.step, hcl]
  have hfin := RLS.final_noWlock (hash := hash) ops₂ _ hsw.2 hn
  obtain ⟨t, ht, hv⟩ := RLS.step_out hok i3 op hout
  exact ⟨t, ht, by rw [hv]; show s.engine t.key t.req = _; rw [hfin.1, hsw.1]⟩

/-- Non-vacuity: two overlapping lookups by different requesters, a refresh that has to wait for
them, a lookup that has to wait for the refresh; the second requester's hit and the lookup after the
refresh get the right engine's value, and the state before `wswap` is `cleared`. -/
example :
    let e : Key → Nat → String := fun k _ => if k.host = "ads.example" then "blocked" else "none"
    let e' : Key → Nat → String := fun _ _ => "none"
    let k : Key := ⟨"ads.example", 2⟩
    let ops₁ : List (ROp Key Nat String) :=
      [.rlock 1 k 1, .rlock 2 k 2, .get 1, .wlock e', .mtch 1, .set 1, .get 2, .wlock e', .rlock 3 k 1, .wclear]
    ROpsClientFree ops₁ ∧ (∃ x, (RLS.final true id (RLS.init e) ops₁).writer = .cleared x) ∧
    RLS.run true id (RLS.init e) (ops₁ ++ [.wswap, .rlock 3 k 1, .get 3, .mtch 3, .set 3]) =
      [none, none, none, none, none, some "blocked", some "blocked", none, none, none,
       none, none, none, none, some "none"] := by
  refine ⟨⟨fun _ _ _ => rfl, fun _ _ _ => rfl, trivial⟩, ⟨_, rfl⟩, by decide⟩

/-- **rulelist_small_step_refines.** Scheduled sequentially (each lookup's four steps and each
refresh's three steps back to back), the small-step machine of the any-schedule theorems gives exactly
the answers of the atomic machine `RL.run` — the one the correspondence runs compare with the real
filter storage on every history. -/
theorem rulelist_small_step_refines {S R V : Type} [DecidableEq S] (hash : Key → S) (e : Key → R → V)
    (ops : List (Op S R V)) :
    RLS.atomicRun hash (RLS.init e) ops = RL.run hash { engine := e, cache := Tbl.empty, enabled := true } ops := by
  have key : ∀ (ops : List (Op S R V)) (sm : RLS S R V) (s : RL S R V), sm.Sim s →
      RLS.atomicRun hash sm ops = RL.run hash s ops := by
    intro ops
    induction ops with
    | nil => intro _ _ _; rfl
    | cons op ops ih =>
      intro sm s h
      have := RLS.atomic_sim hash h op
      simp only [RLS.atomicRun, RL.run]
      rw [this.1, ih _ _ this.2]
  exact key ops _ _ ⟨rfl, rfl, rfl, rfl, rfl⟩

example :
    let e : Key → Nat → String := fun k _ => if k.host = "ads.example" then "blocked" else "none"
    RLS.atomicRun (fun k : Key => k) (RLS.init e)
      [.query ⟨"ads.example", 2⟩ 1, .query ⟨"ads.example", 2⟩ 2, .refresh (fun _ _ => "none"), .query ⟨"ads.example", 2⟩ 1] =
      [some "blocked", some "blocked", none, some "none"] := by
  decide

/-- **rulelist_unlocked_refresh_counterexample.** The lock is necessary: if the refresh does not
exclude lookups (`Clear` or the swap moved out of the critical section, or the old and the new filter
object sharing one cache), the schedule lookup-miss · match(old) · Clear · swap · insert(old) leaves a
value of the replaced list in the cache and the next lookup is answered with it. -/
theorem rulelist_unlocked_refresh_counterexample :
    let e : Key → Nat → String := fun k _ => if k.host = "ads.example" then "blocked" else "none"
    let e' : Key → Nat → String := fun _ _ => "none"
    let k : Key := ⟨"ads.example", 2⟩
    let ops : List (ROp Key Nat String) :=
      [.rlock 1 k 1, .get 1, .mtch 1, .wlock e', .wclear, .wswap, .set 1, .rlock 2 k 2, .get 2]
    (RLS.run false id (RLS.init e) ops).getLast? = some (some "blocked") ∧
      (RLS.final false id (RLS.init e) ops).engine k 2 = "none" ∧
      -- under the lock discipline the refresh has to wait, so the same answer is still current
      (RLS.final true id (RLS.init e) ops).engine k 2 = "blocked" := by
  decide

/-! ## Hash-prefix result cache -/

/-- **hashprefix_no_stale_any_schedule.** For every interleaving of lookups (split into cache
lookup / matching / insertion), refreshes (split into `Reset` and `clearCache`) and evictions: in
any reachable state in which no refresh is in flight, a lookup that is answered from the cache gets
exactly the answer an uncached lookup computes from the current hash list, built for *this*
requester's blocking mode, TTL and EDNS data.  In particular no entry computed with an older list
survives a completed refresh, whatever lookups were running concurrently. -/
theorem hashprefix_no_stale_any_schedule {S : Type} [DecidableEq S] (subs : String → List String)
    (rep : Rep) (hash : Key → S) (ops : List (HOp S)) (tid : Nat) (k : Key) (r : Req) (res : Res) :
    let s := HP.final true subs rep hash HP.init ops
    s.pending = 0 → (s.step true subs rep hash (.begin tid k r)).2 = some res →
      res = s.fresh subs rep k r := by
  intro s hp hout
  have hi : s.Inv subs := HP.final_inv subs rep hash ops _ (HP.init_inv subs)
  simp only [HP.step] at hout
  unfold HP.fresh
  split at hout
  · rename_i hf
    simp only [Option.some.injEq] at hout
    simp [hf, hout]
  · rename_i hf
    split at hout
    · rename_i it hl
      simp only [Option.some.injEq] at hout
      rw [← hout, HP.lookup_fresh subs hash hi hp hl]
      simp [hf]
    · simp at hout

/-- **transparent_hashprefix.** For every sequential history of whole lookups by requesters with
arbitrary blocking modes, TTLs, EDNS data and question types, whole refreshes and evictions, the
hash-prefix filter with its result cache gives exactly the answers computed without any cache from
the current hash list for the current requester. -/
theorem transparent_hashprefix {S : Type} [DecidableEq S] (subs : String → List String) (rep : Rep)
    (hash : Key → S) (ops : List (SOp S)) :
    HP.seqRun true subs rep hash HP.init ops = refRun subs rep [] ops := by
  have key : ∀ (ops : List (SOp S)) (s : HP S), s.Inv subs → s.pending = 0 →
      HP.seqRun true subs rep hash s ops = refRun subs rep s.store ops := by
    intro ops
    induction ops with
    | nil => intro _ _ _; rfl
    | cons op ops ih =>
      intro s hi hp
      cases op with
      | query k r =>
        have h := HP.query_spec subs rep hash hi hp k r
        simp only [HP.seqRun, refRun]
        rw [h.1, ih _ h.2.1 h.2.2.1, h.2.2.2]
        rfl
      | refresh hosts =>
        have h := HP.refresh_spec subs rep hash hi hp hosts
        simp only [HP.seqRun, refRun]
        rw [ih _ h.1 h.2.1, h.2.2]
      | evict sl =>
        simp only [HP.seqRun, refRun]
        rw [ih _ (HP.step_inv subs rep hash hi (.evict sl)) (by simpa [HP.step] using hp)]
        simp [HP.step]
  exact key ops _ (HP.init_inv subs) rfl

/-- Non-vacuity: two requesters with different settings hit the same key; each gets its own TTL and
response code; after the refresh the host is no longer filtered. -/
example :
    HP.seqRun true (fun h => [h]) .ip4 id HP.init
      [.refresh ["bad.example"], .query ⟨"bad.example", 130⟩ ⟨.nxdomain, 10, true, true, .https⟩,
       .query ⟨"bad.example", 130⟩ ⟨.refused, 3600, false, true, .https⟩, .refresh [],
       .query ⟨"bad.example", 130⟩ ⟨.refused, 3600, false, true, .https⟩] =
      [.modResp "bad.example" 3 0 10 true true, .modResp "bad.example" 5 0 3600 true false, .none] := by
  decide

/-- Non-vacuity: a lookup parked across a whole refresh; afterwards `pending = 0`, the parked
lookup's insertion was refused, and the next lookup of the removed host is not filtered. -/
example :
    let subs : String → List String := fun h => [h]
    let ops : List (HOp Key) :=
      [.store ["bad.example"], .clear, .begin 1 ⟨"bad.example", 2⟩ ⟨.nxdomain, 10, true, true, .a⟩, .mtch 1,
       .store [], .clear, .finish 1]
    (HP.final true subs .host id HP.init ops).pending = 0 ∧
    HP.run true subs .host id HP.init (ops ++ [.begin 2 ⟨"bad.example", 2⟩ ⟨.refused, 60, false, false, .a⟩,
      .mtch 2, .finish 2]) =
      [none, none, none, none, none, none, some (.modReq "bad.example"), none, none, some .none] := by
  decide

/-- **hashprefix_unguarded_stale_counterexample.** The code before the fix (`setInCache` without the
generation comparison) admits the schedule lookup-miss · match(old) · Reset · Clear · insert(old):
no refresh is in flight, yet the next lookup is answered from the list that was replaced. -/
theorem hashprefix_unguarded_stale_counterexample :
    let subs : String → List String := fun h => [h]
    let ops : List (HOp Key) :=
      [.store ["bad.example"], .clear, .begin 1 ⟨"bad.example", 2⟩ ⟨.nxdomain, 10, true, true, .a⟩, .mtch 1,
       .store [], .clear, .finish 1]
    let s := HP.final false subs .host id HP.init ops
    s.pending = 0 ∧
      (s.step false subs .host id (.begin 2 ⟨"bad.example", 2⟩ ⟨.nxdomain, 10, true, true, .a⟩)).2 ≠
        some (s.fresh subs .host ⟨"bad.example", 2⟩ ⟨.nxdomain, 10, true, true, .a⟩) := by
  decide

/-- **hashprefix_cache_counterexample_rcode.** The code before the fix: same requester, HTTPS
question, NXDOMAIN blocking mode — the miss answers NXDOMAIN, the hit NOERROR. -/
theorem hashprefix_cache_counterexample_rcode :
    let subs : String → List String := fun h => [h]
    let r : Req := ⟨.nxdomain, 10, true, true, .https⟩
    let s0 : Old.OHP Key := { store := ["bad.example"], cache := Tbl.empty }
    let q1 := Old.query subs .ip4 id s0 ⟨"bad.example", 130⟩ r
    let q2 := Old.query subs .ip4 id q1.1 ⟨"bad.example", 130⟩ r
    q1.2 = .modResp "bad.example" 3 0 10 true true ∧ q2.2 = .modResp "bad.example" 0 0 10 true true := by
  decide

/-- **hashprefix_cache_counterexample_ttl.** The code before the fix: a requester with TTL 3600 is
answered with the TTL 10 of the requester who filled the cache. -/
theorem hashprefix_cache_counterexample_ttl :
    let subs : String → List String := fun h => [h]
    let r1 : Req := ⟨.nxdomain, 10, true, false, .a⟩
    let r2 : Req := ⟨.refused, 3600, false, false, .a⟩
    let s0 : Old.OHP Key := { store := ["bad.example"], cache := Tbl.empty }
    let q1 := Old.query subs .ip4 id s0 ⟨"bad.example", 2⟩ r1
    let q2 := Old.query subs .ip4 id q1.1 ⟨"bad.example", 2⟩ r2
    q2.2 = .modResp "bad.example" 0 1 10 false false ∧
      build .ip4 r2 (matchOf subs s0.store "bad.example") = .modResp "bad.example" 0 1 3600 false false := by
  decide

/-! ## Custom-filter cache -/

/-- **custom_rebuild_on_change.** For every history of `Get` calls and evictions in which a profile's
update time identifies its rules (`Versioned`: equal times ⇒ equal rules; the times may go back and
forth), the custom-filter storage always applies the rules of the configuration it was called with —
exactly what it does without a cache.  (The unfixed code needed the times never to go back, see
`custom_time_goes_back_counterexample`.) -/
theorem custom_rebuild_on_change (ops : List COp) (hv : Versioned [] ops) :
    CU.run Tbl.empty ops = ops.map cuFresh := by
  have key : ∀ (ops : List COp) (seen : List Conf) (s : CU), s.Inv seen → Versioned seen ops →
      CU.run s ops = ops.map cuFresh := by
    intro ops
    induction ops with
    | nil => intro _ _ _ _; rfl
    | cons op ops ih =>
      intro seen s hi hv
      cases op with
      | evict id =>
        simp only [CU.run, List.map_cons, cuFresh, CU.step]
        congr 1
        refine ih seen _ ?_ (by simpa [Versioned] using hv)
        intro id' it hc
        simp only [Tbl.del] at hc
        split at hc
        · simp at hc
        · exact hi id' it hc
      | get c =>
        simp only [Versioned] at hv
        have hput : CU.Inv (c :: seen) (Tbl.put s c.id ⟨c.upd, c.rules⟩) := by
          intro id' it hc
          simp only [Tbl.put] at hc
          split at hc
          · rename_i hid
            simp only [Option.some.injEq] at hc
            subst hc
            exact ⟨c, List.mem_cons_self, hid.symm, rfl, rfl⟩
          · obtain ⟨c', hm, h1, h2, h3⟩ := hi id' it hc
            exact ⟨c', List.mem_cons_of_mem _ hm, h1, h2, h3⟩
        have hsame : CU.Inv (c :: seen) s := by
          intro id' it hc
          obtain ⟨c', hm, h1, h2, h3⟩ := hi id' it hc
          exact ⟨c', List.mem_cons_of_mem _ hm, h1, h2, h3⟩
        simp only [CU.run, List.map_cons, cuFresh, CU.step]
        split
        · congr 1
          exact ih (c :: seen) s hsame hv.2
        · split
          · rename_i it hc
            split
            · congr 1
              exact ih (c :: seen) _ hput hv.2
            · rename_i hlt
              obtain ⟨c', hm, h1, h2, h3⟩ := hi _ _ hc
              have heq : c'.upd = c.upd := by rw [h2]; exact Decidable.not_not.mp hlt
              have hr : it.rules = c.rules := by rw [← h3]; exact hv.1 c' hm h1 heq
              simp only [hr]
              congr 1
              exact ih (c :: seen) s hsame hv.2
          · congr 1
            exact ih (c :: seen) _ hput hv.2
  exact key ops [] _ (by intro id it hc; simp [Tbl.empty] at hc) hv

/-- Non-vacuity: two profiles, an update with a later time, one with an *earlier* time, a return to
the first version, an eviction, a disabled configuration. -/
example :
    let ops : List COp :=
      [.get ⟨"p1", 10, ["||a^"], true⟩, .get ⟨"p2", 10, ["||b^"], true⟩, .get ⟨"p1", 10, ["||a^"], true⟩,
       .get ⟨"p1", 11, ["||c^"], true⟩, .get ⟨"p1", 7, ["||d^"], true⟩, .get ⟨"p1", 10, ["||a^"], true⟩,
       .evict "p2", .get ⟨"p2", 10, ["||b^"], true⟩, .get ⟨"p1", 12, [], true⟩]
    Versioned [] ops ∧
      CU.run Tbl.empty ops =
        [some ["||a^"], some ["||b^"], some ["||a^"], some ["||c^"], some ["||d^"], some ["||a^"], none,
         some ["||b^"], none] := by
  refine ⟨?_, by decide⟩
  simp [Versioned]

/-- **custom_time_goes_back_counterexample** (the defect repaired in round 5).  The unfixed storage
(`item.updTime.Before(c.UpdateTime)`) kept serving the old engine when the new rules carried an
*earlier* update time — which is what a synchronisation delivers after a restart from the cache file
if the wall clock was set back in between; the fixed storage applies the caller's rules. -/
theorem custom_time_goes_back_counterexample :
    let ops : List COp := [.get ⟨"p1", 10, ["||a^"], true⟩, .get ⟨"p1", 7, ["||b^"], true⟩]
    Versioned [] ops ∧ Old.cuRun Tbl.empty ops = [some ["||a^"], some ["||a^"]] ∧
      CU.run Tbl.empty ops = [some ["||a^"], some ["||b^"]] ∧ ops.map cuFresh = [some ["||a^"], some ["||b^"]] := by
  refine ⟨?_, by decide, by decide, by decide⟩
  simp [Versioned]

/-- **custom_rebuild_any_schedule.** For every interleaving of `Get` calls (split into the cache
lookup and the compile-and-insert part, any number of them overlapping, for the same or different
profiles) and evictions in which update times identify versions (in whatever order they come): a
`Get` that is answered from the cache gets exactly the rules of the configuration it was called with
(and a `Get` that compiles gets its own rules by construction). -/
theorem custom_rebuild_any_schedule (ops : List CSOp) (tid : Nat) (c : Conf)
    (hv : VersionedS [] (ops ++ [.get tid c])) (o : Option (List String)) :
    ((CUS.final CUS.init ops).step (.get tid c)).2 = some o → o = cuFresh (.get c) := by
  have key : ∀ (ops : List CSOp) (seen : List Conf) (s : CUS), s.Inv seen →
      VersionedS seen (ops ++ [.get tid c]) →
      ((CUS.final s ops).step (.get tid c)).2 = some o → o = cuFresh (.get c) := by
    intro ops
    induction ops with
    | nil =>
      intro seen s hi hv hout
      simp only [List.nil_append, VersionedS] at hv
      simp only [CUS.final, CUS.step] at hout
      simp only [cuFresh]
      split at hout
      · rename_i hd
        simp only [Option.some.injEq] at hout
        simp [hd, ← hout]
      · rename_i hd
        split at hout
        · rename_i it hc
          split at hout
          · simp at hout
          · rename_i hlt
            simp only [Option.some.injEq] at hout
            obtain ⟨c', hm, h1, h2, h3⟩ := hi.cache_ok _ _ hc
            have heq : c'.upd = c.upd := by rw [h2]; exact Decidable.not_not.mp hlt
            have hr : it.rules = c.rules := by rw [← h3]; exact hv.1 c' hm h1 heq
            simp [hd, ← hout, hr]
        · simp at hout
    | cons op ops ih =>
      intro seen s hi hv hout
      have hi' := CUS.step_inv hi op
      cases op with
      | get t' c' =>
        simp only [List.cons_append, VersionedS] at hv
        exact ih _ _ hi' hv.2 hout
      | set t' =>
        simp only [List.cons_append, VersionedS] at hv
        exact ih _ _ hi' hv hout
      | evict id =>
        simp only [List.cons_append, VersionedS] at hv
        exact ih _ _ hi' hv hout
  exact key ops [] CUS.init ⟨by intro id it h; simp [CUS.init, Tbl.empty] at h, by intro t h; simp [CUS.init] at h⟩ hv

/-- Non-vacuity: two overlapping `Get`s for the same profile — one with the old, one with the new
configuration — finish in the "wrong" order, so the older engine overwrites the newer one; the next
`Get` with the new configuration still gets the new rules (it compiles them again). -/
example :
    let old : Conf := ⟨"p1", 10, ["||a^"], true⟩
    let new : Conf := ⟨"p1", 11, ["||b^"], true⟩
    let ops : List CSOp := [.get 1 old, .get 2 new, .set 2, .set 1]
    VersionedS [] (ops ++ [.get 3 new]) ∧
      CUS.run CUS.init (ops ++ [.get 3 new, .set 3, .get 4 new]) =
        [none, none, some (some ["||b^"]), some (some ["||a^"]), none, some (some ["||b^"]), some (some ["||b^"])] := by
  refine ⟨?_, by decide⟩
  simp [VersionedS]

/-- **custom_same_time_counterexample.** `Versioned` is necessary: if the rules change while the
update time stays the same, the old engine keeps being applied. -/
theorem custom_same_time_counterexample :
    CU.run Tbl.empty [.get ⟨"p1", 10, ["||a^"], true⟩, .get ⟨"p1", 10, ["||b^"], true⟩] ≠
      [COp.get ⟨"p1", 10, ["||a^"], true⟩, .get ⟨"p1", 10, ["||b^"], true⟩].map cuFresh := by
  decide

/-! ## Where the version stamp comes from: backend → `ProfileStorage.Profiles` → `profiledb` → cache file -/

/-- **custom_sync_no_stale.** The custom-filter cache at the end of the synchronisation pipeline: for
every history of rule edits at the backend, full and incremental synchronisations, restarts from the
cache file, requests and evictions, every request is answered with the rules `profiledb` holds for its
profile at that moment — exactly as if the custom-filter cache were emptied before every request —
provided `Profiles` stamps the profiles of a later call strictly later than those of an earlier one,
whatever sync time was requested (`StrictStamp`; `time.Now()` does, see `stampNow_strict`) and the
wall clock is not set back across a restart (`NoSetBack`; for histories with set-backs see
`custom_sync_no_stale_clock_steps`). -/
theorem custom_sync_no_stale (stamp : Stamp) (hs : StrictStamp stamp) (ops : List YOp) (hb : NoSetBack ops) :
    Sync.run stamp Sync.init ops = Sync.runFresh stamp Sync.init ops := by
  have key : ∀ (ops : List YOp) (s : Sync), NoSetBack ops → s.Inv stamp →
      Sync.run stamp s ops = Sync.runFresh stamp s ops := by
    intro ops
    induction ops with
    | nil => intro _ _ _; rfl
    | cons op ops ih =>
      intro s hb hi
      have hn := ih _ (NoSetBack.head hb).2 (Sync.step_inv hs hi op (NoSetBack.head hb).1)
      cases op with
      | query id => simp only [Sync.run, Sync.runFresh, Sync.query_out hi id, hn]
      | change id rules dt => simp only [Sync.run, Sync.runFresh, hn]; rfl
      | sync full dt => simp only [Sync.run, Sync.runFresh, hn]; rfl
      | restart back => simp only [Sync.run, Sync.runFresh, hn]; rfl
      | evict id => simp only [Sync.run, Sync.runFresh, hn]; rfl
  exact key ops Sync.init hb (Sync.init_inv stamp)

/-- **custom_sync_no_stale_clock_steps** (round 5).  The same for *every* history, including restarts
across which the wall clock is set back by any amount, and for every stamping function whatsoever:
every request is answered with the rules `profiledb` holds for its profile at that moment, provided
only that no synchronisation stamps its profiles with a value that is still held somewhere
(`StampsFresh` — with a clock that went back: no nanosecond reading of the new process coincides with
one of the old process).  The unfixed code failed here for every set-back that is longer than the time
to the next synchronisation (`custom_sync_clock_back_counterexample`). -/
theorem custom_sync_no_stale_clock_steps (stamp : Stamp) (ops : List YOp) (hf : StampsFresh stamp Sync.init ops) :
    Sync.run stamp Sync.init ops = Sync.runFresh stamp Sync.init ops := by
  have key : ∀ (ops : List YOp) (s : Sync), StampsFresh stamp s ops → s.InvEq →
      Sync.run stamp s ops = Sync.runFresh stamp s ops := by
    intro ops
    induction ops with
    | nil => intro _ _ _; rfl
    | cons op ops ih =>
      intro s hf hi
      cases op with
      | query id =>
        have hn := ih _ (by simpa only [StampsFresh] using hf)
          (Sync.step_invEq hi (.query id) (fun _ _ h => by cases h))
        simp only [Sync.run, Sync.runFresh, Sync.query_out_eq hi id, hn]
      | change id rules dt =>
        have hn := ih _ (by simpa only [StampsFresh] using hf)
          (Sync.step_invEq hi (.change id rules dt) (fun _ _ h => by cases h))
        simp only [Sync.run, Sync.runFresh, hn]; rfl
      | sync full dt =>
        simp only [StampsFresh] at hf
        have hn := ih _ hf.2 (Sync.step_invEq hi (.sync full dt) (fun f d h id it hc => by
          cases h
          exact hf.1 it.upd (Or.inr (Or.inr ⟨id, it, hc, rfl⟩))))
        simp only [Sync.run, Sync.runFresh, hn]; rfl
      | restart back =>
        have hn := ih _ (by simpa only [StampsFresh] using hf)
          (Sync.step_invEq hi (.restart back) (fun _ _ h => by cases h))
        simp only [Sync.run, Sync.runFresh, hn]; rfl
      | evict id =>
        have hn := ih _ (by simpa only [StampsFresh] using hf)
          (Sync.step_invEq hi (.evict id) (fun _ _ h => by cases h))
        simp only [Sync.run, Sync.runFresh, hn]; rfl
  exact key ops Sync.init hf Sync.init_invEq

/-- The history of the defect: rules `a` delivered and written to the cache file, rules `b` at the
backend, restart with the clock five ticks back, a request (compiles `a` under the stamp of the file),
an incremental synchronisation that delivers `b` under an *earlier* stamp, a request. -/
def clockBackHistory : List YOp :=
  [.change "p1" ["||a^"] 0, .sync true 0, .change "p1" ["||b^"] 0, .restart 5, .query "p1", .sync false 0, .query "p1"]

/-- Non-vacuity of `StampsFresh` with a real set-back: the history of the defect satisfies it (the
stamp held everywhere is 2, the synchronisation after the restart stamps with −2). -/
example : StampsFresh stampNow Sync.init clockBackHistory := by
  simp only [clockBackHistory, StampsFresh]
  refine ⟨?_, ?_, trivial⟩
  · intro x h
    rcases h with ⟨id, c, h, _⟩ | ⟨id, c, h, _⟩ | ⟨id, it, h, _⟩ <;> simp [Sync.step, Sync.init, Tbl.empty] at h
  · intro x h
    rcases h with ⟨id, c, h, hx⟩ | ⟨id, c, h, hx⟩ | ⟨id, it, h, hx⟩ <;>
      simp [Sync.step, Sync.init, Tbl.empty, delivered, confOf, stampNow, CU.step, Tbl.put] at h ⊢
    · split at h
      · rename_i p hp
        simp only [Option.some.injEq] at h
        subst h; subst hx; simp
      · simp at h
    · split at h
      · rename_i p hp
        simp only [Option.some.injEq] at h
        subst h; subst hx; simp
      · simp at h
    · obtain ⟨_, h2⟩ := h
      subst h2; subst hx; simp

/-- **custom_sync_clock_back_counterexample** (the defect repaired in round 5, at the level of the
pipeline; found on the real code by the conv campaign with a cache file whose stamps are ahead of the
local clock).  With the unfixed storage the last request is still filtered with rules `a`; the fixed
one applies `b`, as the uncached run does; the history satisfies `StampsFresh` (and so is a
non-vacuity witness of `custom_sync_no_stale_clock_steps` with a real set-back). -/
theorem custom_sync_clock_back_counterexample :
    Old.syncRun stampNow Sync.init clockBackHistory =
      [none, none, none, none, some ["||a^"], none, some ["||a^"]] ∧
    Sync.run stampNow Sync.init clockBackHistory =
      [none, none, none, none, some ["||a^"], none, some ["||b^"]] ∧
    Sync.runFresh stampNow Sync.init clockBackHistory =
      [none, none, none, none, some ["||a^"], none, some ["||b^"]] ∧
    ¬ NoSetBack clockBackHistory := by
  refine ⟨by decide, by decide, by decide, ?_⟩
  simp [clockBackHistory, NoSetBack]

/-- **custom_sync_stamp_coincidence_counterexample.** `StampsFresh` is necessary for the fixed code:
if the clock is set back by exactly the amount that makes the next synchronisation read the very
value the cache file holds, the new rules arrive under the old stamp and the old engine is served. -/
theorem custom_sync_stamp_coincidence_counterexample :
    Sync.run stampNow Sync.init
        [.change "p1" ["||a^"] 0, .sync true 0, .change "p1" ["||b^"] 0, .restart 1, .query "p1", .sync false 0, .query "p1"] ≠
      Sync.runFresh stampNow Sync.init
        [.change "p1" ["||a^"] 0, .sync true 0, .change "p1" ["||b^"] 0, .restart 1, .query "p1", .sync false 0, .query "p1"] := by
  decide

/-- The stamp of the code, `time.Now()`, is strict. -/
theorem stampNow_strict : StrictStamp stampNow := by
  intro now now' _ _ h
  exact h

/-- **custom_sync_no_stale_now.** `custom_sync_no_stale` for the stamp the code uses. -/
theorem custom_sync_no_stale_now (ops : List YOp) (hb : NoSetBack ops) :
    Sync.run stampNow Sync.init ops = Sync.runFresh stampNow Sync.init ops :=
  custom_sync_no_stale stampNow stampNow_strict ops hb

/-- **custom_full_sync_installs_backend_rules.** After any history, a full synchronisation puts the
backend's current rules of every profile in force: the next request of the profile is filtered with
them (and with nothing when the backend has no rules for it), whatever the cache held. -/
theorem custom_full_sync_installs_backend_rules (stamp : Stamp) (hs : StrictStamp stamp) (ops : List YOp)
    (hb : NoSetBack ops) (dt : Nat) (id : String) :
    ((Sync.final stamp Sync.init (ops ++ [.sync true dt])).step stamp (.query id)).2 =
      backendRules (Sync.final stamp Sync.init ops).backend id := by
  have hfin : ∀ (ops : List YOp) (s : Sync), Sync.final stamp s (ops ++ [.sync true dt]) =
      ((Sync.final stamp s ops).step stamp (.sync true dt)).1 := by
    intro ops
    induction ops with
    | nil => intro s; rfl
    | cons op ops ih => intro s; simp only [List.cons_append, Sync.final]; exact ih _
  have hi := Sync.final_inv hs (ops ++ [.sync true dt]) (NoSetBack.append hb (by simp [NoSetBack]))
    (Sync.init_inv stamp)
  rw [Sync.query_out hi, hfin]
  generalize Sync.final stamp Sync.init ops = s
  simp only [Sync.fresh, Sync.step, backendRules, delivered, Bool.true_or, Bool.and_true, if_true]
  split
  · rename_i c hc
    split at hc
    · rename_i p hp
      simp only [Option.some.injEq] at hc
      subst hc
      simp only [cuFresh, confOf]
      by_cases h : p.rules.isEmpty = true <;> simp [h]
    · simp at hc
  · rename_i hc
    split at hc
    · simp at hc
    · rfl

/-- Non-vacuity: edits delivered by a full, an incremental and again a full synchronisation, a profile
whose rules are removed, a restart from the cache file (which has the state of the last full
synchronisation) followed by an incremental synchronisation; every request sees the rules in force. -/
example :
    Sync.run stampNow Sync.init
      [.change "p1" ["||a^"] 0, .change "p2" ["||x^"] 0, .sync true 0, .query "p1", .query "p2",
       .change "p1" ["||b^"] 0, .query "p1", .sync false 0, .query "p1", .query "p2",
       .change "p1" ["||c^"] 5, .change "p2" [] 0, .sync true 3, .query "p1", .query "p2",
       .change "p1" ["||d^"] 0, .sync false 0, .query "p1", .restart 0, .query "p1", .sync false 0, .query "p1"] =
      [none, none, none, some ["||a^"], some ["||x^"],
       none, some ["||a^"], none, some ["||b^"], some ["||x^"],
       none, none, none, some ["||c^"], none,
       none, none, some ["||d^"], none, some ["||c^"], none, some ["||d^"]] := by
  decide

/-- **custom_sync_request_time_stamp_counterexample.** `StrictStamp` is necessary: if `Profiles`
stamps the profiles with the sync time of the *request* (zero for every full synchronisation), rules
that arrive with a second full synchronisation are not applied — the filter compiled from the old
rules keeps being served. -/
theorem custom_sync_request_time_stamp_counterexample :
    Sync.run (fun _ req => req) Sync.init
        [.change "p1" ["||a^"] 0, .sync true 0, .query "p1", .change "p1" ["||b^"] 0, .sync true 0, .query "p1"] =
      [none, none, some ["||a^"], none, none, some ["||a^"]] ∧
    Sync.runFresh (fun _ req => req) Sync.init
        [.change "p1" ["||a^"] 0, .sync true 0, .query "p1", .change "p1" ["||b^"] 0, .sync true 0, .query "p1"] =
      [none, none, some ["||a^"], none, none, some ["||b^"]] := by
  decide

/-- **custom_sync_coarse_stamp_counterexample.** Likewise for a stamp that is the local time at a
coarser resolution (here: 60 ticks): two synchronisations within one unit deliver different rules
under the same stamp. -/
theorem custom_sync_coarse_stamp_counterexample :
    Sync.run (fun now _ => now / 60) Sync.init
        [.change "p1" ["||a^"] 0, .sync true 0, .query "p1", .change "p1" ["||b^"] 0, .sync false 0, .query "p1"] ≠
      Sync.runFresh (fun now _ => now / 60) Sync.init
        [.change "p1" ["||a^"] 0, .sync true 0, .query "p1", .change "p1" ["||b^"] 0, .sync false 0, .query "p1"] := by
  decide

/-! ## The storage: one filter and one result cache per list (wiring) -/

/-- **storage_lists_independent.** The rule-list side of the filter storage as the builder wires
it — every rule list, blocked service and safe-search filter with an engine and a result cache of
its own: for every history of queries, refreshes and evictions addressed to arbitrary lists, every
query of list `i` is answered with the engine installed last *for list `i`*; a refresh or an
eviction of another list changes nothing, and no answer survives the refresh of its own list. -/
theorem storage_lists_independent {ι S R V : Type} [DecidableEq ι] [DecidableEq S] (hash : Key → S)
    (hok : HashOK hash) (es : ι → Key → R → V) (hes : ∀ i, ClientFree (es i))
    (ops : List (StOp ι S R V)) (hops : StOpsClientFree ops) :
    Store.run hash (fun i => { engine := es i, cache := Tbl.empty, enabled := true }) ops =
      Store.spec es ops := by
  have key : ∀ (ops : List (StOp ι S R V)) (st : Store ι S R V), (∀ i, (st i).Inv hash) →
      (∀ i, ClientFree (st i).engine) → StOpsClientFree ops →
      Store.run hash st ops = Store.spec (fun i => (st i).engine) ops := by
    intro ops
    induction ops with
    | nil => intro _ _ _ _; rfl
    | cons o ops ih =>
      intro st hi hcf hops
      obtain ⟨i, op⟩ := o
      have hinv : ∀ j, ((st.step hash ⟨i, op⟩).1 j).Inv hash := by
        intro j
        simp only [Store.step]
        split
        · exact RL.step_inv (hi _) (hcf _) _
        · exact hi j
      cases op with
      | query k r =>
        have hse := RL.step_engine_query (hash := hash) (st i) k r
        have heng : (fun j => ((st.step hash ⟨i, .query k r⟩).1 j).engine) = fun j => (st j).engine := by
          funext j
          simp only [Store.step]
          split
          · rename_i h; rw [h]; exact hse.1
          · rfl
        simp only [Store.run, Store.spec]
        rw [ih _ hinv (by intro j; rw [congrFun heng j]; exact hcf j) (by simpa [StOpsClientFree] using hops), heng]
        congr 1
        simp only [Store.step]
        exact RL.step_query_out hok (hi i) k r
      | refresh e' =>
        have heng : (fun j => ((st.step hash ⟨i, .refresh e'⟩).1 j).engine) =
            fun j => if j = i then e' else (st j).engine := by
          funext j
          simp only [Store.step]
          split <;> simp [RL.step]
        simp only [Store.run, Store.spec]
        rw [ih _ hinv (by
          intro j; rw [congrFun heng j]; split
          · exact hops.1
          · exact hcf j) hops.2, heng]
        simp [Store.step, RL.step]
      | evict sl =>
        have heng : (fun j => ((st.step hash ⟨i, .evict sl⟩).1 j).engine) = fun j => (st j).engine := by
          funext j
          simp only [Store.step]
          split
          · rename_i h; rw [h]; simp [RL.step]
          · rfl
        simp only [Store.run, Store.spec]
        rw [ih _ hinv (by intro j; rw [congrFun heng j]; exact hcf j) (by simpa [StOpsClientFree] using hops), heng]
        simp [Store.step, RL.step]
  exact key ops _ (by intro i slot it hc; simp [Tbl.empty] at hc) hes hops

/-- Non-vacuity: two lists, interleaved; refreshing list 1 leaves the cached answer of list 0 alone
and replaces its own. -/
example :
    let e0 : Key → Nat → String := fun k _ => if k.host = "ads.example" then "blocked-by-0" else "none"
    let e1 : Key → Nat → String := fun k _ => if k.host = "ads.example" then "blocked-by-1" else "none"
    Store.run (ι := Nat) id (fun i => { engine := if i = 0 then e0 else e1, cache := Tbl.empty, enabled := true })
      [⟨0, .query ⟨"ads.example", 2⟩ 1⟩, ⟨1, .query ⟨"ads.example", 2⟩ 1⟩, ⟨1, .refresh (fun _ _ => "none")⟩,
       ⟨0, .query ⟨"ads.example", 2⟩ 2⟩, ⟨1, .query ⟨"ads.example", 2⟩ 2⟩] =
      [some "blocked-by-0", some "blocked-by-1", none, some "blocked-by-0", some "none"] := by
  decide

/-- **storage_shared_cache_counterexample.** The wiring matters: with one result cache between two
lists (a cache memoised by identifier, or one cache object given to several filters) the answer of
list 0 is served to a requester of list 1, and it survives the refresh of list 1 — the storage no
longer answers like `Store.spec`. -/
theorem storage_shared_cache_counterexample :
    let e0 : Key → Nat → String := fun k _ => if k.host = "ads.example" then "blocked-by-0" else "none"
    let ops : List (StOp Nat Key Nat String) :=
      [⟨0, .query ⟨"ads.example", 2⟩ 1⟩, ⟨1, .query ⟨"ads.example", 2⟩ 1⟩]
    Shared.run id ⟨fun i => if i = 0 then e0 else fun _ _ => "none", Tbl.empty⟩ ops ≠
      Store.spec (fun i => if i = 0 then e0 else fun _ _ => "none") ops := by
  decide

/-- **hashprefix_shared_storage_counterexample.** Likewise for the hash-prefix filters: two filters
wired to *one* hash storage (as when the builder passes the same `Hashes` to two `NewFilter` calls).
The refresh of the first filter replaces the shared hashes and clears the first filter's cache only;
the second filter, whose own refresh is not in flight, keeps answering from its cache with a host
that the storage no longer holds. -/
theorem hashprefix_shared_storage_counterexample :
    let subs : String → List String := fun h => [h]
    let r : Req := ⟨.nxdomain, 10, true, true, .a⟩
    -- filter 2 looks the host up and caches it
    let s2 := HP.final true subs .host id (HP.init (S := Key))
      [.store ["bad.example"], .clear, .begin 1 ⟨"bad.example", 2⟩ r, .mtch 1, .finish 1]
    -- filter 1 refreshes: the shared storage is replaced, only filter 1's cache is cleared
    let s2' : HP Key := { s2 with store := [] }
    s2'.pending = 0 ∧
      (s2'.step true subs .host id (.begin 2 ⟨"bad.example", 2⟩ r)).2 ≠
        some (s2'.fresh subs .host ⟨"bad.example", 2⟩ r) := by
  decide

#print axioms transparent_rulelist
#print axioms rulelist_no_stale_after_refresh
#print axioms rulelist_client_rule_counterexample
#print axioms rulelist_matches_spec
#print axioms rulelist_same_host_collision_counterexample
#print axioms transparent_safesearch
#print axioms cache_key_bytes_injective
#print axioms cache_key_truncated_type_counterexample
#print axioms rulelist_no_stale_any_schedule
#print axioms rulelist_refresh_completes_any_schedule
#print axioms rulelist_small_step_refines
#print axioms rulelist_unlocked_refresh_counterexample
#print axioms transparent_hashprefix
#print axioms hashprefix_no_stale_any_schedule
#print axioms hashprefix_unguarded_stale_counterexample
#print axioms hashprefix_cache_counterexample_rcode
#print axioms hashprefix_cache_counterexample_ttl
#print axioms custom_rebuild_on_change
#print axioms custom_time_goes_back_counterexample
#print axioms custom_rebuild_any_schedule
#print axioms custom_same_time_counterexample
#print axioms custom_sync_no_stale
#print axioms custom_sync_no_stale_clock_steps
#print axioms custom_sync_clock_back_counterexample
#print axioms custom_sync_stamp_coincidence_counterexample
#print axioms stampNow_strict
#print axioms custom_sync_no_stale_now
#print axioms custom_full_sync_installs_backend_rules
#print axioms custom_sync_request_time_stamp_counterexample
#print axioms custom_sync_coarse_stamp_counterexample
#print axioms storage_lists_independent
#print axioms storage_shared_cache_counterexample
#print axioms hashprefix_shared_storage_counterexample

end Agd.ResultCache
#print axioms Agd.Tie.TrC12.translation_complete
#print axioms Agd.Tie.TrC12.hp_reset_then_clear
#print axioms Agd.Tie.TrC12.hp_clear_bumps_generation
#print axioms Agd.Tie.TrC12.hp_set_only_same_generation
#print axioms Agd.Tie.TrC12.rl_clear_and_swap_under_lock
#print axioms Agd.Tie.TrC12.rl_item_hit_iff_same_host
#print axioms Agd.Tie.TrC12.hp_item_hit_iff_same_host
#print axioms Agd.Tie.TrC12.rl_dnsresult_hit_or_compute
#print axioms Agd.Tie.TrC12.custom_get_hit_iff_equal
#print axioms Agd.Tie.TrC12.custom_get_tr
