import Agd.Tie.TrC17
import Agd.Lemmas.Forward
import Agd.Tie.C17
/-!
# C17 — queries fail over to fallback upstreams and return when the main ones recover

Property theorems only.  Helper lemmas live in `Agd/Lemmas/Forward.lean`.
The random choice of an upstream (`pick`, `pickFb`), what every upstream does with every
request (`om`, `ofb`, probe results) and every clock reading are universally quantified
inputs; histories are arbitrary lists of queries and refresh rounds.
-/
namespace Agd.Forward

/-! ## (a) the chosen main upstream's reply is the answer -/

/-- **main_reply_used.** If the main upstream picked for a query replies, the client gets exactly
that reply, and no other upstream (in particular no fallback) is asked. -/
theorem main_reply_used (c : Cfg) (s : St) (pick pickFb : Nat) (om ofb : Nat → Outcome)
    (u r : Nat) (hp : pickActive s pick = some u) (hr : om u = .reply r) :
    serve c s pick om pickFb ofb = { res := .answered r, calls := [.main u] } := by
  simp [serve, hp, hr, finish]

example : serve ⟨2, 1, 5⟩ (St.init ⟨2, 1, 5⟩) 1 (fun _ => .reply 42) 0 (fun _ => .netErr) =
    { res := .answered 42, calls := [.main 1] } := by decide

/-! ## (b) one fallback attempt, SERVFAIL only if that fails too -/

/-- **fallback_once_then_servfail.** For every state and every behaviour of the upstreams:
at most one main and at most one fallback upstream are asked; a fallback is asked exactly when
fallbacks are configured and either no main upstream is active or the chosen main failed with a
network error; when a fallback was asked the client gets SERVFAIL iff the fallback did not reply
(its reply is the answer otherwise); when none was asked the client gets SERVFAIL iff there was no
main upstream to ask or the chosen one did not reply. -/
theorem fallback_once_then_servfail (c : Cfg) (s : St) (pick pickFb : Nat) (om ofb : Nat → Outcome) :
    let o := serve c s pick om pickFb ofb
    let fbWanted := pickActive s pick = none ∨ ∃ u, pickActive s pick = some u ∧ om u = .netErr
    (callsMain o.calls).length ≤ 1 ∧ (callsFb o.calls).length ≤ 1 ∧
    (callsFb o.calls ≠ [] ↔ (c.nFb > 0 ∧ fbWanted)) ∧
    (callsFb o.calls ≠ [] → callsFb o.calls = [pickFb % c.nFb] ∧ o.res = finish (ofb (pickFb % c.nFb))) ∧
    (callsFb o.calls = [] → (o.res = .servfail ↔
      (pickActive s pick = none ∨ ∃ u, pickActive s pick = some u ∧ ∀ r, om u ≠ .reply r))) := by
  intro o fbWanted
  simp only [o, fbWanted, serve]
  cases hp : pickActive s pick with
  | none =>
    by_cases hf : c.nFb > 0
    · simp [hf, callsMain, callsFb]
    · simp [hf, callsMain, callsFb]
  | some u =>
    by_cases hn : om u = .netErr
    · by_cases hf : c.nFb > 0
      · simp [hn, hf, callsMain, callsFb]
      · simp [hn, hf, callsMain, callsFb, finish]
    · simp only [hn, false_and, if_false]
      cases ho : om u <;> simp_all [callsMain, callsFb, finish]

/-- `finish`: an upstream result reaches the client as an answer iff it is a reply. -/
theorem finish_servfail_iff (o : Outcome) : finish o = .servfail ↔ ∀ r, o ≠ .reply r := by
  cases o <;> simp [finish]

example : serve ⟨1, 1, 5⟩ (St.init ⟨1, 1, 5⟩) 0 (fun _ => .netErr) 0 (fun _ => .reply 7) =
    { res := .answered 7, calls := [.main 0, .fb 0] } := by decide
example : serve ⟨1, 1, 5⟩ (St.init ⟨1, 1, 5⟩) 0 (fun _ => .netErr) 0 (fun _ => .netErr) =
    { res := .servfail, calls := [.main 0, .fb 0] } := by decide
example : serve ⟨1, 1, 5⟩ (St.init ⟨1, 1, 5⟩) 0 (fun _ => .otherErr) 0 (fun _ => .reply 7) =
    { res := .servfail, calls := [.main 0] } := by decide

/-! ## (c) a main upstream whose probe failed stays out until backoff has elapsed and a probe succeeds -/

/-- **backoff_respected.** For every configuration and every history of queries and refresh
rounds (arbitrary picks, upstream behaviours, probe results and clock readings), the reference
monitor accepts the whole event trace: no query is ever sent to a main upstream whose most recent
probe failed, and no upstream is probed again less than `backoff` after its most recent failed
probe (comparison strict, as `time.Since(lastFailed) < hcBackoff`). -/
theorem backoff_respected (c : Cfg) (ops : List Op) :
    Mon.accepts c.backoff Mon.init (run c (St.init c) ops).2 = true := by
  obtain ⟨m', h, _⟩ := run_inv c ops (St.init c) Mon.init (inv_init c)
  simp [Mon.accepts, h]

/-- **rotation_invariant.** After every history, a main upstream is in the active list iff it is
configured and its last probe did not fail (in particular the active list never holds an upstream
that failed its last probe), provided fallbacks are configured and at least one refresh has run;
without the refresh the list is the initial one.  Stated for the state after any refresh. -/
theorem rotation_invariant (c : Cfg) (s : St) (pr : Nat → Probe) (hf : c.nFb > 0) (u : Nat) :
    u ∈ (refresh c s pr).1.active ↔ (u < c.nMain ∧ (refresh c s pr).1.lastFailed u = none) := by
  have hf' : c.nFb ≠ 0 := by omega
  rw [refresh_active_eq c s pr hf', mem_healthyList]

/-- **recovery.** In any state, a refresh round (fallbacks configured) in which upstream `u` is
not inside its backoff window — it never failed, or `backoff ≤ now − lastFailed` —, is reached
before the context of the round is done and its probe succeeds puts `u` back into the active list and clears its failure stamp; and after such a round
every query is sent to an active main upstream first (a fallback only after that upstream's
network error). -/
theorem recovery (c : Cfg) (s : St) (pr : Nat → Probe) (u : Nat) (hf : c.nFb > 0) (hu : u < c.nMain)
    (hok : (pr u).ok = true) (hd : (pr u).ctxDone = false)
    (hb : ∀ f, s.lastFailed u = some f → c.backoff ≤ (pr u).tCheck - f) :
    let s' := (refresh c s pr).1
    u ∈ s'.active ∧ s'.lastFailed u = none ∧
    ∀ pick om pickFb ofb, ∃ v, v ∈ s'.active ∧
      (serve c s' pick om pickFb ofb).calls.head? = some (.main v) := by
  intro s'
  have hsk : skips c.backoff pr s.lastFailed u = false := by
    unfold skips inBackoff
    cases hl : s.lastFailed u with
    | none => rfl
    | some f =>
      have := hb f hl
      simp only [decide_eq_false_iff_not]
      omega
  have hmem : u ∈ s'.active := by
    have hcl := hcFold_closed c.backoff pr s.lastFailed c.nMain
    have hf' : ¬ c.nFb = 0 := by omega
    simp only [s', refresh, hf', if_false, hcLoop]
    exact (hcl.2 u).2 ⟨hu, by simp [keeps, hd, hsk, hok]⟩
  refine ⟨hmem, ((rotation_invariant c s pr hf u).1 hmem).2, ?_⟩
  intro pick om pickFb ofb
  cases hp : pickActive s' pick with
  | none =>
    have := (pickActive_none_iff s' pick).1 hp
    rw [this] at hmem
    simp at hmem
  | some v =>
    refine ⟨v, pickActive_mem hp, ?_⟩
    unfold serve
    simp only [hp]
    by_cases h : om v = .netErr ∧ c.nFb > 0 <;> simp [h]

/-- Non-vacuity: exactly at the boundary `now − lastFailed = backoff` the upstream is probed and
reinstated; one tick earlier it is skipped and stays out. -/
example : ((refresh ⟨1, 1, 5⟩ ⟨[], fun _ => some 10⟩ (fun _ => ⟨15, true, 15, false⟩)).1.active = [0]) ∧
    ((refresh ⟨1, 1, 5⟩ ⟨[], fun _ => some 10⟩ (fun _ => ⟨14, true, 14, false⟩)).1.active = []) := by
  constructor <;> decide

/-! ## (f) without fallbacks nothing is ever taken out of rotation -/

/-- **no_fallbacks_never_out.** Without configured fallbacks, after every history all main
upstreams are still active (and no failure is recorded), and every query of the history was sent
to a main upstream whenever one is configured. -/
theorem no_fallbacks_never_out (c : Cfg) (h : c.nFb = 0) (ops : List Op) :
    (run c (St.init c) ops).1.active = List.range c.nMain ∧
    (∀ u, (run c (St.init c) ops).1.lastFailed u = none) ∧
    (0 < c.nMain → ∀ pick om pickFb ofb, ∃ u, u < c.nMain ∧
      (serve c (run c (St.init c) ops).1 pick om pickFb ofb).calls = [.main u]) := by
  rw [run_noFb c h ops]
  refine ⟨rfl, fun _ => rfl, ?_⟩
  intro hn pick om pickFb ofb
  cases hp : pickActive (St.init c) pick with
  | none =>
    have := (pickActive_none_iff _ pick).1 hp
    simp only [St.init] at this
    have hl : (List.range c.nMain).length = 0 := by rw [this]; rfl
    simp at hl
    omega
  | some u =>
    have hm := pickActive_mem hp
    simp only [St.init, List.mem_range] at hm
    refine ⟨u, hm, ?_⟩
    simp [serve, hp, h]

example : (run ⟨2, 0, 5⟩ (St.init ⟨2, 0, 5⟩)
    [.refresh (fun _ => ⟨10, false, 10, false⟩), .query 1 (fun _ => .netErr) 0 (fun _ => .reply 2)]).2 =
    [.query [.main 1] .servfail] := by decide

/-! ## (e) a reply is accepted only if id, question name and type match -/

/-- **reply_validation.** `validatePlainResponse` accepts a response iff its id equals the
request's, it has exactly one question, and that question's type equals and its name equals up to
ASCII case the request's. -/
theorem reply_validation (reqId : Nat) (q : Question) (resp : Msg) :
    validate reqId q resp = .ok ↔
      (resp.id = reqId ∧ ∃ rq, resp.qs = [rq] ∧ rq.qtype = q.qtype ∧ foldName rq.name = foldName q.name) := by
  unfold validate
  by_cases hid : reqId = resp.id
  · simp only [hid, ne_eq, not_true_eq_false, if_false, true_and]
    match hq : resp.qs with
    | [] => simp
    | [rq] =>
      by_cases ht : q.qtype = rq.qtype
      · by_cases hn : foldName q.name = foldName rq.name
        · simp [ht, hn]
        · simp only [ht, hn, not_true_eq_false, not_false_eq_true, if_false, if_true]
          simp only [reduceCtorEq, false_iff]
          rintro ⟨rq', h1, _, h3⟩
          simp only [List.cons.injEq, and_true] at h1
          subst h1
          exact hn h3.symm
      · simp only [ht, not_false_eq_true, if_true, reduceCtorEq, false_iff]
        rintro ⟨rq', h1, h2, _⟩
        simp only [List.cons.injEq, and_true] at h1
        subst h1
        exact ht h2.symm
    | _ :: _ :: _ => simp
  · simp only [ne_eq, hid, not_false_eq_true, if_true, reduceCtorEq, false_iff]
    rintro ⟨h, _⟩
    exact hid h.symm

/-- **exchange_accepts_only_matching.** Whatever the upstream sends over UDP and TCP, in every
network mode: if `UpstreamPlain.Exchange` returns a response then that response is the message
received on one of the two transports and it passed `validatePlainResponse`; every mismatching
message ends as an error. -/
theorem exchange_accepts_only_matching (net : Net) (reqId : Nat) (q : Question) (udp tcp : Wire)
    (m : Msg) (h : (exchange net reqId q udp tcp).1 = .ok m) :
    (udp = .msg m ∨ tcp = .msg m) ∧ validate reqId q m = .ok := by
  have key : ∀ w, exchangeNet reqId q w = .ok m → w = .msg m ∧ validate reqId q m = .ok := by
    intro w hw
    cases w with
    | msg m' =>
      simp only [exchangeNet] at hw
      by_cases hv : validate reqId q m' = .ok
      · simp only [hv, if_true, XRes.ok.injEq] at hw
        subst hw; exact ⟨rfl, hv⟩
      · simp [hv] at hw
    | netErr => simp [exchangeNet] at hw
    | eof => simp [exchangeNet] at hw
    | bad => simp [exchangeNet] at hw
  unfold exchange at h
  by_cases hn : net = .tcp
  · simp only [hn, if_true] at h
    exact ⟨Or.inr (key tcp h).1, (key tcp h).2⟩
  · simp only [hn, if_false] at h
    cases hu : exchangeNet reqId q udp with
    | ok m' =>
      rw [hu] at h
      simp only [] at h
      by_cases ht : net ≠ .udp ∧ m'.tc = true
      · rw [if_pos ht] at h
        exact ⟨Or.inr (key tcp h).1, (key tcp h).2⟩
      · rw [if_neg ht] at h
        simp only [XRes.ok.injEq] at h
        subst h
        exact ⟨Or.inl (key udp hu).1, (key udp hu).2⟩
    | netErr => rw [hu] at h; simp at h
    | eof => rw [hu] at h; simp at h
    | other =>
      rw [hu] at h
      exact ⟨Or.inr (key tcp h).1, (key tcp h).2⟩

/-- **mismatch_never_accepted_whatever_flags.** A message received over UDP that does not match
the query is never the result of `Exchange`, whatever its TC bit says and whatever the network
mode (UDP-only included): the exchange goes on over TCP and the verdict is the TCP one.  In
particular truncation is looked at only after validation. -/
theorem mismatch_never_accepted_whatever_flags (net : Net) (reqId : Nat) (q : Question) (m : Msg)
    (tcp : Wire) (hn : net ≠ .tcp) (hv : validate reqId q m ≠ .ok) :
    exchange net reqId q (.msg m) tcp = (exchangeNet reqId q tcp, true) := by
  unfold exchange
  simp [hn, exchangeNet, hv]

/-- Non-vacuity: a truncated reply with a wrong id to a UDP-only upstream is not accepted (TCP is
closed: network error; TCP sends the same: other error), a truncated matching one is, and for a
UDP-then-TCP upstream truncation of a matching reply moves on to TCP. -/
example : (exchange .udp 7 ⟨[97, 98, 46], 1⟩ (.msg ⟨8, [⟨[97, 98, 46], 1⟩], true, 1, 0⟩) .netErr).1 = .netErr ∧
    (exchange .udp 7 ⟨[97, 98, 46], 1⟩ (.msg ⟨8, [⟨[97, 98, 46], 1⟩], true, 1, 0⟩)
      (.msg ⟨8, [⟨[97, 98, 46], 1⟩], true, 2, 0⟩)).1 = .other ∧
    (exchange .udp 7 ⟨[97, 98, 46], 1⟩ (.msg ⟨7, [⟨[97, 98, 46], 1⟩], true, 1, 0⟩) .netErr) =
      (.ok ⟨7, [⟨[97, 98, 46], 1⟩], true, 1, 0⟩, false) ∧
    (exchange .any 7 ⟨[97, 98, 46], 1⟩ (.msg ⟨7, [⟨[97, 98, 46], 1⟩], true, 1, 0⟩)
      (.msg ⟨7, [⟨[97, 98, 46], 1⟩], false, 2, 0⟩)) = (.ok ⟨7, [⟨[97, 98, 46], 1⟩], false, 2, 0⟩, true) := by decide

/-- **answer_is_matching_reply.** End to end with plain upstreams: if the client is answered,
the answer is a message that the asked upstream sent on one of its transports and that matches
the query's id, question name (up to case) and type. -/
theorem answer_is_matching_reply (net : Net) (reqId : Nat) (q : Question) (udp tcp : Wire) (r : Nat)
    (h : finish (exchange net reqId q udp tcp).1.outcome = .answered r) :
    ∃ m, (udp = .msg m ∨ tcp = .msg m) ∧ validate reqId q m = .ok ∧ m.tok = r := by
  cases hx : (exchange net reqId q udp tcp).1 with
  | ok m =>
    rw [hx] at h
    simp only [XRes.outcome, finish, Res.answered.injEq] at h
    have := exchange_accepts_only_matching net reqId q udp tcp m hx
    exact ⟨m, this.1, this.2, h⟩
  | netErr => rw [hx] at h; simp [XRes.outcome, finish] at h
  | eof => rw [hx] at h; simp [XRes.outcome, finish] at h
  | other => rw [hx] at h; simp [XRes.outcome, finish] at h

example : validate 7 ⟨[97, 98, 46], 1⟩ ⟨7, [⟨[65, 66, 46], 1⟩], false, 3, 0⟩ = .ok ∧
    validate 7 ⟨[97, 98, 46], 1⟩ ⟨8, [⟨[97, 98, 46], 1⟩], false, 3, 0⟩ = .badId ∧
    validate 7 ⟨[97, 98, 46], 1⟩ ⟨7, [⟨[97, 99, 46], 1⟩], false, 3, 0⟩ = .badName ∧
    validate 7 ⟨[97, 98, 46], 1⟩ ⟨7, [⟨[97, 98, 46], 28⟩], false, 3, 0⟩ = .badType ∧
    validate 7 ⟨[97, 98, 46], 1⟩ ⟨7, [], false, 3, 0⟩ = .badCount := by decide
example : (exchange .any 7 ⟨[97, 98, 46], 1⟩ (.msg ⟨8, [⟨[97, 98, 46], 1⟩], false, 1, 0⟩)
    (.msg ⟨7, [⟨[97, 98, 46], 1⟩], false, 2, 0⟩)).1 = .ok ⟨7, [⟨[97, 98, 46], 1⟩], false, 2, 0⟩ := by decide

/-! ## (e, byte level) the accepted reply is a function of the received bytes only -/

/-- **reply_from_own_bytes.** `readMsg` (as fixed) parses the `n` bytes that were received:
whatever else the pooled buffer holds beyond them has no influence. -/
theorem reply_from_own_bytes (buf buf' : List Nat) (n : Nat) (h : buf.take n = buf'.take n) :
    readMsg buf n = readMsg buf' n := by
  simp [readMsg, h]

/-- The request `ab. A` with id 7 as packed into the buffer, and the first 17 bytes of a reply
to it (cut after the first byte of QTYPE). -/
def exReq : List Nat := [0, 7, 1, 0, 0, 1, 0, 0, 0, 0, 0, 0, 2, 97, 98, 0, 0, 1, 0, 1]
def exCut : List Nat := [0, 7, 129, 128, 0, 1, 0, 0, 0, 0, 0, 0, 2, 97, 98, 0, 0]

/-- **residue_counterexample.** The code before the fix (`Unpack(buf)` on the whole buffer) does
not have that property: the 17-byte cut reply, read into the buffer that still holds the packed
request, parses as a complete response that passes validation, although on its own it is not a
message at all. -/
theorem residue_counterexample :
    ¬ (∀ (buf buf' : List Nat) (n : Nat), buf.take n = buf'.take n →
        readMsgWholeBuffer buf n = readMsgWholeBuffer buf' n) := by
  intro h
  have := h (exCut ++ exReq.drop 17) exCut 17 (by decide)
  revert this
  decide

example : (readMsgWholeBuffer (exCut ++ exReq.drop 17) 17).map (validate 7 ⟨[97, 98, 46], 1⟩) = some .ok ∧
    readMsg (exCut ++ exReq.drop 17) 17 = none := by decide

/-! ## (g) all histories, starting from `NewHandler` with or without its initial health check -/

/-- **backoff_respected_new.** `backoff_respected` for a handler whose `NewHandler` ran the
initial health check (`HealthcheckInitDuration > 0`) or not. -/
theorem backoff_respected_new (c : Cfg) (init : Option (Nat → Probe)) (ops : List Op) :
    Mon.accepts c.backoff Mon.init (runNew c init ops).2 = true := by
  obtain ⟨pre, h⟩ := runNew_eq_run c init ops
  rw [h]
  exact backoff_respected c (pre ++ ops)

/-- **rotation_exact.** After every history (any initial check, queries, rounds, clock readings)
the active list is exactly, in configuration order and without repetition, the list of configured
main upstreams whose most recent probe — as the reference monitor read it off the event trace —
did not fail.  In particular "no active main upstream" and "no main upstream is currently
healthy" are the same thing, at all times. -/
theorem rotation_exact (c : Cfg) (init : Option (Nat → Probe)) (ops : List Op) :
    ∃ m, Mon.run c.backoff Mon.init (runNew c init ops).2 = some m ∧
      (runNew c init ops).1.active =
        (List.range c.nMain).filter (fun u => !lastFailedP (m.last u)) := by
  obtain ⟨pre, h⟩ := runNew_eq_run c init ops
  rw [h]
  obtain ⟨m, hr, hsim, _⟩ := run_inv c (pre ++ ops) (St.init c) Mon.init (inv_init c)
  refine ⟨m, hr, ?_⟩
  rw [run_exact c (pre ++ ops) (St.init c) (exact_init c)]
  unfold healthyList
  apply List.filter_congr
  intro u _
  rw [hsim u]
  unfold lastFailedP
  split <;> simp_all

/-- **fallback_iff_no_healthy_main.** Clause by clause over all histories: in the state reached,
a query is passed to a fallback iff fallbacks are configured and either every configured main
upstream failed its most recent probe or the main upstream asked failed with a network error; a
main upstream that is asked is a configured one whose most recent probe did not fail. -/
theorem fallback_iff_no_healthy_main (c : Cfg) (init : Option (Nat → Probe)) (ops : List Op)
    (pick pickFb : Nat) (om ofb : Nat → Outcome) :
    ∃ m, Mon.run c.backoff Mon.init (runNew c init ops).2 = some m ∧
      let o := serve c (runNew c init ops).1 pick om pickFb ofb
      (callsFb o.calls ≠ [] ↔ (c.nFb > 0 ∧
        ((∀ u, u < c.nMain → lastFailedP (m.last u) = true) ∨
          ∃ u, callsMain o.calls = [u] ∧ om u = .netErr))) ∧
      (∀ u ∈ callsMain o.calls, u < c.nMain ∧ lastFailedP (m.last u) = false) := by
  obtain ⟨m, hr, hact⟩ := rotation_exact c init ops
  refine ⟨m, hr, ?_⟩
  intro o
  have hmem : ∀ u, u ∈ (runNew c init ops).1.active ↔ (u < c.nMain ∧ lastFailedP (m.last u) = false) := by
    intro u; rw [hact]; simp
  have hnone : pickActive (runNew c init ops).1 pick = none ↔
      ∀ u, u < c.nMain → lastFailedP (m.last u) = true := by
    rw [pickActive_none_iff]
    constructor
    · intro h u hu
      cases hl : lastFailedP (m.last u) with
      | true => rfl
      | false =>
        have := (hmem u).2 ⟨hu, hl⟩
        rw [h] at this
        simp at this
    · intro h
      apply List.eq_nil_iff_forall_not_mem.2
      intro u hu
      have := (hmem u).1 hu
      rw [h u this.1] at this
      simp at this
  have key := fallback_once_then_servfail c (runNew c init ops).1 pick pickFb om ofb
  simp only [] at key
  constructor
  · rw [key.2.2.1, hnone]
    apply and_congr_right
    intro _
    apply or_congr_right
    simp only [o, serve]
    cases hp : pickActive (runNew c init ops).1 pick with
    | none => simp; split <;> simp [callsMain]
    | some v =>
      by_cases hn : om v = .netErr ∧ c.nFb > 0
      · simp [hn, callsMain]
      · simp only [hn, if_false, callsMain]
        simp
  · intro u hu
    exact (hmem u).1 (callsMain_serve c _ pick om pickFb ofb u hu)

/-- **no_fallbacks_never_out_new.** Without fallbacks all main upstreams stay active whatever
`NewHandler`'s initial health check and all later rounds find. -/
theorem no_fallbacks_never_out_new (c : Cfg) (h : c.nFb = 0) (init : Option (Nat → Probe))
    (ops : List Op) :
    (runNew c init ops).1.active = List.range c.nMain ∧
    (∀ u, (runNew c init ops).1.lastFailed u = none) := by
  obtain ⟨pre, hp⟩ := runNew_eq_run c init ops
  rw [hp]
  exact ⟨(no_fallbacks_never_out c h (pre ++ ops)).1, (no_fallbacks_never_out c h (pre ++ ops)).2.1⟩

example : (runNew ⟨2, 0, 5⟩ (some (fun _ => ⟨0, false, 0, false⟩)) []).1.active = [0, 1] := by decide
example : (runNew ⟨2, 1, 5⟩ (some (fun u => ⟨0, u == 1, 0, false⟩)) []).1.active = [1] := by decide

/-- **in_backoff_stays_out.** Inside the backoff window nothing the upstream would answer matters:
a round at a clock reading less than `backoff` after the recorded failure leaves the upstream out
of the active list and its failure stamp as it was (the window is not extended either). -/
theorem in_backoff_stays_out (c : Cfg) (s : St) (pr : Nat → Probe) (u : Nat) (f : Int)
    (hf : c.nFb > 0) (hu : u < c.nMain) (hl : s.lastFailed u = some f)
    (hb : (pr u).tCheck - f < c.backoff) :
    u ∉ (refresh c s pr).1.active ∧ (refresh c s pr).1.lastFailed u = some f := by
  have hf' : ¬ c.nFb = 0 := by omega
  have hcl := hcFold_closed c.backoff pr s.lastFailed c.nMain
  have hsk : skips c.backoff pr s.lastFailed u = true := by
    simp [skips, inBackoff, hl, hb]
  simp only [refresh, hf', if_false, hcLoop]
  constructor
  · intro hm
    have := ((hcl.2 u).1 hm).2
    cases hd : (pr u).ctxDone <;> simp [keeps, hd, hsk, hl] at this
  · rw [hcl.1 u]
    cases hd : (pr u).ctxDone <;> simp [hu, lfAfter, hd, hsk, hl]

example : (refresh ⟨1, 1, 5⟩ ⟨[], fun _ => some 10⟩ (fun _ => ⟨14, true, 14, false⟩)).1.lastFailed 0 = some 10 := by
  decide

/-- **recovered_can_be_chosen.** Under the hypotheses of `recovery` the reinstated upstream is
itself eligible: some value of the random pick sends the query to it first. -/
theorem recovered_can_be_chosen (c : Cfg) (s : St) (pr : Nat → Probe) (u : Nat) (hf : c.nFb > 0)
    (hu : u < c.nMain) (hok : (pr u).ok = true) (hd : (pr u).ctxDone = false)
    (hb : ∀ f, s.lastFailed u = some f → c.backoff ≤ (pr u).tCheck - f) :
    ∃ pick, ∀ om pickFb ofb,
      (serve c (refresh c s pr).1 pick om pickFb ofb).calls.head? = some (.main u) := by
  have hmem := (recovery c s pr u hf hu hok hd hb).1
  obtain ⟨i, hi, hget⟩ := List.getElem_of_mem hmem
  refine ⟨i, ?_⟩
  intro om pickFb ofb
  have hp : pickActive (refresh c s pr).1 i = some u := by
    unfold pickActive
    rw [Nat.mod_eq_of_lt hi, List.getElem?_eq_getElem hi, hget]
  unfold serve
  simp only [hp]
  by_cases h : om u = .netErr ∧ c.nFb > 0 <;> simp [h]

/-! ## (i) the context of a round: upstreams that hang must not starve the others

The probes of a round share one deadline.  Found on the unchanged code in the fourth audit: a main
upstream that does not answer used up the deadline, and every upstream after it in the list was
recorded as failed without anything having been sent to it (`starved_main_counterexample`).  As
fixed, an upstream whose turn comes when the context is done keeps its status. -/

/-- **not_probed_keeps_status.** An upstream reached when the context of the round is done is not
probed (no probe event carries its index), its failure stamp is untouched, and it is in the new
active list iff it is configured and has no failure recorded. -/
theorem not_probed_keeps_status (c : Cfg) (s : St) (pr : Nat → Probe) (u : Nat) (hf : c.nFb > 0)
    (hd : (pr u).ctxDone = true) :
    (refresh c s pr).1.lastFailed u = s.lastFailed u ∧
    (u ∈ (refresh c s pr).1.active ↔ (u < c.nMain ∧ s.lastFailed u = none)) ∧
    ∀ t ok tf, Ev.probe u t ok tf ∉ (refresh c s pr).2.1 := by
  have hf' : ¬ c.nFb = 0 := by omega
  have hcl := hcFold_closed c.backoff pr s.lastFailed c.nMain
  have hlf : (refresh c s pr).1.lastFailed u = s.lastFailed u := by
    simp only [refresh, hf', if_false, hcLoop]
    rw [hcl.1 u]
    by_cases h1 : u < c.nMain <;> simp [h1, lfAfter, hd]
  refine ⟨hlf, ?_, ?_⟩
  · rw [rotation_invariant c s pr hf u, hlf]
  · intro t ok tf hm
    simp only [refresh, hf', if_false, hcLoop] at hm
    obtain ⟨v, _, hv, _, he⟩ := (hcFold_evs_mem c.backoff pr s.lastFailed c.nMain _).1 hm
    injection he with h1
    subst h1
    rw [hd] at hv
    exact Bool.noConfusion hv

/-- **removed_only_by_own_failed_probe.** A main upstream that is in rotation (no failure
recorded) and is not in the active list after a round was reached with a live context, was sent a
probe in this round (the event is in the trace) and that probe failed.  Nothing another upstream
does, and no shortage of time, takes an upstream out of rotation. -/
theorem removed_only_by_own_failed_probe (c : Cfg) (s : St) (pr : Nat → Probe) (u : Nat)
    (hf : c.nFb > 0) (hu : u < c.nMain) (hl : s.lastFailed u = none)
    (hout : u ∉ (refresh c s pr).1.active) :
    (pr u).ctxDone = false ∧ (pr u).ok = false ∧
    Ev.probe u (pr u).tCheck false (pr u).tFail ∈ (refresh c s pr).2.1 := by
  have hf' : ¬ c.nFb = 0 := by omega
  have hcl := hcFold_closed c.backoff pr s.lastFailed c.nMain
  have hsk : skips c.backoff pr s.lastFailed u = false := by simp [skips, inBackoff, hl]
  have hk : keeps c.backoff pr s.lastFailed u = false := by
    cases h : keeps c.backoff pr s.lastFailed u with
    | false => rfl
    | true =>
      exfalso; apply hout
      simp only [refresh, hf', if_false, hcLoop]
      exact (hcl.2 u).2 ⟨hu, h⟩
  have hd : (pr u).ctxDone = false := by
    cases h : (pr u).ctxDone with
    | false => rfl
    | true => simp [keeps, h, hl] at hk
  have hok : (pr u).ok = false := by
    cases h : (pr u).ok with
    | false => rfl
    | true => simp [keeps, hd, hsk, h] at hk
  refine ⟨hd, hok, ?_⟩
  simp only [refresh, hf', if_false, hcLoop]
  rw [hcFold_evs_mem]
  exact ⟨u, hu, hd, hsk, by rw [hok]⟩

/-- **healthy_main_stays.** At the level of upstream behaviour (`probesOf`: the context is done for
everybody after an upstream that hung, or from the start): a main upstream in rotation that answers
its probes is in rotation after the round — whatever the other upstreams do, wherever it stands in
the list, and even if the round has no time at all. -/
theorem healthy_main_stays (c : Cfg) (s : St) (t : Int) (dead0 : Bool) (beh : Nat → PBeh) (u : Nat)
    (hf : c.nFb > 0) (hu : u < c.nMain) (hl : s.lastFailed u = none) (hb : beh u = .ok) :
    u ∈ (refresh c s (probesOf c.backoff s.lastFailed t dead0 beh)).1.active := by
  cases hin : decide (u ∈ (refresh c s (probesOf c.backoff s.lastFailed t dead0 beh)).1.active) with
  | true => simpa using hin
  | false =>
    have hout : u ∉ (refresh c s (probesOf c.backoff s.lastFailed t dead0 beh)).1.active := by
      simpa using hin
    have := (removed_only_by_own_failed_probe c s _ u hf hu hl hout).2.1
    simp [probesOf, hb] at this

/-- **dead_round_changes_nothing.** A round whose context is done from the start (cancelled at
shutdown, or an already expired deadline) probes nobody and records nothing. -/
theorem dead_round_changes_nothing (c : Cfg) (s : St) (t : Int) (beh : Nat → PBeh) (hf : c.nFb > 0) :
    (∀ u, (refresh c s (probesOf c.backoff s.lastFailed t true beh)).1.lastFailed u = s.lastFailed u) ∧
    (refresh c s (probesOf c.backoff s.lastFailed t true beh)).2.1 = [] ∧
    (refresh c s (probesOf c.backoff s.lastFailed t true beh)).1.active = healthyList c s.lastFailed := by
  have hd : ∀ u, (probesOf c.backoff s.lastFailed t true beh u).ctxDone = true := by
    intro u; simp [probesOf, deadBefore_of_dead0]
  have hlf : ∀ u, (refresh c s (probesOf c.backoff s.lastFailed t true beh)).1.lastFailed u = s.lastFailed u :=
    fun u => (not_probed_keeps_status c s _ u hf (hd u)).1
  refine ⟨hlf, ?_, ?_⟩
  · have hf' : ¬ c.nFb = 0 := by omega
    simp only [refresh, hf', if_false, hcLoop]
    apply List.eq_nil_iff_forall_not_mem.2
    intro e he
    obtain ⟨v, _, hv, _⟩ := (hcFold_evs_mem c.backoff _ s.lastFailed c.nMain e).1 he
    rw [hd v] at hv
    exact Bool.noConfusion hv
  · rw [refresh_active_eq c s _ (by omega)]
    unfold healthyList
    apply List.filter_congr
    intro u _
    rw [hlf u]

/-- **starved_main_counterexample.** The code before the fix does not have this property: two main
upstreams, one fallback, nothing recorded; main 0 hangs, main 1 answers.  The old loop records a
failure for main 1 as well and empties the active list — every query then goes to the fallback —
while the fixed loop keeps main 1. -/
theorem starved_main_counterexample :
    ¬ (∀ (c : Cfg) (s : St) (t : Int) (beh : Nat → PBeh) (u : Nat), c.nFb > 0 → u < c.nMain →
        s.lastFailed u = none → beh u = .ok →
        u ∈ (refreshOld c s (probesOf c.backoff s.lastFailed t false beh)).active) := by
  intro h
  have := h ⟨2, 1, 30⟩ (St.init ⟨2, 1, 30⟩) 100 (fun u => if u = 0 then .hang else .ok) 1
    (by decide) (by decide) rfl rfl
  revert this
  decide

example : (refreshOld ⟨2, 1, 30⟩ (St.init ⟨2, 1, 30⟩)
      (probesOf 30 (fun _ => none) 100 false (fun u => if u = 0 then .hang else .ok))).active = [] ∧
    (refresh ⟨2, 1, 30⟩ (St.init ⟨2, 1, 30⟩)
      (probesOf 30 (fun _ => none) 100 false (fun u => if u = 0 then .hang else .ok))).1.active = [1] ∧
    (serve ⟨2, 1, 30⟩ ⟨[], fun _ => some 100⟩ 0 (fun _ => .reply 1) 0 (fun _ => .reply 2)).calls = [.fb 0] := by
  decide

/-- Non-vacuity: a hanging upstream in backoff is not probed and uses up nothing; the upstream after
a hanging one is reached with a dead context; with three upstreams the last one is kept too. -/
example : deadBefore 30 (fun _ => some 90) 100 false (fun _ => .hang) 1 = false ∧
    deadBefore 30 (fun _ => none) 100 false (fun _ => .hang) 1 = true ∧
    (refresh ⟨3, 1, 30⟩ (St.init ⟨3, 1, 30⟩)
      (probesOf 30 (fun _ => none) 100 false (fun u => if u = 0 then .hang else .ok))).1.active = [1, 2] := by
  decide

/-! ## (h) queries that arrive while a health-check round is running -/

/-- **backoff_respected_interleaved.** For every history in which queries also arrive *during*
health-check rounds (at any point of the probe loop, any number of them), the round-granular
reference monitor accepts the trace: probes obey the backoff exactly as before, and no query is
sent to a main upstream whose most recent probe, as of the end of the last completed round,
failed.  (Within a round the list of the previous round is still in use; see
`stale_use_inside_round`.) -/
theorem backoff_respected_interleaved (c : Cfg) (ops : List IOp) :
    Mon2.accepts c.backoff Mon2.init (runI c (St.init c) ops).2 = true := by
  obtain ⟨m', h, _⟩ := runI_inv c ops (St.init c) Mon2.init (inv2_init c)
  simp [Mon2.accepts, h]

/-- **interleaved_round_same_result.** Concurrent queries do not influence what a round
computes. -/
theorem interleaved_round_same_result (c : Cfg) (s : St) (pr : Nat → Probe) (d : Nat → List QArgs) :
    (refreshI c s pr d).1.active = (refresh c s pr).1.active ∧
    (refreshI c s pr d).1.lastFailed = (refresh c s pr).1.lastFailed :=
  refreshI_state c s pr d

def exQ : QArgs := ⟨0, fun _ => .reply 1, 0, fun _ => .reply 2⟩
/-- Two upstreams; in the round upstream 0 fails its probe, and while upstream 1 is being
probed a query arrives. -/
def exIOps : List IOp :=
  [.refresh (fun u => ⟨10, u == 1, 10, false⟩) (fun u => if u = 1 then [exQ] else []), .query exQ]

/-- **stale_use_inside_round.** The stronger reading "never after the probe failed" does not hold
for the code: the query that arrives while upstream 1 is being probed is still sent to upstream 0,
whose probe failed a moment ago in the same round (the new list is stored when the round ends;
the next query goes to upstream 1).  The round-granular monitor accepts this trace, the
probe-granular one rejects its flattening. -/
theorem stale_use_inside_round :
    (runI ⟨2, 1, 5⟩ (St.init ⟨2, 1, 5⟩) exIOps).2 =
      [.ev (.probe 0 10 false 10), .ev (.query [.main 0] (.answered 1)), .ev (.probe 1 10 true 10),
       .roundEnd, .ev (.query [.main 1] (.answered 1))] ∧
    Mon.accepts 5 Mon.init [.probe 0 10 false 10, .query [.main 0] (.answered 1)] = false := by
  constructor <;> decide

/-- Non-vacuity of the round-granular monitor: after the round has ended a query to the failed
upstream is rejected, and so is a re-probe inside the window. -/
example : Mon2.accepts 5 Mon2.init
    [.ev (.probe 0 10 false 10), .roundEnd, .ev (.query [.main 0] (.answered 1))] = false := by decide
example : Mon2.accepts 5 Mon2.init
    [.ev (.probe 0 10 false 10), .roundEnd, .ev (.probe 0 14 true 14)] = false := by decide
example : Mon2.accepts 5 Mon2.init
    [.ev (.probe 0 10 false 10), .roundEnd, .ev (.probe 0 15 true 15), .ev (.query [.fb 0] .servfail),
     .roundEnd, .ev (.query [.main 0] (.answered 1))] = true := by decide

/-! ## (i) when a probe counts as succeeded; the retry on a fresh connection -/

/-- **probe_ok_iff.** `checkUpstream` succeeds iff `Exchange` returned a response with RCODE 0. -/
theorem probe_ok_iff (p : PRes) : checkUpstream p = true ↔ p = .resp 0 := by
  cases p <;> simp [checkUpstream]

/-- **probe_needs_matching_noerror_reply.** With a plain upstream a probe succeeds only if the
upstream sent, on one of the two transports, a NOERROR message that matches the probe query. -/
theorem probe_needs_matching_noerror_reply (net : Net) (reqId : Nat) (q : Question) (udp tcp : Wire)
    (h : checkUpstream (exchange net reqId q udp tcp).1.probe = true) :
    ∃ m, (udp = .msg m ∨ tcp = .msg m) ∧ validate reqId q m = .ok ∧ m.rcode = 0 := by
  cases hx : (exchange net reqId q udp tcp).1 with
  | ok m =>
    rw [hx] at h
    have := exchange_accepts_only_matching net reqId q udp tcp m hx
    exact ⟨m, this.1, this.2, by simpa [XRes.probe, checkUpstream] using h⟩
  | netErr => rw [hx] at h; simp [XRes.probe, checkUpstream] at h
  | eof => rw [hx] at h; simp [XRes.probe, checkUpstream] at h
  | other => rw [hx] at h; simp [XRes.probe, checkUpstream] at h

example : checkUpstream (exchange .any 7 ⟨[97, 98, 46], 1⟩
    (.msg ⟨7, [⟨[97, 98, 46], 1⟩], false, 1, 2⟩) .netErr).1.probe = false ∧
    checkUpstream (exchange .any 7 ⟨[97, 98, 46], 1⟩
    (.msg ⟨7, [⟨[97, 98, 46], 1⟩], false, 1, 0⟩) .netErr).1.probe = true := by decide

/-- **retry_accepts_only_matching.** With the second attempt of `exchangeNet` spelled out: a
returned response is one of the (up to four) messages received and it matches the query; and the
second attempt is looked at only after a connection error of the first. -/
theorem retry_accepts_only_matching (net : Net) (reqId : Nat) (q : Question)
    (u1 u2 t1 t2 : Wire) (m : Msg) (h : (exchangeR net reqId q u1 u2 t1 t2).1 = .ok m) :
    (u1 = .msg m ∨ u2 = .msg m ∨ t1 = .msg m ∨ t2 = .msg m) ∧ validate reqId q m = .ok := by
  have key : ∀ a b, retryWire a b = .msg m → a = .msg m ∨ b = .msg m := by
    intro a b hab
    cases a <;> simp_all [retryWire]
  have := exchange_accepts_only_matching net reqId q _ _ m h
  refine ⟨?_, this.2⟩
  rcases this.1 with hu | ht
  · rcases key _ _ hu with h1 | h1
    · exact Or.inl h1
    · exact Or.inr (Or.inl h1)
  · rcases key _ _ ht with h1 | h1
    · exact Or.inr (Or.inr (Or.inl h1))
    · exact Or.inr (Or.inr (Or.inr h1))

theorem retry_only_after_conn_error (w1 w2 : Wire) (h1 : w1 ≠ .netErr) (h2 : w1 ≠ .eof) :
    retryWire w1 w2 = w1 := by
  cases w1 <;> simp_all [retryWire]

example : (exchangeR .tcp 7 ⟨[97, 98, 46], 1⟩ .bad .bad .eof (.msg ⟨7, [⟨[97, 98, 46], 1⟩], false, 2, 0⟩)).1 =
    .ok ⟨7, [⟨[97, 98, 46], 1⟩], false, 2, 0⟩ := by decide

/-- **accepted_reply_parsed_from_received_bytes.** From the bytes on the wire to the answer: if
`Exchange` returns a response, then on one of the two transports at least 17 bytes were received,
the response is what the header-and-question parser makes of exactly those bytes (nothing beyond
them in the buffer), and it matches the query's id, name and type. -/
theorem accepted_reply_parsed_from_received_bytes (net : Net) (reqId : Nat) (q : Question)
    (udp tcp : Raw) (m : Msg) (h : (exchange net reqId q udp.wire tcp.wire).1 = .ok m) :
    (∃ buf n, (udp = .bytes buf n ∨ tcp = .bytes buf n) ∧ minDNSMessageSize ≤ n ∧
      parseMsg (buf.take n) = some m) ∧ validate reqId q m = .ok := by
  have key : ∀ r : Raw, r.wire = .msg m →
      ∃ buf n, r = .bytes buf n ∧ minDNSMessageSize ≤ n ∧ parseMsg (buf.take n) = some m := by
    intro r hr
    cases r with
    | bytes buf n =>
      refine ⟨buf, n, rfl, ?_⟩
      simp only [Raw.wire] at hr
      cases hm : readMsg buf n with
      | none => rw [hm] at hr; simp at hr
      | some m' =>
        rw [hm] at hr
        simp only [Wire.msg.injEq] at hr
        subst hr
        unfold readMsg at hm
        by_cases hn : n < minDNSMessageSize
        · simp [hn] at hm
        · simp only [hn, if_false] at hm
          exact ⟨by omega, hm⟩
    | netErr => simp [Raw.wire] at hr
    | eof => simp [Raw.wire] at hr
  have := exchange_accepts_only_matching net reqId q _ _ m h
  refine ⟨?_, this.2⟩
  rcases this.1 with hu | ht
  · obtain ⟨buf, n, h1, h2, h3⟩ := key udp hu
    exact ⟨buf, n, Or.inl h1, h2, h3⟩
  · obtain ⟨buf, n, h1, h2, h3⟩ := key tcp ht
    exact ⟨buf, n, Or.inr h1, h2, h3⟩

/-- A complete 20-byte reply to `ab. A` id 7 is accepted; its first 17 bytes followed by the
request's residue are not (they were, before the fix). -/
example : (exchange .udp 7 ⟨[97, 98, 46], 1⟩
    (Raw.bytes [0, 7, 129, 128, 0, 1, 0, 0, 0, 0, 0, 0, 2, 97, 98, 0, 0, 1, 0, 1] 20).wire Raw.netErr.wire).1 =
      .ok ⟨7, [⟨[97, 98, 46], 1⟩], false, 0, 0⟩ ∧
    (exchange .udp 7 ⟨[97, 98, 46], 1⟩ (Raw.bytes (exCut ++ exReq.drop 17) 17).wire Raw.netErr.wire).1 = .netErr := by
  decide

/-! ## (g) completeness at the byte level: a whole matching reply is accepted, whatever its size

The specification side is `encodeReply` (RFC 1035 §4.1 written down without looking at the parser).
Before this round every byte-level theorem had the form "accepted ⇒ matching"; a reader that rejects
legal replies (a size guard off by one, a buffer one octet short) contradicted none of them. -/

/-- **parseMsg_encodeReply.** `Unpack` (as modelled) of a message laid out by the RFC with one question
gives back its id, the TC bit, the RCODE and that question, whatever records follow. -/
theorem parseMsg_encodeReply (h : Hdr) (ls : List (List Nat)) (t1 t2 c1 c2 : Nat) (tail : List Nat)
    (hl : legalLabels ls) :
    parseMsg (encodeReply h ls t1 t2 c1 c2 tail) =
      some { id := h.id1 * 256 + h.id2, qs := [{ name := presName ls, qtype := t1 * 256 + t2 }],
             tc := (h.f1 / 2) % 2 = 1, tok := 0, rcode := h.f2 % 16 } := by
  have hp := parseName_encodeName ls ([t1, t2, c1, c2] ++ tail)
    (encodeName ls ++ ([t1, t2, c1, c2] ++ tail)).length 255 hl.1
    (by have := encodeName_length_pos ls; simp only [List.length_append]; omega)
    (by have := hl.2; omega)
  simp only [encodeReply, List.cons_append, List.nil_append, List.append_assoc, parseMsg]
  have : (0 * 256 + 1) = 1 := by omega
  rw [this]
  simp only [parseQs]
  simp only [List.cons_append, List.nil_append] at hp
  rw [hp]
  simp only [Option.map_some, presName_eq]

/-- A reply with a question is never shorter than `minDNSMessageSize`: the guard of `readMsg` cannot
reject a well-formed reply, and it is tight (the root name with no records is exactly 17 octets). -/
theorem legal_reply_never_short (h : Hdr) (ls : List (List Nat)) (t1 t2 c1 c2 : Nat) (tail : List Nat) :
    minDNSMessageSize ≤ (encodeReply h ls t1 t2 c1 c2 tail).length ∧
    (encodeReply h [] t1 t2 c1 c2 []).length = minDNSMessageSize := by
  have := encodeName_length_pos ls
  constructor
  · simp only [encodeReply, minDNSMessageSize, List.length_append, List.length_cons, List.length_nil]
    omega
  · simp [encodeReply, minDNSMessageSize, encodeName]

/-- **whole_matching_reply_accepted.** The completeness half of "a query is answered by the main
upstream chosen for it when that upstream replies", from the octets up: if the octets received on the
transport that decides are a whole message carrying the query's id, its type and its name up to ASCII
case — of any size from the minimal 17 octets up, whatever records follow, whatever the buffer holds
behind them — then `readMsg` parses it, `validatePlainResponse` accepts it and `Exchange` returns it:
over TCP for a TCP-only upstream, over UDP for a UDP-only one, and over UDP for the default kind
unless the TC bit asks for TCP. -/
theorem whole_matching_reply_accepted (h : Hdr) (ls : List (List Nat)) (t1 t2 c1 c2 : Nat)
    (tail residue : List Nat) (reqId : Nat) (q : Question) (other : Wire)
    (hl : legalLabels ls) (hid : reqId = h.id1 * 256 + h.id2) (hty : q.qtype = t1 * 256 + t2)
    (hnm : foldName q.name = foldName (presName ls)) :
    let b := encodeReply h ls t1 t2 c1 c2 tail
    let m : Msg := { id := reqId, qs := [{ name := presName ls, qtype := q.qtype }],
                     tc := (h.f1 / 2) % 2 = 1, tok := 0, rcode := h.f2 % 16 }
    let w := (Raw.bytes (b ++ residue) b.length).wire
    w = .msg m ∧
    exchange .tcp reqId q other w = (.ok m, true) ∧
    exchange .udp reqId q w other = (.ok m, false) ∧
    (m.tc = false → exchange .any reqId q w other = (.ok m, false)) := by
  intro b m w
  have hlen := (legal_reply_never_short h ls t1 t2 c1 c2 tail).1
  have hw : w = .msg m := by
    simp only [w, Raw.wire, readMsg]
    have : ¬ b.length < minDNSMessageSize := by
      have : b.length = (encodeReply h ls t1 t2 c1 c2 tail).length := rfl
      omega
    simp only [this, if_false, List.take_left]
    rw [show b = encodeReply h ls t1 t2 c1 c2 tail from rfl, parseMsg_encodeReply h ls t1 t2 c1 c2 tail hl]
    simp [m, hid, hty]
  have hv : validate reqId q m = .ok := by
    simp [validate, m, hnm]
  refine ⟨hw, ?_, ?_, ?_⟩
  · simp [exchange, hw, exchangeNet, hv]
  · simp [exchange, hw, exchangeNet, hv]
  · intro htc
    simp [exchange, hw, exchangeNet, hv, htc]

/-- Non-vacuity and tightness: the 17-octet reply to `. A` id 7 (header and root question, no
records) is accepted in every network mode; one octet less is not a message. -/
example : legalLabels [] ∧
    (exchange .udp 7 ⟨[46], 1⟩ (Raw.bytes (encodeReply ⟨0, 7, 129, 128, (0, 0), (0, 0), (0, 0)⟩ [] 0 1 0 1 []) 17).wire .netErr).1 =
      .ok ⟨7, [⟨[46], 1⟩], false, 0, 0⟩ ∧
    (exchange .udp 7 ⟨[46], 1⟩ (Raw.bytes (encodeReply ⟨0, 7, 129, 128, (0, 0), (0, 0), (0, 0)⟩ [] 0 1 0 1 []) 16).wire .netErr).1 =
      .netErr := by
  refine ⟨⟨by simp, by decide⟩, by decide, by decide⟩

/-- Non-vacuity with escapes and case: `A\128.b` answered as `a\128.B` (labels `a\x80`, `B`). -/
example : legalLabels [[97, 128], [66]] ∧ presName [[97, 128], [66]] = [97, 92, 49, 50, 56, 46, 66, 46] ∧
    foldName [65, 92, 49, 50, 56, 46, 98, 46] = foldName (presName [[97, 128], [66]]) := by
  refine ⟨⟨by simp, by decide⟩, by decide, by decide⟩

/-! ## (j) the health-check domain template (fifth audit)

Found on the unchanged code: the start-up accepted any non-empty `domain_template`.  If the name made
from it cannot be packed (a label of more than 63 octets — four placeholders in one label are enough
— or an empty label) `healthcheckUpstream` records a failed check for every main upstream in every
round although nothing is sent: all healthy main upstreams leave the rotation for good and every
query goes to the fallbacks (`unpackable_template_counterexample`).  As fixed, the start-up checks the
name made with the longest random part; every name of every round is then legal
(`accepted_template_always_packable`) and the template takes nothing away from the probes
(`accepted_template_probes_unchanged`), so that the theorems of (c), (d) and (i) hold as stated. -/

def segLen (n : Nat) : Seg → Nat
  | .lit b => b.length
  | .rnd => n

theorem expandLabel_length (r : List Nat) (l : List Seg) :
    (expandLabel r l).length = (l.map (segLen r.length)).sum := by
  induction l with
  | nil => rfl
  | cons x t ih => cases x <;> simp [expandLabel, segLen, ih]

theorem segSum_mono {n m : Nat} (h : n ≤ m) (l : List Seg) :
    (l.map (segLen n)).sum ≤ (l.map (segLen m)).sum := by
  induction l with
  | nil => simp
  | cons x t ih => cases x <;> simp [segLen] <;> omega

theorem segSum_pos {n m : Nat} (hn : 1 ≤ n) (l : List Seg) (h : 1 ≤ (l.map (segLen m)).sum) :
    1 ≤ (l.map (segLen n)).sum := by
  induction l with
  | nil => simp at h
  | cons x t ih =>
    cases x with
    | rnd => simp [segLen]; omega
    | lit b =>
      simp [segLen] at h ⊢
      by_cases hb : b.length = 0
      · have := ih (by omega)
        omega
      · omega

theorem encodeName_expand_mono {r r' : List Nat} (h : r.length ≤ r'.length) (t : Tmpl) :
    (encodeName (expandTmpl r t)).length ≤ (encodeName (expandTmpl r' t)).length := by
  induction t with
  | nil => simp [expandTmpl]
  | cons l t ih =>
    have h1 := segSum_mono h l
    simp only [expandTmpl, List.map_cons, encodeName, List.length_cons, List.length_append,
      expandLabel_length] at ih ⊢
    omega

theorem legalLabelsB_iff (ls : List (List Nat)) : legalLabelsB ls = true ↔ legalLabels ls := by
  simp [legalLabelsB, legalLabels, List.all_eq_true]

/-- **accepted_template_always_packable.** A template accepted by the start-up check (as fixed) gives a
legal name — every label 1–63 octets, at most 255 octets on the wire — in every round, whatever the
random part (1 to 16 digits, any digits). -/
theorem accepted_template_always_packable (t : Tmpl) (h : tmplAccepted t = true) (r : List Nat)
    (h1 : 1 ≤ r.length) (h16 : r.length ≤ 16) : legalLabels (expandTmpl r t) := by
  rw [tmplAccepted, legalLabelsB_iff] at h
  obtain ⟨hl, hw⟩ := h
  have hm : r.length ≤ maxRand.length := by simpa [maxRand] using h16
  refine ⟨?_, Nat.le_trans (encodeName_expand_mono hm t) hw⟩
  intro l hlm
  simp only [expandTmpl, List.mem_map] at hlm
  obtain ⟨sl, hsl, rfl⟩ := hlm
  have := hl (expandLabel maxRand sl) (by simp only [expandTmpl, List.mem_map]; exact ⟨sl, hsl, rfl⟩)
  rw [expandLabel_length] at this ⊢
  exact ⟨segSum_pos h1 sl this.1, Nat.le_trans (segSum_mono hm sl) this.2⟩

/-- **accepted_template_probes_unchanged.** With an accepted template the probes of a round are what
the upstreams make of them: the template never fails a probe. -/
theorem accepted_template_probes_unchanged (t : Tmpl) (h : tmplAccepted t = true) (r : List Nat)
    (h1 : 1 ≤ r.length) (h16 : r.length ≤ 16) (pr : Nat → Probe) : probesWithTmpl t r pr = pr := by
  funext u
  have := (legalLabelsB_iff _).2 (accepted_template_always_packable t h r h1 h16)
  simp [probesWithTmpl, this]

/-- The template of the finding: four placeholders in the first label, `example`, `com`. -/
def tmpl4 : Tmpl := [[.rnd, .rnd, .rnd, .rnd], [.lit [101, 120, 97, 109, 112, 108, 101]], [.lit [99, 111, 109]]]

/-- **unpackable_template_counterexample.** The start-up check before the fix does not protect the
rotation: `tmpl4` is accepted, and with a 16-digit random part (15 rounds of 16) a main upstream
that answers every probe it gets is out of rotation after the round; the fixed check refuses the
template. -/
theorem unpackable_template_counterexample :
    ¬ (∀ (t : Tmpl) (r : List Nat) (c : Cfg) (s : St) (pr : Nat → Probe) (u : Nat),
        tmplAcceptedOld t = true → r.length ≤ 16 → 1 ≤ r.length → c.nFb > 0 → u < c.nMain →
        (pr u).ok = true → (pr u).ctxDone = false → s.lastFailed u = none →
        u ∈ (refresh c s (probesWithTmpl t r pr)).1.active) := by
  intro h
  have := h tmpl4 maxRand ⟨2, 1, 30⟩ (St.init ⟨2, 1, 30⟩) (fun _ => ⟨100, true, 100, false⟩) 1
    (by decide) (by decide) (by decide) (by decide) (by decide) rfl rfl rfl
  revert this
  decide

/-- Non-vacuity and the boundary: `tmpl4` is refused by the fixed check, empties the rotation under the
old one, and sends every query to the fallback; a label of 47 literal octets and one placeholder (63)
is accepted, 48 (64) is not; the dist file's template is accepted. -/
example : tmplAcceptedOld tmpl4 = true ∧ tmplAccepted tmpl4 = false ∧
    (refresh ⟨2, 1, 30⟩ (St.init ⟨2, 1, 30⟩)
      (probesWithTmpl tmpl4 maxRand (fun _ => ⟨100, true, 100, false⟩))).1.active = [] ∧
    (refresh ⟨2, 1, 30⟩ (St.init ⟨2, 1, 30⟩)
      (probesWithTmpl tmpl4 [49, 50] (fun _ => ⟨100, true, 100, false⟩))).1.active = [0, 1] ∧
    tmplAccepted [[.lit (List.replicate 47 97), .rnd], [.lit [99]]] = true ∧
    tmplAccepted [[.lit (List.replicate 48 97), .rnd], [.lit [99]]] = false ∧
    tmplAccepted [[.lit [97]], [], [.lit [99]]] = false ∧
    tmplAccepted [[.rnd], [.lit [110, 101, 118, 101, 114, 115, 115, 108]], [.lit [99, 111, 109]]] = true := by
  decide

#print axioms main_reply_used
#print axioms expandLabel_length
#print axioms segSum_mono
#print axioms segSum_pos
#print axioms encodeName_expand_mono
#print axioms legalLabelsB_iff
#print axioms accepted_template_always_packable
#print axioms accepted_template_probes_unchanged
#print axioms unpackable_template_counterexample
#print axioms fallback_once_then_servfail
#print axioms finish_servfail_iff
#print axioms backoff_respected
#print axioms rotation_invariant
#print axioms recovery
#print axioms no_fallbacks_never_out
#print axioms reply_validation
#print axioms exchange_accepts_only_matching
#print axioms mismatch_never_accepted_whatever_flags
#print axioms answer_is_matching_reply
#print axioms reply_from_own_bytes
#print axioms residue_counterexample
#print axioms backoff_respected_new
#print axioms rotation_exact
#print axioms fallback_iff_no_healthy_main
#print axioms no_fallbacks_never_out_new
#print axioms in_backoff_stays_out
#print axioms recovered_can_be_chosen
#print axioms not_probed_keeps_status
#print axioms removed_only_by_own_failed_probe
#print axioms healthy_main_stays
#print axioms dead_round_changes_nothing
#print axioms starved_main_counterexample
#print axioms backoff_respected_interleaved
#print axioms interleaved_round_same_result
#print axioms stale_use_inside_round
#print axioms probe_ok_iff
#print axioms probe_needs_matching_noerror_reply
#print axioms retry_accepts_only_matching
#print axioms retry_only_after_conn_error
#print axioms accepted_reply_parsed_from_received_bytes
#print axioms parseMsg_encodeReply
#print axioms legal_reply_never_short
#print axioms whole_matching_reply_accepted

end Agd.Forward

/-! Translated-source tie (round 3) -/
#print axioms Agd.Tie.TrC17.translation_complete
#print axioms Agd.Tie.TrC17.idx_of_inRange
#print axioms Agd.Tie.TrC17.serve_main_reply_used
#print axioms Agd.Tie.TrC17.serve_netErr_fallback_once
#print axioms Agd.Tie.TrC17.serve_no_active_main
#print axioms Agd.Tie.TrC17.serve_other_error_final
#print axioms Agd.Tie.TrC17.serve_without_fallbacks
#print axioms Agd.Tie.TrC17.serve_at_most_two
#print axioms Agd.Tie.TrC17.idx_nat
#print axioms Agd.Tie.TrC17.idx_range
#print axioms Agd.Tie.TrC17.serve_tr
#print axioms Agd.Tie.TrC17.pick_empty
#print axioms Agd.Tie.TrC17.pick_active_element
#print axioms Agd.Tie.TrC17.pick_no_panic_iff
#print axioms Agd.Tie.TrC17.pick_tr
#print axioms Agd.Tie.TrC17.hc_backoff_skips_probe
#print axioms Agd.Tie.TrC17.hc_probe_failed
#print axioms Agd.Tie.TrC17.hc_probe_ok
#print axioms Agd.Tie.TrC17.hc_no_panic_iff
#print axioms Agd.Tie.TrC17.hcUpstream_tr
#print axioms Agd.Tie.TrC17.range_inv
#print axioms Agd.Tie.TrC17.healthcheck_backoff_not_active
#print axioms Agd.Tie.TrC17.healthcheck_ctx_done_keeps
#print axioms Agd.Tie.TrC17.healthcheck_failed_not_active
#print axioms Agd.Tie.TrC17.fm_some
#print axioms Agd.Tie.TrC17.healthcheck_ok_active
#print axioms Agd.Tie.TrC17.range_noop
#print axioms Agd.Tie.TrC17.refresh_no_fallbacks_noop
#print axioms Agd.Tie.TrC17.refresh_runs_healthcheck
#print axioms Agd.Tie.TrC17.Refresh_is_refresh
#print axioms Agd.Tie.TrC17.checkUpstream_tr
#print axioms Agd.Tie.TrC17.reportChange_metric
#print axioms Agd.Tie.TrC17.validate_accepts_only_matching
#print axioms Agd.Tie.TrC17.validate_no_panic_iff
#print axioms Agd.Tie.TrC17.validate_tr
#print axioms Agd.Tie.TrC17.readValid_accepts_iff
#print axioms Agd.Tie.TrC17.readMsg_ok_only_if
#print axioms Agd.Tie.TrC17.isExpectedConnErr_tr
#print axioms Agd.Tie.TrC17.exchange_eq_exchangeX
#print axioms Agd.Tie.TrC17.exchange_tr
#print axioms Agd.Tie.TrC17.exchangeNet_retry_once
#print axioms Agd.Tie.TrC17.annotate_nil_iff
#print axioms Agd.Tie.TrC17.handler_exchange_passes
