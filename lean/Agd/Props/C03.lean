import Agd.Tie.TrC03
import Agd.Lemmas.Device
import Agd.Tie.C03
/-!
# C03 — a device is recognised only via its own identifier and only when authenticated

Property theorems only.  The model is `Agd/Model/Device.lean` (`find` = `devicefinder.Default.Find`,
`continues` = `ratelimitmw.handleDeviceResult`, `deviceDataOf` = `agd.RequestInfo.DeviceData`); the
specification vocabulary (`Carried`, `Maps`, `ByAddress`, `AuthMet`, `DB.WF`, `Owns`, `OwnAddress`,
`SameChannels`, and the parser-free literal reading `Names` / `Presents`) and the inversion lemmas live
in `Agd/Lemmas/Device.lean`.  `findIn` adds `dnssvc.newDeviceFinder` (profiles enabled?) in front of
`find`; `addRequestInfo`/`parseBasicAuth` model what the DoH server derives from an HTTP request.

All theorems hold for every server configuration, every request and every profile database
(five arbitrary lookup functions, arbitrary password checks).
-/
namespace Agd.Device

/-- **recognised_only_own_id.**  If a request is attributed to profile `p` and device `d`, then
(1) it carried an identifier through a channel valid for its transport which the database maps to
exactly `(p, d)` — or, on plain DNS only, its dedicated local address / linked remote address maps
to `(p, d)` —, (2) the profile is not deleted, and (3) the device's authentication policy is met. -/
theorem recognised_only_own_id (s : Srv) (db : DB) (rq : Req) (p : Profile) (d : Device)
    (h : find s db rq = .ok p d) :
    ((∃ dd, Carried s rq dd ∧ Maps db dd p d) ∨ ByAddress s db rq p d) ∧
      p.deleted = false ∧ AuthMet s rq d := by
  obtain ⟨hs, dd, hdd, hfd, hau⟩ := find_ok h
  obtain ⟨hdb, hdel⟩ := findDevice_ok hfd
  refine ⟨?_, hdel, authenticate_none hau⟩
  rcases deviceFromDB_ok hdb with ⟨hne, hm⟩ | ⟨_, ha⟩
  · rcases deviceData_carried hs hdd with h0 | hc
    · exact absurd h0 hne
    · exact Or.inl ⟨dd, hc, hm⟩
  · exact Or.inr ha

/-- **recognised_device_is_own.**  Over a well-formed database (successful lookups return a device
that has the looked-up identifier and is listed in the returned profile — what `profiledb.Default`
re-checks on every lookup) the recognised device still belongs to the profile, and the identifier
carried by the request (or its address) is the device's *own*. -/
theorem recognised_device_is_own (s : Srv) (db : DB) (rq : Req) (p : Profile) (d : Device)
    (hwf : db.WF) (h : find s db rq = .ok p d) :
    d.id ∈ p.devices ∧ ((∃ dd, Carried s rq dd ∧ Owns p d dd) ∨ OwnAddress s rq d) := by
  rcases (recognised_only_own_id s db rq p d h).1 with ⟨dd, hc, hm⟩ | ⟨hdns, ha⟩
  · cases hm with
    | byID i p d hf => have := hwf.byID _ _ _ hf; exact ⟨this.2, Or.inl ⟨_, hc, this.1⟩⟩
    | byHuman dt pid hid p d hf =>
      have := hwf.byHuman _ _ _ _ hf; exact ⟨this.2.2, Or.inl ⟨_, hc, this.1, this.2.1⟩⟩
    | auto dt pid hid p d _ hf =>
      have := hwf.auto _ _ _ _ _ hf; exact ⟨this.2.2, Or.inl ⟨_, hc, this.1, this.2.1⟩⟩
  · rcases ha with ⟨hb, hn, hf⟩ | ⟨hl, hf⟩
    · have := hwf.ded _ _ _ hf; exact ⟨this.2, Or.inr ⟨hdns, Or.inl ⟨hb, hn, this.1⟩⟩⟩
    · have := hwf.linked _ _ _ hf; exact ⟨this.2, Or.inr ⟨hdns, Or.inr ⟨hl, this.1⟩⟩⟩

/-- **doh_only_never_elsewhere.**  A device that requires DoH-only authentication is recognised
only on DoH, only with a user *and* a password in the request, and only if the password passes the
device's check. -/
theorem doh_only_never_elsewhere (s : Srv) (db : DB) (rq : Req) (p : Profile) (d : Device)
    (hen : d.auth.enabled = true) (hdo : d.auth.dohOnly = true) (h : find s db rq = .ok p d) :
    s.proto = .doh ∧ ∃ u pw, rq.userinfo = some (u, some pw) ∧ d.auth.check pw = true :=
  ((recognised_only_own_id s db rq p d h).2.2 hen).1 hdo

/-- **bad_password_never_recognised.**  On DoH, when userinfo is present, a device with
authentication enabled is recognised only if a password is present and passes the check. -/
theorem bad_password_never_recognised (s : Srv) (db : DB) (rq : Req) (p : Profile) (d : Device)
    (u : Str) (pw : Option Str) (hdoh : s.proto = .doh) (hui : rq.userinfo = some (u, pw))
    (hen : d.auth.enabled = true) (h : find s db rq = .ok p d) :
    ∃ pass, pw = some pass ∧ d.auth.check pass = true :=
  ((recognised_only_own_id s db rq p d h).2.2 hen).2 hdoh u pw hui

/-- **bad_password_is_anonymous.**  If the basic-auth user names a device of a live profile whose
authentication is enabled and the password is absent or fails the check (wrong, empty, …), the
result is an authentication failure: the request continues and is served without any profile. -/
theorem bad_password_is_anonymous (s : Srv) (db : DB) (rq : Req) (p : Profile) (d : Device)
    (u : Str) (pw : Option Str) (hdoh : s.proto = .doh) (hui : rq.userinfo = some (u, pw))
    (hvalid : validDeviceID u = true) (hdb : db.byDeviceID u = .found p d) (hlive : p.deleted = false)
    (hen : d.auth.enabled = true) (hbad : ∀ pass, pw = some pass → d.auth.check pass = false) :
    (∃ e, find s db rq = .authFail e) ∧ continues (find s db rq) = true ∧
      deviceDataOf (find s db rq) = none := by
  have hfind : ∃ e, find s db rq = .authFail e := by
    cases pw with
    | none =>
      exact ⟨.noPassword, by
        simp [find, supportsDeviceID, deviceData, Proto.isStdEncrypted, deviceDataFromSrvReqInfo,
          deviceDataForDoH, hdoh, hui, hvalid, findDevice, deviceFromDB, hdb, newDeviceResult, hlive,
          authenticatedResult, authenticate, hen]⟩
    | some pass =>
      have hb := hbad pass rfl
      exact ⟨.failed, by
        simp [find, supportsDeviceID, deviceData, Proto.isStdEncrypted, deviceDataFromSrvReqInfo,
          deviceDataForDoH, hdoh, hui, hvalid, findDevice, deviceFromDB, hdb, newDeviceResult, hlive,
          authenticatedResult, authenticate, hen, hb]⟩
  obtain ⟨e, he⟩ := hfind
  exact ⟨⟨e, he⟩, by simp [he, continues], by simp [he, deviceDataOf]⟩

/-- **dnscrypt_anonymous.**  DNSCrypt requests (and requests of any transport outside plain DNS,
DoH, DoT, DoQ) are never attributed: the result is "not found", the request continues without a
profile — whatever it carries and whatever the database contains. -/
theorem dnscrypt_anonymous (s : Srv) (db : DB) (rq : Req) (h : s.proto = .dnscrypt ∨ s.proto = .invalid) :
    find s db rq = .none ∧ continues (find s db rq) = true ∧ deviceDataOf (find s db rq) = none := by
  have : find s db rq = .none := by
    rcases h with h | h <;> simp [find, supportsDeviceID, h]
  simp [this, continues, deviceDataOf]

/-- **channel_isolation.**  Non-interference: what a request carries in a channel that is not valid
for its transport has no influence on the result.  Plain DNS looks only at EDNS and the two
addresses; DoT/DoQ only at the TLS server name; DoH at the userinfo and — only when there is no
userinfo — at the URL path and the TLS server name; every other transport at nothing. -/
theorem channel_isolation (s : Srv) (db : DB) (a b : Req) (h : SameChannels s.proto a b) :
    find s db a = find s db b := by
  cases hp : s.proto <;> simp only [hp, SameChannels] at h
  · simp [find, supportsDeviceID, hp]
  · obtain ⟨h1, h2, h3, h4⟩ := h
    exact find_congr (by simp [deviceData, hp, Proto.isStdEncrypted, h1]) (findDevice_addr h2 h3 h4)
      (authenticate_notDoH (by simp [hp]))
  · simp [find, supportsDeviceID, hp]
  · obtain ⟨h1, h2⟩ := h
    refine find_congr ?_ (findDevice_indep (by simp [hp])) (authenticate_userinfo h1)
    cases hu : a.userinfo with
    | none =>
      obtain ⟨h3, h4⟩ := h2 hu
      simp [deviceData, hp, Proto.isStdEncrypted, deviceDataFromSrvReqInfo, deviceDataForDoH,
        deviceDataFromSNIStep, ← h1, hu, h3, h4]
    | some up =>
      obtain ⟨u, pw⟩ := up
      have hb : b.userinfo = some (u, pw) := by rw [← h1, hu]
      simp only [deviceData, hp, Proto.isStdEncrypted, deviceDataFromSrvReqInfo, deviceDataForDoH, hu, hb]
      by_cases hv : validDeviceID u = true <;> simp [hv]
  · exact find_congr (by simp [deviceData, hp, Proto.isStdEncrypted, deviceDataFromSrvReqInfo,
      deviceDataFromSNIStep, h]) (findDevice_indep (by simp [hp])) (authenticate_notDoH (by simp [hp]))
  · exact find_congr (by simp [deviceData, hp, Proto.isStdEncrypted, deviceDataFromSrvReqInfo,
      deviceDataFromSNIStep, h]) (findDevice_indep (by simp [hp])) (authenticate_notDoH (by simp [hp]))

/-- **recognised_presents_own_identifier.**  The first clause of the property against a *literal*
specification (`Presents`, `Names`: no parser of the model occurs in it).  Over a well-formed
database, a recognised request literally contains the recognised device's identifier in a channel of
its transport: the basic-auth user equals the device ID; or a `/`-separated segment of the URL path
/ the single, dot-free label in front of a configured device domain in the TLS server name (domain
compared without letter case) is the device ID up to letter case or `<type>-<profile>-<human id>`
of that profile and device; or the CPE-ID option's payload equals the device ID; or the address is
the device's own.  In particular nested labels, other domains and foreign channels never lead to
recognition. -/
theorem recognised_presents_own_identifier (s : Srv) (db : DB) (rq : Req) (p : Profile) (d : Device)
    (hwf : db.WF) (h : find s db rq = .ok p d) : Presents s rq p d := by
  rcases (recognised_device_is_own s db rq p d hwf h).2 with ⟨dd, hc, ho⟩ | ha
  · exact carried_presents hc ho
  · exact .address ha

/-- **doh_userinfo_decision.**  Reference decision table for DoH requests with userinfo: the
result is a function of the basic-auth user, the password and the database entry of that device ID
alone (URL path, server name, EDNS and addresses are irrelevant), and a request is recognised
exactly when the user is a valid device ID that the database maps to a live profile and either the
device has authentication disabled or the password is present and passes the check. -/
theorem doh_userinfo_decision (s : Srv) (db : DB) (rq : Req) (u : Str) (pw : Option Str)
    (hdoh : s.proto = .doh) (hui : rq.userinfo = some (u, pw)) :
    find s db rq =
      if !validDeviceID u then .error .basicAuth
      else match db.byDeviceID u with
        | .found p d =>
          if p.deleted then .none
          else if !d.auth.enabled then .ok p d
          else match pw with
            | none => .authFail .noPassword
            | some x => if d.auth.check x then .ok p d else .authFail .failed
        | .devNotFound => .none
        | .profNotFound => .none
        | .error => .error .db := by
  by_cases hv : validDeviceID u = true
  · cases hdb : db.byDeviceID u with
    | found p d =>
      by_cases hdel : p.deleted = true
      · simp [find, supportsDeviceID, deviceData, Proto.isStdEncrypted, deviceDataFromSrvReqInfo,
          deviceDataForDoH, hdoh, hui, hv, findDevice, deviceFromDB, hdb, newDeviceResult, hdel]
      · by_cases hen : d.auth.enabled = true
        · cases pw with
          | none =>
            simp [find, supportsDeviceID, deviceData, Proto.isStdEncrypted, deviceDataFromSrvReqInfo,
              deviceDataForDoH, hdoh, hui, hv, findDevice, deviceFromDB, hdb, newDeviceResult, hdel,
              authenticatedResult, authenticate, hen]
          | some x =>
            by_cases hck : d.auth.check x = true <;>
            simp [find, supportsDeviceID, deviceData, Proto.isStdEncrypted, deviceDataFromSrvReqInfo,
              deviceDataForDoH, hdoh, hui, hv, findDevice, deviceFromDB, hdb, newDeviceResult, hdel,
              authenticatedResult, authenticate, hen, hck]
        · simp [find, supportsDeviceID, deviceData, Proto.isStdEncrypted, deviceDataFromSrvReqInfo,
            deviceDataForDoH, hdoh, hui, hv, findDevice, deviceFromDB, hdb, newDeviceResult, hdel,
            authenticatedResult, authenticate, hen]
    | devNotFound | profNotFound | error =>
      simp [find, supportsDeviceID, deviceData, Proto.isStdEncrypted, deviceDataFromSrvReqInfo,
        deviceDataForDoH, hdoh, hui, hv, findDevice, deviceFromDB, hdb, newDeviceResult]
  · simp [find, supportsDeviceID, deviceData, Proto.isStdEncrypted, deviceDataFromSrvReqInfo,
      deviceDataForDoH, hdoh, hui, hv]

/-- **profiles_disabled_anonymous.**  On a server group with profiles disabled
(`dnssvc.newDeviceFinder` installs the empty finder) nothing is ever recognised; with profiles
enabled the result is `Find`'s, so every theorem above applies to `findIn true`. -/
theorem profiles_disabled_anonymous (s : Srv) (db : DB) (rq : Req) :
    findIn false s db rq = .none ∧ continues (findIn false s db rq) = true ∧
      deviceDataOf (findIn false s db rq) = none ∧ findIn true s db rq = find s db rq := by
  simp [findIn, continues, deviceDataOf]

/-- Recognition through the configured finder implies profiles are enabled and `Find` recognised. -/
theorem findIn_ok (en : Bool) (s : Srv) (db : DB) (rq : Req) (p : Profile) (d : Device)
    (h : findIn en s db rq = .ok p d) : en = true ∧ find s db rq = .ok p d := by
  cases en <;> simp [findIn] at h ⊢
  exact h

/-! ## From the HTTP request (the DoH server's `addRequestInfo`) -/

/-- **http_userinfo_has_password.**  The userinfo the DoH server hands to the finder exists iff the
`Authorization` header parses as basic credentials, and then it always carries a password (possibly
empty): "user without password" cannot arise from an HTTP request. -/
theorem http_userinfo_has_password (hr : HttpReq) (rq : Req) (u : Str) (pw : Option Str)
    (hui : (addRequestInfo hr rq).userinfo = some (u, pw)) :
    ∃ x, pw = some x ∧ parseBasicAuth hr.auth = some (u, x) := by
  simp only [addRequestInfo] at hui
  cases hp : parseBasicAuth hr.auth with
  | none => simp [hp] at hui
  | some up =>
    obtain ⟨u', x⟩ := up
    simp [hp] at hui
    obtain ⟨rfl, rfl⟩ := hui
    exact ⟨x, rfl, rfl⟩

/-- **http_bad_password_is_anonymous.**  Starting from the header: basic credentials naming a device
of a live profile with authentication enabled and a password — wrong or *empty* — that fails the
device's check give an authentication failure, whatever URL path, TLS server name, EDNS options and
addresses say; the request continues and is served without any profile. -/
theorem http_bad_password_is_anonymous (s : Srv) (db : DB) (hr : HttpReq) (rq : Req) (p : Profile)
    (d : Device) (u x : Str) (hdoh : s.proto = .doh) (hauth : parseBasicAuth hr.auth = some (u, x))
    (hvalid : validDeviceID u = true) (hdb : db.byDeviceID u = .found p d) (hlive : p.deleted = false)
    (hen : d.auth.enabled = true) (hbad : d.auth.check x = false) :
    find s db (addRequestInfo hr rq) = .authFail .failed ∧
      continues (find s db (addRequestInfo hr rq)) = true ∧
      deviceDataOf (find s db (addRequestInfo hr rq)) = none := by
  have hui : (addRequestInfo hr rq).userinfo = some (u, some x) := by simp [addRequestInfo, hauth]
  have := doh_userinfo_decision s db (addRequestInfo hr rq) u (some x) hdoh hui
  simp [hvalid, hdb, hlive, hen, hbad] at this
  simp [this, continues, deviceDataOf]

/-- **http_doh_only_needs_basic_auth.**  A DoH-only device is recognised from an HTTP request only
if the `Authorization` header parses as basic credentials whose password passes the device's
check; a device with authentication enabled is never recognised from a request whose header
carries a password that fails it. -/
theorem http_doh_only_needs_basic_auth (s : Srv) (db : DB) (hr : HttpReq) (rq : Req) (p : Profile)
    (d : Device) (hen : d.auth.enabled = true) (h : find s db (addRequestInfo hr rq) = .ok p d) :
    (d.auth.dohOnly = true → ∃ u x, parseBasicAuth hr.auth = some (u, x) ∧ d.auth.check x = true) ∧
      (s.proto = .doh → ∀ u x, parseBasicAuth hr.auth = some (u, x) → d.auth.check x = true) := by
  refine ⟨fun hdo => ?_, fun hdoh u x hp => ?_⟩
  · obtain ⟨_, u, pw, hui, hck⟩ := doh_only_never_elsewhere s db _ p d hen hdo h
    obtain ⟨x, hx, hp⟩ := http_userinfo_has_password hr rq u (some pw) hui
    injection hx with hx; subst hx
    exact ⟨u, pw, hp, hck⟩
  · have hui : (addRequestInfo hr rq).userinfo = some (u, some x) := by simp [addRequestInfo, hp]
    obtain ⟨pass, h1, h2⟩ := bad_password_never_recognised s db _ p d u (some x) hdoh hui hen h
    injection h1 with h1; subst h1; exact h2

/-- **only_ok_exposes_profile.**  The rest of the pipeline sees a profile exactly for an OK result;
authentication failures continue as anonymous requests; errors and unknown dedicated addresses stop
the request. -/
theorem only_ok_exposes_profile (r : Result) (p : Profile) (d : Device) :
    (deviceDataOf r = some (p, d) ↔ r = .ok p d) ∧
      (∀ e, continues (.authFail e) = true ∧ deviceDataOf (.authFail e) = none) := by
  refine ⟨?_, fun e => ⟨rfl, rfl⟩⟩
  cases r <;> simp [deviceDataOf]

/-! ## Through `ratelimitmw.Middleware.Wrap` (what the later stages see) -/

/-- **served_exposes_only_recognised.**  The later stages (filtering, billing, query log) see a
profile and device only if `Find` recognised exactly them, the remote port is not 0, neither the
global access manager nor that profile's own access list blocks the request. -/
theorem served_exposes_only_recognised (g : Gate) (r : Result) (p : Profile) (d : Device)
    (h : exposed (wrap g r) = some (p, d)) :
    r = .ok p d ∧ g.port0 = false ∧ g.blockedIP = false ∧ g.blockedHost = false ∧
      g.profBlocks p.id = false := by
  unfold wrap at h
  cases h0 : g.port0 <;> simp only [h0] at h
  · cases h1 : (g.blockedIP || g.blockedHost || profileBlocked g r) <;> simp only [h1] at h
    · cases r <;> simp [exposed, deviceDataOf] at h
      obtain ⟨rfl, rfl⟩ := h
      simp [profileBlocked, deviceDataOf] at h1
      exact ⟨rfl, rfl, h1.1.1, h1.1.2, h1.2⟩
    · simp [exposed] at h
  · simp [exposed] at h

/-- **serve_recognised_presents_own_identifier.**  End to end — finder construction, conversion of
the socket addresses (`Unmap`), `Find`, `Wrap`: whatever the later stages see attributed was
recognised by `Find` on a profile-enabled server group from the unmapped addresses, so (over a
well-formed database) the request literally presents that device's identifier through a channel of
its transport, the profile is live and the authentication policy is met. -/
theorem serve_recognised_presents_own_identifier (g : Gate) (en : Bool) (s : Srv) (db : DB) (rq : Req)
    (p : Profile) (d : Device) (hwf : db.WF) (h : exposed (serve g en s db rq) = some (p, d)) :
    en = true ∧ Presents s (normAddrs rq) p d ∧ d.id ∈ p.devices ∧ p.deleted = false ∧
      AuthMet s (normAddrs rq) d := by
  obtain ⟨hr, -⟩ := served_exposes_only_recognised g _ p d h
  obtain ⟨hen, hf⟩ := findIn_ok en s db _ p d hr
  have h1 := recognised_only_own_id s db _ p d hf
  exact ⟨hen, recognised_presents_own_identifier s db _ p d hwf hf,
    (recognised_device_is_own s db _ p d hwf hf).1, h1.2.1, h1.2.2⟩

/-- **blocked_never_answered.**  A request from a spoofed port or blocked by the global access
manager is dropped whatever the device finder said — also when it reported an error (no SERVFAIL
for blocked clients). -/
theorem blocked_never_answered (g : Gate) (r : Result)
    (h : g.port0 = true ∨ g.blockedIP = true ∨ g.blockedHost = true) : wrap g r = .dropped := by
  unfold wrap
  cases h0 : g.port0
  · rcases h with h | h | h
    · simp [h0] at h
    · simp [h]
    · simp [h]
  · simp

/-- **unrecognised_ignores_profile_access.**  The access list of a profile is consulted only for a
request recognised as that profile's: for every other device result (not found, authentication
failure, …) the outcome does not depend on any profile's access list — a client that failed
authentication can neither be blocked by nor probe the profile's settings. -/
theorem unrecognised_ignores_profile_access (g g' : Gate) (r : Result) (hr : deviceDataOf r = none)
    (h0 : g.port0 = g'.port0) (h1 : g.blockedIP = g'.blockedIP) (h2 : g.blockedHost = g'.blockedHost) :
    wrap g r = wrap g' r := by
  simp [wrap, profileBlocked, hr, h0, h1, h2]

/-- **bad_password_served_as_anonymous.**  `bad_password_is_anonymous` through `Wrap`: unless the
client is spoofed or globally blocked, the request with the wrong / empty / missing password is
handed to the next stages with an authentication-failure result and no profile, whatever the access
list of the named device's profile says. -/
theorem bad_password_served_as_anonymous (g : Gate) (s : Srv) (db : DB) (rq : Req) (p : Profile) (d : Device)
    (u : Str) (pw : Option Str) (hdoh : s.proto = .doh) (hui : rq.userinfo = some (u, pw))
    (hvalid : validDeviceID u = true) (hdb : db.byDeviceID u = .found p d) (hlive : p.deleted = false)
    (hen : d.auth.enabled = true) (hbad : ∀ pass, pw = some pass → d.auth.check pass = false)
    (h0 : g.port0 = false) (h1 : g.blockedIP = false) (h2 : g.blockedHost = false) :
    (∃ e, serve g true s db rq = .next (.authFail e)) ∧ exposed (serve g true s db rq) = none := by
  obtain ⟨⟨e, he⟩, -, -⟩ :=
    bad_password_is_anonymous s db (normAddrs rq) p d u pw hdoh (by simpa [normAddrs] using hui) hvalid hdb hlive hen hbad
  have : serve g true s db rq = .next (.authFail e) := by
    simp [serve, findIn, he, wrap, h0, h1, h2, profileBlocked, deviceDataOf]
  exact ⟨⟨e, this⟩, by simp [this, exposed, deviceDataOf]⟩

/-- **dnscrypt_served_as_anonymous.**  DNSCrypt through `Wrap`: never a profile, and — unless
spoofed or globally blocked — always served. -/
theorem dnscrypt_served_as_anonymous (g : Gate) (en : Bool) (s : Srv) (db : DB) (rq : Req)
    (h : s.proto = .dnscrypt ∨ s.proto = .invalid) :
    exposed (serve g en s db rq) = none ∧
      (g.port0 = false → g.blockedIP = false → g.blockedHost = false → serve g en s db rq = .next .none) := by
  have hf : findIn en s db (normAddrs rq) = .none := by
    cases en
    · simp [findIn]
    · simpa [findIn] using (dnscrypt_anonymous s db (normAddrs rq) h).1
  refine ⟨?_, fun h0 h1 h2 => by simp [serve, hf, wrap, h0, h1, h2, profileBlocked, deviceDataOf]⟩
  simp only [serve, hf, wrap]
  cases g.port0 <;> cases g.blockedIP <;> cases g.blockedHost <;> simp [exposed, deviceDataOf, profileBlocked]

/-- **unmap_only_mapped.**  The address conversion changes IPv4-mapped IPv6 addresses only; in
particular a zoned address (`fe80::1%eth0`, what a socket reports for a link-local client) reaches
the database look-up with its zone, where it equals no stored linked or dedicated address: such a
client is *not* recognised by address (the safe direction for this property). -/
theorem unmap_only_mapped (ip : IP) (h : "::ffff:".toList.isPrefixOf ip.toList = false) : unmapIP ip = ip := by
  unfold unmapIP
  simp only [h, Bool.false_and]
  rfl

/-! ## Where the authentication settings come from (backend message, cache file)

The settings a device is judged by are what the backend's `AuthenticationSettings` message said, whether the
profile database has the device from the backend directly or from the cache file an earlier full
synchronisation wrote.  The policy is stated on the *message* (`BackendPolicyMet`), with no converter inside. -/

/-- The message's hash (if it has one) accepts the password. -/
def MsgAccepts (a : MsgAuth) (pw : Str) : Prop := ∀ c, a.hash = some c → c pw = true

/-- The authentication policy of the backend's message `m` for a device is met by the request: no message,
no demand; `doh_auth_only` ⇒ DoH with a user and a password that the hash, if any, accepts; on DoH a request
with userinfo has a password that the hash, if any, accepts. -/
def BackendPolicyMet (s : Srv) (rq : Req) (m : Option MsgAuth) : Prop :=
  ∀ a, m = some a →
    (a.dohOnly = true → s.proto = .doh ∧ ∃ u pw, rq.userinfo = some (u, some pw) ∧ MsgAccepts a pw) ∧
    (s.proto = .doh → ∀ u pw, rq.userinfo = some (u, pw) → ∃ pass, pw = some pass ∧ MsgAccepts a pass)

/-- **cache_keeps_settings.**  Settings that are enabled survive the cache file unchanged — flags *and*
password check, with or without a hash; disabled settings come back disabled and not DoH-only. -/
theorem cache_keeps_settings (a : AuthSettings) :
    (a.enabled = true → throughCache a = a) ∧
    (a.enabled = false → (throughCache a).enabled = false ∧ (throughCache a).dohOnly = false) := by
  obtain ⟨en, d, h⟩ := a
  constructor
  · intro he
    simp only at he
    subst he
    cases h <;> rfl
  · intro he
    simp only at he
    subst he
    exact ⟨rfl, rfl⟩

/-- **cache_keeps_backend_settings.**  Whatever the backend said about a device, a restart from the cache
file yields exactly the settings the backend's message yields. -/
theorem cache_keeps_backend_settings (src : Source) (m : Option MsgAuth) : settingsFrom src m = authOfMsg m := by
  cases src
  · rfl
  · cases m with
    | none => rfl
    | some a => obtain ⟨d, h⟩ := a; cases h <;> rfl

/-- The converted settings say what the message says. -/
theorem authFrom_spec (src : Source) (m : Option MsgAuth) :
    (authFrom src m).enabled = m.isSome ∧
    (authFrom src m).dohOnly = (match m with | some a => a.dohOnly | none => false) ∧
    ∀ pw, (authFrom src m).check pw = (match m with | some ⟨_, some c⟩ => c pw | _ => true) := by
  unfold authFrom
  rw [cache_keeps_backend_settings]
  cases m with
  | none => exact ⟨rfl, rfl, fun _ => rfl⟩
  | some a => obtain ⟨d, h⟩ := a; cases h <;> exact ⟨rfl, rfl, fun _ => rfl⟩

/-- **recognised_meets_backend_policy.**  A request is attributed to a device only if it meets the
authentication policy of the backend's message for that device — from whichever source (backend, cache
file) the profile database has the device. -/
theorem recognised_meets_backend_policy (s : Srv) (db : DB) (rq : Req) (p : Profile) (d : Device)
    (src : Source) (m : Option MsgAuth) (hd : d.auth = authFrom src m) (h : find s db rq = .ok p d) :
    BackendPolicyMet s rq m := by
  have hmet := (recognised_only_own_id s db rq p d h).2.2
  obtain ⟨hen, hdo, hck⟩ := authFrom_spec src m
  intro a ha
  subst ha
  rw [← hd] at hen hdo hck
  have hmet := hmet hen
  have hacc : ∀ pw, d.auth.check pw = true → MsgAccepts a pw := by
    intro pw hpw c hc
    have := hck pw
    obtain ⟨ad, ah⟩ := a
    simp only at hc
    subst hc
    simp only at this
    rw [← this]; exact hpw
  constructor
  · intro hdoh
    have hd' : d.auth.dohOnly = true := by rw [hdo]; exact hdoh
    obtain ⟨hp, u, pw, hu, hc⟩ := hmet.1 hd'
    exact ⟨hp, u, pw, hu, hacc pw hc⟩
  · intro hp u pw hu
    obtain ⟨pass, hpass, hc⟩ := hmet.2 hp u pw hu
    exact ⟨pass, hpass, hacc pass hc⟩

/-- **backend_doh_only_never_elsewhere.**  A device whose backend message says `doh_auth_only` — with or
without a password hash — is recognised only on DoH and only with a user and a password in the request,
also after a restart from the cache file. -/
theorem backend_doh_only_never_elsewhere (s : Srv) (db : DB) (rq : Req) (p : Profile) (d : Device)
    (src : Source) (a : MsgAuth) (hd : d.auth = authFrom src (some a)) (hdo : a.dohOnly = true)
    (h : find s db rq = .ok p d) :
    s.proto = .doh ∧ ∃ u pw, rq.userinfo = some (u, some pw) ∧ MsgAccepts a pw :=
  ((recognised_meets_backend_policy s db rq p d src (some a) hd h) a rfl).1 hdo

/-- **backend_bad_password_never_recognised.**  On DoH, userinfo without a password, or with one the
message's hash rejects, never yields recognition of a device that has an authentication message. -/
theorem backend_bad_password_never_recognised (s : Srv) (db : DB) (rq : Req) (p : Profile) (d : Device)
    (src : Source) (a : MsgAuth) (c : Str → Bool) (hd : d.auth = authFrom src (some a)) (hc : a.hash = some c)
    (hp : s.proto = .doh) (u : Str) (pw : Option Str) (hu : rq.userinfo = some (u, pw))
    (hbad : ∀ pass, pw = some pass → c pass = false) :
    find s db rq ≠ .ok p d := by
  intro h
  obtain ⟨pass, hpass, hacc⟩ := ((recognised_meets_backend_policy s db rq p d src (some a) hd h) a rfl).2 hp u pw hu
  have := hacc c hc
  rw [hbad pass hpass] at this
  cases this

/-- A cache writer that leaves out settings without a password hash (a seeded change) loses the
DoH-only demand of a password-less DoH-only device: why `cacheOfAuth` writes enabled settings
"whether or not there is a hash". -/
def cacheOfAuthHashedOnly (a : AuthSettings) : Option MsgAuth :=
  match a.hash with
  | .allow => none
  | .bcrypt c => if !a.enabled then none else some { dohOnly := a.dohOnly, hash := some c }

theorem hashed_only_cache_counterexample :
    ¬ ∀ m, (authOfMsg (cacheOfAuthHashedOnly (authOfMsg m))).dohOnly = (authOfMsg m).dohOnly := by
  intro h
  have := h (some { dohOnly := true, hash := none })
  cases this

/-! ## Non-vacuity: concrete instances satisfying the hypotheses -/

section Examples

def exDev (en doh : Bool) : Device :=
  { id := ['d', 'e', 'v', '1'], auth := { enabled := en, dohOnly := doh, check := fun s => s = ['p', 'w'] },
    humanLower := [], linkedIP := some "198.51.100.1", dedicated := [] }

def exProf : Profile := { id := ['p', '1'], deleted := false, devices := [['d', 'e', 'v', '1']] }

def exDB (en doh : Bool) : DB where
  byDeviceID i := if i = ['d', 'e', 'v', '1'] then .found exProf (exDev en doh) else .devNotFound
  byHumanID _ _ := .profNotFound
  createAuto _ _ _ := .profNotFound
  byLinkedIP a := if a = "198.51.100.1" then .found exProf (exDev en doh) else .devNotFound
  byDedicatedIP _ := .devNotFound

def exSrv (pr : Proto) : Srv :=
  { proto := pr, linkedIP := true, binds := [.addr "192.0.2.2" 53], domains := ["d.example".toList] }

def exReq (ui : Option (Str × Option Str)) (path sni : String) : Req :=
  { userinfo := ui, path := path.toList, sni := sni.toList, edns := some [⟨65074, ['d', 'e', 'v', '1']⟩],
    lip := "192.0.2.2", lport := 53, rip := "198.51.100.1" }

def isOK : Result → Bool
  | .ok _ _ => true
  | _ => false

def isAuthFail : Result → Bool
  | .authFail _ => true
  | _ => false

/-- Recognition happens on every supporting transport (the hypotheses of `recognised_only_own_id`,
`recognised_device_is_own` are satisfiable): DoH with the right password for a DoH-only device,
DoH by URL path, DoT by server name with different letter case, plain DNS by the EDNS option. -/
example : isOK (find (exSrv .doh) (exDB true true) (exReq (some (['d', 'e', 'v', '1'], some ['p', 'w'])) "/dns-query" "")) = true ∧
    isOK (find (exSrv .doh) (exDB false false) (exReq none "/dns-query/DEV1" "")) = true ∧
    isOK (find (exSrv .dot) (exDB true false) (exReq none "" "Dev1.D.example")) = true ∧
    isOK (find (exSrv .dns) (exDB false false) (exReq none "" "")) = true := by
  refine ⟨by decide, by decide, by decide, by decide⟩

/-- The hypotheses of `bad_password_is_anonymous`/`doh_only_never_elsewhere` are satisfiable and the
refusals really occur: wrong password, empty password, user only, DoH-only device on DoT and on DoH
without credentials. -/
example : isAuthFail (find (exSrv .doh) (exDB true false) (exReq (some (['d', 'e', 'v', '1'], some ['x'])) "/dns-query" "")) = true ∧
    isAuthFail (find (exSrv .doh) (exDB true false) (exReq (some (['d', 'e', 'v', '1'], some [])) "/dns-query" "")) = true ∧
    isAuthFail (find (exSrv .doh) (exDB true false) (exReq (some (['d', 'e', 'v', '1'], none)) "/dns-query" "")) = true ∧
    isAuthFail (find (exSrv .dot) (exDB true true) (exReq none "" "dev1.d.example")) = true ∧
    isAuthFail (find (exSrv .doh) (exDB true true) (exReq none "/dns-query/dev1" "")) = true := by
  refine ⟨by decide, by decide, by decide, by decide, by decide⟩

/-- `exDB` is well-formed. -/
example : (exDB true true).WF where
  byID i p d h := by
    simp only [exDB] at h; split at h
    · injection h with h1 h2; subst h1; subst h2; subst_vars; simp [exDev, exProf]
    · cases h
  byHuman _ _ _ _ h := by simp [exDB] at h
  auto _ _ _ _ _ h := by simp [exDB] at h
  linked a p d h := by
    simp only [exDB] at h; split at h
    · injection h with h1 h2; subst h1; subst h2; subst_vars; simp [exDev, exProf]
    · cases h
  ded _ _ _ h := by simp [exDB] at h

/-- Channel isolation is not vacuous: a DNSCrypt-irrelevant and a DoT-irrelevant difference. -/
example : SameChannels .dot (exReq none "/dns-query/dev1" "a.d.example")
    (exReq (some (['z'], none)) "" "a.d.example") := rfl

/-- `Presents` is satisfiable in every non-address form and not trivially true: the nested label
`x.dev1` in front of the device domain is not a prefix-label of the name (it contains a dot). -/
example : Presents (exSrv .dot) (exReq none "" "Dev1.D.example") exProf (exDev true false) :=
  .sni "Dev1".toList "d.example".toList rfl (by decide) (by decide) (by decide) (by decide) (by decide)
    (Or.inl (by decide))

example : Presents (exSrv .doh) (exReq none "/dns-query/DEV1" "") exProf (exDev false false) :=
  .dohPath "DEV1".toList rfl rfl (by decide) (Or.inl (by decide))

/-- The decision table's hypotheses are satisfiable (first conjunct of the refusal example above),
and the profiles-disabled finder refuses the request that `find` recognises. -/
example : isOK (findIn false (exSrv .dns) (exDB false false) (exReq none "" "")) = false ∧
    isOK (findIn true (exSrv .dns) (exDB false false) (exReq none "" "")) = true := by decide

/-- The HTTP-level hypotheses are satisfiable: `Basic ZGV2MTo=` is `dev1:` (empty password),
`Basic ZGV2MTp4` is `dev1:x`; both are refused for the auth-enabled `dev1`; `Basic ZGV2MTpwdw==`
(`dev1:pw`) is recognised even for the DoH-only device; a `Bearer` header is no userinfo. -/
example : parseBasicAuth "Basic ZGV2MTo=".toList = some ("dev1".toList, []) ∧
    parseBasicAuth "bAsIc ZGV2MTp4".toList = some ("dev1".toList, ['x']) ∧
    parseBasicAuth "Bearer ZGV2MTp4".toList = none ∧ parseBasicAuth "Basic ZGV2MQ==".toList = none := by decide

example : isAuthFail (find (exSrv .doh) (exDB true false)
      (addRequestInfo ⟨some [], "Basic ZGV2MTo=".toList, "/dns-query/dev1".toList⟩ (exReq none "" ""))) = true ∧
    isOK (find (exSrv .doh) (exDB true true)
      (addRequestInfo ⟨some [], "Basic ZGV2MTpwdw==".toList, "/dns-query".toList⟩ (exReq none "" ""))) = true := by
  decide

/-- Address conversion: mapped addresses are unmapped, zoned and ordinary ones are kept. -/
example : unmapIP "::ffff:198.51.100.1" = "198.51.100.1" ∧ unmapIP "fe80::1%eth0" = "fe80::1%eth0" ∧
    unmapIP "2001:db8::2" = "2001:db8::2" ∧ unmapIP "::ffff:0:1" = "::ffff:0:1" := by decide

/-- Through `Wrap`: the plain-DNS request recognised by its linked address is also recognised when
the socket reports the client as an IPv4-mapped address, not when it reports a zone; a profile access
list that blocks `p1` drops it; the gate hypotheses of `bad_password_served_as_anonymous` are
satisfiable. -/
def gateOpen : Gate := { port0 := false, blockedIP := false, blockedHost := false, profBlocks := fun _ => false }

example : (exposed (serve gateOpen true (exSrv .dns) (exDB false false) { exReq none "" "" with edns := none, rip := "::ffff:198.51.100.1" })).isSome = true ∧
    (exposed (serve gateOpen true (exSrv .dns) (exDB false false) { exReq none "" "" with edns := none, rip := "198.51.100.1%eth0" })).isSome = false ∧
    (exposed (serve { gateOpen with profBlocks := fun i => i = ['p', '1'] } true (exSrv .dns) (exDB false false) (exReq none "" ""))).isSome = false ∧
    (exposed (serve gateOpen true (exSrv .doh) (exDB true false) (exReq (some (['d', 'e', 'v', '1'], some ['x'])) "/dns-query" ""))).isSome = false := by
  decide

/-- DNSCrypt: the same request that is recognised on plain DNS is anonymous. -/
example : isOK (find (exSrv .dnscrypt) (exDB false false) (exReq none "" "")) = false := by decide

/-- A DoH-only device without a password hash, read back from the cache file: recognised over DoH with
any password, refused over DoT and over DoH without credentials (hypotheses of
`recognised_meets_backend_policy` / `backend_doh_only_never_elsewhere`). -/
def exMsgDB (src : Source) (m : Option MsgAuth) : DB where
  byDeviceID i := if i = ['d', 'e', 'v', '1'] then
      .found exProf { id := ['d', 'e', 'v', '1'], auth := authFrom src m } else .devNotFound
  byHumanID _ _ := .devNotFound
  createAuto _ _ _ := .devNotFound
  byLinkedIP _ := .devNotFound
  byDedicatedIP _ := .devNotFound

example : isOK (find (exSrv .doh) (exMsgDB .cacheFile (some ⟨true, none⟩))
      (exReq (some (['d', 'e', 'v', '1'], some ['x'])) "/dns-query" "")) = true ∧
    isAuthFail (find (exSrv .dot) (exMsgDB .cacheFile (some ⟨true, none⟩)) (exReq none "" "dev1.d.example")) = true ∧
    isAuthFail (find (exSrv .doh) (exMsgDB .cacheFile (some ⟨true, none⟩)) (exReq none "/dns-query/dev1" "")) = true ∧
    isOK (find (exSrv .dot) (exMsgDB .cacheFile none) (exReq none "" "dev1.d.example")) = true ∧
    isAuthFail (find (exSrv .doh) (exMsgDB .backend (some ⟨false, some (fun x => x = ['p', 'w'])⟩))
      (exReq (some (['d', 'e', 'v', '1'], some ['x'])) "/dns-query" "")) = true := by decide

end Examples

/-! ## The label of a TLS server name (fixed defect)

Before the fix `deviceDataFromCliSrvName` matched the device domain against the *lowercased* name but
cut the label from the original name with byte lengths.  Lowercasing changes the UTF-8 length of some
characters (U+212A KELVIN SIGN, three bytes, lowers to `k`), so the cut could fall one or more bytes
late and another identifier was looked up.  The fixed code takes the text before the first dot
(`sniLabel`); `immediate_label` shows that this is exactly the label in front of the matched domain. -/

/-- UTF-8 length of a character list. -/
def byteLen (s : Str) : Nat := (s.map Char.utf8Size).sum
/-- Go's `s[:n]` for `n` on a character boundary. -/
def takeBytes : Nat → Str → Str
  | _, [] => []
  | n, c :: r => if c.utf8Size ≤ n then c :: takeBytes (n - c.utf8Size) r else []
/-- `strings.ToLower` on ASCII plus the KELVIN SIGN. -/
def lowerK (s : Str) : Str := s.map fun c => if c = '\u212a' then 'k' else c.toLower
/-- The label as the code computed it before the fix. -/
def sniLabelOrig (sni dom : Str) : Str := takeBytes (byteLen sni - byteLen dom - 1) sni

/-- Pre-fix behaviour: under the device domain `doh.ki.example`, the name `otr-prof1-tv.doh.\u212ai.example`
is matched, and the label cut by byte lengths is `otr-prof1-tv.d` (human ID `tv.d`, normalised `tv-d`),
not the `otr-prof1-tv` the request carries.  Replayed on the real code by the harness (signature
`recognised-without-own-identifier`, device `hum3` with human ID `tv-d`). -/
theorem sni_orig_counterexample :
    isImmediateSubdomain (lowerK "otr-prof1-tv.doh.\u212ai.example".toList) "doh.ki.example".toList = true ∧
    sniLabelOrig "otr-prof1-tv.doh.\u212ai.example".toList "doh.ki.example".toList = "otr-prof1-tv.d".toList ∧
    sniLabel "otr-prof1-tv.doh.\u212ai.example".toList = "otr-prof1-tv".toList := by decide

/-- The fixed code: whenever a device domain matches, the label is the text in front of the domain's
dot, contains no dot, and is a prefix of the name as sent — for every name and domain. -/
theorem sni_label_is_first_label {sni dom : Str} (h : isImmediateSubdomain (lower sni) dom = true) :
    lower sni = lower (sniLabel sni) ++ '.' :: dom ∧ '.' ∉ lower (sniLabel sni) ∧ sniLabel sni <+: sni :=
  ⟨(immediate_label h).1, (immediate_label h).2, sniLabel_prefix sni⟩

example : isImmediateSubdomain (lower "Dev1.d.example".toList) "d.example".toList = true ∧
    sniLabel "Dev1.d.example".toList = "Dev1".toList := by decide

/-! ## Production wiring (round 5): from the configuration file to recognition

`srvOfConf` is the model of `serverGroups.toInternal` / `tlsConfig.toInternal` / `servers.toInternal` /
`serverProto.toInternal` / `dnssvc.newDeviceFinder`; `validWildcards` of `validateDeviceIDWildcards`.  The
statements below speak about the configuration file only. -/

theorem protoOfYAML_doh {n : Str} (h : protoOfYAML n = .doh) : n = "https".toList := by
  unfold protoOfYAML at h
  split at h
  · cases h
  split at h
  · cases h
  split at h
  · assumption
  split at h
  · cases h
  split at h
  · cases h
  cases h

theorem protoOfYAML_dns {n : Str} (h : protoOfYAML n = .dns) : n = "dns".toList := by
  unfold protoOfYAML at h
  split at h
  · assumption
  split at h
  · cases h
  split at h
  · cases h
  split at h
  · cases h
  split at h
  · cases h
  cases h

theorem protoOfYAML_enc {n : Str} (h : (protoOfYAML n).isStdEncrypted = true) :
    n = "https".toList ∨ n = "quic".toList ∨ n = "tls".toList := by
  unfold protoOfYAML at h
  split at h
  · simp [Proto.isStdEncrypted] at h
  split at h
  · simp [Proto.isStdEncrypted] at h
  split at h
  · left; assumption
  split at h
  · right; left; assumption
  split at h
  · right; right; assumption
  · simp [Proto.isStdEncrypted] at h

theorem srvOfConf_no_interfaces (g : GroupConf) (c : SrvConf) : (srvOfConf g c).bindsToInterfaces = false := by
  unfold srvOfConf Srv.bindsToInterfaces
  cases c.binds <;> simp

theorem wildcard_of_domain {ws : List Str} {dom : Str} (hv : validWildcards ws = true)
    (h : dom ∈ ws.map trimStarDot) : ('*' :: '.' :: dom) ∈ ws := by
  obtain ⟨w, hw, rfl⟩ := List.mem_map.1 h
  have hall : ∀ x ∈ ws, ['*', '.'].isPrefixOf x = true := by
    have := hv; unfold validWildcards at this
    simp only [Bool.and_eq_true, List.all_eq_true] at this
    exact this.1
  have hp := hall w hw
  match w, hp, hw with
  | '*' :: '.' :: r, _, hw => simpa [trimStarDot] using hw
  | [], hp, _ => simp at hp
  | [a], hp, _ => simp [List.isPrefixOf] at hp
  | a :: b :: r, hp, hw =>
    simp [List.isPrefixOf] at hp
    obtain ⟨rfl, rfl⟩ := hp
    simpa [trimStarDot] using hw

/-- "Carries the device's identifier", read on the configuration file: the TLS server name counts only
under a wildcard `*.<domain>` listed in *this* group's `tls.device_id_wildcards`, the client address
only on a `dns` server whose own `linked_ip_enabled` is set, and with `bind_addresses` there is no
dedicated-address channel at all. -/
inductive PresentsWired (g : GroupConf) (c : SrvConf) (rq : Req) (p : Profile) (d : Device) : Prop
  | dohUser (pw : Option Str) : c.proto = "https".toList → rq.userinfo = some (d.id, pw) → PresentsWired g c rq p d
  | dohPath (e : Str) : c.proto = "https".toList → rq.userinfo = none → e ∈ splitOn '/' rq.path → Names e p d →
      PresentsWired g c rq p d
  | sni (e dom : Str) : (c.proto = "https".toList ∨ c.proto = "quic".toList ∨ c.proto = "tls".toList) →
      (c.proto = "https".toList → rq.userinfo = none) → ('*' :: '.' :: dom) ∈ g.wildcards → e <+: rq.sni →
      lower rq.sni = lower e ++ '.' :: dom → '.' ∉ lower e → Names e p d → PresentsWired g c rq p d
  | edns (opts : List EOpt) (o : EOpt) : c.proto = "dns".toList → rq.edns = some opts → o ∈ opts →
      o.code = 65074 → o.data = d.id → PresentsWired g c rq p d
  | linked : c.proto = "dns".toList → c.linked = true → d.linkedIP = some rq.rip → PresentsWired g c rq p d

/-- **wired_recognised_presents.**  For every accepted configuration (`validWildcards`), every group and
server of it, every request and well-formed database: a request that server `c` of group `g` attributes
to `(p, d)` was served by a group with `profiles_enabled`, presents `d`'s identifier in the sense of
`PresentsWired` (on the unmapped addresses), `d` is listed in the live profile `p`, and the
authentication policy is met. -/
theorem wired_recognised_presents (g : GroupConf) (c : SrvConf) (db : DB) (rq : Req) (p : Profile) (d : Device)
    (hv : validWildcards g.wildcards = true) (hwf : db.WF) (h : findWired g c db rq = .ok p d) :
    g.profiles = true ∧ PresentsWired g c (normAddrs rq) p d ∧ d.id ∈ p.devices ∧ p.deleted = false ∧
      AuthMet (srvOfConf g c) (normAddrs rq) d := by
  obtain ⟨hen, hf⟩ := findIn_ok _ _ db _ p d h
  have h1 := recognised_only_own_id _ db _ p d hf
  refine ⟨hen, ?_, (recognised_device_is_own _ db _ p d hwf hf).1, h1.2.1, h1.2.2⟩
  have hp := recognised_presents_own_identifier _ db _ p d hwf hf
  cases hp with
  | dohUser pw hdoh hui => exact .dohUser pw (protoOfYAML_doh hdoh) hui
  | dohPath e hdoh hui he hn => exact .dohPath e (protoOfYAML_doh hdoh) hui he hn
  | sni e dom henc hu hdom hpre hlow hdot hn =>
    refine .sni e dom (protoOfYAML_enc henc) ?_ (wildcard_of_domain hv hdom) hpre hlow hdot hn
    intro hc; apply hu; simp [srvOfConf, hc, protoOfYAML]
  | edns opts o hdns hopts ho hcode hdata => exact .edns opts o (protoOfYAML_dns hdns) hopts ho hcode hdata
  | address ha =>
    obtain ⟨hdns, hor⟩ := ha
    rcases hor with ⟨hb, -, -⟩ | ⟨hl, hd⟩
    · rw [srvOfConf_no_interfaces] at hb; cases hb
    · exact .linked (protoOfYAML_dns hdns) hl hd

/-- **wired_profiles_disabled_anonymous.**  A group with `profiles_enabled: false` never recognises,
whatever its wildcards, servers and the other groups of the file say. -/
theorem wired_profiles_disabled_anonymous (g : GroupConf) (c : SrvConf) (db : DB) (rq : Req)
    (h : g.profiles = false) : findWired g c db rq = .none := by
  simp [findWired, findIn, h]

/-- **wired_foreign_wildcard_never_recognises.**  On DoT / DoQ a server name that is not
`<label>.<domain>` for a wildcard `*.<domain>` of the group's *own* list never leads to recognition —
in particular not a name under a wildcard that only another group of the file lists. -/
theorem wired_foreign_wildcard_never_recognises (g : GroupConf) (c : SrvConf) (db : DB) (rq : Req)
    (p : Profile) (d : Device) (hv : validWildcards g.wildcards = true) (hwf : db.WF)
    (hproto : c.proto = "quic".toList ∨ c.proto = "tls".toList)
    (hno : ∀ e dom, ('*' :: '.' :: dom) ∈ g.wildcards → lower rq.sni ≠ lower e ++ '.' :: dom) :
    findWired g c db rq ≠ .ok p d := by
  intro h
  obtain ⟨-, hp, -⟩ := wired_recognised_presents g c db rq p d hv hwf h
  cases hp with
  | dohUser pw hc _ => rcases hproto with h' | h' <;> simp [h'] at hc
  | dohPath e hc _ _ _ => rcases hproto with h' | h' <;> simp [h'] at hc
  | sni e dom _ _ hw _ hlow _ _ => exact hno e dom hw hlow
  | edns opts o hc _ _ _ _ => rcases hproto with h' | h' <;> simp [h'] at hc
  | linked hc _ _ => rcases hproto with h' | h' <;> simp [h'] at hc

/-- **wired_dnscrypt_anonymous.**  A `dnscrypt` server — and any protocol name the file format does not
know — never recognises. -/
theorem wired_dnscrypt_anonymous (g : GroupConf) (c : SrvConf) (db : DB) (rq : Req)
    (h : c.proto ≠ "dns".toList ∧ c.proto ≠ "https".toList ∧ c.proto ≠ "quic".toList ∧ c.proto ≠ "tls".toList) :
    findWired g c db rq = .none := by
  obtain ⟨h1, h2, h3, h4⟩ := h
  have hp : supportsDeviceID (protoOfYAML c.proto) = false := by
    unfold protoOfYAML
    simp only [if_neg h1, if_neg h2, if_neg h3, if_neg h4]
    split <;> rfl
  unfold findWired findIn find
  split
  · rfl
  · have : supportsDeviceID (srvOfConf g c).proto = false := hp
    simp [this]

/-- A reader of the wildcards that forgets to separate the groups (one list accumulated over the file)
violates the statement: group 2 lists nothing, yet a name under group 1's wildcard is recognised. -/
theorem wired_accumulated_domains_counterexample :
    ∃ (g1 g2 : GroupConf) (c : SrvConf) (db : DB) (rq : Req),
      validWildcards g1.wildcards = true ∧ g2.wildcards = [] ∧ db.WF ∧
      isOK (findIn g2.profiles { srvOfConf g2 c with domains := deviceDomainsOf g1 ++ deviceDomainsOf g2 } db (normAddrs rq)) = true ∧
      isOK (findWired g2 c db rq) = false := by
  refine ⟨{ profiles := true, wildcards := ["*.d.example".toList] }, { profiles := true, wildcards := [] },
    { proto := "tls".toList, linked := false, binds := [("192.0.2.2", 853)] }, exDB false false,
    exReq none "" "dev1.d.example", by decide, rfl, ?_, by decide, by decide⟩
  exact {
    byID := fun i p d h => by
      simp only [exDB] at h; split at h
      · injection h with h1 h2; subst h1; subst h2; subst_vars; simp [exDev, exProf]
      · cases h
    byHuman := fun _ _ _ _ h => by simp [exDB] at h
    auto := fun _ _ _ _ _ h => by simp [exDB] at h
    linked := fun a p d h => by
      simp only [exDB] at h; split at h
      · injection h with h1 h2; subst h1; subst h2; subst_vars; simp [exDev, exProf]
      · cases h
    ded := fun _ _ _ h => by simp [exDB] at h }

example : validWildcards ["*.d.dns.example".toList, "*.".toList, "*.D.dns.example".toList] = true ∧
    validWildcards ["d.dns.example".toList] = false ∧
    validWildcards ["*.a".toList, "*.a".toList] = false := by decide

example : isOK (findWired { profiles := true, wildcards := ["*.d.example".toList] }
    { proto := "tls".toList, linked := false, binds := [("192.0.2.2", 853)] } (exDB false false)
    (exReq none "" "Dev1.D.example")) = true := by decide


end Agd.Device

#print axioms Agd.Device.protoOfYAML_doh
#print axioms Agd.Device.protoOfYAML_dns
#print axioms Agd.Device.protoOfYAML_enc
#print axioms Agd.Device.srvOfConf_no_interfaces
#print axioms Agd.Device.wildcard_of_domain
#print axioms Agd.Device.wired_recognised_presents
#print axioms Agd.Device.wired_profiles_disabled_anonymous
#print axioms Agd.Device.wired_foreign_wildcard_never_recognises
#print axioms Agd.Device.wired_dnscrypt_anonymous
#print axioms Agd.Device.wired_accumulated_domains_counterexample
#print axioms Agd.Device.recognised_only_own_id
#print axioms Agd.Device.recognised_device_is_own
#print axioms Agd.Device.doh_only_never_elsewhere
#print axioms Agd.Device.bad_password_never_recognised
#print axioms Agd.Device.bad_password_is_anonymous
#print axioms Agd.Device.dnscrypt_anonymous
#print axioms Agd.Device.channel_isolation
#print axioms Agd.Device.only_ok_exposes_profile
#print axioms Agd.Device.recognised_presents_own_identifier
#print axioms Agd.Device.doh_userinfo_decision
#print axioms Agd.Device.profiles_disabled_anonymous
#print axioms Agd.Device.findIn_ok
#print axioms Agd.Device.http_userinfo_has_password
#print axioms Agd.Device.http_bad_password_is_anonymous
#print axioms Agd.Device.http_doh_only_needs_basic_auth
#print axioms Agd.Device.served_exposes_only_recognised
#print axioms Agd.Device.serve_recognised_presents_own_identifier
#print axioms Agd.Device.blocked_never_answered
#print axioms Agd.Device.unrecognised_ignores_profile_access
#print axioms Agd.Device.bad_password_served_as_anonymous
#print axioms Agd.Device.dnscrypt_served_as_anonymous
#print axioms Agd.Device.unmap_only_mapped
#print axioms Agd.Device.sni_orig_counterexample
#print axioms Agd.Device.sni_label_is_first_label
#print axioms Agd.Device.cache_keeps_settings
#print axioms Agd.Device.cache_keeps_backend_settings
#print axioms Agd.Device.authFrom_spec
#print axioms Agd.Device.recognised_meets_backend_policy
#print axioms Agd.Device.backend_doh_only_never_elsewhere
#print axioms Agd.Device.backend_bad_password_never_recognised
#print axioms Agd.Device.hashed_only_cache_counterexample
#print axioms Agd.Tie.TrC03.translation_complete
#print axioms Agd.Tie.TrC03.supportsDeviceID_tr
#print axioms Agd.Tie.TrC03.supportsDeviceID_iff
#print axioms Agd.Tie.TrC03.dnscrypt_unsupported
#print axioms Agd.Tie.TrC03.isStdEncrypted_tr
#print axioms Agd.Tie.TrC03.authenticate_tr
#print axioms Agd.Tie.TrC03.authenticate_accepts_iff
#print axioms Agd.Tie.TrC03.dohOnly_never_elsewhere
#print axioms Agd.Tie.TrC03.bad_password_refused
#print axioms Agd.Tie.TrC03.authenticate_no_panic
#print axioms Agd.Tie.TrC03.deviceData_plain_only_edns
#print axioms Agd.Tie.TrC03.deviceData_encrypted_ignores_edns
#print axioms Agd.Tie.TrC03.srvReqInfo_doh_first
#print axioms Agd.Tie.TrC03.srvReqInfo_sni
#print axioms Agd.Tie.TrC03.srvReqInfo_no_panic
#print axioms Agd.Tie.TrC03.doh_userinfo_first
#print axioms Agd.Tie.TrC03.doh_no_userinfo_url
#print axioms Agd.Tie.TrC03.dohURL_structure
#print axioms Agd.Tie.TrC03.splitListN_ne_nil
#print axioms Agd.Tie.TrC03.goSplit_ne_nil
#print axioms Agd.Tie.TrC03.pathElements_eq
#print axioms Agd.Tie.TrC03.pathElements_no_panic
#print axioms Agd.Tie.TrC03.peSpec_ok
#print axioms Agd.Tie.TrC03.matchDomain_eq
#print axioms Agd.Tie.TrC03.matchDomain_tr
#print axioms Agd.Tie.TrC03.cliSrvName_structure
#print axioms Agd.Tie.TrC03.isLikelyExtHumanID_iff
#print axioms Agd.Tie.TrC03.isLikelyExtHumanID_tr
#print axioms Agd.Tie.TrC03.parseDeviceData_structure
#print axioms Agd.Tie.TrC03.parseExtHumanID_no_panic
#print axioms Agd.Tie.TrC03.parseExtHumanID_parts
#print axioms Agd.Tie.TrC03.parseExtHumanID_short
#print axioms Agd.Tie.TrC03.deviceByExtID_structure
#print axioms Agd.Tie.TrC03.deviceByExtID_panic_iff
#print axioms Agd.Tie.TrC03.deviceFromDB_by_id
#print axioms Agd.Tie.TrC03.deviceFromDB_by_ext
#print axioms Agd.Tie.TrC03.deviceFromDB_no_id
#print axioms Agd.Tie.TrC03.deviceByAddrs_structure
#print axioms Agd.Tie.TrC03.dedicated_never_linked
#print axioms Agd.Tie.TrC03.newDeviceResult_nil_iff
#print axioms Agd.Tie.TrC03.isProfileDBNotFound_eq
#print axioms Agd.Tie.TrC03.isBlockedGlobally_eq
#print axioms Agd.Tie.TrC03.isBlockedByProfile_eq
#print axioms Agd.Tie.TrC03.isBlockedByAccess_profile_only
#print axioms Agd.Tie.TrC03.wrap_trace
#print axioms Agd.Tie.TrC03.wrap_tr
#print axioms Agd.Tie.TrC03.wrap_put_once
#print axioms Agd.Tie.TrC03.deviceData_only_ok
#print axioms Agd.Tie.TrC03.newDeviceFinder_spec
#print axioms Agd.Tie.TrC03.pbAuth_toInternal_spec
#print axioms Agd.Tie.TrC03.fcAuth_toInternal_spec
#print axioms Agd.Tie.TrC03.converted_dohOnly_implies_enabled
#print axioms Agd.Tie.TrC03.dohPassword_nonnil
#print axioms Agd.Tie.TrC03.fcAuth_roundtrip
#print axioms Agd.Tie.TrC03.pbAuth_toInternal_model
#print axioms Agd.Tie.TrC03.fcAuth_toInternal_model
#print axioms Agd.Tie.TrC03.fcAuthToProtobuf_model
#print axioms Agd.Tie.TrC03.fcAuthToProtobuf_written_iff
#print axioms Agd.Tie.TrC03.fcDohPasswordToProtobuf_spec
#print axioms Agd.Tie.TrC03.fcDohPasswordToInternal_spec
#print axioms Agd.Tie.TrC03.fcDohPassword_roundtrip
