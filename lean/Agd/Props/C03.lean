import Agd.Lemmas.Device
import Agd.Tie.C03
/-!
# C03 — a device is recognised only via its own identifier and only when authenticated

Property theorems only.  The model is `Agd/Model/Device.lean` (`find` = `devicefinder.Default.Find`,
`continues` = `ratelimitmw.handleDeviceResult`, `deviceDataOf` = `agd.RequestInfo.DeviceData`); the
specification vocabulary (`Carried`, `Maps`, `ByAddress`, `AuthMet`, `DB.WF`, `Owns`, `OwnAddress`,
`SameChannels`) and the inversion lemmas live in `Agd/Lemmas/Device.lean`.

All theorems hold for every server configuration, every request and every profile database
(five arbitrary lookup functions, arbitrary password checks).
-/
namespace Agd.Device

/-- **recognised_only_own_id.**  If a request is attributed to profile `p` and device `d`, then
(1) it carried an identifier through a channel valid for its transport which the database maps to
exactly `(p, d)` — or, on plain DNS only, its dedicated local address / linked remote address maps
to `(p, d)` —, (2) the profile is not deleted, and (3) the device's authentication policy is met. -/
theorem recognised_only_own_id (s : Srv) (db : DB) (rq : Req) (p : Profile) (d : Device)
    (h : find s db rq = .ok p d) :
    ((∃ dd, Carried s rq dd ∧ Maps db dd p d) ∨ ByAddress s db rq p d) ∧
      p.deleted = false ∧ AuthMet s rq d := by
  obtain ⟨hs, dd, hdd, hfd, hau⟩ := find_ok h
  obtain ⟨hdb, hdel⟩ := findDevice_ok hfd
  refine ⟨?_, hdel, authenticate_none hau⟩
  rcases deviceFromDB_ok hdb with ⟨hne, hm⟩ | ⟨_, ha⟩
  · rcases deviceData_carried hs hdd with h0 | hc
    · exact absurd h0 hne
    · exact Or.inl ⟨dd, hc, hm⟩
  · exact Or.inr ha

/-- **recognised_device_is_own.**  Over a well-formed database (successful lookups return a device
that has the looked-up identifier and is listed in the returned profile — what `profiledb.Default`
re-checks on every lookup) the recognised device still belongs to the profile, and the identifier
carried by the request (or its address) is the device's *own*. -/
theorem recognised_device_is_own (s : Srv) (db : DB) (rq : Req) (p : Profile) (d : Device)
    (hwf : db.WF) (h : find s db rq = .ok p d) :
    d.id ∈ p.devices ∧ ((∃ dd, Carried s rq dd ∧ Owns p d dd) ∨ OwnAddress s rq d) := by
  rcases (recognised_only_own_id s db rq p d h).1 with ⟨dd, hc, hm⟩ | ⟨hdns, ha⟩
  · cases hm with
    | byID i p d hf => have := hwf.byID _ _ _ hf; exact ⟨this.2, Or.inl ⟨_, hc, this.1⟩⟩
    | byHuman dt pid hid p d hf =>
      have := hwf.byHuman _ _ _ _ hf; exact ⟨this.2.2, Or.inl ⟨_, hc, this.1, this.2.1⟩⟩
    | auto dt pid hid p d _ hf =>
      have := hwf.auto _ _ _ _ _ hf; exact ⟨this.2.2, Or.inl ⟨_, hc, this.1, this.2.1⟩⟩
  · rcases ha with ⟨hb, hn, hf⟩ | ⟨hl, hf⟩
    · have := hwf.ded _ _ _ hf; exact ⟨this.2, Or.inr ⟨hdns, Or.inl ⟨hb, hn, this.1⟩⟩⟩
    · have := hwf.linked _ _ _ hf; exact ⟨this.2, Or.inr ⟨hdns, Or.inr ⟨hl, this.1⟩⟩⟩

/-- **doh_only_never_elsewhere.**  A device that requires DoH-only authentication is recognised
only on DoH, only with a user *and* a password in the request, and only if the password passes the
device's check. -/
theorem doh_only_never_elsewhere (s : Srv) (db : DB) (rq : Req) (p : Profile) (d : Device)
    (hen : d.auth.enabled = true) (hdo : d.auth.dohOnly = true) (h : find s db rq = .ok p d) :
    s.proto = .doh ∧ ∃ u pw, rq.userinfo = some (u, some pw) ∧ d.auth.check pw = true :=
  ((recognised_only_own_id s db rq p d h).2.2 hen).1 hdo

/-- **bad_password_never_recognised.**  On DoH, when userinfo is present, a device with
authentication enabled is recognised only if a password is present and passes the check. -/
theorem bad_password_never_recognised (s : Srv) (db : DB) (rq : Req) (p : Profile) (d : Device)
    (u : Str) (pw : Option Str) (hdoh : s.proto = .doh) (hui : rq.userinfo = some (u, pw))
    (hen : d.auth.enabled = true) (h : find s db rq = .ok p d) :
    ∃ pass, pw = some pass ∧ d.auth.check pass = true :=
  ((recognised_only_own_id s db rq p d h).2.2 hen).2 hdoh u pw hui

/-- **bad_password_is_anonymous.**  If the basic-auth user names a device of a live profile whose
authentication is enabled and the password is absent or fails the check (wrong, empty, …), the
result is an authentication failure: the request continues and is served without any profile. -/
theorem bad_password_is_anonymous (s : Srv) (db : DB) (rq : Req) (p : Profile) (d : Device)
    (u : Str) (pw : Option Str) (hdoh : s.proto = .doh) (hui : rq.userinfo = some (u, pw))
    (hvalid : validDeviceID u = true) (hdb : db.byDeviceID u = .found p d) (hlive : p.deleted = false)
    (hen : d.auth.enabled = true) (hbad : ∀ pass, pw = some pass → d.auth.check pass = false) :
    (∃ e, find s db rq = .authFail e) ∧ continues (find s db rq) = true ∧
      deviceDataOf (find s db rq) = none := by
  have hfind : ∃ e, find s db rq = .authFail e := by
    cases pw with
    | none =>
      exact ⟨.noPassword, by
        simp [find, supportsDeviceID, deviceData, Proto.isStdEncrypted, deviceDataFromSrvReqInfo,
          deviceDataForDoH, hdoh, hui, hvalid, findDevice, deviceFromDB, hdb, newDeviceResult, hlive,
          authenticatedResult, authenticate, hen]⟩
    | some pass =>
      have hb := hbad pass rfl
      exact ⟨.failed, by
        simp [find, supportsDeviceID, deviceData, Proto.isStdEncrypted, deviceDataFromSrvReqInfo,
          deviceDataForDoH, hdoh, hui, hvalid, findDevice, deviceFromDB, hdb, newDeviceResult, hlive,
          authenticatedResult, authenticate, hen, hb]⟩
  obtain ⟨e, he⟩ := hfind
  exact ⟨⟨e, he⟩, by simp [he, continues], by simp [he, deviceDataOf]⟩

/-- **dnscrypt_anonymous.**  DNSCrypt requests (and requests of any transport outside plain DNS,
DoH, DoT, DoQ) are never attributed: the result is "not found", the request continues without a
profile — whatever it carries and whatever the database contains. -/
theorem dnscrypt_anonymous (s : Srv) (db : DB) (rq : Req) (h : s.proto = .dnscrypt ∨ s.proto = .invalid) :
    find s db rq = .none ∧ continues (find s db rq) = true ∧ deviceDataOf (find s db rq) = none := by
  have : find s db rq = .none := by
    rcases h with h | h <;> simp [find, supportsDeviceID, h]
  simp [this, continues, deviceDataOf]

/-- **channel_isolation.**  Non-interference: what a request carries in a channel that is not valid
for its transport has no influence on the result.  Plain DNS looks only at EDNS and the two
addresses; DoT/DoQ only at the TLS server name; DoH at the userinfo and — only when there is no
userinfo — at the URL path and the TLS server name; every other transport at nothing. -/
theorem channel_isolation (s : Srv) (db : DB) (a b : Req) (h : SameChannels s.proto a b) :
    find s db a = find s db b := by
  cases hp : s.proto <;> simp only [hp, SameChannels] at h
  · simp [find, supportsDeviceID, hp]
  · obtain ⟨h1, h2, h3, h4⟩ := h
    exact find_congr (by simp [deviceData, hp, Proto.isStdEncrypted, h1]) (findDevice_addr h2 h3 h4)
      (authenticate_notDoH (by simp [hp]))
  · simp [find, supportsDeviceID, hp]
  · obtain ⟨h1, h2⟩ := h
    refine find_congr ?_ (findDevice_indep (by simp [hp])) (authenticate_userinfo h1)
    cases hu : a.userinfo with
    | none =>
      obtain ⟨h3, h4⟩ := h2 hu
      simp [deviceData, hp, Proto.isStdEncrypted, deviceDataFromSrvReqInfo, deviceDataForDoH,
        deviceDataFromSNIStep, ← h1, hu, h3, h4]
    | some up =>
      obtain ⟨u, pw⟩ := up
      have hb : b.userinfo = some (u, pw) := by rw [← h1, hu]
      simp only [deviceData, hp, Proto.isStdEncrypted, deviceDataFromSrvReqInfo, deviceDataForDoH, hu, hb]
      by_cases hv : validDeviceID u = true <;> simp [hv]
  · exact find_congr (by simp [deviceData, hp, Proto.isStdEncrypted, deviceDataFromSrvReqInfo,
      deviceDataFromSNIStep, h]) (findDevice_indep (by simp [hp])) (authenticate_notDoH (by simp [hp]))
  · exact find_congr (by simp [deviceData, hp, Proto.isStdEncrypted, deviceDataFromSrvReqInfo,
      deviceDataFromSNIStep, h]) (findDevice_indep (by simp [hp])) (authenticate_notDoH (by simp [hp]))

/-- **only_ok_exposes_profile.**  The rest of the pipeline sees a profile exactly for an OK result;
authentication failures continue as anonymous requests; errors and unknown dedicated addresses stop
the request. -/
theorem only_ok_exposes_profile (r : Result) (p : Profile) (d : Device) :
    (deviceDataOf r = some (p, d) ↔ r = .ok p d) ∧
      (∀ e, continues (.authFail e) = true ∧ deviceDataOf (.authFail e) = none) := by
  refine ⟨?_, fun e => ⟨rfl, rfl⟩⟩
  cases r <;> simp [deviceDataOf]

/-! ## Non-vacuity: concrete instances satisfying the hypotheses -/

section Examples

def exDev (en doh : Bool) : Device :=
  { id := ['d', 'e', 'v', '1'], auth := { enabled := en, dohOnly := doh, check := fun s => s = ['p', 'w'] },
    humanLower := [], linkedIP := some "198.51.100.1", dedicated := [] }

def exProf : Profile := { id := ['p', '1'], deleted := false, devices := [['d', 'e', 'v', '1']] }

def exDB (en doh : Bool) : DB where
  byDeviceID i := if i = ['d', 'e', 'v', '1'] then .found exProf (exDev en doh) else .devNotFound
  byHumanID _ _ := .profNotFound
  createAuto _ _ _ := .profNotFound
  byLinkedIP a := if a = "198.51.100.1" then .found exProf (exDev en doh) else .devNotFound
  byDedicatedIP _ := .devNotFound

def exSrv (pr : Proto) : Srv :=
  { proto := pr, linkedIP := true, binds := [.addr "192.0.2.2" 53], domains := ["d.example".toList] }

def exReq (ui : Option (Str × Option Str)) (path sni : String) : Req :=
  { userinfo := ui, path := path.toList, sni := sni.toList, edns := some [⟨65074, ['d', 'e', 'v', '1']⟩],
    lip := "192.0.2.2", lport := 53, rip := "198.51.100.1" }

def isOK : Result → Bool
  | .ok _ _ => true
  | _ => false

def isAuthFail : Result → Bool
  | .authFail _ => true
  | _ => false

/-- Recognition happens on every supporting transport (the hypotheses of `recognised_only_own_id`,
`recognised_device_is_own` are satisfiable): DoH with the right password for a DoH-only device,
DoH by URL path, DoT by server name with different letter case, plain DNS by the EDNS option. -/
example : isOK (find (exSrv .doh) (exDB true true) (exReq (some (['d', 'e', 'v', '1'], some ['p', 'w'])) "/dns-query" "")) = true ∧
    isOK (find (exSrv .doh) (exDB false false) (exReq none "/dns-query/DEV1" "")) = true ∧
    isOK (find (exSrv .dot) (exDB true false) (exReq none "" "Dev1.D.example")) = true ∧
    isOK (find (exSrv .dns) (exDB false false) (exReq none "" "")) = true := by
  refine ⟨by decide, by decide, by decide, by decide⟩

/-- The hypotheses of `bad_password_is_anonymous`/`doh_only_never_elsewhere` are satisfiable and the
refusals really occur: wrong password, empty password, user only, DoH-only device on DoT and on DoH
without credentials. -/
example : isAuthFail (find (exSrv .doh) (exDB true false) (exReq (some (['d', 'e', 'v', '1'], some ['x'])) "/dns-query" "")) = true ∧
    isAuthFail (find (exSrv .doh) (exDB true false) (exReq (some (['d', 'e', 'v', '1'], some [])) "/dns-query" "")) = true ∧
    isAuthFail (find (exSrv .doh) (exDB true false) (exReq (some (['d', 'e', 'v', '1'], none)) "/dns-query" "")) = true ∧
    isAuthFail (find (exSrv .dot) (exDB true true) (exReq none "" "dev1.d.example")) = true ∧
    isAuthFail (find (exSrv .doh) (exDB true true) (exReq none "/dns-query/dev1" "")) = true := by
  refine ⟨by decide, by decide, by decide, by decide, by decide⟩

/-- `exDB` is well-formed. -/
example : (exDB true true).WF where
  byID i p d h := by
    simp only [exDB] at h; split at h
    · injection h with h1 h2; subst h1; subst h2; subst_vars; simp [exDev, exProf]
    · cases h
  byHuman _ _ _ _ h := by simp [exDB] at h
  auto _ _ _ _ _ h := by simp [exDB] at h
  linked a p d h := by
    simp only [exDB] at h; split at h
    · injection h with h1 h2; subst h1; subst h2; subst_vars; simp [exDev, exProf]
    · cases h
  ded _ _ _ h := by simp [exDB] at h

/-- Channel isolation is not vacuous: a DNSCrypt-irrelevant and a DoT-irrelevant difference. -/
example : SameChannels .dot (exReq none "/dns-query/dev1" "a.d.example")
    (exReq (some (['z'], none)) "" "a.d.example") := rfl

/-- DNSCrypt: the same request that is recognised on plain DNS is anonymous. -/
example : isOK (find (exSrv .dnscrypt) (exDB false false) (exReq none "" "")) = false := by decide

end Examples

end Agd.Device

#print axioms Agd.Device.recognised_only_own_id
#print axioms Agd.Device.recognised_device_is_own
#print axioms Agd.Device.doh_only_never_elsewhere
#print axioms Agd.Device.bad_password_never_recognised
#print axioms Agd.Device.bad_password_is_anonymous
#print axioms Agd.Device.dnscrypt_anonymous
#print axioms Agd.Device.channel_isolation
#print axioms Agd.Device.only_ok_exposes_profile
