import Agd.Tie.TrC11
import Agd.Model.HashPrefix
import Agd.Lemmas.HashPrefix
import Agd.Tie.C11
/-!
C11 — safe-browsing lookups are sound and complete for hosts and hash prefixes.

All theorems are over the model `Agd.HashPrefix` and hold for every hash function `H`, every
public-suffix function `ps`, every list text, host, prefix string and reset history.
-/
namespace Agd.HashPrefix

def Injective (H : Bytes → Bytes) : Prop := ∀ a b, H a = H b → a = b

/-! ### Storage: `Matches` and `Hashes` against the list text -/

/-- After a successful reset the old contents are gone: the store is a function of the text. -/
theorem reset_replaces (H : Bytes → Bytes) (st₁ st₂ : Store) (text : Bytes) (h : tooLong text = false) :
    (reset H st₁ text).1 = (reset H st₂ text).1 ∧ (reset H st₁ text).2 = some (listed text).length := by
  simp [reset, h]

/-- A failed reset (scanner error) leaves the store as it was. -/
theorem reset_failed_keeps (H : Bytes → Bytes) (st : Store) (text : Bytes) (h : tooLong text = true) :
    reset H st text = (st, none) := by
  simp [reset, h]

/-- `Matches` is exactly membership of the digest in the digests of the listed names. -/
theorem matches_iff_hash_listed (H : Bytes → Bytes) (st : Store) (text host : Bytes)
    (h : tooLong text = false) :
    «matches» H (reset H st text).1 host = true ↔ ∃ n ∈ listed text, H n = H host := by
  simp only [«matches», reset, h, Bool.false_eq_true, if_false]
  exact matchesSum_build H (listed text) (H host)

/-- With a collision-free hash: `Matches host` ⇔ `host` is a listed name (blank lines and
comments are not names; duplicates and CRLF make no difference). -/
theorem matches_iff_listed (H : Bytes → Bytes) (hH : Injective H) (st : Store) (text host : Bytes)
    (h : tooLong text = false) :
    «matches» H (reset H st text).1 host = true ↔ host ∈ listed text := by
  rw [matches_iff_hash_listed H st text host h]
  constructor
  · rintro ⟨n, hn, he⟩; exact hH n host he ▸ hn
  · intro hm; exact ⟨host, hm, rfl⟩

/-- `Hashes prefs` contains exactly the digests of listed names that start with one of `prefs`. -/
theorem hashes_exact (H : Bytes → Bytes) (st : Store) (text : Bytes) (prefs : List Bytes) (x : Bytes)
    (h : tooLong text = false) :
    x ∈ hashes (reset H st text).1 prefs ↔ ∃ n ∈ listed text, H n = x ∧ (H n).take 2 ∈ prefs := by
  simp only [reset, h, Bool.false_eq_true, if_false]
  exact hashes_build H (listed text) prefs x

/-- The same with multiplicity: a digest is returned once for every list line carrying a name with
that digest (duplicated lines are not merged) and every occurrence of its prefix among `prefs`. -/
theorem hashes_multiplicity (H : Bytes → Bytes) (st : Store) (text : Bytes) (prefs : List Bytes) (x : Bytes)
    (h : tooLong text = false) :
    (hashes (reset H st text).1 prefs).count x =
      prefs.count (x.take 2) * (listed text).countP (fun n => H n == x) := by
  simp only [reset, h, Bool.false_eq_true, if_false]
  exact hashes_count H (listed text) prefs x

/-- Comments and blank lines are never names. -/
theorem listed_nonempty_noncomment (text n : Bytes) (h : n ∈ listed text) :
    n ≠ [] ∧ n.head? ≠ some sharp := by
  unfold listed at h
  rw [List.mem_filter] at h
  cases n with
  | nil => simp [keepLine] at h
  | cons c r => simpa [keepLine] using h.2

/-! ### What "a name of the list" means, without the parser -/

/-- `n` is a name of the list text: some line of the text (a stretch without line feeds between
the start of the text or a line feed and the end of the text or a line feed), minus one trailing
carriage return, is `n`; and `n` is neither empty nor a `#` comment.  Duplicated lines give the
same name; nothing else in the text does. -/
def IsName (text n : Bytes) : Prop :=
  n ≠ [] ∧ n.head? ≠ some sharp ∧ ∃ raw, IsLine lf text raw ∧ n = dropCR raw

/-- The parser of `Storage.Reset` finds exactly the names of the text. -/
theorem mem_listed_iff (text n : Bytes) : n ∈ listed text ↔ IsName text n := by
  unfold IsName
  constructor
  · intro h
    have hn := listed_nonempty_noncomment text n h
    unfold listed at h
    rw [List.mem_filter, List.mem_map] at h
    obtain ⟨⟨raw, hraw, he⟩, _⟩ := h
    exact ⟨hn.1, hn.2, raw, (mem_splitOn lf text raw).1 hraw, he.symm⟩
  · rintro ⟨h1, h2, raw, hraw, he⟩
    unfold listed
    rw [List.mem_filter, List.mem_map]
    refine ⟨⟨raw, (mem_splitOn lf text raw).2 hraw, he.symm⟩, ?_⟩
    cases n with
    | nil => exact absurd rfl h1
    | cons c r =>
      simp only [keepLine, bne_iff_ne, ne_eq]
      intro hc
      apply h2
      simp [hc]

/-! ### Across resets -/

/-- The text of the last successful reset of storage `i` in a history. -/
def lastGood (i : Nat) : List (Nat × Bytes) → Option Bytes
  | [] => none
  | (j, t) :: r =>
    match lastGood i r with
    | some t' => some t'
    | none => if j = i ∧ tooLong t = false then some t else none

/-- After any history of resets, storage `i` holds exactly the names of the last successful reset
applied to it (or what it held before, if there was none). -/
theorem history_last_reset (H : Bytes → Bytes) (stores : Nat → Store) (ops : List (Nat × Bytes)) (i : Nat) :
    runResets H stores ops i =
      match lastGood i ops with
      | none => stores i
      | some t => build H (listed t) := by
  induction ops generalizing stores with
  | nil => simp [runResets, lastGood]
  | cons op r ih =>
    obtain ⟨j, t⟩ := op
    simp only [runResets, lastGood]
    rw [ih]
    cases hl : lastGood i r with
    | some t' => simp
    | none =>
      simp only [resetAt]
      by_cases hj : j = i
      · subst hj
        by_cases ht : tooLong t = false
        · simp [ht, reset]
        · have ht' : tooLong t = true := by simpa using ht
          simp [ht', reset]
      · have hij : ¬ i = j := fun h => hj h.symm
        simp [hj, hij]

/-! ### Which names are hashed for a host -/

/-- `s ∈ hashableSubdomains ps d` ⇔ `s` is `d` or a parent domain of `d` (`d = … ++ "." ++ s`),
has at most four labels (three dots), and — when the ICANN public suffix `p` found for `d` is
itself such a name — is strictly longer than `p`, i.e. strictly below the public suffix. -/
theorem hashable_subdomains_spec (ps : Bytes → Bytes × Bool) (d s : Bytes) :
    s ∈ hashableSubdomains ps d ↔
      d ≠ [] ∧ DotSuffix s d ∧ countDots s ≤ 3 ∧
        (DotSuffix (effSuffix ps d) d ∧ countDots (effSuffix ps d) ≤ 3 →
          (effSuffix ps d).length < s.length) := by
  unfold hashableSubdomains hashableCore
  rw [mem_takeWhile_ne _ _ _ (subdomains_pairwise _), mem_subdomains_cut4, mem_subdomains_cut4]
  constructor
  · rintro ⟨⟨h1, h2, h3⟩, h4⟩; exact ⟨h1, h2, h3, fun h => h4 ⟨h1, h⟩⟩
  · rintro ⟨h1, h2, h3, h4⟩; exact ⟨⟨h1, h2, h3⟩, fun h => h4 h.2⟩

/-- In particular the public suffix itself and everything above it are never hashed (for a
suffix that is a parent of the host with at most four labels, as every ICANN suffix is). -/
theorem public_suffix_not_hashed (ps : Bytes → Bytes × Bool) (d s : Bytes)
    (hp : DotSuffix (effSuffix ps d) d) (hp3 : countDots (effSuffix ps d) ≤ 3)
    (hs : DotSuffix s (effSuffix ps d)) : s ∉ hashableSubdomains ps d := by
  intro h
  rw [hashable_subdomains_spec] at h
  obtain ⟨_, _, _, h4⟩ := h
  have h5 := h4 ⟨hp, hp3⟩
  have h6 := dotSuffix_length hs
  omega


/-! ### The stop name is the ICANN suffix, however many private rules lie above it -/

/-- The stop name used by `hashableSubdomains` is the result of the walk: from the look-up of the
host, through every private suffix in a row (each time looking up the parent of the suffix), to
the first ICANN answer, or `""` when the walk runs out of dots.  Fuel-free and, by
`walk_unique`, the only such name. -/
theorem stop_name_is_walk (ps : Bytes → Bytes × Bool) (hps : Shrinking ps) (d r : Bytes) :
    effSuffix ps d = r ↔ Walk ps (ps d) r :=
  ⟨fun h => h ▸ effSuffix_walk ps hps d, fun h => walk_unique ps _ _ _ (effSuffix_walk ps hps d) h⟩

/-- The stop name is never a private suffix: it is `""` or a name the list reports as an ICANN
suffix of itself. -/
theorem stop_name_icann (ps : Bytes → Bytes × Bool) (hps : Shrinking ps) (hc : Consistent ps) (d : Bytes) :
    effSuffix ps d = [] ∨ ps (effSuffix ps d) = (effSuffix ps d, true) := by
  rcases walk_result ps _ _ (effSuffix_walk ps hps d) with h | h | ⟨q, h⟩
  · exact Or.inl h
  · have := hc d (by rw [h])
    rw [h] at this; exact Or.inr this
  · have := hc q (by rw [h])
    rw [h] at this; exact Or.inr this

/-- Completeness of the set of hashed names: a parent of the host with at most four labels is left
out only if it is an ICANN suffix or lies above one (or is the empty name after a trailing dot).
In particular a private suffix, and a private suffix that another private suffix is registered
under, is always looked up. -/
theorem unhashed_only_icann (ps : Bytes → Bytes × Bool) (hps : Shrinking ps) (hc : Consistent ps)
    (d s : Bytes) (hd : d ≠ []) (hs : DotSuffix s d) (h3 : countDots s ≤ 3)
    (hn : s ∉ hashableSubdomains ps d) :
    s = [] ∨ ∃ p, ps p = (p, true) ∧ DotSuffix s p := by
  rw [hashable_subdomains_spec] at hn
  by_cases hp : DotSuffix (effSuffix ps d) d ∧ countDots (effSuffix ps d) ≤ 3
  · by_cases hl : (effSuffix ps d).length < s.length
    · exact absurd ⟨hd, hs, h3, fun _ => hl⟩ hn
    · have hsp : DotSuffix s (effSuffix ps d) := dotSuffix_total hs hp.1 (by omega)
      rcases stop_name_icann ps hps hc d with he | he
      · rw [he] at hl
        left
        cases s with
        | nil => rfl
        | cons c t => simp at hl
      · exact Or.inr ⟨_, he, hsp⟩
  · exact absurd ⟨hd, hs, h3, fun h => absurd h hp⟩ hn

/-! ### The filter's verdict -/

/-- The verdict of the filter: a host is treated as listed ⇔ the question type is A, AAAA or
HTTPS and one of the hashable names (host or parent, ≤ 4 labels, below the public suffix) is in
the list.  `H` collision-free. -/
theorem filter_iff_listed (H : Bytes → Bytes) (hH : Injective H) (ps : Bytes → Bytes × Bool)
    (st : Store) (text host : Bytes) (qt : Nat) (h : tooLong text = false) :
    (filterRule H ps (reset H st text).1 host qt).isSome = true ↔
      (qt = 1 ∨ qt = 28 ∨ qt = 65) ∧ ∃ s ∈ hashableSubdomains ps host, s ∈ listed text := by
  unfold filterRule
  by_cases hq : isFilterable qt = true
  · have hq' : qt = 1 ∨ qt = 28 ∨ qt = 65 := by
      simp [isFilterable] at hq; omega
    simp only [hq, if_true, hq', true_and]
    unfold firstMatch
    cases hf : List.find? (fun s => «matches» H (reset H st text).1 s) (hashableSubdomains ps host) with
    | none =>
      simp only [Option.isSome_none, Bool.false_eq_true, false_iff]
      rintro ⟨s, hs, hl⟩
      rw [List.find?_eq_none] at hf
      exact hf s hs ((matches_iff_listed H hH st text s h).2 hl)
    | some r =>
      have hm := List.find?_some hf
      have hr := List.mem_of_find?_eq_some hf
      rw [matches_iff_listed H hH st text r h] at hm
      have hne := (listed_nonempty_noncomment text r hm).1
      cases r with
      | nil => exact absurd rfl hne
      | cons c t =>
        simp only [Option.isSome_some, true_iff]
        exact ⟨c :: t, hr, hm⟩
  · have hq' : ¬ (qt = 1 ∨ qt = 28 ∨ qt = 65) := by
      simp [isFilterable] at hq; omega
    simp [hq, hq']

/-- The reported rule is a hashable name of the host that is in the list. -/
theorem filter_rule_sound (H : Bytes → Bytes) (hH : Injective H) (ps : Bytes → Bytes × Bool)
    (st : Store) (text host r : Bytes) (qt : Nat) (h : tooLong text = false)
    (hr : filterRule H ps (reset H st text).1 host qt = some r) :
    r ∈ hashableSubdomains ps host ∧ r ∈ listed text := by
  unfold filterRule at hr
  by_cases hq : isFilterable qt = true
  · simp only [hq, if_true] at hr
    unfold firstMatch at hr
    cases hf : List.find? (fun s => «matches» H (reset H st text).1 s) (hashableSubdomains ps host) with
    | none => simp [hf] at hr
    | some r' =>
      have hm := List.find?_some hf
      have hmem := List.mem_of_find?_eq_some hf
      rw [matches_iff_listed H hH st text r' h] at hm
      cases r' with
      | nil => simp [hf] at hr
      | cons c t =>
        simp [hf] at hr
        subst hr
        exact ⟨hmem, hm⟩
  · simp [hq] at hr

/-! ### Hash-prefix TXT queries -/

/-- A malformed prefix string under a safe-browsing suffix is refused, never passed on. -/
theorem bad_prefix_refused (stores : Nat → Store) (cfg : MatcherCfg) (host : Bytes) (e : Bytes × Nat)
    (hs : findSuffix cfg host = some e)
    (hb : prefixesFromStr (host.take (host.length - e.1.length)) = none) :
    respond stores cfg host 16 = .refused := by
  simp [respond, matchByPrefix, hs, hb]

/-- A well-formed prefix query is answered with exactly the hashes of the requested prefixes
from the storage of its suffix. -/
theorem prefix_query_answer (stores : Nat → Store) (cfg : MatcherCfg) (host : Bytes) (e : Bytes × Nat)
    (prefs : List Bytes) (hs : findSuffix cfg host = some e)
    (hp : prefixesFromStr (host.take (host.length - e.1.length)) = some prefs) :
    respond stores cfg host 16 = .txt (hashes (stores e.2) prefs) := by
  simp [respond, matchByPrefix, hs, hp]

/-- Everything else passes through: other question types and names under no configured suffix. -/
theorem pass_iff (stores : Nat → Store) (cfg : MatcherCfg) (host : Bytes) (qt : Nat) :
    respond stores cfg host qt = .pass ↔ qt ≠ 16 ∨ ∀ e ∈ cfg, ¬ e.1 <:+ host := by
  unfold respond
  by_cases hq : qt = 16
  · simp only [hq, if_true, ne_eq, not_true_eq_false, false_or]
    unfold matchByPrefix
    cases hf : findSuffix cfg host with
    | none =>
      simp only [true_iff]
      unfold findSuffix at hf
      rw [List.find?_eq_none] at hf
      intro e he; simpa using hf e he
    | some e =>
      have hm := List.find?_some hf
      have hmem := List.mem_of_find?_eq_some hf
      have : ¬ ∀ e ∈ cfg, ¬ e.1 <:+ host := fun hall => hall e hmem (by simpa using hm)
      cases hp : prefixesFromStr (host.take (host.length - e.1.length)) with
      | none =>
        constructor
        · intro h; simp only [hp] at h; simp at h
        · intro hall; exact absurd hall this
      | some prefs =>
        constructor
        · intro h; simp only [hp] at h; simp at h
        · intro hall; exact absurd hall this
  · simp [hq]

/-! ### Prefix strings, declaratively -/

/-- A well-formed prefix string: empty, or every dot-separated piece is four or eight hex digits. -/
def WfPrefixStr (s : Bytes) : Prop := s = [] ∨ ∀ p ∈ splitOn dot s, WfPiece p

/-- `b` (two bytes) is one of the prefixes a prefix string asks for: the first four characters of
one of its pieces spell `b` in hex (a legacy eight-character piece is truncated to four). -/
def Requested (s b : Bytes) : Prop := s ≠ [] ∧ ∃ p ∈ splitOn dot s, decodeHex (p.take 4) = some b

/-- `prefixesFromStr` fails exactly on the malformed strings: some piece is not four or eight
characters long, or contains a character that is not a hex digit (anywhere, also in the
discarded tail of a legacy piece). -/
theorem prefixesFromStr_none_iff (s : Bytes) : prefixesFromStr s = none ↔ ¬ WfPrefixStr s := by
  unfold prefixesFromStr WfPrefixStr
  by_cases hs : s = []
  · simp [hs]
  · simp only [hs, if_false, false_or]
    rw [twoPass_none]
    constructor
    · rintro ⟨p, hp, hv⟩ hall
      have := (pieceVal_isSome p).2 (hall p hp)
      rw [hv] at this; cases this
    · intro hn
      apply Classical.byContradiction
      intro hex
      apply hn
      intro p hp
      rw [← pieceVal_isSome]
      cases hv : pieceVal p with
      | none => exact absurd ⟨p, hp, hv⟩ hex
      | some x => rfl

/-- On a well-formed string it returns exactly the requested prefixes. -/
theorem prefixesFromStr_requested (s : Bytes) (prefs : List Bytes) (h : prefixesFromStr s = some prefs)
    (b : Bytes) : b ∈ prefs ↔ Requested s b := by
  have hwf : WfPrefixStr s := by
    apply Classical.byContradiction
    intro hn
    rw [← prefixesFromStr_none_iff, h] at hn
    cases hn
  unfold prefixesFromStr at h
  unfold Requested
  by_cases hs : s = []
  · simp only [hs, if_true, Option.some.injEq] at h
    subst h
    simp [hs]
  · simp only [hs, if_false] at h
    rw [twoPass_some _ _ h]
    rcases hwf with hwf | hwf
    · exact absurd hwf hs
    · simp only [ne_eq, hs, not_false_eq_true, true_and]
      constructor
      · rintro ⟨p, hp, hv⟩; exact ⟨p, hp, ((pieceVal_eq_some p b).1 hv).2⟩
      · rintro ⟨p, hp, hv⟩; exact ⟨p, hp, (pieceVal_eq_some p b).2 ⟨hwf p hp, hv⟩⟩

/-- The hex strings of the answers determine the digests, and a digest's string begins with the
string of its prefix. -/
theorem hexEncode_injective (a b : Bytes) (h : hexEncode a = hexEncode b) : a = b := by
  have := decodeHex_hexEncode a
  rw [h, decodeHex_hexEncode] at this
  exact (Option.some.inj this).symm

/-! ### End to end, across any history of resets -/

theorem lastGood_good (i : Nat) (ops : List (Nat × Bytes)) (t : Bytes) (h : lastGood i ops = some t) :
    tooLong t = false := by
  induction ops with
  | nil => simp [lastGood] at h
  | cons op r ih =>
    obtain ⟨j, t'⟩ := op
    simp only [lastGood] at h
    cases hl : lastGood i r with
    | some t'' => rw [hl] at h; simp only [Option.some.injEq] at h; subst h; exact ih hl
    | none =>
      rw [hl] at h
      by_cases hc : j = i ∧ tooLong t' = false
      · simp only [hc, and_self, if_true, Option.some.injEq] at h; subst h; exact hc.2
      · simp [hc] at h

theorem findSuffix_unique (cfg : MatcherCfg) (host suf : Bytes) (i : Nat) (hm : (suf, i) ∈ cfg)
    (hs : suf <:+ host) (hu : ∀ e ∈ cfg, e.1 <:+ host → e = (suf, i)) :
    findSuffix cfg host = some (suf, i) := by
  unfold findSuffix
  cases hf : cfg.find? (fun e => decide (e.1 <:+ host)) with
  | none =>
    rw [List.find?_eq_none] at hf
    have := hf (suf, i) hm
    simp at this
    exact absurd hs this
  | some e =>
    have h1 := List.find?_some hf
    have h2 := List.mem_of_find?_eq_some hf
    rw [hu e h2 (by simpa using h1)]

/-- The whole TXT clause.  After any history of resets, for a question name made of a prefix
string and the suffix of storage `i` (and no other configured suffix matching): a malformed prefix
string is REFUSED; a well-formed one is answered with exactly the digests of the names listed by
the last successful reset of storage `i` whose first two bytes are requested.  Nothing is passed on
in either case. -/
theorem txt_query_spec (H : Bytes → Bytes) (stores : Nat → Store) (ops : List (Nat × Bytes))
    (cfg : MatcherCfg) (pstr suf : Bytes) (i : Nat) (text : Bytes)
    (hm : (suf, i) ∈ cfg) (hu : ∀ e ∈ cfg, e.1 <:+ (pstr ++ suf) → e = (suf, i))
    (hl : lastGood i ops = some text) :
    (¬ WfPrefixStr pstr → respond (runResets H stores ops) cfg (pstr ++ suf) 16 = .refused) ∧
    (WfPrefixStr pstr → ∃ hs, respond (runResets H stores ops) cfg (pstr ++ suf) 16 = .txt hs ∧
      ∀ x, x ∈ hs ↔ ∃ n ∈ listed text, H n = x ∧ Requested pstr ((H n).take 2)) := by
  have hf := findSuffix_unique cfg (pstr ++ suf) suf i hm (List.suffix_append _ _) hu
  have ht : (pstr ++ suf).take ((pstr ++ suf).length - (suf, i).1.length) = pstr := by
    have : (pstr ++ suf).length - suf.length = pstr.length := by simp
    simp only [this]
    exact List.take_left' rfl
  constructor
  · intro hw
    exact bad_prefix_refused _ cfg _ (suf, i) hf (by rw [ht]; exact (prefixesFromStr_none_iff pstr).2 hw)
  · intro hw
    cases hp : prefixesFromStr pstr with
    | none => exact absurd hw ((prefixesFromStr_none_iff pstr).1 hp)
    | some prefs =>
      refine ⟨_, prefix_query_answer _ cfg _ (suf, i) prefs hf (by rw [ht]; exact hp), ?_⟩
      intro x
      rw [history_last_reset, hl]
      simp only
      rw [hashes_build]
      constructor
      · rintro ⟨n, hn, he, hpm⟩
        exact ⟨n, hn, he, (prefixesFromStr_requested pstr prefs hp _).1 hpm⟩
      · rintro ⟨n, hn, he, hr⟩
        exact ⟨n, hn, he, (prefixesFromStr_requested pstr prefs hp _).2 hr⟩

/-- `s` is one of the names looked up for `d`: `d` itself or a parent domain of it, of at most four
labels, strictly below the stop name (the ICANN public suffix, see `stop_name_is_walk`). -/
def Candidate (ps : Bytes → Bytes × Bool) (d s : Bytes) : Prop :=
  d ≠ [] ∧ DotSuffix s d ∧ countDots s ≤ 3 ∧
    (DotSuffix (effSuffix ps d) d ∧ countDots (effSuffix ps d) ≤ 3 → (effSuffix ps d).length < s.length)

/-- The whole filtering clause.  After any history of resets of the three storages, the filter
over storage `i` treats a host as listed ⇔ the question is A, AAAA or HTTPS and the host or one of
its parents (at most four labels, below the public suffix) is a name of the list text of the last
successful reset of storage `i`: resets of other storages and failed resets make no difference. -/
theorem filter_verdict_spec (H : Bytes → Bytes) (hH : Injective H) (ps : Bytes → Bytes × Bool)
    (stores : Nat → Store) (ops : List (Nat × Bytes)) (i : Nat) (text host : Bytes) (qt : Nat)
    (hl : lastGood i ops = some text) :
    (filterRule H ps (runResets H stores ops i) host qt).isSome = true ↔
      (qt = 1 ∨ qt = 28 ∨ qt = 65) ∧ ∃ s, Candidate ps host s ∧ s ∈ listed text := by
  have hg := lastGood_good i ops text hl
  have hst : runResets H stores ops i = (reset H (stores i) text).1 := by
    rw [history_last_reset, hl]; simp [reset, hg]
  rw [hst, filter_iff_listed H hH ps (stores i) text host qt hg]
  constructor
  · rintro ⟨hq, s, hs, hlst⟩
    exact ⟨hq, s, (hashable_subdomains_spec ps host s).1 hs, hlst⟩
  · rintro ⟨hq, s, hs, hlst⟩
    exact ⟨hq, s, (hashable_subdomains_spec ps host s).2 hs, hlst⟩

/-! ### From the question as the client sends it -/

/-- The host depends on the question name only up to ASCII case (0x20 randomisation, clients that
spell names in capitals). -/
theorem normalize_case_insensitive (q₁ q₂ : Bytes) (h : q₁.map lowerByte = q₂.map lowerByte) :
    normalizeDomain q₁ = normalizeDomain q₂ := by
  unfold normalizeDomain
  rw [← dropFinalDot_map_lower, ← dropFinalDot_map_lower, h]

/-- The final dot of the fully qualified question name is dropped (one dot, not more). -/
theorem normalize_fqdn (q : Bytes) : normalizeDomain (q ++ [dot]) = q.map lowerByte := by
  unfold normalizeDomain dropFinalDot
  simp

/-- An already normalised name (lower case, not ending in a dot) is left alone, so the theorems
about hosts above are the theorems about such questions. -/
theorem normalize_id (q : Bytes) (hl : q.map lowerByte = q) (hd : q.getLast? ≠ some dot) :
    normalizeDomain q = q := by
  unfold normalizeDomain dropFinalDot
  simp [hd, hl]

/-- Which lists a client's question meets: the dangerous-domains list ⇔ safe browsing and that list
are switched on; the adult list ⇔ parental control and adult blocking are; the newly-registered
list ⇔ safe browsing and that list are.  Nothing else is ever asked. -/
theorem mem_enabledLists (sbOn danger newReg parOn adult : Bool) (i : Nat) :
    i ∈ enabledLists sbOn danger newReg parOn adult ↔
      (i = 0 ∧ sbOn = true ∧ danger = true) ∨ (i = 1 ∧ parOn = true ∧ adult = true) ∨
        (i = 2 ∧ sbOn = true ∧ newReg = true) := by
  unfold enabledLists
  cases sbOn <;> cases danger <;> cases newReg <;> cases parOn <;> cases adult <;> simp <;> omega

/-- The whole host clause, from the question as the client sends it.  `enabled` are the lists
switched on for the client, in the order in which they are asked; `texts i` is the text of the last
successful reset of list `i`.  Some list claims the question ⇔ it is an A, AAAA or HTTPS question
and the host (the question name in lower case, final dot dropped) or one of its parents (at most
four labels, below the public suffix) is a name of one of the enabled lists. -/
theorem question_verdict_spec (H : Bytes → Bytes) (hH : Injective H) (ps : Bytes → Bytes × Bool)
    (stores : Nat → Store) (ops : List (Nat × Bytes)) (enabled : List Nat) (texts : Nat → Bytes)
    (hl : ∀ i ∈ enabled, lastGood i ops = some (texts i)) (qname : Bytes) (qt : Nat) :
    (questionVerdict H ps (runResets H stores ops) enabled qname qt).isSome = true ↔
      (qt = 1 ∨ qt = 28 ∨ qt = 65) ∧
        ∃ i ∈ enabled, ∃ s, Candidate ps (normalizeDomain qname) s ∧ s ∈ listed (texts i) := by
  unfold questionVerdict
  rw [List.findSome?_isSome_iff]
  constructor
  · rintro ⟨i, hi, hs⟩
    rw [Option.isSome_map] at hs
    have := (filter_verdict_spec H hH ps stores ops i (texts i) (normalizeDomain qname) qt (hl i hi)).1 hs
    exact ⟨this.1, i, hi, this.2⟩
  · rintro ⟨hq, i, hi, hc⟩
    refine ⟨i, hi, ?_⟩
    rw [Option.isSome_map]
    exact (filter_verdict_spec H hH ps stores ops i (texts i) (normalizeDomain qname) qt (hl i hi)).2 ⟨hq, hc⟩

/-- "The corresponding list": the list a question is attributed to is enabled, the reported rule is
the host or a parent of it and a name of *that* list, and no list asked earlier has such a name. -/
theorem question_verdict_sound (H : Bytes → Bytes) (hH : Injective H) (ps : Bytes → Bytes × Bool)
    (stores : Nat → Store) (ops : List (Nat × Bytes)) (enabled : List Nat) (texts : Nat → Bytes)
    (hl : ∀ i ∈ enabled, lastGood i ops = some (texts i)) (qname : Bytes) (qt i : Nat) (r : Bytes)
    (h : questionVerdict H ps (runResets H stores ops) enabled qname qt = some (i, r)) :
    i ∈ enabled ∧ Candidate ps (normalizeDomain qname) r ∧ r ∈ listed (texts i) ∧
      ∃ before after, enabled = before ++ i :: after ∧
        ∀ j ∈ before, ¬ ∃ s, Candidate ps (normalizeDomain qname) s ∧ s ∈ listed (texts j) := by
  unfold questionVerdict at h
  rw [List.findSome?_eq_some_iff] at h
  obtain ⟨before, a, after, he, ha, hb⟩ := h
  cases hf : filterRule H ps (runResets H stores ops a) (normalizeDomain qname) qt with
  | none => simp [hf] at ha
  | some r' =>
    simp only [hf, Option.map_some, Option.some.injEq, Prod.mk.injEq] at ha
    obtain ⟨rfl, rfl⟩ := ha
    have hmem : a ∈ enabled := by rw [he]; simp
    have hg := lastGood_good a ops (texts a) (hl a hmem)
    have hst : runResets H stores ops a = (reset H (stores a) (texts a)).1 := by
      rw [history_last_reset, hl a hmem]; simp [reset, hg]
    rw [hst] at hf
    have hs := filter_rule_sound H hH ps (stores a) (texts a) (normalizeDomain qname) r' qt hg hf
    refine ⟨hmem, (hashable_subdomains_spec ps _ _).1 hs.1, hs.2, before, after, he, ?_⟩
    intro j hj hex
    have hjm : j ∈ enabled := by rw [he]; simp [hj]
    have hnone := hb j hj
    have hq : qt = 1 ∨ qt = 28 ∨ qt = 65 := by
      unfold filterRule at hf
      by_cases hq : isFilterable qt = true
      · simp [isFilterable] at hq; omega
      · simp [hq] at hf
    have := (filter_verdict_spec H hH ps stores ops j (texts j) (normalizeDomain qname) qt (hl j hjm)).2 ⟨hq, hex⟩
    cases hfj : filterRule H ps (runResets H stores ops j) (normalizeDomain qname) qt with
    | none => rw [hfj] at this; simp at this
    | some x => simp [hfj] at hnone


/-- The whole TXT clause, from the question as the client sends it: whatever the case of the letters
(of the suffix and of the hex digits) and with or without the final dot, a TXT question whose
normalised name is a prefix string followed by the suffix of storage `i` is REFUSED when the string
is malformed and otherwise answered with exactly the digests of the names of the last successful
reset of storage `i` that a piece of the string asks for. -/
theorem txt_question_spec (H : Bytes → Bytes) (stores : Nat → Store) (ops : List (Nat × Bytes))
    (cfg : MatcherCfg) (qname pstr suf : Bytes) (i : Nat) (text : Bytes)
    (hn : normalizeDomain qname = pstr ++ suf)
    (hm : (suf, i) ∈ cfg) (hu : ∀ e ∈ cfg, e.1 <:+ (pstr ++ suf) → e = (suf, i))
    (hl : lastGood i ops = some text) :
    (¬ WfPrefixStr pstr → questionRespond (runResets H stores ops) cfg qname 16 = .refused) ∧
    (WfPrefixStr pstr → ∃ hs, questionRespond (runResets H stores ops) cfg qname 16 = .txt hs ∧
      ∀ x, x ∈ hs ↔ ∃ n ∈ listed text, H n = x ∧ Requested pstr ((H n).take 2)) := by
  unfold questionRespond
  rw [hn]
  exact txt_query_spec H stores ops cfg pstr suf i text hm hu hl

/-- A question name that ends with no configured suffix is not a hash-prefix query and is passed
on: in particular the suffix without its leading dot (`sb.dns.adguard.com` itself) and names that
merely contain a suffix. -/
theorem non_query_passed (stores : Nat → Store) (cfg : MatcherCfg) (qname : Bytes) (qt : Nat)
    (h : ∀ e ∈ cfg, ¬ e.1 <:+ normalizeDomain qname) :
    questionRespond stores cfg qname qt = .pass := by
  unfold questionRespond
  exact (pass_iff stores cfg _ qt).2 (Or.inr h)

/-! ### What the builder makes of the configuration and the environment -/

/-- A list is asked only when the group (or profile) switches it on *and* the builder has created
its filter (`SAFE_BROWSING_ENABLED`, `ADULT_BLOCKING_ENABLED`, `NEW_REG_DOMAINS_ENABLED`). -/
theorem mem_builtLists (sbEnv adultEnv nrdEnv : Bool) (enabled : List Nat) (i : Nat) :
    i ∈ builtLists sbEnv adultEnv nrdEnv enabled ↔
      i ∈ enabled ∧ ((i = 0 ∧ sbEnv = true) ∨ (i = 1 ∧ adultEnv = true) ∨ (i = 2 ∧ nrdEnv = true)) := by
  unfold builtLists
  simp only [List.mem_filter, Bool.or_eq_true, Bool.and_eq_true, beq_iff_eq, or_assoc]

/-- The host clause for the server as built: for every combination of environment switches and of
the group's switches, some list claims the question ⇔ A/AAAA/HTTPS and the host or a parent is a
name of the last installed text of a list that is switched on in the group and exists. -/
theorem built_question_spec (H : Bytes → Bytes) (hH : Injective H) (ps : Bytes → Bytes × Bool)
    (stores : Nat → Store) (ops : List (Nat × Bytes)) (texts : Nat → Bytes)
    (sbEnv adultEnv nrdEnv sbOn danger newReg parOn adult : Bool)
    (hl : ∀ i, i < 3 → lastGood i ops = some (texts i)) (qname : Bytes) (qt : Nat) :
    (questionVerdict H ps (runResets H stores ops)
        (builtLists sbEnv adultEnv nrdEnv (enabledLists sbOn danger newReg parOn adult)) qname qt).isSome = true ↔
      (qt = 1 ∨ qt = 28 ∨ qt = 65) ∧
        ∃ i, ((i = 0 ∧ sbEnv = true ∧ sbOn = true ∧ danger = true) ∨
              (i = 1 ∧ adultEnv = true ∧ parOn = true ∧ adult = true) ∨
              (i = 2 ∧ nrdEnv = true ∧ sbOn = true ∧ newReg = true)) ∧
          ∃ s, Candidate ps (normalizeDomain qname) s ∧ s ∈ listed (texts i) := by
  have hmem : ∀ i, i ∈ builtLists sbEnv adultEnv nrdEnv (enabledLists sbOn danger newReg parOn adult) ↔
      ((i = 0 ∧ sbEnv = true ∧ sbOn = true ∧ danger = true) ∨
       (i = 1 ∧ adultEnv = true ∧ parOn = true ∧ adult = true) ∨
       (i = 2 ∧ nrdEnv = true ∧ sbOn = true ∧ newReg = true)) := by
    intro i
    rw [mem_builtLists, mem_enabledLists]
    constructor
    · rintro ⟨h1, h2⟩
      rcases h1 with ⟨rfl, a, b⟩ | ⟨rfl, a, b⟩ | ⟨rfl, a, b⟩ <;> rcases h2 with ⟨h, e⟩ | ⟨h, e⟩ | ⟨h, e⟩ <;>
        simp_all
    · rintro (⟨rfl, e, a, b⟩ | ⟨rfl, e, a, b⟩ | ⟨rfl, e, a, b⟩) <;> simp_all
  have hl' : ∀ i ∈ builtLists sbEnv adultEnv nrdEnv (enabledLists sbOn danger newReg parOn adult),
      lastGood i ops = some (texts i) := by
    intro i hi
    apply hl
    rcases (hmem i).1 hi with ⟨rfl, _⟩ | ⟨rfl, _⟩ | ⟨rfl, _⟩ <;> omega
  rw [question_verdict_spec H hH ps stores ops _ texts hl' qname qt]
  constructor
  · rintro ⟨hq, i, hi, hc⟩; exact ⟨hq, i, (hmem i).1 hi, hc⟩
  · rintro ⟨hq, i, hi, hc⟩; exact ⟨hq, i, (hmem i).2 hi, hc⟩

/-- The matcher as built: the general suffix is served from the dangerous-domains list, the
parental suffix from the adult list, each exactly when its environment switch is on, and nothing
else is configured (in particular no suffix for the newly-registered list). -/
theorem builtCfg_spec (sbEnv adultEnv : Bool) (suf : Bytes) (i : Nat) :
    (suf, i) ∈ builtCfg sbEnv adultEnv ↔
      (suf = sbSuffix ∧ i = 0 ∧ sbEnv = true) ∨ (suf = pcSuffix ∧ i = 1 ∧ adultEnv = true) := by
  unfold builtCfg
  cases sbEnv <;> cases adultEnv <;> simp
  exact Or.comm

/-- Neither production suffix is a suffix of the other (the hypothesis `hu` of `txt_query_spec`
for the matcher as built). -/
theorem built_suffixes_apart : ¬ sbSuffix <:+ pcSuffix ∧ ¬ pcSuffix <:+ sbSuffix := by decide

/-- A refresh from the URL that brings an empty body leaves the list alone; any other text goes to
`Reset`. -/
theorem installText_spec (H : Bytes → Bytes) (st : Store) (text : Bytes) :
    (text = [] → installText H st text = (st, none)) ∧
    (text ≠ [] → installText H st text = reset H st text) := by
  unfold installText
  constructor <;> intro h <;> simp [h]

/-- Before the first successful reset an (initially empty) storage lists nothing. -/
theorem empty_never_filters (H : Bytes → Bytes) (ps : Bytes → Bytes × Bool) (ops : List (Nat × Bytes))
    (i : Nat) (host : Bytes) (qt : Nat) (hl : lastGood i ops = none) :
    filterRule H ps (runResets H (fun _ => Store.empty) ops i) host qt = none := by
  rw [history_last_reset, hl]
  unfold filterRule firstMatch
  split
  · have : List.find? (fun s => «matches» H Store.empty s) (hashableSubdomains ps host) = none := by
      rw [List.find?_eq_none]; intro s _; simp [«matches», matchesSum, Store.empty]
    rw [this]
  · rfl

/-- `NewStorage(text)` is an empty storage reset with `text`. -/
theorem newStorage_spec (H : Bytes → Bytes) (text : Bytes) (h : tooLong text = false) :
    newStorage H text = (some (build H (listed text)), some (listed text).length) := by
  unfold newStorage
  by_cases ht : text = []
  · subst ht; rfl
  · simp [ht, reset, h]

/-! ### Lookups that overlap resets -/

/-- `Storage.Hashes` reads the shared map once: with the same map at every look-up of both loops
the count-encode-cut computation is `hashes` on that map, and the cut never panics. -/
theorem hashesLoads_snapshot (st : Store) (prefs : List Bytes) :
    hashesLoads (List.replicate prefs.length st) (List.replicate prefs.length st) prefs =
      some (hashes st prefs) := by
  unfold hashesLoads
  rw [encodeLoop_replicate, countLoop_replicate]
  by_cases hp : prefs = []
  · subst hp; rfl
  · simp [hp]

/-- **One lookup, one list version.**  `ops` is the whole history of resets of all storages and a
`Hashes` call on storage `i` loads the shared map when the first `k` of them have stored theirs;
the others may run during the call.  The call does not panic and its answer is exactly the
digests, once per list line and per occurrence of the prefix, of the names listed by the last
successful reset of storage `i` among those `k`: the answer of one version of the list, one that
was in force during the call, and never a mixture of two. -/
theorem hashes_during_resets_spec (H : Bytes → Bytes) (stores : Nat → Store) (ops : List (Nat × Bytes))
    (i k : Nat) (text : Bytes) (prefs : List Bytes) (hl : lastGood i (ops.take k) = some text) :
    ∃ ans, hashesLoads (List.replicate prefs.length (storeAt H stores ops k i))
        (List.replicate prefs.length (storeAt H stores ops k i)) prefs = some ans ∧
      (∀ x, x ∈ ans ↔ ∃ n ∈ listed text, H n = x ∧ (H n).take 2 ∈ prefs) ∧
      (∀ x, ans.count x = prefs.count (x.take 2) * (listed text).countP (fun n => H n == x)) := by
  refine ⟨_, hashesLoads_snapshot _ prefs, ?_, ?_⟩
  · intro x
    unfold storeAt
    rw [history_last_reset, hl]
    exact hashes_build H (listed text) prefs x
  · intro x
    unfold storeAt
    rw [history_last_reset, hl]
    exact hashes_count H (listed text) prefs x

/-- The same for `Matches`, which looks the map up once (`loadHashSuffixes`, Tie
`matches_loads_src`): the verdict is that of the version in force at that moment. -/
theorem matches_during_resets_spec (H : Bytes → Bytes) (hH : Injective H) (stores : Nat → Store)
    (ops : List (Nat × Bytes)) (i k : Nat) (text host : Bytes) (hl : lastGood i (ops.take k) = some text) :
    «matches» H (storeAt H stores ops k i) host = true ↔ host ∈ listed text := by
  unfold storeAt
  rw [history_last_reset, hl]
  simp only [«matches»]
  rw [matchesSum_build]
  constructor
  · rintro ⟨n, hn, he⟩; exact hH n host he ▸ hn
  · intro hm; exact ⟨host, hm, rfl⟩

/-- `Storage.MatchesAny` reads the shared map once: with the same map at the look-up of every
candidate the loop is `firstMatch` on that map. -/
theorem firstMatchLoads_snapshot (H : Bytes → Bytes) (st : Store) (subs : List Bytes) :
    firstMatchLoads H (List.replicate subs.length st) subs = firstMatch H st subs := by
  induction subs with
  | nil => rfl
  | cons s subs ih =>
    simp only [List.length_cons, List.replicate_succ, firstMatchLoads]
    by_cases hm : «matches» H st s = true
    · by_cases hs : s = []
      · subst hs; simp [firstMatch, List.find?, hm]
      · simp [firstMatch, List.find?, hm, hs]
    · rw [if_neg hm, ih]
      simp [firstMatch, List.find?, hm]

/-- **One question, one list version.**  `ops` is the whole history of resets of all storages; a
`FilterRequest` on the filter over storage `i` loads the shared map when the first `k` of them have
stored theirs, and the others may run while it walks the candidates.  Its verdict is that of the
list text of the last successful reset among those `k`: listed ⇔ A/AAAA/HTTPS and the host or a
parent (at most four labels, below the public suffix) is a name of that text — a version that was
in force during the call, never a mixture of two. -/
theorem filter_during_resets_spec (H : Bytes → Bytes) (hH : Injective H) (ps : Bytes → Bytes × Bool)
    (stores : Nat → Store) (ops : List (Nat × Bytes)) (i k : Nat) (text host : Bytes) (qt : Nat)
    (hl : lastGood i (ops.take k) = some text) :
    (filterRuleLoads H ps (List.replicate (hashableSubdomains ps host).length (storeAt H stores ops k i))
        host qt).isSome = true ↔
      (qt = 1 ∨ qt = 28 ∨ qt = 65) ∧ ∃ s, Candidate ps host s ∧ s ∈ listed text := by
  have h := filter_verdict_spec H hH ps stores (ops.take k) i text host qt hl
  unfold filterRuleLoads
  rw [firstMatchLoads_snapshot]
  exact h

/-- The rule reported by a question that overlaps resets is a candidate and a name of that same
version of the list. -/
theorem filter_rule_during_resets (H : Bytes → Bytes) (ps : Bytes → Bytes × Bool)
    (stores : Nat → Store) (ops : List (Nat × Bytes)) (i k : Nat) (host r : Bytes) (qt : Nat)
    (h : filterRuleLoads H ps (List.replicate (hashableSubdomains ps host).length (storeAt H stores ops k i))
        host qt = some r) :
    filterRule H ps (storeAt H stores ops k i) host qt = some r := by
  unfold filterRuleLoads at h
  rw [firstMatchLoads_snapshot] at h
  exact h

/-- Two versions of a list for the counter-example below (`H` = identity, no public suffix): the
first lists the parent `b.c`, the second the host `a.b.c` itself. -/
def verParent : Store := build (fun x => x) [[98, 46, 99]]
def verHost : Store := build (fun x => x) [[97, 46, 98, 46, 99]]
def psNone (_ : Bytes) : Bytes × Bool := ([], false)

/-- Why the single load matters (the defect of the unchanged tree, fixed by `Storage.MatchesAny`):
`a.b.c` is listed under both versions, by different names.  Look the host up in the version that
lists the parent, let the reset land, look the parent up in the version that lists the host: not
listed, the verdict of neither version. -/
theorem filter_reload_counterexample :
    filterRule (fun x => x) psNone verParent [97, 46, 98, 46, 99] 1 = some [98, 46, 99] ∧
    filterRule (fun x => x) psNone verHost [97, 46, 98, 46, 99] 1 = some [97, 46, 98, 46, 99] ∧
    filterRuleLoads (fun x => x) psNone [verParent, verHost, verHost] [97, 46, 98, 46, 99] 1 = none := by
  decide

/-- Two versions of a list for the counter-examples below (`H` = identity): prefixes `[1,2]` and
`[5,6]`, two names against one under the first. -/
def verA : Store := build (fun x => x) [[1, 2, 3], [1, 2, 4], [5, 6, 7]]
def verB : Store := build (fun x => x) [[1, 2, 9], [5, 6, 8]]

/-- Why the single load matters (the seeded change `hashes-reloads-map-per-prefix` and its
siblings): let a reset from `verA` to `verB` land between the counting and the encoding loop, and
the cut panics; let it land inside the encoding loop, and the answer is a mixture that is the
answer of neither version. -/
theorem hashes_reload_counterexample :
    hashesLoads [verA, verA] [verB, verB] [[1, 2], [5, 6]] = none ∧
    hashesLoads [verA, verA] [verA, verB] [[1, 2], [5, 6]] = some [[1, 2, 3], [1, 2, 4], [5, 6, 8]] ∧
    hashes verA [[1, 2], [5, 6]] = [[1, 2, 3], [1, 2, 4], [5, 6, 7]] ∧
    hashes verB [[1, 2], [5, 6]] = [[1, 2, 9], [5, 6, 8]] ∧
    hashesLoads [verB, verB] [verA, verA] [[1, 2], [5, 6]] = some [[1, 2, 3], [1, 2, 4]] := by decide

/-- **Why the versions of the snapshot campaign differ under every requested prefix.**  Let `B`
have fewer names than `A` under each requested prefix, and let every look-up of both loops of a
`Hashes` call find either of them installed (`cs` for the counting loop, `es` for the encoding
loop).  If the call gives the answer of `A`, every single look-up read `A`: there is no moment of
the call at which a swap goes unnoticed. -/
theorem hashes_widest_needs_every_load (A B : Store) (prefs : List Bytes) (cs es : List Bool)
    (hc : cs.length = prefs.length) (he : es.length = prefs.length)
    (hlt : ∀ p ∈ prefs, (B p).length < (A p).length)
    (h : hashesLoads (pickMaps A B cs) (pickMaps A B es) prefs = some (hashes A prefs)) :
    (∀ b ∈ cs, b = true) ∧ (∀ b ∈ es, b = true) := by
  by_cases hne : prefs = []
  · subst hne
    have h1 : cs = [] := List.length_eq_zero_iff.mp hc
    have h2 : es = [] := List.length_eq_zero_iff.mp he
    subst h1; subst h2
    simp
  · obtain ⟨hlen, hle⟩ := hashesLoads_length _ _ _ _ hne h
    rw [← countLoop_replicate] at hlen
    obtain ⟨_, _, c3, _⟩ := countLoop_pick_bounds A B prefs hlt cs hc
    obtain ⟨e1, _, e3, _⟩ := countLoop_pick_bounds A B prefs hlt es he
    exact ⟨c3 hlen.symm, e3 (by omega)⟩

/-- The other end: the answer of the narrow version `B` can only come out when the counting loop
read `B` at every look-up. -/
theorem hashes_narrowest_needs_every_count (A B : Store) (prefs : List Bytes) (cs es : List Bool)
    (hc : cs.length = prefs.length)
    (hlt : ∀ p ∈ prefs, (B p).length < (A p).length)
    (h : hashesLoads (pickMaps A B cs) (pickMaps A B es) prefs = some (hashes B prefs)) :
    ∀ b ∈ cs, b = false := by
  by_cases hne : prefs = []
  · subst hne
    have h1 : cs = [] := List.length_eq_zero_iff.mp hc
    subst h1
    simp
  · obtain ⟨hlen, _⟩ := hashesLoads_length _ _ _ _ hne h
    rw [← countLoop_replicate] at hlen
    obtain ⟨_, _, _, c4⟩ := countLoop_pick_bounds A B prefs hlt cs hc
    exact c4 hlen.symm

/-- A counting loop that meets both versions is always seen: the call panics, or its answer has
the number of digests of neither version (so it is the answer of neither). -/
theorem hashes_mixed_count_detected (A B : Store) (prefs : List Bytes) (cs es : List Bool)
    (hc : cs.length = prefs.length)
    (hlt : ∀ p ∈ prefs, (B p).length < (A p).length)
    (hA : ∃ b ∈ cs, b = true) (hB : ∃ b ∈ cs, b = false) (ans : List Bytes)
    (h : hashesLoads (pickMaps A B cs) (pickMaps A B es) prefs = some ans) :
    ans.length ≠ (hashes A prefs).length ∧ ans.length ≠ (hashes B prefs).length := by
  have hne : prefs ≠ [] := by
    intro hp; subst hp
    have h1 : cs = [] := List.length_eq_zero_iff.mp hc
    subst h1
    obtain ⟨b, hb, _⟩ := hA
    simp at hb
  obtain ⟨hlen, _⟩ := hashesLoads_length _ _ _ _ hne h
  obtain ⟨_, _, c3, c4⟩ := countLoop_pick_bounds A B prefs hlt cs hc
  rw [← countLoop_replicate, ← countLoop_replicate, hlen]
  constructor
  · intro heq
    obtain ⟨b, hb, hf⟩ := hB
    have := c3 heq b hb
    simp [hf] at this
  · intro heq
    obtain ⟨b, hb, ht⟩ := hA
    have := c4 heq b hb
    simp [ht] at this

/-- Non-vacuity of the hypothesis of the three theorems above, and the runs of
`hashes_reload_counterexample` as instances: under the prefix `[1, 2]` `verB` has one name and `verA`
two; a counting loop on `verA` with an encoding loop that meets `verB` panics, the reverse gives
one digest of `verA`, which is the answer of neither version. -/
example : (∀ p ∈ [[1, 2]], (verB p).length < (verA p).length) ∧
    hashesLoads (pickMaps verA verB [true]) (pickMaps verA verB [false]) [[1, 2]] = none ∧
    hashesLoads (pickMaps verA verB [false]) (pickMaps verA verB [true]) [[1, 2]] = some [[1, 2, 3]] ∧
    hashes verA [[1, 2]] = [[1, 2, 3], [1, 2, 4]] ∧ hashes verB [[1, 2]] = [[1, 2, 9]] := by decide

/-! ### The two defects of the unchanged tree (fixed by a7f0f3a and 693a9d2) -/

def wfPiece (p : Bytes) : Bool := (p.length == 4 || p.length == 8) && p.all isHex

/-- `prefixesFromStr` before a7f0f3a: a legacy piece was truncated before its encoding was checked. -/
def pieceOld (s : Bytes) : Option Bytes :=
  if s.length = 4 then some s else if s.length = 8 then some (s.take 4) else none

def prefixesFromStrOld (s : Bytes) : Option (List Bytes) :=
  if s = [] then some []
  else match allSome ((splitOn dot s).map pieceOld) with
    | none => none
    | some ps => allSome ((dedup ps).map decodeHex)

/-- "abcdzzzz" was accepted (as "abcd") although it is not a well-formed prefix. -/
theorem legacy_tail_counterexample :
    ¬ ∀ s : Bytes, (splitOn dot s).any (fun p => !wfPiece p) = true → prefixesFromStrOld s = none := by
  intro h
  have h1 := h [97, 98, 99, 100, 122, 122, 122, 122] (by decide)
  revert h1
  decide

/-- `hashableSubdomains` before 693a9d2: a private suffix cleared the stop name completely. -/
def hashableSubdomainsOld (ps : Bytes → Bytes × Bool) (d : Bytes) : List Bytes :=
  hashableCore d (if (ps d).2 then (ps d).1 else [])

/-- A toy public-suffix list: `c` is an ICANN suffix, `b.c` a private one. -/
def psEx (d : Bytes) : Bytes × Bool :=
  if d = [99] then ([99], true)
  else if d = [98, 46, 99] ∨ d = [97, 46, 98, 46, 99] then ([98, 46, 99], false)
  else ([], false)

/-- For `a.b.c` the old code hashed the bare ICANN suffix `c`. -/
theorem private_suffix_counterexample :
    ¬ ∀ (ps : Bytes → Bytes × Bool) (d s : Bytes), s ∈ hashableSubdomainsOld ps d → ps s ≠ (s, true) := by
  intro h
  exact h psEx [97, 46, 98, 46, 99] [99] (by decide) (by decide)


/-- `hashableSubdomains` with the loop cut down to a single step: the look-up of the private
suffix's parent is believed whatever section it reports. -/
def effSuffixOneStep (ps : Bytes → Bytes × Bool) (d : Bytes) : Bytes :=
  if (ps d).2 then (ps d).1
  else match afterDot (ps d).1 with
    | none => []
    | some parent => (ps parent).1

def hashableSubdomainsOneStep (ps : Bytes → Bytes × Bool) (d : Bytes) : List Bytes :=
  hashableCore d (effSuffixOneStep ps d)

/-- One step is not enough: for `x.a.b.c` it leaves out `b.c`, which is neither an ICANN suffix
nor above one (`unhashed_only_icann` fails for the one-step variant). -/
theorem nested_private_counterexample :
    ¬ ∀ (ps : Bytes → Bytes × Bool) (d s : Bytes), Shrinking ps → Consistent ps → d ≠ [] →
      DotSuffix s d → countDots s ≤ 3 → s ∉ hashableSubdomainsOneStep ps d →
      s = [] ∨ ∃ p, ps p = (p, true) ∧ DotSuffix s p := by
  intro h
  have h1 := h psNest [120, 46, 97, 46, 98, 46, 99] [98, 46, 99] psNest_shrinking psNest_consistent
    (by decide) (Or.inr ⟨[120, 46, 97], by decide⟩) (by decide) (by decide)
  rcases h1 with h0 | ⟨p, hp, hsuf⟩
  · cases h0
  · have := psNest_icann p hp
    subst this
    exact not_dotSuffix_longer _ _ (by decide) hsuf

/-- The defect of the unchanged tree recorded as `private-rule-reported-icann-parents-not-hashed`:
`Consistent` cannot be dropped from `unhashed_only_icann`.  With a look-up that reports a private
rule as ICANN for some name (as golang.org/x/net/publicsuffix does for names between two private
rules), `hashableSubdomains` leaves out the private rule `b.c` for the host `i.b.c`. -/
theorem inconsistent_flag_counterexample :
    ¬ ∀ (ps : Bytes → Bytes × Bool) (d s : Bytes), Shrinking ps → d ≠ [] →
      DotSuffix s d → countDots s ≤ 3 → s ∉ hashableSubdomains ps d →
      s = [] ∨ ∃ p, ps p = (p, true) ∧ DotSuffix s p := by
  intro h
  have h1 := h psQuirk [105, 46, 98, 46, 99] [98, 46, 99] psQuirk_shrinking
    (by decide) (Or.inr ⟨[105], by decide⟩) (by decide) (by decide)
  rcases h1 with h0 | ⟨p, hp, hsuf⟩
  · cases h0
  · have := psQuirk_icann p hp
    subst this
    exact not_dotSuffix_longer _ _ (by decide) hsuf

/-! ### Non-vacuity -/

/-- A collision-free hash exists (the hypothesis of `matches_iff_listed` / `filter_iff_listed`). -/
example : Injective (fun x => x) := fun _ _ h => h
/-- A list with a comment, CRLF, a blank line and an unterminated last line. -/
example : tooLong [97, 10, 35, 98, 13, 10, 10, 99, 13] = false := by decide
example : listed [97, 10, 35, 98, 13, 10, 10, 99, 13] = [[97], [99]] := by decide
example : «matches» (fun x => x) (reset (fun x => x) Store.empty [97, 10, 35, 98, 10]).1 [97] = true := by decide
example : «matches» (fun x => x) (reset (fun x => x) Store.empty [97, 10, 35, 98, 10]).1 [35, 98] = false := by decide
/-- The fixed code stops below the ICANN suffix of a private-suffix host and refuses "abcdzzzz". -/
example : hashableSubdomains psEx [97, 46, 98, 46, 99] = [[97, 46, 98, 46, 99], [98, 46, 99]] := by decide
example : DotSuffix (effSuffix psEx [97, 46, 98, 46, 99]) [97, 46, 98, 46, 99] ∧
    countDots (effSuffix psEx [97, 46, 98, 46, 99]) ≤ 3 :=
  ⟨Or.inr ⟨[97, 46, 98], by decide⟩, by decide⟩
example : prefixesFromStr [97, 98, 99, 100, 122, 122, 122, 122] = none := by decide
example : prefixesFromStr [97, 98, 99, 100, 48, 49, 50, 51, 46, 48, 48, 70, 102] =
    some [[171, 205], [0, 255]] := by decide
/-- `Shrinking` and `Consistent` are satisfiable by a list with nested private rules, on which the
walk takes two steps and the outer private rule is hashed; `psQuirk` is not consistent. -/
example : Shrinking psNest ∧ Consistent psNest := ⟨psNest_shrinking, psNest_consistent⟩
example : effSuffix psNest [120, 46, 97, 46, 98, 46, 99] = [99] := by decide
example : hashableSubdomains psNest [120, 46, 97, 46, 98, 46, 99] =
    [[120, 46, 97, 46, 98, 46, 99], [97, 46, 98, 46, 99], [98, 46, 99]] := by decide
example : hashableSubdomainsOneStep psNest [120, 46, 97, 46, 98, 46, 99] =
    [[120, 46, 97, 46, 98, 46, 99], [97, 46, 98, 46, 99]] := by decide
example : ¬ Consistent psQuirk := fun h => by
  have := h [105, 46, 98, 46, 99] (by decide)
  revert this; decide
example : hashableSubdomains psQuirk [105, 46, 98, 46, 99] = [[105, 46, 98, 46, 99]] := by decide
/-- A filtered question, an unfiltered type, a refused and an answered TXT query. -/
example : filterRule (fun x => x) psEx (reset (fun x => x) Store.empty [98, 46, 99, 10]).1
    [97, 46, 98, 46, 99] 28 = some [98, 46, 99] := by decide
example : filterRule (fun x => x) psEx (reset (fun x => x) Store.empty [98, 46, 99, 10]).1
    [97, 46, 98, 46, 99] 16 = none := by decide
example : respond (fun _ => Store.empty) [([46, 115], 0)] [97, 98, 99, 46, 115] 16 = .refused := by decide
example : respond (fun _ => build (fun x => x) [[171, 205, 1]]) [([46, 115], 0)]
    [97, 98, 99, 100, 46, 115] 16 = .txt [[171, 205, 1]] := by decide
example : lastGood 0 [(0, [97]), (1, [98]), (0, [99])] = some [99] := by decide
/-- A duplicated line is answered twice. -/
example : hashes (reset (fun x => x) Store.empty [97, 98, 99, 10, 97, 98, 99, 10]).1 [[97, 98]] =
    [[97, 98, 99], [97, 98, 99]] := by decide
/-- A name in the declarative sense: `c` from the last, unterminated line `c\r`. -/
example : lastGood 0 ([(0, [97, 10]), (0, [98, 10]), (1, [99])].take 2) = some [98, 10] := by decide
example : filterRuleLoads (fun x => x) psNone (List.replicate 3 verHost) [97, 46, 98, 46, 99] 1 =
    some [97, 46, 98, 46, 99] := by decide
example : storeAt (fun x => x) (fun _ => Store.empty) [(0, [1, 2, 3, 10]), (0, [1, 2, 4, 10])] 1 0 [1, 2] = [[3]] := by decide
example : IsName [97, 10, 35, 98, 13, 10, 10, 99, 13] [99] :=
  ⟨by decide, by decide, [99, 13], ⟨by decide, [97, 10, 35, 98, 13, 10, 10], [], by decide,
    Or.inr ⟨[97, 10, 35, 98, 13, 10], by decide⟩, Or.inl rfl⟩, by decide⟩
/-- A well-formed prefix string with a legacy piece, the prefix it requests, and a malformed one. -/
example : WfPrefixStr [97, 98, 99, 100, 48, 49, 50, 51, 46, 48, 48, 70, 102] := by
  right; intro p hp
  have : p = [97, 98, 99, 100, 48, 49, 50, 51] ∨ p = [48, 48, 70, 102] := by
    have h : splitOn dot [97, 98, 99, 100, 48, 49, 50, 51, 46, 48, 48, 70, 102] =
      [[97, 98, 99, 100, 48, 49, 50, 51], [48, 48, 70, 102]] := by decide
    rw [h] at hp; simpa using hp
  rcases this with h | h <;> subst h <;> exact ⟨by decide, by decide⟩
example : Requested [97, 98, 99, 100, 48, 49, 50, 51, 46, 48, 48, 70, 102] [171, 205] :=
  ⟨by decide, [97, 98, 99, 100, 48, 49, 50, 51], by decide, by decide⟩
example : ¬ WfPrefixStr [97, 98, 99, 100, 122, 122, 122, 122] := by
  rw [← prefixesFromStr_none_iff]; decide
/-- The hypotheses of `txt_query_spec` and `filter_verdict_spec` hold for a one-suffix matcher
after a failed and a successful reset. -/
example : (([46, 115], 0) : Bytes × Nat) ∈ [(([46, 115] : Bytes), 0)] ∧
    (∀ e ∈ [(([46, 115] : Bytes), 0)], e.1 <:+ ([97, 98, 99, 100] ++ [46, 115]) → e = ([46, 115], 0)) ∧
    lastGood 0 [(0, [97, 10]), (1, [98])] = some [97, 10] :=
  ⟨by simp, by intro e he _; simpa using he, by decide⟩
example : Candidate psEx [97, 46, 98, 46, 99] [98, 46, 99] :=
  (hashable_subdomains_spec psEx _ _).1 (by decide)
example : cut4Scan [97, 46, 98, 46, 99, 46, 100, 46, 101, 46, 102] = [99, 46, 100, 46, 101, 46, 102] := by decide
example : hexEncode [171, 205, 0, 255] = [97, 98, 99, 100, 48, 48, 102, 102] := by decide
example : (newStorage (fun x => x) [97, 10, 35, 98, 10]).2 = some 1 := by decide

/-- A question in capitals with the final dot: `A.B.C.` is the host `a.b.c`; it meets the adult list
only (safe browsing is switched off as a whole), which lists `b.c`. -/
example : normalizeDomain [65, 46, 66, 46, 67, 46] = [97, 46, 98, 46, 99] := by decide
example : enabledLists false true true true true = [1] := by decide
example : builtLists true false true (enabledLists true true true true true) = [0, 2] := by decide
example : builtCfg true false = [(sbSuffix, 0)] := by decide
example : (installText (fun x => x) (build (fun x => x) [[1, 2, 3]]) []).1 [1, 2] = [[3]] := by decide
example : questionVerdict (fun x => x) psEx
    (runResets (fun x => x) (fun _ => Store.empty) [(0, [98, 46, 99, 10]), (1, [98, 46, 99, 10])])
    (enabledLists false true true true true) [65, 46, 66, 46, 67, 46] 1 = some (1, [98, 46, 99]) := by decide
example : questionVerdict (fun x => x) psEx
    (runResets (fun x => x) (fun _ => Store.empty) [(0, [98, 46, 99, 10]), (1, [98, 46, 99, 10])])
    (enabledLists true true true true true) [65, 46, 66, 46, 67, 46] 1 = some (0, [98, 46, 99]) := by decide
/-- `ABCD.S.` (TXT) under the suffix `.s` is the query for the prefix `abcd`; `s` alone is passed on. -/
example : normalizeDomain [65, 66, 67, 68, 46, 83, 46] = [97, 98, 99, 100] ++ [46, 115] := by decide
example : questionRespond (fun _ => build (fun x => x) [[171, 205, 1]]) [([46, 115], 0)]
    [65, 66, 67, 68, 46, 83, 46] 16 = .txt [[171, 205, 1]] := by decide
example : questionRespond (fun _ => Store.empty) [([46, 115], 0)] [115, 46] 16 = .pass := by decide

#print axioms reset_replaces
#print axioms reset_failed_keeps
#print axioms matches_iff_hash_listed
#print axioms matches_iff_listed
#print axioms hashes_exact
#print axioms hashes_multiplicity
#print axioms listed_nonempty_noncomment
#print axioms mem_listed_iff
#print axioms history_last_reset
#print axioms hashable_subdomains_spec
#print axioms public_suffix_not_hashed
#print axioms stop_name_is_walk
#print axioms stop_name_icann
#print axioms unhashed_only_icann
#print axioms filter_iff_listed
#print axioms filter_rule_sound
#print axioms bad_prefix_refused
#print axioms prefix_query_answer
#print axioms pass_iff
#print axioms prefixesFromStr_none_iff
#print axioms prefixesFromStr_requested
#print axioms hexEncode_injective
#print axioms lastGood_good
#print axioms findSuffix_unique
#print axioms txt_query_spec
#print axioms filter_verdict_spec
#print axioms empty_never_filters
#print axioms newStorage_spec
#print axioms normalize_case_insensitive
#print axioms normalize_fqdn
#print axioms normalize_id
#print axioms mem_enabledLists
#print axioms question_verdict_spec
#print axioms question_verdict_sound
#print axioms txt_question_spec
#print axioms non_query_passed
#print axioms hashesLoads_snapshot
#print axioms hashes_widest_needs_every_load
#print axioms hashes_narrowest_needs_every_count
#print axioms hashes_mixed_count_detected
#print axioms hashes_during_resets_spec
#print axioms matches_during_resets_spec
#print axioms hashes_reload_counterexample
#print axioms firstMatchLoads_snapshot
#print axioms mem_builtLists
#print axioms built_question_spec
#print axioms builtCfg_spec
#print axioms built_suffixes_apart
#print axioms installText_spec
#print axioms filter_during_resets_spec
#print axioms filter_rule_during_resets
#print axioms filter_reload_counterexample
#print axioms legacy_tail_counterexample
#print axioms private_suffix_counterexample
#print axioms nested_private_counterexample
#print axioms inconsistent_flag_counterexample

end Agd.HashPrefix
#print axioms Agd.Tie.TrC11.translation_complete
#print axioms Agd.Tie.TrC11.malformed_prefix_refused
#print axioms Agd.Tie.TrC11.unmatched_forwarded
#print axioms Agd.Tie.TrC11.matched_answered_with_hashes
#print axioms Agd.Tie.TrC11.txt_only
#print axioms Agd.Tie.TrC11.filterable_iff
#print axioms Agd.Tie.TrC11.resp_for_family
#print axioms Agd.Tie.TrC11.isFilterable_tr
