import Agd.Lemmas.ECS
import Agd.Tie.C05
/-!
# C05 — client subnets stay private and ECS-dependent answers stay in their region

Property theorems only.  Helper lemmas live in `Agd/Lemmas/ECS.lean`.  The model is
`Agd/Model/ECS.lean` (the code after `fix: ecscache: strip client-supplied ecs options …`).
`env` (GeoIP `Data`, `SubnetByLocation`, the fake-ECS name list) is universally quantified; cache
states are either arbitrary (`s`) or reached from the empty caches by an arbitrary history of
requests and cache drops (`runEv env St.empty evs`).
-/
set_option linter.unusedSimpArgs false

namespace Agd.ECS

/-- **upstream_subnet_private.** Whatever the caches hold and whatever options the client sent
(duplicates, several OPT RRs, malformed trailing options): if the upstream is consulted, its query
carries exactly one ECS option, with scope 0, and the subnet in it is the one the request is mapped
to — the zero prefix of the family, or what GeoIP's `SubnetByLocation` returns for the location of
the client / its ECS address; for a client that opted out (/0) it is the zero prefix. -/
theorem upstream_subnet_private (env : Env) (s : St) (r : Req) (u : Up) (x : List OptRR)
    (h : (serve env s r u).2.up = some x) :
    ∃ sub, mapped env r = some sub ∧ ecsOpts x = [mkECS sub 0] ∧
      (sub = zeroPfx (ecsFamOf r) ∨ env.subnet (locOf env r) (ecsFamOf r) = some sub) ∧
      (declined r = true → sub = zeroPfx (ecsFamOf r)) := by
  have key : ∃ sub, mapped env r = some sub ∧ x = setECS r.extra sub false := by
    unfold serve at h
    split at h
    · simp at h
    · unfold serveCache at h
      split at h
      · simp [errOut] at h
      · rename_i sub hsub
        split at h
        · simp at h
        · split at h
          · simp at h
          · split at h
            · simp [errOut] at h
            · split at h
              · simp only [errOut, Option.some.injEq] at h
                exact ⟨sub, hsub, h.symm⟩
              · split at h
                · simp only [errOut, Option.some.injEq] at h
                  exact ⟨sub, hsub, h.symm⟩
                · simp only [Option.some.injEq] at h
                  exact ⟨sub, hsub, h.symm⟩
  obtain ⟨sub, hm, rfl⟩ := key
  refine ⟨sub, hm, by simpa using ecsOpts_setECS r.extra sub false, ?_, ?_⟩
  · unfold mapped at hm
    split at hm
    · left; simpa using hm.symm
    · right; exact hm
  · intro hd
    unfold mapped at hm
    simp only [hd, ↓reduceIte, Option.some.injEq] at hm
    exact hm.symm

/-- Non-vacuity: a client at 192.0.2.1 sending its full address as a first ECS option, a second ECS
option with another address, and a third one in an earlier OPT RR; the upstream sees only the GeoIP
subnet 100.64.0.0/16. -/
def exEnv : Env :=
  { data := fun _ _ => some ⟨1, 0, 42⟩
    subnet := fun l f => if l.ctry = 1 ∧ f = .v4 then some ⟨.v4, 1681915904, 16⟩ else some (zeroPfx f)
    fake := fun h => h == 3 }
def exReq : Req :=
  ⟨.v4, 3221225985, 0, 1, 1,
    [⟨false, [.ecs ⟨1, 4, 3325256781, 32, 0⟩]⟩,
     ⟨false, [.other 65001, .ecs ⟨1, 4, 3221225985, 32, 0⟩, .ecs ⟨1, 4, 16909056, 24, 0⟩]⟩]⟩
def exUp : Up := ⟨false, true, 7, [⟨false, [.ecs ⟨1, 4, 1681915904, 16, 16⟩]⟩]⟩

example : (serve exEnv St.empty exReq exUp).2.up =
    some [⟨false, []⟩, ⟨false, [.other 65001, .ecs ⟨1, 4, 1681915904, 16, 0⟩]⟩] := by decide

/-- **upstream_noninterference.** Two requests (any clients, any supplied subnets, any cache states)
with the same family, the same mapped location and the same opt-out flag send the same ECS data
upstream: the client's address and the subnet it supplied have no other influence. -/
theorem upstream_noninterference (env : Env) (s₁ s₂ : St) (r₁ r₂ : Req) (u₁ u₂ : Up)
    (x₁ x₂ : List OptRR) (hfam : ecsFamOf r₁ = ecsFamOf r₂) (hloc : locOf env r₁ = locOf env r₂)
    (hdec : declined r₁ = declined r₂)
    (h₁ : (serve env s₁ r₁ u₁).2.up = some x₁) (h₂ : (serve env s₂ r₂ u₂).2.up = some x₂) :
    ecsOpts x₁ = ecsOpts x₂ := by
  obtain ⟨a, ha, hx₁, -, -⟩ := upstream_subnet_private env s₁ r₁ u₁ x₁ h₁
  obtain ⟨b, hb, hx₂, -, -⟩ := upstream_subnet_private env s₂ r₂ u₂ x₂ h₂
  have : mapped env r₁ = mapped env r₂ := by unfold mapped; rw [hfam, hloc, hdec]
  rw [ha, hb] at this
  simp only [Option.some.injEq] at this
  rw [hx₁, hx₂, this]

example : ecsFamOf exReq = ecsFamOf { exReq with raddr := 3221226061, extra := [] } ∧
    locOf exEnv exReq = locOf exEnv { exReq with raddr := 3221226061, extra := [] } := by decide

/-- **declined_never_subnet_cache.** A request whose ECS option has source length 0 is never
answered from the cache of subnet-dependent answers, in any cache state; and if it is answered from
the other cache after any history, that entry was stored by an earlier request that had opted out
as well, for the same question and family, from an upstream answer that was not ECS-dependent
(scope 0 or a known fake-ECS name).  (If the upstream is consulted, `upstream_subnet_private` gives
the /0 query.) -/
theorem declined_never_subnet_cache (env : Env) (evs : List Ev) (s : St) (r : Req) (u : Up)
    (hd : declined r = true) :
    (serve env s r u).2.src ≠ .ecsCache ∧
    ((serve env (runEv env St.empty evs) r u).2.src = .noecsCache →
      ∃ x ∈ reqsOf evs, some x.2.token = (serve env (runEv env St.empty evs) r u).2.tok ∧
        declined x.1 = true ∧ dependent env x.1 x.2 = false ∧ x.1.host = r.host ∧
        x.1.qtype = r.qtype ∧ x.1.qclass = r.qclass ∧ ecsFamOf x.1 = ecsFamOf r) := by
  constructor
  · unfold serve
    split
    · simp
    · unfold serveCache
      split
      · simp [errOut]
      · split
        · simp
        · simp only [hd, ↓reduceIte]
          split
          · simp [errOut]
          · split
            · simp [errOut]
            · split <;> simp [errOut]
  · intro hsrc
    have hinv := inv_reachable env evs
    generalize runEv env St.empty evs = st at hsrc hinv ⊢
    unfold serve at hsrc ⊢
    split at hsrc
    · simp at hsrc
    · rename_i hbad
      simp only [hbad, ↓reduceIte]
      unfold serveCache at hsrc ⊢
      split at hsrc
      · simp [errOut] at hsrc
      · rename_i sub hsub
        simp only [hsub]
        split at hsrc
        · rename_i it hit
          simp only [hit]
          obtain ⟨x, hx, htok, -, hk, hdep⟩ := hinv.1 _ it hit
          simp only [nkey, NKey.mk.injEq] at hk
          have hsubfam : sub.fam = ecsFamOf r := by
            unfold mapped at hsub
            simp only [hd, ↓reduceIte, Option.some.injEq] at hsub
            rw [← hsub]; rfl
          refine ⟨x, hx, by simp [htok], ?_, hdep, hk.1.symm, hk.2.1.symm, hk.2.2.1.symm, ?_⟩
          · rw [← hk.2.2.2.2.2]; exact hd
          · have := hk.2.2.2.2.1
            simp only [zeroPfx] at this
            rw [← this, hsubfam]
        · split at hsrc
          · simp at hsrc
          · split at hsrc
            · simp [errOut] at hsrc
            · split at hsrc
              · simp [errOut] at hsrc
              · split at hsrc <;> simp [errOut] at hsrc

/-- Non-vacuity: an opted-out request is served from an entry stored by an opted-out request. -/
def exDeclined : Req := { exReq with extra := [⟨false, [.ecs ⟨1, 4, 0, 0, 0⟩]⟩] }
def exUp0 : Up := ⟨false, true, 9, []⟩
example : declined exDeclined = true ∧
    (serve exEnv (runEv exEnv St.empty [.req exDeclined exUp0]) { exDeclined with raddr := 5 } exUp).2.src
      = .noecsCache ∧
    (serve exEnv (runEv exEnv St.empty [.req exReq exUp]) exDeclined exUp).2.src = .upstream := by
  decide

/-- **partition.** After any history of requests and cache drops (eviction, expiry), an answer served
from the cache of subnet-dependent answers was stored by an earlier request of the history whose
upstream answer was ECS-dependent, whose mapped subnet (address, length and family) is exactly the
one the present request is mapped to, and which asked the same question with the same DO bit; the
present request has not opted out. -/
theorem partition (env : Env) (evs : List Ev) (r : Req) (u : Up)
    (hsrc : (serve env (runEv env St.empty evs) r u).2.src = .ecsCache) :
    ∃ x ∈ reqsOf evs, some x.2.token = (serve env (runEv env St.empty evs) r u).2.tok ∧
      dependent env x.1 x.2 = true ∧ declined r = false ∧
      (∃ sub, mapped env r = some sub ∧ mapped env x.1 = some sub ∧ sub.fam = ecsFamOf x.1) ∧
      x.1.host = r.host ∧ x.1.qtype = r.qtype ∧ x.1.qclass = r.qclass ∧
      isDO x.1.extra = isDO r.extra := by
  have hinv := inv_reachable env evs
  generalize runEv env St.empty evs = st at hsrc hinv ⊢
  unfold serve at hsrc ⊢
  split at hsrc
  · simp at hsrc
  · rename_i hbad
    simp only [hbad, ↓reduceIte]
    unfold serveCache at hsrc ⊢
    split at hsrc
    · simp [errOut] at hsrc
    · rename_i sub hsub
      simp only [hsub]
      split at hsrc
      · simp at hsrc
      · split at hsrc
        · rename_i it hit
          have hdec : declined r = false := by
            cases hd : declined r
            · rfl
            · simp [hd] at hit
          simp only [hdec] at hit
          obtain ⟨x, hx, htok, -, ⟨sub', hm', hf', hk⟩, hdep⟩ := hinv.2 _ it hit
          simp only [ekey, EKey.mk.injEq] at hk
          refine ⟨x, hx, by simp [htok], hdep, hdec, ⟨sub, rfl, ?_, ?_⟩, hk.1.symm, hk.2.1.symm,
            hk.2.2.1.symm, hk.2.2.2.1.symm⟩
          · rw [hm', hk.2.2.2.2]
          · rw [hk.2.2.2.2]; exact hf'
        · split at hsrc
          · simp [errOut] at hsrc
          · split at hsrc
            · simp [errOut] at hsrc
            · split at hsrc <;> simp [errOut] at hsrc

/-- Non-vacuity: a second client mapped to the same subnet is served the stored scoped answer; a
client mapped elsewhere (unknown location: zero prefix) is not. -/
def exEnv2 : Env := { exEnv with data := fun _ a => if a = 5 then none else some ⟨1, 0, 42⟩ }
example :
    (serve exEnv2 (runEv exEnv2 St.empty [.req exReq exUp]) { exReq with raddr := 77, extra := [] } exUp).2.src
      = .ecsCache ∧
    (serve exEnv2 (runEv exEnv2 St.empty [.req exReq exUp]) { exReq with raddr := 5, extra := [] } exUp).2.src
      = .upstream := by
  decide

/-- **unscoped_reuse.** The companion of `partition` for the other cache: an answer served from it
was stored from an upstream answer that was *not* ECS-dependent, by a request with the same
question, DO bit, family and opt-out flag. -/
theorem unscoped_reuse (env : Env) (evs : List Ev) (r : Req) (u : Up)
    (hsrc : (serve env (runEv env St.empty evs) r u).2.src = .noecsCache) :
    ∃ x ∈ reqsOf evs, some x.2.token = (serve env (runEv env St.empty evs) r u).2.tok ∧
      dependent env x.1 x.2 = false ∧ declined x.1 = declined r ∧
      x.1.host = r.host ∧ x.1.qtype = r.qtype ∧ x.1.qclass = r.qclass ∧
      isDO x.1.extra = isDO r.extra := by
  have hinv := inv_reachable env evs
  generalize runEv env St.empty evs = st at hsrc hinv ⊢
  unfold serve at hsrc ⊢
  split at hsrc
  · simp at hsrc
  · rename_i hbad
    simp only [hbad, ↓reduceIte]
    unfold serveCache at hsrc ⊢
    split at hsrc
    · simp [errOut] at hsrc
    · rename_i sub hsub
      simp only [hsub]
      split at hsrc
      · rename_i it hit
        simp only [hit]
        obtain ⟨x, hx, htok, -, hk, hdep⟩ := hinv.1 _ it hit
        simp only [nkey, NKey.mk.injEq] at hk
        exact ⟨x, hx, by simp [htok], hdep, hk.2.2.2.2.2.symm, hk.1.symm, hk.2.1.symm, hk.2.2.1.symm,
          hk.2.2.2.1.symm⟩
      · split at hsrc
        · simp at hsrc
        · split at hsrc
          · simp [errOut] at hsrc
          · split at hsrc
            · simp [errOut] at hsrc
            · split at hsrc <;> simp [errOut] at hsrc

/-- **ecs_echo.** After any history, a resolved response (from either cache or from the upstream)
carries an ECS option exactly when the query carried a valid one (the first ECS option of its OPT
RR passes `ecsData`, see `ecsData_ok`): then it carries exactly one, with the client's own family,
address and source length, and scope equal to the source length; otherwise none — also when the
upstream's answer carried ECS options of its own. -/
theorem ecs_echo (env : Env) (evs : List Ev) (r : Req) (u : Up)
    (hk : (serve env (runEv env St.empty evs) r u).2.kind = .ok) :
    ecsOpts (serve env (runEv env St.empty evs) r u).2.rextra =
      match ecsFromMsg r.extra with
      | .ok p _ => [mkECS p p.bits]
      | _ => [] := by
  have hinv := inv_reachable env evs
  generalize runEv env St.empty evs = st at hk hinv ⊢
  have hresp : ∀ extra, ecsOpts extra = [] → ecsOpts (respExtra r extra) =
      match ecsFromMsg r.extra with
      | .ok p _ => [mkECS p p.bits]
      | _ => [] := by
    intro extra he
    cases h : ecsFromMsg r.extra <;> simp [respExtra, clientECS, h, ecsOpts_setECS, he]
  unfold serve at hk ⊢
  split at hk
  · simp at hk
  · rename_i hbad
    simp only [hbad, ↓reduceIte]
    unfold serveCache at hk ⊢
    split at hk
    · simp [errOut] at hk
    · rename_i sub hsub
      simp only [hsub]
      split at hk
      · rename_i it hit
        simp only [hit]
        obtain ⟨x, -, -, hex, -, -⟩ := hinv.1 _ it hit
        exact hresp _ (by rw [hex]; exact ecsOpts_rmHop _)
      · split at hk
        · rename_i it hit
          obtain ⟨x, -, -, hex, -, -⟩ := hinv.2 (ekey r sub) it (by
            cases hd : declined r <;> simp_all)
          exact hresp _ (by rw [hex]; exact ecsOpts_rmHop _)
        · split at hk
          · simp [errOut] at hk
          · rename_i hfam
            try simp only [hfam, ↓reduceIte]
            split at hk
            · simp [errOut] at hk
            · rename_i hfail
              try simp only [hfail, ↓reduceIte]
              split at hk
              · simp [errOut] at hk
              · rename_i hub
                try simp only [hub, ↓reduceIte]
                exact hresp _ (ecsOpts_rmHop _)

/-- Non-vacuity: valid option echoed with scope = source length although the upstream scoped /16;
no option in the query, none in the response although the upstream's answer had one. -/
example :
    ecsOpts (serve exEnv St.empty exReq exUp).2.rextra = [.ecs ⟨1, 4, 3221225985, 32, 32⟩] ∧
    ecsOpts (serve exEnv St.empty { exReq with extra := [] } exUp).2.rextra = [] ∧
    (serve exEnv St.empty { exReq with extra := [] } exUp).2.kind = .ok := by decide

/-- **malformed_formerr.** The query is answered with FORMERR exactly when the first ECS option of
its OPT RR is malformed; then nothing is sent upstream and the caches are untouched. -/
theorem malformed_formerr (env : Env) (s : St) (r : Req) (u : Up) :
    ((serve env s r u).2.kind = .formerr ↔ ecsFromMsg r.extra = .bad) ∧
    (ecsFromMsg r.extra = .bad → (serve env s r u).2.up = none ∧ (serve env s r u).1 = s) := by
  constructor
  · constructor
    · intro h
      unfold serve at h
      split at h
      · assumption
      · exfalso
        unfold serveCache at h
        split at h
        · simp [errOut] at h
        · split at h
          · simp at h
          · split at h
            · simp at h
            · split at h
              · simp [errOut] at h
              · split at h
                · simp [errOut] at h
                · split at h <;> simp [errOut] at h
    · intro h; simp [serve, h]
  · intro h; simp [serve, h]

/-- Non-vacuity: 1.2.3.4/24 (bits beyond the prefix), family 3, a 5-byte address, /33. -/
example : ecsFromMsg [⟨false, [.ecs ⟨1, 4, 16909060, 24, 0⟩]⟩] = .bad ∧
    ecsFromMsg [⟨false, [.ecs ⟨3, 4, 16909056, 24, 0⟩]⟩] = .bad ∧
    ecsFromMsg [⟨false, [.ecs ⟨2, 5, 1, 8, 0⟩]⟩] = .bad ∧
    ecsFromMsg [⟨false, [.ecs ⟨1, 4, 16909056, 33, 0⟩]⟩] = .bad ∧
    ecsFromMsg [⟨false, [.ecs ⟨1, 4, 16909056, 24, 0⟩]⟩] = .ok ⟨.v4, 16909056, 24⟩ 0 := by decide

/-! ## The cache keys: what is hashed determines the partition

The histories above partition the caches by the structural keys `EKey`/`NKey`.  The code hashes a
byte string (see `ekeyBytes`; tied to `toCacheKey` by `key_*_src` in `Tie/C05.lean`). -/

/-- **cache_key_bytes_injective.** For one host name, the byte string hashed for the cache of
subnet-dependent answers determines the question, the DO bit and the subnet — family, every bit of
the address and the length, byte-aligned or not: two requests get the same bytes only if they are
mapped to the same subnet.  (Hence, short of a 64-bit hash collision, `partition` speaks about the
code's cache.) -/
theorem cache_key_bytes_injective (k₁ k₂ : EKey) (h₁ : k₁.wf) (h₂ : k₂.wf) (hh : k₁.host = k₂.host)
    (hb : ekeyBytes k₁ = ekeyBytes k₂) : k₁ = k₂ := by
  obtain ⟨host₁, qt₁, qc₁, d₁, ⟨f₁, a₁, b₁⟩⟩ := k₁
  obtain ⟨host₂, qt₂, qc₂, d₂, ⟨f₂, a₂, b₂⟩⟩ := k₂
  simp only [EKey.wf, Pfx.wf] at h₁ h₂
  simp only [ekeyBytes, List.append_assoc] at hb
  obtain ⟨rfl, rfl, rfl, rfl, hl⟩ := keyHead_inj _ _ _ _ _ _ _ _ _ _ h₁.1 h₁.2.1 h₂.1 h₂.2.1 hb
  obtain ⟨ha, hbits⟩ := List.append_inj hl (by simp [beBytes_length])
  have := beBytes_inj _ _ _ (by rw [← fam_pow]; exact h₁.2.2.1) (by rw [← fam_pow]; exact h₂.2.2.1) ha
  simp only at hh
  simp only [List.cons.injEq, and_true] at hbits
  have hb₁ : b₁ ≤ 128 := by have := h₁.2.2.2; cases f₁ <;> simp [Fam.bits] at this <;> omega
  have hb₂ : b₂ ≤ 128 := by have := h₂.2.2.2; cases f₁ <;> simp [Fam.bits] at this <;> omega
  subst hh this
  have : b₁ = b₂ := by omega
  subst this
  rfl

/-- The same for the cache of answers that do not depend on the subnet: the bytes determine the
question, the DO bit, the family and the opt-out flag. -/
theorem noecs_key_bytes_injective (k₁ k₂ : NKey) (h₁ : k₁.wf) (h₂ : k₂.wf) (hh : k₁.host = k₂.host)
    (hb : nkeyBytes k₁ = nkeyBytes k₂) : k₁ = k₂ := by
  obtain ⟨host₁, qt₁, qc₁, d₁, f₁, dec₁⟩ := k₁
  obtain ⟨host₂, qt₂, qc₂, d₂, f₂, dec₂⟩ := k₂
  simp only [NKey.wf] at h₁ h₂
  simp only [nkeyBytes] at hb
  obtain ⟨rfl, rfl, rfl, rfl, hl⟩ := keyHead_inj _ _ _ _ _ _ _ _ _ _ h₁.1 h₁.2 h₂.1 h₂.2 hb
  simp only [List.cons.injEq, and_true] at hl
  have := b2n_inj _ _ hl
  simp only at hh
  subst hh this
  rfl

/-- Non-vacuity: 1.2.0.0/20 and 1.2.16.0/20 (they differ only inside the partial third byte) are
well-formed keys with different byte strings; so are 100.64.0.0/10 and 100.64.0.0/12. -/
def exK (a b : Nat) : EKey := ⟨0, 1, 1, false, ⟨.v4, a, b⟩⟩
example : (exK 16908288 20).wf ∧ (exK 16912384 20).wf ∧
    ekeyBytes (exK 16908288 20) = [1, 0, 1, 0, 0, 0, 1, 2, 0, 0, 20] ∧
    ekeyBytes (exK 16912384 20) = [1, 0, 1, 0, 0, 0, 1, 2, 16, 0, 20] ∧
    ekeyBytes (exK 1681915904 10) ≠ ekeyBytes (exK 1681915904 12) := by
  refine ⟨?_, ?_, ?_, ?_, ?_⟩ <;> simp [exK, EKey.wf, Pfx.wf, Fam.bits] <;> decide

/-- Hashing only the `bits / 8` leading bytes of the address is not enough: 1.2.0.0/20 and
1.2.16.0/20 get the same bytes, so an answer scoped to one would be served to clients mapped to the
other. -/
theorem leading_bytes_key_counterexample :
    ¬ ∀ k₁ k₂ : EKey, k₁.wf → k₂.wf → k₁.host = k₂.host → ekeyBytesLeading k₁ = ekeyBytesLeading k₂ →
      k₁ = k₂ := by
  intro h
  have := h (exK 16908288 20) (exK 16912384 20) (by simp [exK, EKey.wf, Pfx.wf, Fam.bits])
    (by simp [exK, EKey.wf, Pfx.wf, Fam.bits]) rfl (by decide)
  revert this
  decide

/-! ## Findings on the pinned tree (repaired by `fix: ecscache: strip client-supplied ecs options …`) -/

/-- The unfixed `setECS` rewrote only the first ECS option of the last OPT RR: a duplicate option
(here the client's full address 198.51.100.77/32) reached the upstream. -/
theorem dup_ecs_forwarded_counterexample :
    ¬ ∀ (extra : List OptRR) (p : Pfx), ecsOpts (setECSOld extra p false) = [mkECS p 0] := by
  intro h
  have := h [⟨false, [.ecs ⟨1, 4, 16909056, 24, 0⟩, .ecs ⟨1, 4, 3325256781, 32, 0⟩]⟩] ⟨.v4, 1681915904, 16⟩
  revert this
  decide

/-- The same for an ECS option in an earlier OPT RR of the query. -/
theorem extra_opt_rr_forwarded_counterexample :
    ¬ ∀ (extra : List OptRR) (p : Pfx), ecsOpts (setECSOld extra p false) = [mkECS p 0] := by
  intro h
  have := h [⟨false, [.ecs ⟨1, 4, 3325256781, 32, 0⟩]⟩, ⟨false, []⟩] ⟨.v4, 1681915904, 16⟩
  revert this
  decide

#print axioms upstream_subnet_private
#print axioms upstream_noninterference
#print axioms declined_never_subnet_cache
#print axioms partition
#print axioms unscoped_reuse
#print axioms ecs_echo
#print axioms malformed_formerr
#print axioms cache_key_bytes_injective
#print axioms noecs_key_bytes_injective
#print axioms leading_bytes_key_counterexample
#print axioms dup_ecs_forwarded_counterexample
#print axioms extra_opt_rr_forwarded_counterexample

end Agd.ECS
