import Agd.Tie.TrC05
import Agd.Lemmas.ECS
import Agd.Lemmas.ECSHist
import Agd.Tie.C05
import Agd.Model.ECSWire
import Agd.Lemmas.ECSRefresh
/-!
# C05 — client subnets stay private and ECS-dependent answers stay in their region

Property theorems only.  Helper lemmas live in `Agd/Lemmas/ECS.lean`.  The model is
`Agd/Model/ECS.lean` (the code after `fix: ecscache: strip client-supplied ecs options …`).
`env` (GeoIP `Data`, `SubnetByLocation`, the fake-ECS name list) is universally quantified; cache
states are either arbitrary (`s`) or reached from the empty caches by an arbitrary history of
requests and cache drops (`runEv env St.empty evs`).
-/
set_option linter.unusedSimpArgs false

namespace Agd.ECS

/-- **upstream_subnet_private.** Whatever the caches hold and whatever options the client sent
(duplicates, several OPT RRs, malformed trailing options): if the upstream is consulted, its query
carries exactly one ECS option, with scope 0, and the subnet in it is the one the request is mapped
to — the zero prefix of the family, or what GeoIP's `SubnetByLocation` returns for the location of
the client / its ECS address; for a client that opted out (/0) it is the zero prefix. -/
theorem upstream_subnet_private (env : Env) (s : St) (r : Req) (u : Up) (x : List OptRR)
    (h : (serve env s r u).2.up = some x) :
    ∃ sub, mapped env r = some sub ∧ ecsOpts x = [mkECS sub 0] ∧
      (sub = zeroPfx (ecsFamOf r) ∨ env.subnet (locOf r) (ecsFamOf r) = some sub) ∧
      (declined r = true → sub = zeroPfx (ecsFamOf r)) := by
  have key : ∃ sub, mapped env r = some sub ∧ x = setECS r.extra sub false := by
    unfold serve at h
    split at h
    · simp at h
    · unfold serveCache at h
      split at h
      · simp [errOut] at h
      · rename_i sub hsub
        split at h
        · simp at h
        · split at h
          · simp at h
          · split at h
            · simp [errOut] at h
            · split at h
              · simp only [errOut, Option.some.injEq] at h
                exact ⟨sub, hsub, h.symm⟩
              · split at h
                · simp only [errOut, Option.some.injEq] at h
                  exact ⟨sub, hsub, h.symm⟩
                · simp only [Option.some.injEq] at h
                  exact ⟨sub, hsub, h.symm⟩
  obtain ⟨sub, hm, rfl⟩ := key
  refine ⟨sub, hm, by simpa using ecsOpts_setECS r.extra sub false, ?_, ?_⟩
  · unfold mapped at hm
    split at hm
    · left; simpa using hm.symm
    · right; exact hm
  · intro hd
    unfold mapped at hm
    simp only [hd, ↓reduceIte, Option.some.injEq] at hm
    exact hm.symm

/-- Non-vacuity: a client at 192.0.2.1 sending its full address as a first ECS option, a second ECS
option with another address, and a third one in an earlier OPT RR; the upstream sees only the GeoIP
subnet 100.64.0.0/16. -/
def exEnv : Env :=
  { data := fun _ _ => some ⟨1, 0, 42⟩
    subnet := fun l f => if l.ctry = 1 ∧ f = .v4 then some ⟨.v4, 1681915904, 16⟩ else some (zeroPfx f)
    fake := fun h => h == 3 }
def exReq : Req :=
  locate exEnv ⟨.v4, 3221225985, 0, 1, 1,
    [⟨false, [.ecs ⟨1, 4, 3325256781, 32, 0⟩]⟩,
     ⟨false, [.other 65001, .ecs ⟨1, 4, 3221225985, 32, 0⟩, .ecs ⟨1, 4, 16909056, 24, 0⟩]⟩], none, none, 0⟩
def exUp : Up := ⟨false, true, 7, [⟨false, [.ecs ⟨1, 4, 1681915904, 16, 16⟩]⟩]⟩

example : (serve exEnv St.empty exReq exUp).2.up =
    some [⟨false, []⟩, ⟨false, [.other 65001, .ecs ⟨1, 4, 1681915904, 16, 0⟩]⟩] := by decide

/-- **upstream_noninterference.** Two requests (any clients, any supplied subnets, any cache states)
with the same family, the same mapped location and the same opt-out flag send the same ECS data
upstream: the client's address and the subnet it supplied have no other influence. -/
theorem upstream_noninterference (env : Env) (s₁ s₂ : St) (r₁ r₂ : Req) (u₁ u₂ : Up)
    (x₁ x₂ : List OptRR) (hfam : ecsFamOf r₁ = ecsFamOf r₂) (hloc : locOf r₁ = locOf r₂)
    (hdec : declined r₁ = declined r₂)
    (h₁ : (serve env s₁ r₁ u₁).2.up = some x₁) (h₂ : (serve env s₂ r₂ u₂).2.up = some x₂) :
    ecsOpts x₁ = ecsOpts x₂ := by
  obtain ⟨a, ha, hx₁, -, -⟩ := upstream_subnet_private env s₁ r₁ u₁ x₁ h₁
  obtain ⟨b, hb, hx₂, -, -⟩ := upstream_subnet_private env s₂ r₂ u₂ x₂ h₂
  have : mapped env r₁ = mapped env r₂ := by unfold mapped; rw [hfam, hloc, hdec]
  rw [ha, hb] at this
  simp only [Option.some.injEq] at this
  rw [hx₁, hx₂, this]

example : ecsFamOf exReq = ecsFamOf { exReq with raddr := 3221226061, extra := [] } ∧
    locOf exReq = locOf { exReq with raddr := 3221226061, extra := [] } := by decide

/-- **declined_never_subnet_cache.** A request whose ECS option has source length 0 is never
answered from the cache of subnet-dependent answers, in any cache state; and if it is answered from
the other cache after any history, that entry was stored by an earlier request that had opted out
as well, for the same question and family, from an upstream answer that was not ECS-dependent
(scope 0 or a known fake-ECS name).  (If the upstream is consulted, `upstream_subnet_private` gives
the /0 query.) -/
theorem declined_never_subnet_cache (env : Env) (evs : List Ev) (s : St) (r : Req) (u : Up)
    (hd : declined r = true) :
    (serve env s r u).2.src ≠ .ecsCache ∧
    ((serve env (runEv env St.empty evs) r u).2.src = .noecsCache →
      ∃ x ∈ reqsOf evs, some x.2.token = (serve env (runEv env St.empty evs) r u).2.tok ∧
        declined x.1 = true ∧ dependent env x.1 x.2 = false ∧ x.1.host = r.host ∧
        x.1.qtype = r.qtype ∧ x.1.qclass = r.qclass ∧ ecsFamOf x.1 = ecsFamOf r) := by
  constructor
  · unfold serve
    split
    · simp
    · unfold serveCache
      split
      · simp [errOut]
      · split
        · simp
        · simp only [hd, ↓reduceIte]
          split
          · simp [errOut]
          · split
            · simp [errOut]
            · split <;> simp [errOut]
  · intro hsrc
    exact declined_of_inv env _ _ (inv_reachable env evs) r u hd hsrc

/-- Non-vacuity: an opted-out request is served from an entry stored by an opted-out request. -/
def exDeclined : Req := { exReq with extra := [⟨false, [.ecs ⟨1, 4, 0, 0, 0⟩]⟩] }
def exUp0 : Up := ⟨false, true, 9, []⟩
example : declined exDeclined = true ∧
    (serve exEnv (runEv exEnv St.empty [.req exDeclined exUp0]) { exDeclined with raddr := 5 } exUp).2.src
      = .noecsCache ∧
    (serve exEnv (runEv exEnv St.empty [.req exReq exUp]) exDeclined exUp).2.src = .upstream := by
  decide

/-- **partition.** After any history of requests and cache drops (eviction, expiry), an answer served
from the cache of subnet-dependent answers was stored by an earlier request of the history whose
upstream answer was ECS-dependent, whose mapped subnet (address, length and family) is exactly the
one the present request is mapped to, and which asked the same question with the same DO bit; the
present request has not opted out. -/
theorem partition (env : Env) (evs : List Ev) (r : Req) (u : Up)
    (hsrc : (serve env (runEv env St.empty evs) r u).2.src = .ecsCache) :
    ∃ x ∈ reqsOf evs, some x.2.token = (serve env (runEv env St.empty evs) r u).2.tok ∧
      dependent env x.1 x.2 = true ∧ declined r = false ∧
      (∃ sub, mapped env r = some sub ∧ mapped env x.1 = some sub ∧ sub.fam = ecsFamOf x.1) ∧
      x.1.host = r.host ∧ x.1.qtype = r.qtype ∧ x.1.qclass = r.qclass ∧
      isDO x.1.extra = isDO r.extra :=
  partition_of_inv env _ _ (inv_reachable env evs) r u hsrc

/-- Non-vacuity: a second client mapped to the same subnet is served the stored scoped answer; a
client mapped elsewhere (unknown location: zero prefix) is not. -/
def exEnv2 : Env := { exEnv with data := fun _ a => if a = 5 then none else some ⟨1, 0, 42⟩ }
example :
    (serve exEnv2 (runEv exEnv2 St.empty [.req exReq exUp]) { exReq with raddr := 77, extra := [] } exUp).2.src
      = .ecsCache ∧
    (serve exEnv2 (runEv exEnv2 St.empty [.req exReq exUp]) (locate exEnv2 { exReq with raddr := 5, extra := [] }) exUp).2.src
      = .upstream := by
  decide

/-- **unscoped_reuse.** The companion of `partition` for the other cache: an answer served from it
was stored from an upstream answer that was *not* ECS-dependent, by a request with the same
question, DO bit, family and opt-out flag. -/
theorem unscoped_reuse (env : Env) (evs : List Ev) (r : Req) (u : Up)
    (hsrc : (serve env (runEv env St.empty evs) r u).2.src = .noecsCache) :
    ∃ x ∈ reqsOf evs, some x.2.token = (serve env (runEv env St.empty evs) r u).2.tok ∧
      dependent env x.1 x.2 = false ∧ declined x.1 = declined r ∧
      x.1.host = r.host ∧ x.1.qtype = r.qtype ∧ x.1.qclass = r.qclass ∧
      isDO x.1.extra = isDO r.extra :=
  unscoped_reuse_of_inv env _ _ (inv_reachable env evs) r u hsrc

/-- **ecs_echo.** After any history, a resolved response (from either cache or from the upstream)
carries an ECS option exactly when the query carried a valid one (the first ECS option of its OPT
RR passes `ecsData`, see `ecsData_ok`): then it carries exactly one, with the client's own family,
address and source length, and scope equal to the source length; otherwise none — also when the
upstream's answer carried ECS options of its own. -/
theorem ecs_echo (env : Env) (evs : List Ev) (r : Req) (u : Up)
    (hk : (serve env (runEv env St.empty evs) r u).2.kind = .ok) :
    ecsOpts (serve env (runEv env St.empty evs) r u).2.rextra =
      match ecsFromMsg r.extra with
      | .ok p _ => [mkECS p p.bits]
      | _ => [] :=
  ecs_echo_of_inv env _ _ (inv_reachable env evs) r u hk

/-- Non-vacuity: valid option echoed with scope = source length although the upstream scoped /16;
no option in the query, none in the response although the upstream's answer had one. -/
example :
    ecsOpts (serve exEnv St.empty exReq exUp).2.rextra = [.ecs ⟨1, 4, 3221225985, 32, 32⟩] ∧
    ecsOpts (serve exEnv St.empty { exReq with extra := [] } exUp).2.rextra = [] ∧
    (serve exEnv St.empty { exReq with extra := [] } exUp).2.kind = .ok := by decide

/-- **malformed_formerr.** The query is answered with FORMERR exactly when the first ECS option of
its OPT RR is malformed; then nothing is sent upstream and the caches are untouched. -/
theorem malformed_formerr (env : Env) (s : St) (r : Req) (u : Up) :
    ((serve env s r u).2.kind = .formerr ↔ ecsFromMsg r.extra = .bad) ∧
    (ecsFromMsg r.extra = .bad → (serve env s r u).2.up = none ∧ (serve env s r u).1 = s) := by
  constructor
  · constructor
    · intro h
      unfold serve at h
      split at h
      · assumption
      · exfalso
        unfold serveCache at h
        split at h
        · simp [errOut] at h
        · split at h
          · simp at h
          · split at h
            · simp at h
            · split at h
              · simp [errOut] at h
              · split at h
                · simp [errOut] at h
                · split at h <;> simp [errOut] at h
    · intro h; simp [serve, h]
  · intro h; simp [serve, h]

/-- Non-vacuity: 1.2.3.4/24 (bits beyond the prefix), family 3, a 5-byte address, /33. -/
example : ecsFromMsg [⟨false, [.ecs ⟨1, 4, 16909060, 24, 0⟩]⟩] = .bad ∧
    ecsFromMsg [⟨false, [.ecs ⟨3, 4, 16909056, 24, 0⟩]⟩] = .bad ∧
    ecsFromMsg [⟨false, [.ecs ⟨2, 5, 1, 8, 0⟩]⟩] = .bad ∧
    ecsFromMsg [⟨false, [.ecs ⟨1, 4, 16909056, 33, 0⟩]⟩] = .bad ∧
    ecsFromMsg [⟨false, [.ecs ⟨1, 4, 16909056, 24, 0⟩]⟩] = .ok ⟨.v4, 16909056, 24⟩ 0 := by decide

/-! ## What "valid" and "malformed" mean

`ecs_echo` and `malformed_formerr` speak about `ecsFromMsg`, the model of `dnsmsg.ECSFromMsg`.  The
predicate below is written from RFC 7871 without reference to that function. -/

/-- RFC 7871 section 6, as a predicate on the decoded option: a known family with an address of
that family, a source prefix length within the family's width, and all address bits after the
prefix zero.  (Family 1 also admits the 16-byte IPv4-mapped form that the wire decoder produces;
family 2 with a 4-byte address is read as the IPv4-mapped IPv6 address.) -/
def WellFormedECS (e : RawECS) : Prop :=
  (e.family = 1 ∧ e.alen = 4 ∧ e.mask ≤ 32 ∧ e.aval % 2 ^ (32 - e.mask) = 0) ∨
  (e.family = 1 ∧ e.alen = 16 ∧ e.aval / 2 ^ 32 = 0xffff ∧ e.mask ≤ 32 ∧
    (e.aval % 2 ^ 32) % 2 ^ (32 - e.mask) = 0) ∨
  (e.family = 2 ∧ e.alen = 16 ∧ e.mask ≤ 128 ∧ e.aval % 2 ^ (128 - e.mask) = 0) ∨
  (e.family = 2 ∧ e.alen = 4 ∧ e.mask ≤ 128 ∧ (0xffff * 2 ^ 32 + e.aval) % 2 ^ (128 - e.mask) = 0)

/-- **ecs_validity_spec.** The model's (and, by the correspondence run, the code's) `ecsData`
accepts exactly the well-formed options. -/
theorem ecs_validity_spec (e : RawECS) : (ecsData e).isSome = true ↔ WellFormedECS e := by
  unfold ecsData toAddr WellFormedECS
  by_cases h1 : e.family = 1
  · by_cases h4 : e.alen = 4
    · simp [h1, h4, maskAddr_eq_iff, Fam.bits]
    · by_cases h16 : e.alen = 16
      · by_cases hm : e.aval >>> 32 = 0xffff
        · have hm' : e.aval / 2 ^ 32 = 0xffff := by rw [← Nat.shiftRight_eq_div_pow]; exact hm
          simp [h1, h16, hm, hm', maskAddr_eq_iff, Fam.bits]
        · have hm' : ¬ e.aval / 2 ^ 32 = 0xffff := by rw [← Nat.shiftRight_eq_div_pow]; exact hm
          simp [h1, h16, hm, hm']
      · simp [h1, h4, h16]
  · by_cases h2 : e.family = 2
    · by_cases h4 : e.alen = 4
      · simp [h2, h4, maskAddr_eq_iff, Fam.bits]
      · by_cases h16 : e.alen = 16
        · simp [h2, h16, maskAddr_eq_iff, Fam.bits]
        · simp [h2, h4, h16]
    · simp [h1, h2]

/-- The ECS option that counts: the first one of the list. -/
def firstECS : List Opt → Option RawECS
  | [] => none
  | .ecs e :: _ => some e
  | .other _ :: r => firstECS r


/-- **ecs_option_spec.** Absent / malformed / valid, in terms of the first ECS option and
`WellFormedECS` alone. -/
theorem ecs_option_spec (os : List Opt) :
    (ecsFromOpts os = .absent ↔ firstECS os = none) ∧
    (ecsFromOpts os = .bad ↔ ∃ e, firstECS os = some e ∧ ¬ WellFormedECS e) ∧
    (∀ p sc, ecsFromOpts os = .ok p sc ↔
      ∃ e, firstECS os = some e ∧ WellFormedECS e ∧ ecsData e = some (p, sc)) := by
  induction os with
  | nil => simp [ecsFromOpts, firstECS]
  | cons o r ih =>
    cases o with
    | other c => simpa [ecsFromOpts, firstECS] using ih
    | ecs e =>
      have hw := ecs_validity_spec e
      cases hd : ecsData e with
      | none =>
        rw [hd] at hw
        simp at hw
        simp [ecsFromOpts, firstECS, hd, hw]
      | some ps =>
        rw [hd] at hw
        simp at hw
        simp [ecsFromOpts, firstECS, hd, hw]
        intro p sc
        constructor
        · rintro ⟨rfl, rfl⟩; rfl
        · intro h; subst h; exact ⟨rfl, rfl⟩


/-- **formerr_spec.** A query is answered with FORMERR exactly when the first ECS option of its
(last) OPT RR is not well-formed. -/
theorem formerr_spec (env : Env) (s : St) (r : Req) (u : Up) :
    (serve env s r u).2.kind = .formerr ↔
      ∃ rr e, r.extra.getLast? = some rr ∧ firstECS rr.opts = some e ∧ ¬ WellFormedECS e := by
  rw [(malformed_formerr env s r u).1]
  unfold ecsFromMsg
  cases h : r.extra.getLast? with
  | none => simp
  | some rr =>
    rw [(ecs_option_spec rr.opts).2.1]
    constructor
    · rintro ⟨e, h1, h2⟩; exact ⟨rr, e, rfl, h1, h2⟩
    · rintro ⟨rr', e, h0, h1, h2⟩
      simp only [Option.some.injEq] at h0
      subst h0
      exact ⟨e, h1, h2⟩

/-- Non-vacuity: 1.2.3.0/24 is well-formed, 1.2.3.4/24, /33 and family 3 are not. -/
example : WellFormedECS ⟨1, 4, 16909056, 24, 0⟩ ∧ ¬ WellFormedECS ⟨1, 4, 16909060, 24, 0⟩ ∧
    ¬ WellFormedECS ⟨1, 4, 16909056, 33, 0⟩ ∧ ¬ WellFormedECS ⟨3, 4, 16909056, 24, 0⟩ := by
  simp [WellFormedECS]

/-! ## Overlapping requests

`ServeDNS` runs concurrently: a request looks the caches up, misses, waits for the upstream, and
stores its answer later, when other requests have started and completed in between.  In the model
an execution is any sequence of completions (`finish`, of requests that started at *any* earlier
moment) and cache drops; look-ups do not change the state and may happen in any reached state.
Sequential histories are the special case `sequential_is_interleaved`. -/

/-- **sequential_is_interleaved.** Every state reached by a sequential history is reached by an
execution whose completions are requests of that history. -/
theorem sequential_is_interleaved (env : Env) (evs : List Ev) :
    ∃ cevs, runC env St.empty cevs = runEv env St.empty evs ∧ ∀ x ∈ finsOf cevs, x ∈ reqsOf evs := by
  suffices h : ∀ (evs : List Ev) (s : St),
      ∃ cevs, runC env s cevs = runEv env s evs ∧ ∀ x ∈ finsOf cevs, x ∈ reqsOf evs from h evs _
  intro evs
  induction evs with
  | nil => intro s; exact ⟨[], rfl, by simp [finsOf]⟩
  | cons e es ih =>
    intro s
    cases e with
    | req r u =>
      rcases serve_eq_finish env s r u with h | h
      · obtain ⟨c, hc, hs⟩ := ih s
        refine ⟨c, ?_, fun x hx => ?_⟩
        · simp only [runEv, stepEv, h]; exact hc
        · simp only [reqsOf, List.mem_cons]; exact Or.inr (hs x hx)
      · obtain ⟨c, hc, hs⟩ := ih (finish env s r u).1
        refine ⟨.fin r u :: c, ?_, fun x hx => ?_⟩
        · simp only [runC, stepC, runEv, stepEv, h]; exact hc
        · simp only [finsOf, reqsOf, List.mem_cons] at hx ⊢
          rcases hx with hx | hx
          · exact Or.inl hx
          · exact Or.inr (hs x hx)
    | dropN k =>
      obtain ⟨c, hc, hs⟩ := ih { s with noecs := putN s.noecs k none }
      exact ⟨.dropN k :: c, by simpa [runC, stepC, runEv, stepEv] using hc, by simpa [finsOf, reqsOf] using hs⟩
    | dropE k =>
      obtain ⟨c, hc, hs⟩ := ih { s with ecs := putE s.ecs k none }
      exact ⟨.dropE k :: c, by simpa [runC, stepC, runEv, stepEv] using hc, by simpa [finsOf, reqsOf] using hs⟩

/-- **interleaved_upstream_private.** The upstream query of a request that completes in *any* state
(whatever was stored while it waited) carries exactly one ECS option: the subnet the request itself
is mapped to, or the zero prefix; the zero prefix if it opted out. -/
theorem interleaved_upstream_private (env : Env) (s : St) (r : Req) (u : Up) (x : List OptRR)
    (h : (finish env s r u).2.up = some x) :
    ∃ sub, mapped env r = some sub ∧ ecsOpts x = [mkECS sub 0] ∧
      (sub = zeroPfx (ecsFamOf r) ∨ env.subnet (locOf r) (ecsFamOf r) = some sub) ∧
      (declined r = true → sub = zeroPfx (ecsFamOf r)) := by
  have key : ∃ sub, mapped env r = some sub ∧ x = setECS r.extra sub false := by
    unfold finish at h
    split at h
    · simp at h
    · split at h
      · simp [errOut] at h
      · rename_i sub hsub
        unfold serveMiss at h
        split at h
        · simp [errOut] at h
        · split at h
          · simp only [errOut, Option.some.injEq] at h
            exact ⟨sub, hsub, h.symm⟩
          · split at h
            · simp only [errOut, Option.some.injEq] at h
              exact ⟨sub, hsub, h.symm⟩
            · simp only [Option.some.injEq] at h
              exact ⟨sub, hsub, h.symm⟩
  obtain ⟨sub, hm, rfl⟩ := key
  refine ⟨sub, hm, by simpa using ecsOpts_setECS r.extra sub false, ?_, ?_⟩
  · unfold mapped at hm
    split at hm
    · left; simpa using hm.symm
    · right; exact hm
  · intro hd
    unfold mapped at hm
    simp only [hd, ↓reduceIte, Option.some.injEq] at hm
    exact hm.symm

/-- **interleaved_partition.** In a state reached by any execution with overlapping requests, an
answer served from the cache of subnet-dependent answers was stored by a completed request whose
own mapped subnet and family are the ones of the present request, for the same question and DO
bit: a request's store never lands under another request's subnet, whatever ran in between. -/
theorem interleaved_partition (env : Env) (cevs : List CEv) (r : Req) (u : Up)
    (hsrc : (serve env (runC env St.empty cevs) r u).2.src = .ecsCache) :
    ∃ x ∈ finsOf cevs, some x.2.token = (serve env (runC env St.empty cevs) r u).2.tok ∧
      dependent env x.1 x.2 = true ∧ declined r = false ∧
      (∃ sub, mapped env r = some sub ∧ mapped env x.1 = some sub ∧ sub.fam = ecsFamOf x.1) ∧
      x.1.host = r.host ∧ x.1.qtype = r.qtype ∧ x.1.qclass = r.qclass ∧
      isDO x.1.extra = isDO r.extra :=
  partition_of_inv env _ _ (inv_reachableC env cevs) r u hsrc

/-- **interleaved_unscoped_reuse.** -/
theorem interleaved_unscoped_reuse (env : Env) (cevs : List CEv) (r : Req) (u : Up)
    (hsrc : (serve env (runC env St.empty cevs) r u).2.src = .noecsCache) :
    ∃ x ∈ finsOf cevs, some x.2.token = (serve env (runC env St.empty cevs) r u).2.tok ∧
      dependent env x.1 x.2 = false ∧ declined x.1 = declined r ∧
      x.1.host = r.host ∧ x.1.qtype = r.qtype ∧ x.1.qclass = r.qclass ∧
      isDO x.1.extra = isDO r.extra :=
  unscoped_reuse_of_inv env _ _ (inv_reachableC env cevs) r u hsrc

/-- **interleaved_declined.** An opted-out request served from the cache in such a state gets an
answer obtained by an opted-out request (with a /0 upstream query, `interleaved_upstream_private`)
that the upstream did not scope. -/
theorem interleaved_declined (env : Env) (cevs : List CEv) (r : Req) (u : Up) (hd : declined r = true)
    (hsrc : (serve env (runC env St.empty cevs) r u).2.src = .noecsCache) :
    ∃ x ∈ finsOf cevs, some x.2.token = (serve env (runC env St.empty cevs) r u).2.tok ∧
      declined x.1 = true ∧ dependent env x.1 x.2 = false ∧ x.1.host = r.host ∧
      x.1.qtype = r.qtype ∧ x.1.qclass = r.qclass ∧ ecsFamOf x.1 = ecsFamOf r :=
  declined_of_inv env _ _ (inv_reachableC env cevs) r u hd hsrc

/-- **interleaved_ecs_echo.** Both for an answer from the caches of such a state and for a
completing request in any state: the response carries exactly the client's own valid option with
scope = source length, or none. -/
theorem interleaved_ecs_echo (env : Env) (cevs : List CEv) (s : St) (r : Req) (u : Up) :
    ((serve env (runC env St.empty cevs) r u).2.kind = .ok →
      ecsOpts (serve env (runC env St.empty cevs) r u).2.rextra =
        match ecsFromMsg r.extra with
        | .ok p _ => [mkECS p p.bits]
        | _ => []) ∧
    ((finish env s r u).2.kind = .ok →
      ecsOpts (finish env s r u).2.rextra =
        match ecsFromMsg r.extra with
        | .ok p _ => [mkECS p p.bits]
        | _ => []) := by
  refine ⟨ecs_echo_of_inv env _ _ (inv_reachableC env cevs) r u, ?_⟩
  intro hk
  have hresp : ∀ extra, ecsOpts extra = [] → ecsOpts (respExtra r extra) =
      match ecsFromMsg r.extra with
      | .ok p _ => [mkECS p p.bits]
      | _ => [] := by
    intro extra he
    cases h : ecsFromMsg r.extra <;> simp [respExtra, clientECS, h, ecsOpts_setECS, he]
  unfold finish at hk ⊢
  split at hk
  · simp at hk
  · rename_i hbad
    simp only [hbad, ↓reduceIte]
    split at hk
    · simp [errOut] at hk
    · rename_i sub hsub
      try simp only [hsub]
      unfold serveMiss at hk ⊢
      split at hk
      · simp [errOut] at hk
      · rename_i hfam
        try simp only [hfam, ↓reduceIte]
        split at hk
        · simp [errOut] at hk
        · rename_i hfail
          try simp only [hfail, ↓reduceIte]
          split at hk
          · simp [errOut] at hk
          · rename_i hub
            try simp only [hub, ↓reduceIte]
            exact hresp _ (ecsOpts_rmHop _)

/-- Non-vacuity: A (mapped to 100.64.0.0/16) and B (unknown location, zero prefix) both miss, B's
exchange completes first, then A's; afterwards a neighbour of A is served A's answer (token 7) and
a neighbour of B is served B's (token 8), each with its own upstream subnet. -/
def exB : Req := (locate exEnv2 { exReq with raddr := 5, extra := [] })
def exUpB : Up := { exUp with token := 8 }
example :
    (finish exEnv2 (runC exEnv2 St.empty [.fin exB exUpB]) exReq exUp).2.up.map ecsOpts
      = some [.ecs ⟨1, 4, 1681915904, 16, 0⟩] ∧
    (finish exEnv2 St.empty exB exUpB).2.up.map ecsOpts = some [.ecs ⟨1, 4, 0, 0, 0⟩] ∧
    (serve exEnv2 (runC exEnv2 St.empty [.fin exB exUpB, .fin exReq exUp]) { exReq with raddr := 77, extra := [] } exUp).2.tok
      = some 7 ∧
    (serve exEnv2 (runC exEnv2 St.empty [.fin exB exUpB, .fin exReq exUp]) exB exUp).2.tok = some 8 := by
  decide

/-! ## `geoip.File`: which subnet a location is assigned

Above, GeoIP is an arbitrary function.  Here it is `geoip.File` over an arbitrary database `db`
(any list of ASN networks and country networks, any top-ASN tables). -/

/-- Where the entries of the per-location map come from: the AS25159 exception, or a network of the
ASN database of that family whose ASN is a top ASN, stored under the key of its own
ASN (and country/subdivision for the special countries), lengthened to the desired length if it was
shorter. -/
theorem locMap_from_db (db : GeoDB) (f : Fam) (k : LKey) (p : Pfx) (h : db.locMap f k = some p) :
    (f = .v4 ∧ k = hackKey ∧ p = hackPfx) ∨
    ∃ n ∈ db.asnNets, db.isTop n.1.asn = true ∧ db.key n.1.asn n.1.ctry n.1.subdiv = k ∧ n.2.fam = f ∧
      p = lengthen f n.2 := by
  unfold GeoDB.locMap at h
  simp only [Option.map_eq_some_iff] at h
  obtain ⟨q, hq, rfl⟩ := h
  have fromScan : ∀ q, scan (fun _ _ => none)
      ((db.asnNets.filter (fun n => db.isTop n.1.asn)).map
        (fun n => (db.key n.1.asn n.1.ctry n.1.subdiv, n.2))) f k = some q →
      ∃ n ∈ db.asnNets, db.isTop n.1.asn = true ∧ db.key n.1.asn n.1.ctry n.1.subdiv = k ∧ n.2.fam = f ∧
        q = n.2 := by
    intro q hq
    rcases scan_from _ _ f k q hq with h0 | ⟨n, hn, hk, hf, hq'⟩
    · simp at h0
    · obtain ⟨a, ha, rfl⟩ := List.mem_map.1 hn
      obtain ⟨ha1, ha2⟩ := List.mem_filter.1 ha
      exact ⟨a, ha1, ha2, hk, hf, hq'⟩
  by_cases hf : f = .v4
  · simp only [hf, ↓reduceIte] at hq
    by_cases hk : k = hackKey
    · left
      simp only [putK, hk, ↓reduceIte, Option.some.injEq] at hq
      subst hq
      exact ⟨hf, hk, by subst hf; decide⟩
    · right
      simp only [putK, hk, ↓reduceIte] at hq
      obtain ⟨n, h1, h2, h3, h4, h5⟩ := fromScan q (by rw [hf]; exact hq)
      exact ⟨n, h1, h2, h3, h4, by rw [h5]⟩
  · right
    simp only [hf, ↓reduceIte] at hq
    obtain ⟨n, h1, h2, h3, h4, h5⟩ := fromScan q hq
    exact ⟨n, h1, h2, h3, h4, by rw [h5]⟩

/-- The per-country map: a network of the country database of that family and country. -/
theorem ctryMap_from_db (db : GeoDB) (f : Fam) (c : Nat) (p : Pfx) (h : db.ctryMap f c = some p) :
    ∃ n ∈ db.ctryNets, n.1 = c ∧ c ≠ 0 ∧ n.2.fam = f ∧ p = lengthen f n.2 := by
  unfold GeoDB.ctryMap at h
  simp only [Option.map_eq_some_iff] at h
  obtain ⟨q, hq, rfl⟩ := h
  rcases scan_from _ _ f c q hq with h0 | ⟨n, hn, hk, hf, hq'⟩
  · simp at h0
  · obtain ⟨hn1, hn2⟩ := List.mem_filter.1 hn
    refine ⟨n, hn1, hk, ?_, hf, by rw [hq']⟩
    rw [← hk]; simpa using hn2

/-- **subnet_by_location_assigned.** For every database, location and family, `SubnetByLocation`
answers with the zero prefix, or with a network the database lists (lengthened to /24 resp. /56 if
shorter) for the location's own ASN key, for the top ASN of the location's country, or for the
location's country — or the fixed AS25159 subnet under the same two conditions.  It never answers
with anything derived from an address. -/
theorem subnet_by_location_assigned (db : GeoDB) (l : Loc) (f : Fam) (p : Pfx)
    (hp : db.subnetByLocation l f = p) :
    p = zeroPfx f ∨
    (f = .v4 ∧ p = hackPfx ∧ (db.key l.asn l.ctry l.subdiv = hackKey ∨ db.topASN l.ctry = some 25159)) ∨
    (∃ n ∈ db.asnNets, db.isTop n.1.asn = true ∧ n.2.fam = f ∧ p = lengthen f n.2 ∧
      (db.key n.1.asn n.1.ctry n.1.subdiv = db.key l.asn l.ctry l.subdiv ∨
       ∃ a, db.topASN l.ctry = some a ∧ db.key n.1.asn n.1.ctry n.1.subdiv = ⟨0, 0, a⟩)) ∨
    (∃ n ∈ db.ctryNets, n.1 = l.ctry ∧ l.ctry ≠ 0 ∧ n.2.fam = f ∧ p = lengthen f n.2) := by
  unfold GeoDB.subnetByLocation at hp
  split at hp
  · rename_i n hn
    subst hp
    rcases locMap_from_db db f _ n hn with ⟨h1, h2, h3⟩ | ⟨x, hx, h1, h2, h3, h4⟩
    · right; left; exact ⟨h1, h3, Or.inl h2⟩
    · right; right; left; exact ⟨x, hx, h1, h3, h4, Or.inl h2⟩
  · split at hp
    · rename_i n hn
      subst hp
      cases ht : db.topASN l.ctry with
      | none => simp [ht] at hn
      | some a =>
        simp only [ht] at hn
        rcases locMap_from_db db f _ n hn with ⟨h1, h2, h3⟩ | ⟨x, hx, h1, h2, h3, h4⟩
        · right; left
          refine ⟨h1, h3, Or.inr ?_⟩
          simp only [hackKey, LKey.mk.injEq, true_and] at h2
          rw [h2]
        · right; right; left; exact ⟨x, hx, h1, h3, h4, Or.inr ⟨a, rfl, h2⟩⟩
    · split at hp
      · rename_i n hn
        subst hp
        right; right; right
        exact ctryMap_from_db db f _ n hn
      · exact Or.inl hp.symm

/-- **subnet_by_location_family_length.** The answer has the requested family, and unless it is the
zero prefix it is at least as long as the desired length (/24, /56): `geoip.File` never widens a
network of the database. -/
theorem subnet_by_location_family_length (db : GeoDB) (l : Loc) (f : Fam) :
    (db.subnetByLocation l f).fam = f ∧
    (db.subnetByLocation l f = zeroPfx f ∨ desired f ≤ (db.subnetByLocation l f).bits) := by
  rcases subnet_by_location_assigned db l f _ rfl with h | ⟨hf, h, -⟩ | ⟨n, -, -, hf, h, -⟩ | ⟨n, -, -, -, hf, h⟩
  · exact ⟨by rw [h]; rfl, Or.inl h⟩
  · exact ⟨by rw [h, hf]; rfl, Or.inr (by rw [h, hf]; decide)⟩
  · exact ⟨by rw [h, lengthen_fam, hf], Or.inr (by rw [h]; exact lengthen_bits f _)⟩
  · exact ⟨by rw [h, lengthen_fam, hf], Or.inr (by rw [h]; exact lengthen_bits f _)⟩

/-- **upstream_subnet_from_db.** `upstream_subnet_private` with `geoip.File` in place of the abstract
GeoIP: the single ECS option of the upstream query holds the zero prefix or `SubnetByLocation` of the
request's location (see `subnet_by_location_assigned`), of the ECS family; the GeoIP step never
fails, and an opted-out client's query carries the zero prefix. -/
theorem upstream_subnet_from_db (db : GeoDB) (data : Fam → Nat → Option Loc) (fake : Nat → Bool)
    (s : St) (r : Req) (u : Up) (x : List OptRR)
    (h : (serve (db.env data fake) s r u).2.up = some x) :
    ∃ sub, ecsOpts x = [mkECS sub 0] ∧ sub.fam = ecsFamOf r ∧
      (sub = zeroPfx (ecsFamOf r) ∨
        sub = db.subnetByLocation (locOf r) (ecsFamOf r)) ∧
      (declined r = true → sub = zeroPfx (ecsFamOf r)) := by
  obtain ⟨sub, -, hx, hsub, hd⟩ := upstream_subnet_private _ s r u x h
  refine ⟨sub, hx, ?_, ?_, hd⟩
  · rcases hsub with h0 | h1
    · rw [h0]; rfl
    · simp only [GeoDB.env, Option.some.injEq] at h1
      rw [← h1]; exact (subnet_by_location_family_length db _ _).1
  · rcases hsub with h0 | h1
    · exact Or.inl h0
    · simp only [GeoDB.env, Option.some.injEq] at h1
      exact Or.inr h1.symm

/-- **upstream_option_from_db_only.** With `geoip.File`, the subnet in the single ECS option of any
upstream query is the zero prefix, the AS25159 constant, or a network of one of the two databases
(lengthened to /24 resp. /56 if shorter) — for every client address, every option the client sent
and every cache state.  Nothing of the client's address or of the subnet it supplied can appear
there unless the databases list exactly that network. -/
theorem upstream_option_from_db_only (db : GeoDB) (data : Fam → Nat → Option Loc) (fake : Nat → Bool)
    (s : St) (r : Req) (u : Up) (x : List OptRR)
    (h : (serve (db.env data fake) s r u).2.up = some x) :
    ∃ sub, ecsOpts x = [mkECS sub 0] ∧
      (sub = zeroPfx (ecsFamOf r) ∨ sub = hackPfx ∨
        (∃ n ∈ db.asnNets, sub = lengthen (ecsFamOf r) n.2) ∨
        (∃ n ∈ db.ctryNets, sub = lengthen (ecsFamOf r) n.2)) := by
  obtain ⟨sub, hx, -, hsub, -⟩ := upstream_subnet_from_db db data fake s r u x h
  refine ⟨sub, hx, ?_⟩
  rcases hsub with h0 | h1
  · exact Or.inl h0
  · rcases subnet_by_location_assigned db (locOf r) (ecsFamOf r) sub h1.symm with
      h | ⟨-, h, -⟩ | ⟨n, hn, -, -, h, -⟩ | ⟨n, hn, -, -, -, h⟩
    · exact Or.inl h
    · exact Or.inr (Or.inl h)
    · exact Or.inr (Or.inr (Or.inl ⟨n, hn, h⟩))
    · exact Or.inr (Or.inr (Or.inr ⟨n, hn, h⟩))

/-- Non-vacuity: a database with a /16 of AS42 in country 1, a /8 of country 1 and a /30 of country 2;
AS42 is a top ASN.  A location in AS42 gets the /16 lengthened to /24; a location of country 1 in
another ASN gets the country's /8 as /24; country 2 only has a network longer than /24, which is
never taken first: zero prefix; the IPv6 side is empty. -/
def exDB : GeoDB :=
  { special := fun c => c == 9
    topASN := fun _ => none
    isTop := fun a => a == 42
    asnNets := [(⟨1, 0, 42⟩, ⟨.v4, 1681915904, 16⟩), (⟨1, 0, 43⟩, ⟨.v4, 1684000000, 16⟩)]
    ctryNets := [(1, ⟨.v4, 167772160, 8⟩), (2, ⟨.v4, 3221225984, 30⟩)] }
example :
    exDB.subnetByLocation ⟨1, 0, 42⟩ .v4 = ⟨.v4, 1681915904, 24⟩ ∧
    exDB.subnetByLocation ⟨1, 0, 43⟩ .v4 = ⟨.v4, 167772160, 24⟩ ∧
    exDB.subnetByLocation ⟨2, 0, 43⟩ .v4 = zeroPfx .v4 ∧
    exDB.subnetByLocation ⟨1, 0, 42⟩ .v6 = zeroPfx .v6 ∧
    exDB.subnetByLocation ⟨0, 0, 25159⟩ .v4 = hackPfx := by decide

/-- Non-vacuity of the two `…_from_db` theorems: a client of AS42 in country 1 that supplies its own
/32; the upstream sees the database's /16 of AS42 as a /24. -/
def exDBEnv : Env := exDB.env (fun _ _ => some ⟨1, 0, 42⟩) (fun _ => false)
example :
    (serve exDBEnv St.empty
      (locate exDBEnv ⟨.v4, 3221225985, 0, 1, 1, [⟨false, [.ecs ⟨1, 4, 3221225985, 32, 0⟩]⟩], none, none, 0⟩)
      exUp).2.up.map ecsOpts = some [.ecs ⟨1, 4, 1681915904, 24, 0⟩] := by decide

/-! ## `geoip.File.Data`: a finding

The theorems above take the locations of a request (`cl`, `el`: what `geoIP.Data` answered when
`ratelimitmw.location` asked) as inputs, so they hold whatever `Data` does.  Whether those locations
are the ones the databases assign to the addresses is a question about `File.Data`: they are if no
network of the databases is longer than /24 (IPv4) resp. /56 (IPv6), and need not be otherwise. -/

/-- The look-up does not distinguish addresses of one cache block. -/
def BlockConst (lookup : Fam → Nat → Loc) : Prop :=
  ∀ f a b, blockOf f a = blockOf f b → lookup f a = lookup f b

/-- Every cached location is the look-up's answer for every address of its block. -/
def CacheOK (lookup : Fam → Nat → Loc) (cache : Fam → Nat → Option Loc) : Prop :=
  ∀ f k l, cache f k = some l → ∀ a, blockOf f a = k → lookup f a = l

/-- **data_cache_exact_when_db_coarse.** If the databases do not split cache blocks, `Data` with its
cache answers exactly like the databases, whatever was looked up before (and the cache stays
consistent): then the locations of a request are `locate env r` for the function `env.data := lookup`. -/
theorem data_cache_exact_when_db_coarse (lookup : Fam → Nat → Loc) (cache : Fam → Nat → Option Loc)
    (hb : BlockConst lookup) (hc : CacheOK lookup cache) (f : Fam) (a : Nat) :
    (dataCached lookup cache f a).1 = lookup f a ∧ CacheOK lookup (dataCached lookup cache f a).2 := by
  unfold dataCached
  split
  · rename_i l hl
    exact ⟨(hc f _ l hl a rfl).symm, hc⟩
  · refine ⟨rfl, ?_⟩
    intro f' k l h a' ha'
    simp only at h
    split at h
    · rename_i hk
      simp only [Option.some.injEq] at h
      obtain ⟨hf, hk2⟩ := hk
      subst hf
      rw [← h]
      exact hb f' a' a (by rw [ha', hk2])
    · exact hc f' k l h a' ha'

/-- Non-vacuity: a database whose only network is 12.0.0.0/24 does not split blocks; the empty cache
is consistent. -/
example : BlockConst (fun f a => if blockOf f a = 786432 then ⟨1, 0, 7⟩ else ⟨0, 0, 0⟩) := by
  intro f a b h; simp only [h]
example : CacheOK (fun f a => if blockOf f a = 786432 then ⟨1, 0, 7⟩ else ⟨0, 0, 0⟩) (fun _ _ => none) := by
  intro f k l h; simp at h

/-- **data_cache_first_lookup_decides.** What the code does in general: once an address of a block
has been looked up, every address of the block gets that first answer. -/
theorem data_cache_first_lookup_decides (lookup : Fam → Nat → Loc) (cache : Fam → Nat → Option Loc)
    (f : Fam) (a b : Nat) (hab : blockOf f a = blockOf f b) :
    (dataCached lookup (dataCached lookup cache f a).2 f b).1 = (dataCached lookup cache f a).1 := by
  unfold dataCached
  cases h : cache f (blockOf f a) with
  | some l => simp [h, ← hab]
  | none => simp [h, ← hab]

/-- **data_cache_counterexample** (known finding).  A country database with 12.0.0.0/25 in country 3
and 12.0.0.128/25 in country 1: after 12.0.0.1 has been looked up, 12.0.0.129 is located in
country 3, so its upstream queries carry country 3's subnet although the database assigns it to
country 1.  `Data` is not a function of the address. -/
theorem data_cache_counterexample :
    ¬ ∀ (lookup : Fam → Nat → Loc) (f : Fam) (a b : Nat),
      (dataCached lookup (dataCached lookup (fun _ _ => none) f a).2 f b).1 = lookup f b := by
  intro h
  have := h (fun _ a => if a < 201326720 then ⟨3, 0, 0⟩ else ⟨1, 0, 0⟩) .v4 201326593 201326721
  revert this
  decide

/-- **data_cache_block_local.** The other side of the finding, for every database and every history
of look-ups since the last refresh (`Refresh` clears the cache): the location `Data` attributes to
an address is the database's location of that address or of an address that was asked earlier and
lies in the SAME /24 (IPv4) resp. /56 (IPv6) block.  The cache never carries a location from one
block to another: the imprecision of the known finding is bounded by one block (this is what a
coarser `ipToCacheKey` would break; `ipkey_returns_src` ties the block size to the source and the
run `geoCacheFinding` checks it for every position of the first differing bit). -/
theorem data_cache_block_local (lookup : Fam → Nat → Loc) (qs : List (Fam × Nat)) (f : Fam) (a : Nat) :
    ∃ a', ((f, a') ∈ qs ∨ a' = a) ∧ blockOf f a' = blockOf f a ∧
      (dataCached lookup (dataRun lookup (fun _ _ => none) qs) f a).1 = lookup f a' := by
  have hinv : CacheFrom lookup (dataRun lookup (fun _ _ => none) qs) ([] ++ qs) :=
    cacheFrom_run lookup qs _ [] (by intro f k l h; simp at h)
  unfold dataCached
  split
  · rename_i l hl
    obtain ⟨a', hm, hb, hlk⟩ := hinv f _ l hl
    exact ⟨a', Or.inl (by simpa using hm), hb, hlk.symm⟩
  · exact ⟨a, Or.inr rfl, rfl, rfl⟩

/-- Non-vacuity: after 12.0.0.1, the address 12.0.1.1 (next block) gets its own location although
12.0.0.129 (same block) does not. -/
example :
    (dataCached (fun _ a => if a < 201326720 then ⟨3, 0, 0⟩ else ⟨1, 0, 0⟩)
      (dataRun (fun _ a => if a < 201326720 then ⟨3, 0, 0⟩ else ⟨1, 0, 0⟩) (fun _ _ => none) [(.v4, 201326593)])
      .v4 201326849).1 = ⟨1, 0, 0⟩ ∧
    (dataCached (fun _ a => if a < 201326720 then ⟨3, 0, 0⟩ else ⟨1, 0, 0⟩)
      (dataRun (fun _ a => if a < 201326720 then ⟨3, 0, 0⟩ else ⟨1, 0, 0⟩) (fun _ _ => none) [(.v4, 201326593)])
      .v4 201326721).1 = ⟨3, 0, 0⟩ := by decide

/-! ## The cache keys: what is hashed determines the partition

The histories above partition the caches by the structural keys `EKey`/`NKey`.  The code hashes a
byte string (see `ekeyBytes`; tied to `toCacheKey` by `key_*_src` in `Tie/C05.lean`). -/

/-- **cache_key_bytes_injective.** For one host name, the byte string hashed for the cache of
subnet-dependent answers determines the question, the DO bit and the subnet — family, every bit of
the address and the length, byte-aligned or not: two requests get the same bytes only if they are
mapped to the same subnet.  (Hence, short of a 64-bit hash collision, `partition` speaks about the
code's cache.) -/
theorem cache_key_bytes_injective (k₁ k₂ : EKey) (h₁ : k₁.wf) (h₂ : k₂.wf) (hh : k₁.host = k₂.host)
    (hb : ekeyBytes k₁ = ekeyBytes k₂) : k₁ = k₂ := by
  obtain ⟨host₁, qt₁, qc₁, d₁, ⟨f₁, a₁, b₁⟩⟩ := k₁
  obtain ⟨host₂, qt₂, qc₂, d₂, ⟨f₂, a₂, b₂⟩⟩ := k₂
  simp only [EKey.wf, Pfx.wf] at h₁ h₂
  simp only [ekeyBytes, List.append_assoc] at hb
  obtain ⟨rfl, rfl, rfl, rfl, hl⟩ := keyHead_inj _ _ _ _ _ _ _ _ _ _ h₁.1 h₁.2.1 h₂.1 h₂.2.1 hb
  obtain ⟨ha, hbits⟩ := List.append_inj hl (by simp [beBytes_length])
  have := beBytes_inj _ _ _ (by rw [← fam_pow]; exact h₁.2.2.1) (by rw [← fam_pow]; exact h₂.2.2.1) ha
  simp only at hh
  simp only [List.cons.injEq, and_true] at hbits
  have hb₁ : b₁ ≤ 128 := by have := h₁.2.2.2; cases f₁ <;> simp [Fam.bits] at this <;> omega
  have hb₂ : b₂ ≤ 128 := by have := h₂.2.2.2; cases f₁ <;> simp [Fam.bits] at this <;> omega
  subst hh this
  have : b₁ = b₂ := by omega
  subst this
  rfl

/-- The same for the cache of answers that do not depend on the subnet: the bytes determine the
question, the DO bit, the family and the opt-out flag. -/
theorem noecs_key_bytes_injective (k₁ k₂ : NKey) (h₁ : k₁.wf) (h₂ : k₂.wf) (hh : k₁.host = k₂.host)
    (hb : nkeyBytes k₁ = nkeyBytes k₂) : k₁ = k₂ := by
  obtain ⟨host₁, qt₁, qc₁, d₁, f₁, dec₁⟩ := k₁
  obtain ⟨host₂, qt₂, qc₂, d₂, f₂, dec₂⟩ := k₂
  simp only [NKey.wf] at h₁ h₂
  simp only [nkeyBytes] at hb
  obtain ⟨rfl, rfl, rfl, rfl, hl⟩ := keyHead_inj _ _ _ _ _ _ _ _ _ _ h₁.1 h₁.2 h₂.1 h₂.2 hb
  simp only [List.cons.injEq, and_true] at hl
  have := b2n_inj _ _ hl
  simp only at hh
  subst hh this
  rfl

/-- Non-vacuity: 1.2.0.0/20 and 1.2.16.0/20 (they differ only inside the partial third byte) are
well-formed keys with different byte strings; so are 100.64.0.0/10 and 100.64.0.0/12. -/
def exK (a b : Nat) : EKey := ⟨0, 1, 1, false, ⟨.v4, a, b⟩⟩
example : (exK 16908288 20).wf ∧ (exK 16912384 20).wf ∧
    ekeyBytes (exK 16908288 20) = [1, 0, 1, 0, 0, 0, 1, 2, 0, 0, 20] ∧
    ekeyBytes (exK 16912384 20) = [1, 0, 1, 0, 0, 0, 1, 2, 16, 0, 20] ∧
    ekeyBytes (exK 1681915904 10) ≠ ekeyBytes (exK 1681915904 12) := by
  refine ⟨?_, ?_, ?_, ?_, ?_⟩ <;> simp [exK, EKey.wf, Pfx.wf, Fam.bits] <;> decide

/-- Hashing only the `bits / 8` leading bytes of the address is not enough: 1.2.0.0/20 and
1.2.16.0/20 get the same bytes, so an answer scoped to one would be served to clients mapped to the
other. -/
theorem leading_bytes_key_counterexample :
    ¬ ∀ k₁ k₂ : EKey, k₁.wf → k₂.wf → k₁.host = k₂.host → ekeyBytesLeading k₁ = ekeyBytesLeading k₂ →
      k₁ = k₂ := by
  intro h
  have := h (exK 16908288 20) (exK 16912384 20) (by simp [exK, EKey.wf, Pfx.wf, Fam.bits])
    (by simp [exK, EKey.wf, Pfx.wf, Fam.bits]) rfl (by decide)
  revert this
  decide

/-! ## Findings on the pinned tree (repaired by `fix: ecscache: strip client-supplied ecs options …`) -/

/-- The unfixed `setECS` rewrote only the first ECS option of the last OPT RR: a duplicate option
(here the client's full address 198.51.100.77/32) reached the upstream. -/
theorem dup_ecs_forwarded_counterexample :
    ¬ ∀ (extra : List OptRR) (p : Pfx), ecsOpts (setECSOld extra p false) = [mkECS p 0] := by
  intro h
  have := h [⟨false, [.ecs ⟨1, 4, 16909056, 24, 0⟩, .ecs ⟨1, 4, 3325256781, 32, 0⟩]⟩] ⟨.v4, 1681915904, 16⟩
  revert this
  decide

/-- The same for an ECS option in an earlier OPT RR of the query. -/
theorem extra_opt_rr_forwarded_counterexample :
    ¬ ∀ (extra : List OptRR) (p : Pfx), ecsOpts (setECSOld extra p false) = [mkECS p 0] := by
  intro h
  have := h [⟨false, [.ecs ⟨1, 4, 3325256781, 32, 0⟩]⟩, ⟨false, []⟩] ⟨.v4, 1681915904, 16⟩
  revert this
  decide

/-! ## The caches as the code has them: hashed keys with a host check, expiry, a GeoIP that is refreshed

`Model/ECSHist.lean`: slots indexed by `H host bytes` for an **arbitrary** function `H` (collisions
allowed), entries with an expiry stamp, every call under the GeoIP environment that was in force when
it mapped its request (`geoip.File.Refresh` may run between any two calls), completions in any
order, slots emptied at any time. -/

/-- Ranges of a call's fields as the code has them: 16-bit type and class, and a GeoIP that answers
with addresses of the family and lengths within it. -/
def WfCall (c : Call) : Prop :=
  c.r.qtype < 65536 ∧ c.r.qclass < 65536 ∧ ∀ l f p, c.env.subnet l f = some p → p.wf

/-- **hashed_hit_provenance.**  For every hash function, every clock and every sequence of GeoIP
environments: an answer served from the cache of subnet-dependent answers is the answer of a
completed call `x` that was cacheable and ECS-dependent, **for the same host name** (the host check),
**not yet expired** (`c.now ≤ x.now + x.life`), the present client has not opted out, and the hashed
key of `x` — computed from the subnet `x` was mapped to under *its own* GeoIP environment — is the
hashed key of the present call under the present environment. -/
theorem hashed_hit_provenance (H : HashFn) (evs : List HEv) (c : Call)
    (hsrc : (serveH H (runH H HSt.empty evs) c).2.src = .ecsCache) :
    ∃ x ∈ callsOf evs, some x.u.token = (serveH H (runH H HSt.empty evs) c).2.tok ∧
      x.r.host = c.r.host ∧ c.now ≤ x.now + x.life ∧ x.u.cacheable = true ∧
      dependent x.env x.r x.u = true ∧ declined c.r = false ∧
      ∃ sub subx, mapped c.env c.r = some sub ∧ mapped x.env x.r = some subx ∧ subx.fam = ecsFamOf x.r ∧
        hkE H x.r subx = hkE H c.r sub := by
  obtain ⟨sub, it, hm, hdec, hget', hout⟩ := serveH_ecs_hit H _ c hsrc
  obtain ⟨hslot, hexp, hhost⟩ := hget_some _ _ _ _ _ hget'
  obtain ⟨x, hx, ⟨hit, hc⟩, ⟨subx, hmx, hfx, hk⟩, hdep⟩ := (invH_reachable H evs).2 _ it hslot
  subst hit
  refine ⟨x, hx, by rw [hout]; rfl, hhost, hexp, hc, hdep, hdec, sub, subx, hm, hmx, hfx, hk.symm⟩

/-- **hashed_partition** (partition across refreshes, with expiry, over the hashed tables).  If the
hash does not collide *between the key of the present call and the key of a completed call for the
same host name* (collisions between different host names are harmless: the host check), then an answer
served from the cache of subnet-dependent answers was obtained by a completed call `x`
* for the same question (host, type, class) and DO bit,
* whose lifetime has not run out,
* and the subnet `x` was mapped to — by the GeoIP environment in force when `x` ran — is, in address,
  length and family, the subnet the present client is mapped to by the environment in force now.
A refresh of the GeoIP databases between the two calls does not weaken this: answers stay with the
*subnet* they were obtained for. -/
theorem hashed_partition (H : HashFn) (evs : List HEv) (c : Call) (hwf : WfCall c)
    (hwfs : ∀ x ∈ callsOf evs, WfCall x)
    (hnc : ∀ x ∈ callsOf evs, ∀ sub subx, x.r.host = c.r.host → hkE H x.r subx = hkE H c.r sub →
      ekeyBytes (ekey x.r subx) = ekeyBytes (ekey c.r sub))
    (hsrc : (serveH H (runH H HSt.empty evs) c).2.src = .ecsCache) :
    ∃ x ∈ callsOf evs, some x.u.token = (serveH H (runH H HSt.empty evs) c).2.tok ∧
      c.now ≤ x.now + x.life ∧ dependent x.env x.r x.u = true ∧ declined c.r = false ∧
      (∃ sub, mapped c.env c.r = some sub ∧ mapped x.env x.r = some sub ∧ sub.fam = ecsFamOf x.r) ∧
      x.r.host = c.r.host ∧ x.r.qtype = c.r.qtype ∧ x.r.qclass = c.r.qclass ∧
      isDO x.r.extra = isDO c.r.extra := by
  obtain ⟨x, hx, htok, hhost, hexp, -, hdep, hdec, sub, subx, hm, hmx, hfx, hk⟩ :=
    hashed_hit_provenance H evs c hsrc
  have hb := hnc x hx sub subx hhost hk
  have hwx := hwfs x hx
  have hkeq : ekey x.r subx = ekey c.r sub :=
    cache_key_bytes_injective _ _
      ⟨hwx.1, hwx.2.1, mapped_wf _ _ _ hwx.2.2 hmx⟩ ⟨hwf.1, hwf.2.1, mapped_wf _ _ _ hwf.2.2 hm⟩ hhost hb
  simp only [ekey, EKey.mk.injEq] at hkeq
  obtain ⟨h1, h2, h3, h4, h5⟩ := hkeq
  subst h5
  exact ⟨x, hx, htok, hexp, hdep, hdec, ⟨subx, hm, hmx, hfx⟩, h1, h2, h3, h4⟩

/-- **hashed_unscoped_reuse.**  The companion for the other cache (the one an opted-out client is
served from): same host, not expired, stored from an answer that was not ECS-dependent; and without
a same-host collision, by a call with the same question, DO bit, family and **opt-out flag** — an
opted-out client is only served what an opted-out call obtained (with a /0 query). -/
theorem hashed_unscoped_reuse (H : HashFn) (evs : List HEv) (c : Call) (hwf : WfCall c)
    (hwfs : ∀ x ∈ callsOf evs, WfCall x)
    (hnc : ∀ x ∈ callsOf evs, ∀ sub subx, x.r.host = c.r.host → hkN H x.r subx = hkN H c.r sub →
      nkeyBytes (nkey x.r subx) = nkeyBytes (nkey c.r sub))
    (hsrc : (serveH H (runH H HSt.empty evs) c).2.src = .noecsCache) :
    ∃ x ∈ callsOf evs, some x.u.token = (serveH H (runH H HSt.empty evs) c).2.tok ∧
      c.now ≤ x.now + x.life ∧ dependent x.env x.r x.u = false ∧ declined x.r = declined c.r ∧
      x.r.host = c.r.host ∧ x.r.qtype = c.r.qtype ∧ x.r.qclass = c.r.qclass ∧
      isDO x.r.extra = isDO c.r.extra := by
  obtain ⟨sub, it, hm, hget', hout⟩ := serveH_noecs_hit H _ c hsrc
  obtain ⟨hslot, hexp, hhost⟩ := hget_some _ _ _ _ _ hget'
  obtain ⟨x, hx, ⟨hit, hc⟩, hk, hdep⟩ := (invH_reachable H evs).1 _ it hslot
  subst hit
  have hb := hnc x hx sub (zeroPfx (ecsFamOf x.r)) hhost hk.symm
  have hwx := hwfs x hx
  have hkeq : nkey x.r (zeroPfx (ecsFamOf x.r)) = nkey c.r sub :=
    noecs_key_bytes_injective _ _ ⟨hwx.1, hwx.2.1⟩ ⟨hwf.1, hwf.2.1⟩ hhost hb
  simp only [nkey, NKey.mk.injEq] at hkeq
  obtain ⟨h1, h2, h3, h4, -, h6⟩ := hkeq
  exact ⟨x, hx, by rw [hout]; rfl, hexp, hdep, h6, h1, h2, h3, h4⟩

/-- **expired_never_served.**  For every hash function: once the lifetime of every stored answer has
run out, nothing is served from either cache — to anyone, whatever subnet they are mapped to. -/
theorem expired_never_served (H : HashFn) (evs : List HEv) (c : Call)
    (hexp : ∀ x ∈ callsOf evs, x.r.host = c.r.host → x.now + x.life < c.now) :
    (serveH H (runH H HSt.empty evs) c).2.src ≠ .ecsCache ∧
    (serveH H (runH H HSt.empty evs) c).2.src ≠ .noecsCache := by
  constructor
  · intro hsrc
    obtain ⟨x, hx, -, hhost, hle, -⟩ := hashed_hit_provenance H evs c hsrc
    have := hexp x hx hhost
    omega
  · intro hsrc
    obtain ⟨sub, it, hm, hget', hout⟩ := serveH_noecs_hit H _ c hsrc
    obtain ⟨hslot, hle, hhost⟩ := hget_some _ _ _ _ _ hget'
    obtain ⟨x, hx, ⟨hit, hc⟩, hk, hdep⟩ := (invH_reachable H evs).1 _ it hslot
    subst hit
    have := hexp x hx hhost
    simp only [itemOf] at hle
    omega

/-- **hashed_upstream_private.**  In the refined model too — any cache state, any hash, any moment,
the GeoIP environment of the call — the upstream query carries exactly one ECS option: the subnet the
call's own environment maps the request to, or the zero prefix; the zero prefix for an opted-out
client. -/
theorem hashed_upstream_private (H : HashFn) (s : HSt) (c : Call) (x : List OptRR)
    (h : (serveH H s c).2.up = some x ∨ (finishH H s c).2.up = some x) :
    ∃ sub, mapped c.env c.r = some sub ∧ ecsOpts x = [mkECS sub 0] ∧
      (sub = zeroPfx (ecsFamOf c.r) ∨ c.env.subnet (locOf c.r) (ecsFamOf c.r) = some sub) ∧
      (declined c.r = true → sub = zeroPfx (ecsFamOf c.r)) := by
  have h' : (finishH H s c).2.up = some x := by
    rcases h with h | h
    · exact serveH_up H s c x h
    · exact h
  rw [finishH_out H s c St.empty] at h'
  exact interleaved_upstream_private c.env St.empty c.r c.u x h'

/-- The hash used in the examples: the bytes read as a number in base 256 after the host. -/
def exHash : HashFn := fun h bs => bs.foldl (fun a b => a * 256 + b) h

/-- Non-vacuity of the hypotheses and of the three theorems: A (mapped to 100.64.0.0/16) stores a
scoped answer at time 10 with a lifetime of 300; a neighbour of A is served it at time 310, no longer
at 311, and a client mapped elsewhere never. -/
def exCallA : Call := ⟨exEnv2, 10, exReq, exUp, 300⟩
def exCallA' (now : Nat) : Call := ⟨exEnv2, now, { exReq with raddr := 77, extra := [] }, exUp, 300⟩
example : WfCall exCallA := by
  refine ⟨by decide, by decide, ?_⟩
  intro l f p h
  simp only [exCallA, exEnv2, exEnv] at h
  split at h <;> simp only [Option.some.injEq] at h <;> subst h
  · simp [Pfx.wf, Fam.bits]
  · simp [Pfx.wf, zeroPfx, Nat.two_pow_pos]
example :
    (serveH exHash (runH exHash HSt.empty [.fin exCallA]) (exCallA' 310)).2.src = .ecsCache ∧
    (serveH exHash (runH exHash HSt.empty [.fin exCallA]) (exCallA' 311)).2.src = .upstream ∧
    (serveH exHash (runH exHash HSt.empty [.fin exCallA]) ⟨exEnv2, 20, exB, exUpB, 300⟩).2.src = .upstream := by
  decide

/-- **hash_collision_counterexample.**  The no-collision hypothesis of `hashed_partition` cannot be
dropped: with a hash that maps the keys of 100.64.0.0/16 and of the zero prefix to the same slot, a
client of unknown location (zero prefix) is served the answer scoped to A's subnet — the host check
does not notice, the host is the same. -/
theorem hash_collision_counterexample :
    ¬ ∀ (H : HashFn) (evs : List HEv) (c : Call),
      (serveH H (runH H HSt.empty evs) c).2.src = .ecsCache →
      ∃ x ∈ callsOf evs, ∃ sub, mapped c.env c.r = some sub ∧ mapped x.env x.r = some sub := by
  intro h
  obtain ⟨x, hx, sub, h1, h2⟩ :=
    h (fun _ _ => 0) [.fin exCallA] ⟨exEnv2, 20, exB, exUpB, 300⟩ (by decide)
  simp only [callsOf, List.mem_cons, List.not_mem_nil, or_false] at hx
  subst hx
  have e1 : mapped exEnv2 exB = some (zeroPfx .v4) := by decide
  have e2 : mapped exCallA.env exCallA.r = some ⟨.v4, 1681915904, 16⟩ := by decide
  simp only at h1
  rw [e1] at h1
  rw [e2] at h2
  simp only [Option.some.injEq] at h1 h2
  subst h1
  revert h2
  decide

/-- **refresh_location_counterexample.**  What a refresh does *not* preserve: answers do not stay
with a *location*.  Before the refresh country 1 is assigned 100.64.0.0/16 and A (country 1) stores a
scoped answer; the refreshed database assigns that network to country 2 and nothing to country 1.  A
client in country 2 is now served A's answer (it is the answer for the subnet it would send), although
the two clients are in different locations and the present database maps A's location elsewhere. -/
def exEnvNew : Env :=
  { data := fun _ _ => some ⟨2, 0, 43⟩
    subnet := fun l f => if l.ctry = 2 ∧ f = .v4 then some ⟨.v4, 1681915904, 16⟩ else some (zeroPfx f)
    fake := fun h => h == 3 }
def exCallNew : Call := ⟨exEnvNew, 20, locate exEnvNew { exReq with raddr := 99, extra := [] }, exUp, 300⟩
theorem refresh_location_counterexample :
    (serveH exHash (runH exHash HSt.empty [.fin exCallA]) exCallNew).2.src = .ecsCache ∧
    locOf exCallA.r ≠ locOf exCallNew.r ∧
    exCallNew.env.subnet (locOf exCallA.r) .v4 ≠ mapped exCallNew.env exCallNew.r := by
  decide

/-! ## `geoip.File.Refresh` is not atomic -/

/-- **refresh_window_subnet_assigned.**  While `Refresh` replaces the maps of database pair `old` by
those of `new`, `SubnetByLocation` can run over the location maps of one and the country maps of the
other.  In every such combination the answer is the zero prefix, the AS25159 constant, or a network
that `old` or `new` lists for the location's ASN key, for the top ASN of its country, or for its
country — never anything else. -/
theorem refresh_window_subnet_assigned (old new locFrom ctryFrom : GeoDB)
    (h1 : locFrom = old ∨ locFrom = new) (h2 : ctryFrom = old ∨ ctryFrom = new) (l : Loc) (f : Fam) :
    (GeoDB.mix locFrom ctryFrom).subnetByLocation l f = zeroPfx f ∨
    (GeoDB.mix locFrom ctryFrom).subnetByLocation l f = hackPfx ∨
    (∃ n ∈ old.asnNets ++ new.asnNets, n.2.fam = f ∧
      (GeoDB.mix locFrom ctryFrom).subnetByLocation l f = lengthen f n.2) ∨
    (∃ n ∈ old.ctryNets ++ new.ctryNets, n.1 = l.ctry ∧ n.2.fam = f ∧
      (GeoDB.mix locFrom ctryFrom).subnetByLocation l f = lengthen f n.2) := by
  rcases subnet_by_location_assigned (GeoDB.mix locFrom ctryFrom) l f _ rfl with
    h | ⟨-, h, -⟩ | ⟨n, hn, -, hf, h, -⟩ | ⟨n, hn, hc, -, hf, h⟩
  · exact Or.inl h
  · exact Or.inr (Or.inl h)
  · right; right; left
    refine ⟨n, ?_, hf, h⟩
    simp only [GeoDB.mix] at hn
    rcases h1 with h1 | h1 <;> subst h1 <;> simp [hn]
  · right; right; right
    refine ⟨n, ?_, hc, hf, h⟩
    simp only [GeoDB.mix] at hn
    rcases h2 with h2 | h2 <;> subst h2 <;> simp [hn]

/-- Non-vacuity: the location maps of `exDB` with the country maps of a database that moved country
1 to 11.0.0.0/8: AS42 still gets its /16 (as /24), another ASN of country 1 the new country network. -/
def exDBNew : GeoDB := { exDB with ctryNets := [(1, ⟨.v4, 184549376, 8⟩)] }
example :
    (GeoDB.mix exDB exDBNew).subnetByLocation ⟨1, 0, 42⟩ .v4 = ⟨.v4, 1681915904, 24⟩ ∧
    (GeoDB.mix exDB exDBNew).subnetByLocation ⟨1, 0, 43⟩ .v4 = ⟨.v4, 184549376, 24⟩ := by decide

/-! ## Which location a request is attributed to

`locOf` (the model of `locFromReq`) is a program.  The table below says, without it, which location the
property means by "the client's (or its ECS option's) country/ASN". -/

/-- The location the subnet is looked up for, as a decision table over: does the query carry a valid
ECS option, is the option's address located (`el`), does that location have a country, is the
client's address located (`cl`). -/
structure LocSpec (r : Req) (l : Loc) : Prop where
  /-- a valid option whose address lies in a known country: that location, whole -/
  ecs_known : ∀ p e, clientECS r = some p → r.el = some e → e.ctry ≠ 0 → l = e
  /-- the option's address has no country: country **and** ASN of the client's address -/
  ecs_no_country : ∀ p e c, clientECS r = some p → r.el = some e → e.ctry = 0 → r.cl = some c →
    l = ⟨c.ctry, e.subdiv, c.asn⟩
  /-- neither is located in a country -/
  ecs_only : ∀ p e, clientECS r = some p → r.el = some e → e.ctry = 0 → r.cl = none → l = e
  /-- no usable option: country and ASN of the client's address, no subdivision -/
  client : ∀ c, (clientECS r = none ∨ r.el = none) → r.cl = some c → l = ⟨c.ctry, 0, c.asn⟩
  /-- nothing known -/
  nothing : (clientECS r = none ∨ r.el = none) → r.cl = none → l = ⟨0, 0, 0⟩

/-- **locOf_spec.**  `locFromReq` implements the table, and the table determines the location. -/
theorem locOf_spec (r : Req) : LocSpec r (locOf r) ∧ ∀ l, LocSpec r l → l = locOf r := by
  have key : LocSpec r (locOf r) := by
    constructor
    · intro p e hp he hc
      simp [locOf, locFromReq, hp, he, hc]
      cases r.cl <;> simp [hc]
    · intro p e c hp he hc hcl
      simp [locOf, locFromReq, hp, he, hc, hcl]
    · intro p e hp he hc hcl
      simp [locOf, locFromReq, hp, he, hc, hcl]
    · intro c h hcl
      rcases h with h | h
      · simp [locOf, locFromReq, h, hcl]
      · cases hp : clientECS r <;> simp [locOf, locFromReq, h, hcl, hp]
    · intro h hcl
      rcases h with h | h
      · simp [locOf, locFromReq, h, hcl]
      · cases hp : clientECS r <;> simp [locOf, locFromReq, h, hcl, hp]
  refine ⟨key, ?_⟩
  intro l hl
  cases hp : clientECS r with
  | none =>
    cases hcl : r.cl with
    | none => rw [hl.nothing (Or.inl hp) hcl, key.nothing (Or.inl hp) hcl]
    | some c => rw [hl.client c (Or.inl hp) hcl, key.client c (Or.inl hp) hcl]
  | some p =>
    cases he : r.el with
    | none =>
      cases hcl : r.cl with
      | none => rw [hl.nothing (Or.inr he) hcl, key.nothing (Or.inr he) hcl]
      | some c => rw [hl.client c (Or.inr he) hcl, key.client c (Or.inr he) hcl]
    | some e =>
      by_cases hc : e.ctry = 0
      · cases hcl : r.cl with
        | none => rw [hl.ecs_only p e hp he hc hcl, key.ecs_only p e hp he hc hcl]
        | some c => rw [hl.ecs_no_country p e c hp he hc hcl, key.ecs_no_country p e c hp he hc hcl]
      · rw [hl.ecs_known p e hp he hc, key.ecs_known p e hp he hc]

/-- **loc_single_source.**  Country and ASN of the attributed location always come from the *same*
look-up: both from the location of the valid option's address, or both from the location of the
client's address, or both are unknown.  (The ASN of one address is never combined with the country
of the other.) -/
theorem loc_single_source (r : Req) :
    (∃ p e, clientECS r = some p ∧ r.el = some e ∧ (locOf r).ctry = e.ctry ∧ (locOf r).asn = e.asn) ∨
    (∃ c, r.cl = some c ∧ (locOf r).ctry = c.ctry ∧ (locOf r).asn = c.asn) ∨
    ((locOf r).ctry = 0 ∧ (locOf r).asn = 0) := by
  have key := (locOf_spec r).1
  cases hp : clientECS r with
  | none =>
    cases hcl : r.cl with
    | none => right; right; rw [key.nothing (Or.inl hp) hcl]; exact ⟨rfl, rfl⟩
    | some c => right; left; exact ⟨c, rfl, by rw [key.client c (Or.inl hp) hcl], by rw [key.client c (Or.inl hp) hcl]⟩
  | some p =>
    cases he : r.el with
    | none =>
      cases hcl : r.cl with
      | none => right; right; rw [key.nothing (Or.inr he) hcl]; exact ⟨rfl, rfl⟩
      | some c => right; left; exact ⟨c, rfl, by rw [key.client c (Or.inr he) hcl], by rw [key.client c (Or.inr he) hcl]⟩
    | some e =>
      by_cases hc : e.ctry = 0
      · cases hcl : r.cl with
        | none => left; exact ⟨p, e, rfl, rfl, by rw [key.ecs_only p e hp he hc hcl], by rw [key.ecs_only p e hp he hc hcl]⟩
        | some c =>
          right; left
          exact ⟨c, rfl, by rw [key.ecs_no_country p e c hp he hc hcl], by rw [key.ecs_no_country p e c hp he hc hcl]⟩
      · left; exact ⟨p, e, rfl, rfl, by rw [key.ecs_known p e hp he hc], by rw [key.ecs_known p e hp he hc]⟩

/-- Non-vacuity: a client in country 1/AS42 whose valid option's address lies in country 2 without an
ASN is attributed country 2 and *no* ASN (not AS42); with an option whose address is not located in
any country it is attributed its own country and ASN. -/
example :
    locOf { exReq with cl := some ⟨1, 0, 42⟩, el := some ⟨2, 0, 0⟩ } = ⟨2, 0, 0⟩ ∧
    locOf { exReq with cl := some ⟨1, 0, 42⟩, el := some ⟨0, 0, 7⟩ } = ⟨1, 0, 42⟩ ∧
    locOf { exReq with extra := [], cl := some ⟨1, 5, 42⟩, el := some ⟨2, 0, 9⟩ } = ⟨1, 0, 42⟩ := by decide

/-! ## Question names

The cache keys and the host check use `ri.Host = agdnet.NormalizeDomain(q.Name)`; the fake-ECS list is
asked about the name as the message spells it (`reqinfo_host_src`, `dep_name_arg_src`). -/

/-- **normalize_case_insensitive.** Two spellings of a name that differ only in the case of ASCII
letters (with or without the final dot on both) have the same normalised host, hence the same cache
keys: every theorem above that says "same host" says "same name up to case" for requests from the
wire (`hostOfName`). -/
theorem normalize_case_insensitive (n m : List Nat) (h : n.map lowerByte = m.map lowerByte) :
    normalizeDomain n = normalizeDomain m ∧ hostOfName n = hostOfName m := by
  have : normalizeDomain n = normalizeDomain m := by rw [normalizeDomain_eq, normalizeDomain_eq, h]
  exact ⟨this, by unfold hostOfName; rw [this]⟩

/-- **fake_list_spelling_sensitive** (what the code does, not a violation of the property): "0CF.IO."
and "0cf.io." share their cache entries but not their membership in `FakeECSFQDNs`, which is asked
about the spelled name: a scoped answer for "0CF.IO." is kept per subnet (the conservative side). -/
theorem fake_list_spelling_sensitive :
    hostOfName [48, 67, 70, 46, 73, 79, 46] = hostOfName [48, 99, 102, 46, 105, 111, 46] ∧
    qnOfName [48, 67, 70, 46, 73, 79, 46] ≠ qnOfName [48, 99, 102, 46, 105, 111, 46] ∧
    normalizeDomain [48, 67, 70, 46, 73, 79, 46] = [48, 99, 102, 46, 105, 111] := by decide

/-- Non-vacuity: "A.Example." and "a.EXAMPLE." -/
example : [65, 46, 69, 120, 46].map lowerByte = [97, 46, 101, 88, 46].map lowerByte := by decide


/-! ## Round 4: the wire, the server around the handler, the builder

`Model/ECSWire.lean`.  The structural theorems above start from decoded options (`RawECS`), from a
handler whose one response is what the client gets, and from a handler chain that contains
`ecscache`.  The three parts below say what the code guarantees at those three borders — and where
the statement of the property does not hold. -/

/-- RFC 7871, section 6, read on the option data alone: FAMILY 1 or 2, SOURCE PREFIX-LENGTH within
the family's width, exactly ⌈prefix/8⌉ address octets, the bits after the prefix zero. -/
def WireWellFormed (b : List Nat) : Prop :=
  ∃ f0 m sc addr, b = 0 :: f0 :: m :: sc :: addr ∧ (f0 = 1 ∨ f0 = 2) ∧
    m ≤ (if f0 = 1 then 32 else 128) ∧ addr.length = (m + 7) / 8 ∧
    beVal addr % 2 ^ (8 * addr.length - m) = 0

theorem wire_dropped_iff_unpack (b : List Nat) : wireAnswer b = .dropped ↔ unpackECS b = none := by
  unfold wireAnswer
  cases h : unpackECS b with
  | none => simp
  | some e => cases h2 : ecsData e <;> simp [h2]

/-- **wire_dropped_iff.** Exactly these option data make the whole query vanish (the message does
not unpack, `ServerBase.serveDNS` "lets the connection hang"): fewer than four octets, a family
other than 0, 1, 2, family 0 with a non-zero prefix length, a source *or scope* prefix length
beyond the family's width. -/
theorem wire_dropped_iff (b : List Nat) :
    wireAnswer b = .dropped ↔
      (b.length < 4 ∨ ∃ f1 f0 m sc rest, b = f1 :: f0 :: m :: sc :: rest ∧
        ((f1 * 256 + f0 = 0 ∧ m ≠ 0) ∨ (f1 * 256 + f0 = 1 ∧ (32 < m ∨ 32 < sc)) ∨
         (f1 * 256 + f0 = 2 ∧ (128 < m ∨ 128 < sc)) ∨ 3 ≤ f1 * 256 + f0)) := by
  rw [wire_dropped_iff_unpack]
  match b with
  | [] => simp [unpackECS]
  | [_] => simp [unpackECS]
  | [_, _] => simp [unpackECS]
  | [_, _, _] => simp [unpackECS]
  | f1 :: f0 :: m :: sc :: rest =>
    simp only [unpackECS, List.length_cons]
    constructor
    · intro h
      right
      refine ⟨f1, f0, m, sc, rest, rfl, ?_⟩
      by_cases h0 : f1 * 256 + f0 = 0
      · simp only [h0, ↓reduceIte] at h
        by_cases hm : m = 0
        · simp [hm] at h
        · exact Or.inl ⟨h0, hm⟩
      · by_cases h1 : f1 * 256 + f0 = 1
        · simp only [h1, ↓reduceIte] at h
          by_cases hc : m ≤ 32 ∧ sc ≤ 32
          · simp [hc] at h
          · right; left; exact ⟨h1, by omega⟩
        · by_cases h2 : f1 * 256 + f0 = 2
          · simp only [h2, ↓reduceIte] at h
            by_cases hc : m ≤ 128 ∧ sc ≤ 128
            · simp [hc] at h
            · right; right; left; exact ⟨h2, by omega⟩
          · right; right; right; omega
    · rintro (h | ⟨a1, a0, am, asc, ar, hb, h⟩)
      · omega
      · simp only [List.cons.injEq] at hb
        obtain ⟨rfl, rfl, rfl, rfl, rfl⟩ := hb
        rcases h with ⟨h0, hm⟩ | ⟨h1, hm⟩ | ⟨h2, hm⟩ | h3
        · simp [h0, hm]
        · have : ¬ (m ≤ 32 ∧ sc ≤ 32) := by omega
          simp [h1, this]
        · have : ¬ (m ≤ 128 ∧ sc ≤ 128) := by omega
          simp [h2, this]
        · have a : ¬ f1 * 256 + f0 = 0 := by omega
          have b' : ¬ f1 * 256 + f0 = 1 := by omega
          have c : ¬ f1 * 256 + f0 = 2 := by omega
          rw [if_neg a, if_neg b', if_neg c]

/-- **wire_formerr_iff.** FORMERR is the answer exactly when the option data decode and the decoded
option is not `WellFormedECS`. -/
theorem wire_formerr_iff (b : List Nat) :
    wireAnswer b = .formerr ↔ ∃ e, unpackECS b = some e ∧ ¬ WellFormedECS e := by
  unfold wireAnswer
  cases h : unpackECS b with
  | none => simp
  | some e =>
    have hw := ecs_validity_spec e
    cases h2 : ecsData e with
    | none => rw [h2] at hw; simp at hw; simp [hw, h2]
    | some ps => rw [h2] at hw; simp at hw; simp [hw, h2]

/-- **wire_malformed_dropped_counterexample** (known finding `wire-malformed-ecs-dropped`): "a
malformed option is answered with FORMERR" does not hold on the wire — 1.2.3.4/33 is not
well-formed and the query is not answered at all. -/
theorem wire_malformed_dropped_counterexample :
    ¬ (∀ b, ¬ WireWellFormed b → wireAnswer b = .formerr) := by
  intro h
  have h1 : ¬ WireWellFormed [0, 1, 33, 0, 1, 2, 3, 4, 5] := by
    rintro ⟨f0, m, sc, addr, hb, hf, hm, -, -⟩
    simp only [List.cons.injEq] at hb
    obtain ⟨-, rfl, rfl, -, -⟩ := hb
    simp at hm
  have h2 := h _ h1
  rw [wire_formerr_iff] at h2
  obtain ⟨e, he, -⟩ := h2
  simp [unpackECS] at he

theorem padTake_length (n : Nat) (bs : List Nat) : (padTake n bs).length = n := by
  simp [padTake]; omega

theorem padTake_idem (n : Nat) (bs : List Nat) : padTake n (padTake n bs) = padTake n bs := by
  have h := padTake_length n bs
  have ht : (padTake n bs).take n = padTake n bs := List.take_of_length_le (by omega)
  show (padTake n bs).take n ++ List.replicate (n - ((padTake n bs).take n).length) 0 = padTake n bs
  rw [ht, h]
  simp

/-- **wire_address_length_lenient.** The decoder zero-fills a short address field and ignores every
octet after the fourth (sixteenth): the answer depends on the address octets only through their
first 4 (16), zero-filled — an address field of the wrong length is *not* answered with FORMERR
(known finding `wire-ecs-address-length-not-checked`), and the echo carries the canonical octets, not
the client's. -/
theorem wire_address_length_lenient (m sc : Nat) (rest : List Nat) :
    wireAnswer (0 :: 1 :: m :: sc :: rest) = wireAnswer (0 :: 1 :: m :: sc :: padTake 4 rest) ∧
    wireAnswer (0 :: 2 :: m :: sc :: rest) = wireAnswer (0 :: 2 :: m :: sc :: padTake 16 rest) := by
  simp [wireAnswer, unpackECS, padTake_idem]

/-- Non-vacuity (tests on literals): 1.2.3/24 is echoed with scope 24, so are 1.2.3.0 (four octets)
and 1.2.3.0.9.9 (six); 1.2/24 (two octets) is echoed as 1.2.0/24; 1.2.3.4/24 is FORMERR and so is
dig's family 0; /33, scope 33, family 3 and three octets of option data vanish. -/
example : wireAnswer [0, 1, 24, 0, 1, 2, 3] = .echo [0, 1, 24, 24, 1, 2, 3] ∧
    wireAnswer [0, 1, 24, 0, 1, 2, 3, 0] = .echo [0, 1, 24, 24, 1, 2, 3] ∧
    wireAnswer [0, 1, 24, 0, 1, 2, 3, 0, 9, 9] = .echo [0, 1, 24, 24, 1, 2, 3] ∧
    wireAnswer [0, 1, 24, 0, 1, 2] = .echo [0, 1, 24, 24, 1, 2, 0] ∧
    wireAnswer [0, 1, 24, 0, 1, 2, 3, 4] = .formerr ∧ wireAnswer [0, 0, 0, 0] = .formerr ∧
    wireAnswer [0, 1, 33, 0, 1, 2, 3, 4, 5] = .dropped ∧ wireAnswer [0, 1, 24, 33, 1, 2, 3] = .dropped ∧
    wireAnswer [0, 3, 24, 0, 1, 2, 3] = .dropped ∧ wireAnswer [0, 1, 0] = .dropped ∧
    wireAnswer [0, 1, 0, 0] = .echo [0, 1, 0, 0] := by decide
example : WireWellFormed [0, 1, 24, 0, 1, 2, 3] := ⟨1, 24, 0, [1, 2, 3], rfl, Or.inl rfl, by decide, rfl, by decide⟩

/-- **formerr_then_servfail_counterexample** (fixed: `fix: ratelimitmw: do not return the ecs error
after answering it with formerr`).  `processLocationErr` wrote the FORMERR and returned the
`BadECSError`; the server answers an error of the handler with SERVFAIL: over DoH and DoQ the
client of a malformed option got SERVFAIL, over plain DNS, DoT and DNSCrypt a FORMERR followed by a
SERVFAIL. -/
theorem formerr_then_servfail_counterexample :
    delivered .doh (serverWrites formerrRunOld) = [.servfail] ∧
    delivered .doq (serverWrites formerrRunOld) = [.servfail] ∧
    delivered .udp (serverWrites formerrRunOld) = [.formerr, .servfail] ∧
    delivered .tcp (serverWrites formerrRunOld) = [.formerr, .servfail] := by decide

/-- **malformed_one_formerr_every_transport.** After the fix the client of a malformed option gets
exactly one message, the FORMERR, on every transport. -/
theorem malformed_one_formerr_every_transport (t : Transport) :
    delivered t (serverWrites formerrRunNew) = [.formerr] := by
  cases t <;> rfl

/-- **answer_delivered_iff_no_error.** The general shape of the glue: a handler run that wrote
exactly one response reaches the client as that one response, on every transport, iff the handler
returned no error — so "the response the middleware wrote" of the structural theorems is "the
response the client gets" only for error-free runs (`serve` returns its FORMERR, hits and upstream
answers without an error; Tie: `formerr_returns_write_error_only`). -/
theorem answer_delivered_iff_no_error (t : Transport) (rc : RC) (err : Bool) :
    delivered t (serverWrites ⟨[rc], err⟩) = [rc] ↔ (err = false ∨ (rc = .servfail ∧ (t = .doh ∨ t = .doq))) := by
  cases t <;> cases rc <;> cases err <;> decide

/-- **builder_ecs_iff.** Which configurations put `ecscache` into the handler chain. -/
theorem builder_ecs_iff (c : CacheYAML) (hv : c.valid = true) :
    c.kind = .ecs ↔ (c.typ = 1 ∧ 0 < c.size ∧ 0 < c.ecsSize) := by
  unfold CacheYAML.valid at hv
  unfold CacheYAML.kind
  simp only [Bool.and_eq_true, Bool.or_eq_true, decide_eq_true_eq, Bool.not_eq_true', Bool.and_eq_false_iff,
    decide_eq_false_iff_not] at hv
  obtain ⟨⟨ht, hs⟩, he⟩ := hv
  by_cases h0 : c.size = 0
  · simp [h0]
  · rcases ht with ht | ht
    · simp [h0, ht]
    · have : ¬ c.typ = 0 := by omega
      simp only [h0, this, ↓reduceIte, true_iff]
      rcases he with he | he
      · omega
      · omega

/-- **builder_upstream_private.** With `cache.type: ecs` and a non-zero `cache.size` the query that
reaches the upstream carries exactly one ECS option, the mapped subnet. -/
theorem builder_upstream_private (c : CacheYAML) (hk : c.kind = .ecs) (env : Env) (r : Req) (x : List OptRR)
    (hx : upstreamExtra c.kind env r = some x) :
    ∃ sub, mapped env r = some sub ∧ ecsOpts x = [mkECS sub 0] := by
  rw [hk] at hx
  simp only [upstreamExtra, Option.map_eq_some_iff] at hx
  obtain ⟨sub, hm, rfl⟩ := hx
  exact ⟨sub, hm, by simpa using ecsOpts_setECS r.extra sub false⟩

/-- **builder_non_ecs_forwards_counterexample** (known finding
`client-ecs-forwarded-without-ecs-cache`).  `cache.type: simple`, and `cache.type: ecs` with
`cache.size: 0` (both pass `validate`), leave `ecscache` out of the chain: the client's own option —
here 198.51.100.77/32 — is what the upstream receives. -/
theorem builder_non_ecs_forwards_counterexample :
    ∃ c : CacheYAML, c.valid = true ∧ c.typ = 1 ∧ c.kind = .none ∧
      upstreamExtra c.kind exEnv exReq = some exReq.extra ∧
      (⟨0, 100, 0⟩ : CacheYAML).valid = true ∧ (⟨0, 100, 0⟩ : CacheYAML).kind = .simple ∧
      Opt.ecs ⟨1, 4, 3325256781, 32, 0⟩ ∈ ecsOpts exReq.extra :=
  ⟨⟨1, 0, 1000⟩, by decide, rfl, by decide, by decide, by decide, by decide, by decide⟩

/-- Non-vacuity: the documented production configuration. -/
example : (⟨1, 10000, 10000⟩ : CacheYAML).valid = true ∧ (⟨1, 10000, 10000⟩ : CacheYAML).kind = .ecs ∧
    (⟨1, 10000, 10000⟩ : CacheYAML).counts = (10000, 10000) := by decide

/-! ## Wave h: `geoip.File.Refresh` racing with `geoip.File.Data` (`Model/ECSRefresh.lean`)

The theorems above take a refresh as one atomic replacement of the GeoIP environment.  The machine
`Refresh.RF` interleaves the refresher's actions (`lock`, `swap` of the readers, `clear` of the location
cache, `unlock`) with the two phases of any number of `Data` calls (`get`: cache probe outside the lock;
`fill`: read lock, readers, `setCaches`). -/

section RefreshRace
open Refresh

/-- **refresh_race_safe.**  For every refresher program that passes the static criterion `progSafe`
(after the last point at which the old readers were reachable for a look-up there is a `clear`, and the
readers end up swapped), every initial content of the location cache, every pair of databases and every
schedule `evs` of look-up phases and refresher steps: once `Refresh` has returned, every look-up phase
of every later schedule `evs2` is answered from the NEW databases — a cache hit shows the new
databases' location of an address of the same /24 resp. /56 block, a miss the new databases' location
of the address itself. -/
theorem refresh_race_safe (db : Ver → Fam → Nat → Loc) (prog : List RAct) (hs : progSafe prog = true)
    (cache0 : LocCache) (evs evs2 : List REv)
    (hret : (RF.run db true (RF.init prog cache0) evs).1.prog = []) :
    AllNew db evs2 (RF.run db true (RF.run db true (RF.init prog cache0) evs).1 evs2).2 := by
  have hz : (prog.foldl Abs.act Abs.init).ver = .new ∧ (prog.foldl Abs.act Abs.init).dirty = false := by
    unfold progSafe at hs
    simpa using hs
  have hset := run_safe db evs (RF.init prog cache0) Abs.init (rinv_init db prog cache0) hz.1 hz.2 hret
  exact (settled_run db evs2 _ hset).2

/-- **refresh_code_order_safe.**  The order `File.Refresh` has (facts `refresh_order_src`,
`refresh_readers_src`, `data_lock_order_src`): swap, then clear, both under the write lock. -/
theorem refresh_code_order_safe (db : Ver → Fam → Nat → Loc) (cache0 : LocCache) (evs evs2 : List REv)
    (hret : (RF.run db true (RF.init codeProg cache0) evs).1.prog = []) :
    AllNew db evs2 (RF.run db true (RF.run db true (RF.init codeProg cache0) evs).1 evs2).2 :=
  refresh_race_safe db codeProg (by decide) cache0 evs evs2 hret

/-- Non-vacuity: a schedule in which `Refresh` returns — a look-up probes the cache and misses, the
refresher locks and swaps, the look-up's locked part is blocked, the refresher clears and unlocks, the
look-up completes — and what a later look-up of the same block sees; the criterion accepts the code's
order and two harmless neighbours (clear before the swap but under the lock; clear after the unlock)
and rejects the three harmful ones. -/
example : (RF.run flipDB true (RF.init codeProg (fun _ _ => some ⟨1, 0, 0⟩))
    [.get .v4 5, .step, .step, .fill .v4 5, .step, .step, .fill .v4 5]).1.prog = [] := by decide
example : (RF.run flipDB true (RF.run flipDB true (RF.init codeProg (fun _ _ => some ⟨1, 0, 0⟩))
    [.get .v4 5, .step, .step, .fill .v4 5, .step, .step, .fill .v4 5]).1 [.get .v4 6]).2 = [.hit ⟨2, 0, 0⟩] := by
  decide
example : progSafe codeProg = true ∧ progSafe [.lock, .clear, .swap, .unlock] = true ∧
    progSafe [.lock, .swap, .unlock, .clear] = true ∧ progSafe clearBeforeLockProg = false ∧
    progSafe noClearProg = false ∧ progSafe [.lock, .swap, .clear] = true ∧
    progSafe [.lock, .clear, .unlock, .lock, .swap, .unlock] = false := by decide

/-- **refresh_lookup_is_dataCached.**  While the write lock is free, a whole look-up of the machine is
`dataCached` (the function the block-cache theorems are about) over the readers in place. -/
theorem refresh_lookup_is_dataCached (db : Ver → Fam → Nat → Loc) (s : RF) (hl : s.locked = false)
    (f : Fam) (a : Nat) :
    (s.look db true f a).1.cache = (dataCached (db s.ver) s.cache f a).2 ∧
      ((s.look db true f a).2 = .hit (dataCached (db s.ver) s.cache f a).1 ∨
        (s.look db true f a).2 = .loc (dataCached (db s.ver) s.cache f a).1) := by
  unfold RF.look dataCached
  cases h : s.cache f (blockOf f a) with
  | some l => simp
  | none => simp [RF.ev, hl]; rfl

/-- **refresh_clear_before_swap_counterexample** (the change of wave h).  With the caches cleared
before the lock is taken, a look-up scheduled between the clearing and the swap stores the OLD
databases' location in the cleared cache, and a look-up made after `Refresh` has returned is answered
with it: country 1 although the databases in place say country 2. -/
theorem refresh_clear_before_swap_counterexample :
    ¬ ∀ (db : Ver → Fam → Nat → Loc) (cache0 : LocCache) (evs evs2 : List REv),
      (RF.run db true (RF.init clearBeforeLockProg cache0) evs).1.prog = [] →
      AllNew db evs2 (RF.run db true (RF.run db true (RF.init clearBeforeLockProg cache0) evs).1 evs2).2 := by
  intro h
  have h1 := h flipDB (fun _ _ => none) [.step, .fill .v4 5, .step, .step, .step] [.get .v4 6] (by decide)
  have hr : (RF.run flipDB true (RF.run flipDB true (RF.init clearBeforeLockProg (fun _ _ => none))
      [.step, .fill .v4 5, .step, .step, .step]).1 [.get .v4 6]).2 = [.hit ⟨1, 0, 0⟩] := by decide
  rw [hr] at h1
  obtain ⟨⟨a', _, h2⟩, _⟩ := h1
  simp [flipDB] at h2

/-- **refresh_no_clear_counterexample.**  Without the clearing, what was cached before the refresh is
served after it. -/
theorem refresh_no_clear_counterexample :
    ¬ ∀ (db : Ver → Fam → Nat → Loc) (cache0 : LocCache) (evs evs2 : List REv),
      (RF.run db true (RF.init noClearProg cache0) evs).1.prog = [] →
      AllNew db evs2 (RF.run db true (RF.run db true (RF.init noClearProg cache0) evs).1 evs2).2 := by
  intro h
  have h1 := h flipDB (fun _ _ => none) [.fill .v4 5, .step, .step, .step] [.get .v4 6] (by decide)
  have hr : (RF.run flipDB true (RF.run flipDB true (RF.init noClearProg (fun _ _ => none))
      [.fill .v4 5, .step, .step, .step]).1 [.get .v4 6]).2 = [.hit ⟨1, 0, 0⟩] := by decide
  rw [hr] at h1
  obtain ⟨⟨a', _, h2⟩, _⟩ := h1
  simp [flipDB] at h2

/-- **refresh_set_outside_lock_counterexample.**  The read lock of `Data` must cover `setCaches`: if the
result is stored after the read lock has been released (`atomicSet = false`), a look-up that asked the
old readers before the refresh can store their answer after it, under the code's own refresher. -/
theorem refresh_set_outside_lock_counterexample :
    ¬ ∀ (db : Ver → Fam → Nat → Loc) (cache0 : LocCache) (evs evs2 : List REv),
      (RF.run db false (RF.init codeProg cache0) evs).1.prog = [] →
      AllNew db evs2 (RF.run db false (RF.run db false (RF.init codeProg cache0) evs).1 evs2).2 := by
  intro h
  have h1 := h flipDB (fun _ _ => none) [.fill .v4 5, .step, .step, .step, .step, .flush 0] [.get .v4 6] (by decide)
  have hr : (RF.run flipDB false (RF.run flipDB false (RF.init codeProg (fun _ _ => none))
      [.fill .v4 5, .step, .step, .step, .step, .flush 0]).1 [.get .v4 6]).2 = [.hit ⟨1, 0, 0⟩] := by decide
  rw [hr] at h1
  obtain ⟨⟨a', _, h2⟩, _⟩ := h1
  simp [flipDB] at h2

/-- **failed_refresh_keeps_old.**  A refresh that fails before its critical section (a file cannot be
read, a scan fails: `Tie/TrC05.refresh_failure_keeps` — no lock, no clear, the `File` returned as it was)
is the empty program: whatever is scheduled, the old readers stay and every look-up that reaches them
is answered by them. -/
theorem failed_refresh_keeps_old (db : Ver → Fam → Nat → Loc) (evs : List REv) :
    ∀ (s : RF), s.ver = .old → s.prog = [] →
      (RF.run db true s evs).1.ver = .old ∧ (RF.run db true s evs).1.prog = [] ∧
      ∀ f a l, (RF.run db true s evs).2.getLast? = some (.loc l) → evs.getLast? = some (.fill f a) →
        l = db .old f a := by
  induction evs with
  | nil => intro s hv hp; simp [RF.run, hv, hp]
  | cons e es ih =>
    intro s hv hp
    have hstep : (s.ev db true e).1.ver = .old ∧ (s.ev db true e).1.prog = [] := by
      cases e <;> simp only [RF.ev, hp] <;> (try split) <;> simp_all
    obtain ⟨h1, h2, h3⟩ := ih _ hstep.1 hstep.2
    refine ⟨by simpa [RF.run] using h1, by simpa [RF.run] using h2, ?_⟩
    intro f a l hl he
    cases es with
    | nil =>
      simp only [RF.run, List.getLast?_singleton, Option.some.injEq] at hl he
      subst he
      simp only [RF.ev] at hl
      split at hl
      · cases hl
      · simp only [if_true, hv] at hl
        cases hl; rfl
    | cons e2 es2 =>
      have hl' : (RF.run db true (s.ev db true e).1 (e2 :: es2)).2.getLast? = some (.loc l) := by
        simpa [RF.run, List.getLast?_cons_cons] using hl
      exact h3 f a l hl' (by simpa [List.getLast?_cons_cons] using he)

example : (RF.run flipDB true (RF.init [] (fun _ _ => none)) [.step, .fill .v4 5, .get .v4 6]).2 =
    [.none, .loc ⟨1, 0, 0⟩, .hit ⟨1, 0, 0⟩] := by decide

end RefreshRace

#print axioms upstream_subnet_private
#print axioms upstream_noninterference
#print axioms declined_never_subnet_cache
#print axioms partition
#print axioms unscoped_reuse
#print axioms ecs_echo
#print axioms malformed_formerr
#print axioms ecs_validity_spec
#print axioms ecs_option_spec
#print axioms formerr_spec
#print axioms sequential_is_interleaved
#print axioms interleaved_upstream_private
#print axioms interleaved_partition
#print axioms interleaved_unscoped_reuse
#print axioms interleaved_declined
#print axioms interleaved_ecs_echo
#print axioms locMap_from_db
#print axioms ctryMap_from_db
#print axioms subnet_by_location_assigned
#print axioms subnet_by_location_family_length
#print axioms upstream_subnet_from_db
#print axioms upstream_option_from_db_only
#print axioms data_cache_exact_when_db_coarse
#print axioms data_cache_first_lookup_decides
#print axioms data_cache_counterexample
#print axioms data_cache_block_local
#print axioms cache_key_bytes_injective
#print axioms noecs_key_bytes_injective
#print axioms leading_bytes_key_counterexample
#print axioms dup_ecs_forwarded_counterexample
#print axioms extra_opt_rr_forwarded_counterexample

#print axioms hashed_hit_provenance
#print axioms hashed_partition
#print axioms hashed_unscoped_reuse
#print axioms expired_never_served
#print axioms hashed_upstream_private
#print axioms hash_collision_counterexample
#print axioms refresh_location_counterexample
#print axioms refresh_window_subnet_assigned
#print axioms locOf_spec
#print axioms loc_single_source
#print axioms normalize_case_insensitive
#print axioms fake_list_spelling_sensitive
#print axioms wire_dropped_iff
#print axioms wire_formerr_iff
#print axioms wire_malformed_dropped_counterexample
#print axioms wire_address_length_lenient
#print axioms formerr_then_servfail_counterexample
#print axioms malformed_one_formerr_every_transport
#print axioms answer_delivered_iff_no_error
#print axioms builder_ecs_iff
#print axioms builder_upstream_private
#print axioms builder_non_ecs_forwards_counterexample
#print axioms wire_dropped_iff_unpack
#print axioms padTake_length
#print axioms padTake_idem
#print axioms refresh_race_safe
#print axioms refresh_code_order_safe
#print axioms refresh_lookup_is_dataCached
#print axioms refresh_clear_before_swap_counterexample
#print axioms refresh_no_clear_counterexample
#print axioms refresh_set_outside_lock_counterexample
#print axioms failed_refresh_keeps_old


end Agd.ECS

/-! Translated-source tie (Agd/Tie/TrC05.lean). -/
#print axioms Agd.Tie.TrC05.translation_complete
#print axioms Agd.Tie.TrC05.formerr_returns_write_error_only
#print axioms Agd.Tie.TrC05.respIsECSDependent_tr
#print axioms Agd.Tie.TrC05.scope_zero_independent
#print axioms Agd.Tie.TrC05.locFromReq_tr
#print axioms Agd.Tie.TrC05.locFromReq_total
#print axioms Agd.Tie.TrC05.ecsFam_source
#print axioms Agd.Tie.TrC05.ecsFam_total
#print axioms Agd.Tie.TrC05.ecsData_accepts
#print axioms Agd.Tie.TrC05.locationData_lookup
#print axioms Agd.Tie.TrC05.location_malformed
#print axioms Agd.Tie.TrC05.location_wellformed
#print axioms Agd.Tie.TrC05.formerr_on_bad_ecs
#print axioms Agd.Tie.TrC05.itemFromCache_host_check
#print axioms Agd.Tie.TrC05.get_plain_hit
#print axioms Agd.Tie.TrC05.get_declined_never_ecs_cache
#print axioms Agd.Tie.TrC05.get_ecs_second
#print axioms Agd.Tie.TrC05.get_total
#print axioms Agd.Tie.TrC05.toCacheKey_hashed
#print axioms Agd.Tie.TrC05.set_uncacheable
#print axioms Agd.Tie.TrC05.set_chooses_cache
#print axioms Agd.Tie.TrC05.addrToNetIP_family
#print axioms Agd.Tie.TrC05.setECS_option
#print axioms Agd.Tie.TrC05.setECS_bad_family
#print axioms Agd.Tie.TrC05.isDO_tr
#print axioms Agd.Tie.TrC05.cached_response_echo
#print axioms Agd.Tie.TrC05.upstream_bad_ecs
#print axioms Agd.Tie.TrC05.upstream_independent_stored_under_zero
#print axioms Agd.Tie.TrC05.upstream_dependent_stored_under_subnet
#print axioms Agd.Tie.TrC05.upstream_response_echo
#print axioms Agd.Tie.TrC05.declined_zero_prefix_upstream
#print axioms Agd.Tie.TrC05.geo_subnet_upstream
#print axioms Agd.Tie.TrC05.geo_error_stops
#print axioms Agd.Tie.TrC05.cache_hit_no_upstream
#print axioms Agd.Tie.TrC05.upstream_result_processed
#print axioms Agd.Tie.TrC05.serveDNS_total
#print axioms Agd.Tie.TrC05.refresh_success_trace
#print axioms Agd.Tie.TrC05.refresh_locked_section_safe
#print axioms Agd.Tie.TrC05.refresh_failure_keeps
#print axioms Agd.Tie.TrC05.data_hit_no_lock
#print axioms Agd.Tie.TrC05.data_miss_locked
#print axioms Agd.Tie.TrC05.data_error_unlocks
