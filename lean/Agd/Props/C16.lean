import Agd.Lemmas.BillStat
import Agd.Tie.C16
/-!
# C16 — billing counts are conserved across failed and retried uploads

Property theorems only.  Model: `Agd/Model/BillStat.lean`; helper lemmas:
`Agd/Lemmas/BillStat.lean`.  An op list is an arbitrary interleaving of `record` calls for any
devices with upload attempts (`begin`) that end in success (`endOk`) or failure (`endFail`) in
any pattern; records between a `begin` and its end are records racing with an in-flight upload.
`run` lets uploads overlap without limit, `runSer` is the recorder with `Refresh` serialised
(the repaired code, which the driver executes).
-/
namespace Agd.BillStat

/-- **conservation.** After *any* op list — any number of devices, uploads overlapping in any
way, succeeding or failing in any pattern, records landing while uploads are in flight — for
every device: queries delivered by successful uploads + queries pending + queries inside
in-flight batches = number of `record` calls for it. -/
theorem conservation (ops : List Op) (d : Dev) :
    (run St.init ops).delivered d + cnt (run St.init ops).pending d
      + sumIn (run St.init ops).inflight d = countRec d ops := by
  have h := conserved_run St.init ops d (conserved_init d)
  have hr : (run St.init ops).recorded d = 0 + countRec d ops := recorded_run St.init ops d
  unfold Conserved at h
  omega

/-- The same for the serialised recorder (the code as repaired). -/
theorem conservation_serialised (ops : List Op) (d : Dev) :
    (runSer St.init ops).delivered d + cnt (runSer St.init ops).pending d
      + sumIn (runSer St.init ops).inflight d = countRec d ops := by
  have h := conserved_runSer St.init ops d (conserved_init d)
  have hr : (runSer St.init ops).recorded d = 0 + countRec d ops := recorded_runSer St.init ops d
  unfold Conserved at h
  omega

/-- **conservation_quiescent.** Whenever no upload is in flight, delivered + held for the next
upload = recorded: no failure has lost a query and no later success has counted one twice. -/
theorem conservation_quiescent (ops : List Op) (d : Dev) (hq : (run St.init ops).inflight = []) :
    (run St.init ops).delivered d + cnt (run St.init ops).pending d = countRec d ops := by
  have h := conservation ops d
  rw [hq] at h
  simpa using h

def exMeta (t : Int) : Meta := ⟨t, 1, 42, 2⟩

/-- Records for two devices interleaved with a failing upload (a record lands while it is in
flight), then a succeeding one with another racing record. -/
def exOps : List Op :=
  [.record 0 (exMeta 1), .record 1 (exMeta 2), .record 0 (exMeta 3), .begin, .record 0 (exMeta 4),
   .endFail 0, .begin, .record 1 (exMeta 5), .endOk 0]

example : (run St.init exOps).inflight.length = 0 ∧ (run St.init exOps).delivered 0 = 3 ∧
    (run St.init exOps).delivered 1 = 1 ∧ cnt (run St.init exOps).pending 0 = 0 ∧
    cnt (run St.init exOps).pending 1 = 1 ∧ countRec 0 exOps = 3 ∧ countRec 1 exOps = 2 := by
  decide

/-- **upload_outcome.** A failed upload delivers nothing and returns exactly its batch to the
pending table; a successful one delivers exactly its batch and leaves the pending table alone. -/
theorem upload_outcome (s : St) (i : Nat) (b : Batch) (d : Dev) (h : s.inflight[i]? = some b) :
    ((step s (.endFail i)).delivered d = s.delivered d ∧
      cnt (step s (.endFail i)).pending d = cnt s.pending d + cnt b.recs d) ∧
    ((step s (.endOk i)).delivered d = s.delivered d + cnt b.recs d ∧
      (step s (.endOk i)).pending d = s.pending d) := by
  simp [step, h, cnt_remerge]

example : (run St.init (exOps.take 5)).inflight[0]?.isSome = true := by decide

/-- **record_frame.** Recording a query of one device does not touch another device's record. -/
theorem record_frame (s : St) (k d : Dev) (m : Meta) (h : d ≠ k) :
    (step s (.record k m)).pending d = s.pending d := by
  simp only [step, record]
  cases s.pending k <;> simp [put, h]

example : (1 : Dev) ≠ 0 := by decide

/-- **latest_meta.** For the recorder with serialised refreshes, after any op list: at most one
upload is in flight; every pending record carries the time, country, ASN and protocol of the
device's most recent `record` op; and every in-flight batch carries, per device, those of the
most recent query at the moment the batch was cut (`snap`, see `batch_origin`). -/
theorem latest_meta (ops : List Op) :
    (runSer St.init ops).inflight.length ≤ 1 ∧
    (∀ d r, (runSer St.init ops).pending d = some r → lastRec d ops = some r.m) ∧
    (∀ b ∈ (runSer St.init ops).inflight, ∀ d r, b.recs d = some r → b.snap d = some r.m) := by
  have h := metaInv_runSer St.init ops metaInv_init
  refine ⟨h.single, ?_, h.batch⟩
  intro d r hr
  have hl := last_runSer St.init ops d
  have := h.pend d r hr
  rw [hl] at this
  simpa [St.init] using this

example : (runSer St.init exOps).pending 1 = some ⟨exMeta 5, 1⟩ ∧ lastRec 1 exOps = some (exMeta 5) ∧
    lastRec 0 exOps = some (exMeta 4) := by decide

/-- **batch_origin.** Batches are never altered while in flight, and a new batch is the pending
table together with the table of most recent metas at that moment. -/
theorem batch_origin (s : St) (o : Op) (b : Batch) (h : b ∈ (stepSer s o).inflight) :
    b ∈ s.inflight ∨ (o = .begin ∧ b.recs = s.pending ∧ b.snap = s.last) := by
  unfold stepSer at h
  split at h
  · exact Or.inl h
  · cases o with
    | record k m => exact Or.inl (by simpa [step] using h)
    | «begin» =>
      simp [step] at h
      rcases h with h | h
      · exact Or.inl h
      · subst h; exact Or.inr ⟨rfl, rfl, rfl⟩
    | endOk i =>
      simp only [step] at h
      cases hb : s.inflight[i]? with
      | none => simp [hb] at h; exact Or.inl h
      | some x => simp [hb] at h; exact Or.inl (List.mem_of_mem_eraseIdx h)
    | endFail i =>
      simp only [step] at h
      cases hb : s.inflight[i]? with
      | none => simp [hb] at h; exact Or.inl h
      | some x => simp [hb] at h; exact Or.inl (List.mem_of_mem_eraseIdx h)

/-- **reported_meta.** What an upload started after any history reports for a device is the
meta of that device's most recent query in that history. -/
theorem reported_meta (pre : List Op) (hq : (runSer St.init pre).inflight = []) :
    (stepSer (runSer St.init pre) .begin).inflight =
      [⟨(runSer St.init pre).pending, (runSer St.init pre).last⟩] ∧
    ∀ d r, (runSer St.init pre).pending d = some r → lastRec d pre = some r.m := by
  refine ⟨?_, (latest_meta pre).2.1⟩
  simp [stepSer, blocked, hq, step]

example : (runSer St.init (exOps.take 6)).inflight = [] ∧
    (runSer St.init (exOps.take 6)).pending 0 = some ⟨exMeta 4, 3⟩ := by
  refine ⟨by decide, by decide⟩

/-- The latest-meta clause as a statement about a recorder whose refreshes may overlap. -/
def LatestMetaUnserialised : Prop :=
  ∀ (ops : List Op) (d : Dev) (r : Rec), (run St.init ops).pending d = some r → lastRec d ops = some r.m

/-- Two overlapping uploads; the older one fails after a newer query was cut into the second. -/
def staleOps : List Op :=
  [.record 0 (exMeta 1), .begin, .record 0 (exMeta 2), .begin, .endFail 0]

/-- **stale_meta_counterexample.** Without serialisation of `Refresh` (the code as found) the
latest-meta clause is false: the failed older batch is put back with the older query's meta. -/
theorem stale_meta_counterexample : ¬ LatestMetaUnserialised := by
  intro h
  have := h staleOps 0 ⟨exMeta 1, 1⟩ (by decide)
  revert this
  decide

/-- **no_overflow.** As long as a device has fewer than 2³¹ recorded queries in total, no
counter of the model reaches 2³¹, i.e. the `int32` field `Queries` of the real code behaves
like the model's natural number. -/
theorem no_overflow (ops : List Op) (d : Dev) (hb : countRec d ops < 2 ^ 31) :
    cnt (run St.init ops).pending d < 2 ^ 31 ∧
    (∀ b ∈ (run St.init ops).inflight, cnt b.recs d < 2 ^ 31) ∧
    (run St.init ops).delivered d < 2 ^ 31 := by
  have h := conservation ops d
  refine ⟨by omega, ?_, by omega⟩
  intro b hbm
  have := cnt_le_sumIn _ b d hbm
  omega

example : countRec 0 exOps < 2 ^ 31 := by decide

#print axioms conservation
#print axioms conservation_serialised
#print axioms conservation_quiescent
#print axioms upload_outcome
#print axioms record_frame
#print axioms latest_meta
#print axioms batch_origin
#print axioms reported_meta
#print axioms stale_meta_counterexample
#print axioms no_overflow

end Agd.BillStat
