import Agd.Tie.TrC16
import Agd.Lemmas.BillStat
import Agd.Tie.C16
/-!
# C16 — billing counts are conserved across failed and retried uploads

Property theorems only.  Model: `Agd/Model/BillStat.lean`; helper lemmas:
`Agd/Lemmas/BillStat.lean`.  An op list is an arbitrary interleaving of `record` calls for any
devices with upload attempts (`begin`) that end in success (`endOk`) or failure (`endFail`) in
any pattern; records between a `begin` and its end are records racing with an in-flight upload.
`run` lets uploads overlap without limit, `runSer` is the recorder with `Refresh` serialised
(the repaired code, which the driver executes).
-/
namespace Agd.BillStat

/-- **conservation.** After *any* op list — any number of devices, uploads overlapping in any
way, succeeding or failing in any pattern, records landing while uploads are in flight — for
every device: queries delivered by successful uploads + queries pending + queries inside
in-flight batches = number of `record` calls for it. -/
theorem conservation (ops : List Op) (d : Dev) :
    (run St.init ops).delivered d + cnt (run St.init ops).pending d
      + sumIn (run St.init ops).inflight d = countRec d ops := by
  have h := conserved_run St.init ops d (conserved_init d)
  have hr : (run St.init ops).recorded d = 0 + countRec d ops := recorded_run St.init ops d
  unfold Conserved at h
  omega

/-- The same for the serialised recorder (the code as repaired). -/
theorem conservation_serialised (ops : List Op) (d : Dev) :
    (runSer St.init ops).delivered d + cnt (runSer St.init ops).pending d
      + sumIn (runSer St.init ops).inflight d = countRec d ops := by
  have h := conserved_runSer St.init ops d (conserved_init d)
  have hr : (runSer St.init ops).recorded d = 0 + countRec d ops := recorded_runSer St.init ops d
  unfold Conserved at h
  omega

/-- **conservation_quiescent.** Whenever no upload is in flight, delivered + held for the next
upload = recorded: no failure has lost a query and no later success has counted one twice. -/
theorem conservation_quiescent (ops : List Op) (d : Dev) (hq : (run St.init ops).inflight = []) :
    (run St.init ops).delivered d + cnt (run St.init ops).pending d = countRec d ops := by
  have h := conservation ops d
  rw [hq] at h
  simpa using h

def exMeta (t : Int) : Meta := ⟨t, 1, 42, 2⟩

/-- Records for two devices interleaved with a failing upload (a record lands while it is in
flight), then a succeeding one with another racing record. -/
def exOps : List Op :=
  [.record 0 (exMeta 1), .record 1 (exMeta 2), .record 0 (exMeta 3), .begin, .record 0 (exMeta 4),
   .endFail 0, .begin, .record 1 (exMeta 5), .endOk 0]

example : (run St.init exOps).inflight.length = 0 ∧ (run St.init exOps).delivered 0 = 3 ∧
    (run St.init exOps).delivered 1 = 1 ∧ cnt (run St.init exOps).pending 0 = 0 ∧
    cnt (run St.init exOps).pending 1 = 1 ∧ countRec 0 exOps = 3 ∧ countRec 1 exOps = 2 := by
  decide

/-- **upload_outcome.** A failed upload delivers nothing and returns exactly its batch to the
pending table; a successful one delivers exactly its batch and leaves the pending table alone. -/
theorem upload_outcome (s : St) (i : Nat) (b : Batch) (d : Dev) (h : s.inflight[i]? = some b) :
    ((step s (.endFail i)).delivered d = s.delivered d ∧
      cnt (step s (.endFail i)).pending d = cnt s.pending d + cnt b.recs d) ∧
    ((step s (.endOk i)).delivered d = s.delivered d + cnt b.recs d ∧
      (step s (.endOk i)).pending d = s.pending d) := by
  simp [step, h, cnt_remerge]

example : (run St.init (exOps.take 5)).inflight[0]?.isSome = true := by decide

/-- **record_frame.** Recording a query of one device does not touch another device's record. -/
theorem record_frame (s : St) (k d : Dev) (m : Meta) (h : d ≠ k) :
    (step s (.record k m)).pending d = s.pending d := by
  simp only [step, record]
  cases s.pending k <;> simp [put, h]

example : (1 : Dev) ≠ 0 := by decide

/-- **latest_meta.** For the recorder with serialised refreshes, after any op list: at most one
upload is in flight; every pending record carries the time, country, ASN and protocol of the
device's most recent `record` op; and every in-flight batch carries, per device, those of the
most recent query at the moment the batch was cut (`snap`, see `batch_origin`). -/
theorem latest_meta (ops : List Op) :
    (runSer St.init ops).inflight.length ≤ 1 ∧
    (∀ d r, (runSer St.init ops).pending d = some r → lastRec d ops = some r.m) ∧
    (∀ b ∈ (runSer St.init ops).inflight, ∀ d r, b.recs d = some r → b.snap d = some r.m) := by
  have h := metaInv_runSer St.init ops metaInv_init
  refine ⟨h.single, ?_, h.batch⟩
  intro d r hr
  have hl := last_runSer St.init ops d
  have := h.pend d r hr
  rw [hl] at this
  simpa [St.init] using this

example : (runSer St.init exOps).pending 1 = some ⟨exMeta 5, 1⟩ ∧ lastRec 1 exOps = some (exMeta 5) ∧
    lastRec 0 exOps = some (exMeta 4) := by decide

/-- **batch_origin.** Batches are never altered while in flight, and a new batch is the pending
table together with the table of most recent metas at that moment. -/
theorem batch_origin (s : St) (o : Op) (b : Batch) (h : b ∈ (stepSer s o).inflight) :
    b ∈ s.inflight ∨ (o = .begin ∧ b.recs = s.pending ∧ b.snap = s.last) := by
  unfold stepSer at h
  split at h
  · exact Or.inl h
  · cases o with
    | record k m => exact Or.inl (by simpa [step] using h)
    | «begin» =>
      simp [step] at h
      rcases h with h | h
      · exact Or.inl h
      · subst h; exact Or.inr ⟨rfl, rfl, rfl⟩
    | endOk i =>
      simp only [step] at h
      cases hb : s.inflight[i]? with
      | none => simp [hb] at h; exact Or.inl h
      | some x => simp [hb] at h; exact Or.inl (List.mem_of_mem_eraseIdx h)
    | endFail i =>
      simp only [step] at h
      cases hb : s.inflight[i]? with
      | none => simp [hb] at h; exact Or.inl h
      | some x => simp [hb] at h; exact Or.inl (List.mem_of_mem_eraseIdx h)

/-- **reported_meta.** What an upload started after any history reports for a device is the
meta of that device's most recent query in that history. -/
theorem reported_meta (pre : List Op) (hq : (runSer St.init pre).inflight = []) :
    (stepSer (runSer St.init pre) .begin).inflight =
      [⟨(runSer St.init pre).pending, (runSer St.init pre).last⟩] ∧
    ∀ d r, (runSer St.init pre).pending d = some r → lastRec d pre = some r.m := by
  refine ⟨?_, (latest_meta pre).2.1⟩
  simp [stepSer, blocked, hq, step]

example : (runSer St.init (exOps.take 6)).inflight = [] ∧
    (runSer St.init (exOps.take 6)).pending 0 = some ⟨exMeta 4, 3⟩ := by
  refine ⟨by decide, by decide⟩

/-! ### The recorder against an independent specification -/

/-- **refines_ledger.** After any op list the recorder (maps of shared records, swap, merge)
shows exactly what the ledger (`Model/BillStat.lean`: a counter of owed queries and the data of
the most recent query per device, no maps, no merge) holds: the pending table — including
which devices are absent from it —, the batch in flight, the delivered totals and every report
the backend has acknowledged so far. -/
theorem refines_ledger (ops : List Op) :
    Refines (runSer St.init ops) (Ledger.init.run ops) :=
  (refines_runSer St.init Ledger.init ops refines_init ledgerInv_init).1

example : (Ledger.init.run exOps).owed 1 = 1 ∧ (Ledger.init.run exOps).paid 0 = 3 ∧
    (Ledger.init.run exOps).reports.length = 1 ∧ (Ledger.init.run exOps).flying.isNone = true := by
  decide

/-- **pending_exact.** The pending table is determined by the op list alone: a device is
pending iff it has queries that are neither delivered nor in flight, with exactly that count
and with the data of its most recent query.  (No zero-count entries, no missing entries.) -/
theorem pending_exact (ops : List Op) (d : Dev) :
    (runSer St.init ops).pending d =
      view (countRec d ops - (runSer St.init ops).delivered d - sumIn (runSer St.init ops).inflight d)
        (lastRec d ops) := by
  have hc := conservation_serialised ops d
  cases hp : (runSer St.init ops).pending d with
  | none =>
    have : cnt (runSer St.init ops).pending d = 0 := by simp [cnt, hp]
    have h0 : countRec d ops - (runSer St.init ops).delivered d
        - sumIn (runSer St.init ops).inflight d = 0 := by omega
    rw [h0]; simp
  | some r =>
    have hm := (latest_meta ops).2.1 d r hp
    have hn : cnt (runSer St.init ops).pending d = r.n := by simp [cnt, hp]
    have hpos := pending_pos ops d r hp
    symm
    rw [view_some_iff]
    exact ⟨hm, by omega, by omega⟩

example : (runSer St.init (exOps.take 6)).pending 0 = view 3 (some (exMeta 4)) := by decide

/-- **successful_upload_reports.** Take any history `pre` after which no upload is in flight,
start an upload, let any records `mid` race with it, and let it succeed.  Then exactly one
report is added; for every device it is absent iff the device had no undelivered query at the
cut, and otherwise carries exactly the number of queries recorded before the cut and not yet
delivered, with the time/country/ASN/protocol of the most recent query before the cut (racing
records change nothing in it); afterwards everything recorded before the cut is delivered. -/
theorem successful_upload_reports (pre mid : List Op) (hq : (runSer St.init pre).inflight = [])
    (hm : RecordsOnly mid) :
    ∃ report : Recs,
      (runSer St.init (pre ++ .begin :: (mid ++ [.endOk 0]))).log =
        (runSer St.init pre).log ++ [report] ∧
      (∀ d, report d =
        view (countRec d pre - (runSer St.init pre).delivered d) (lastRec d pre)) ∧
      (∀ d, (runSer St.init (pre ++ .begin :: (mid ++ [.endOk 0]))).delivered d = countRec d pre) := by
  obtain ⟨bi, bd, bl⟩ := begin_quiescent (runSer St.init pre) hq
  obtain ⟨hi, hd, hl⟩ := records_frame (stepSer (runSer St.init pre) .begin) mid hm
  obtain ⟨el, ed, _⟩ := endOk_single (runSer (stepSer (runSer St.init pre) .begin) mid)
    ⟨(runSer St.init pre).pending, (runSer St.init pre).last⟩ (by rw [hi, bi])
  refine ⟨(runSer St.init pre).pending, ?_, ?_, ?_⟩
  · rw [run_upload_shape, el, hl, bl]
  · intro d
    have := pending_exact pre d
    rw [hq] at this
    simpa using this
  · intro d
    have hc := conservation_serialised pre d
    rw [hq] at hc
    simp only [sumIn_nil] at hc
    rw [run_upload_shape, ed d, hd, bd]
    omega

example : (runSer St.init (exOps.take 6)).inflight = [] ∧ RecordsOnly [Op.record 1 (exMeta 5)] := by
  refine ⟨by decide, ?_⟩
  intro o ho
  simp at ho
  exact ⟨1, exMeta 5, ho⟩

/-- **failed_upload_returns.** The same history, but the upload fails (with any error): no
report is added, nothing is delivered, and every device is pending again with all its
undelivered queries — those of the failed batch and those that raced with it — and with the
data of its most recent query, raced ones included. -/
theorem failed_upload_returns (pre mid : List Op) (hq : (runSer St.init pre).inflight = [])
    (hm : RecordsOnly mid) (d : Dev) :
    (runSer St.init (pre ++ .begin :: (mid ++ [.endFail 0]))).log = (runSer St.init pre).log ∧
    (runSer St.init (pre ++ .begin :: (mid ++ [.endFail 0]))).delivered d =
      (runSer St.init pre).delivered d ∧
    (runSer St.init (pre ++ .begin :: (mid ++ [.endFail 0]))).inflight = [] ∧
    (runSer St.init (pre ++ .begin :: (mid ++ [.endFail 0]))).pending d =
      view (countRec d (pre ++ mid) - (runSer St.init pre).delivered d) (lastRec d (pre ++ mid)) := by
  obtain ⟨bi, bd, bl⟩ := begin_quiescent (runSer St.init pre) hq
  obtain ⟨hi, hd, hl⟩ := records_frame (stepSer (runSer St.init pre) .begin) mid hm
  obtain ⟨el, ed, ei⟩ := endFail_single (runSer (stepSer (runSer St.init pre) .begin) mid)
    ⟨(runSer St.init pre).pending, (runSer St.init pre).last⟩ (by rw [hi, bi])
  have hlog : (runSer St.init (pre ++ .begin :: (mid ++ [.endFail 0]))).log = (runSer St.init pre).log := by
    rw [run_upload_shape, el, hl, bl]
  have hdel : (runSer St.init (pre ++ .begin :: (mid ++ [.endFail 0]))).delivered d =
      (runSer St.init pre).delivered d := by
    rw [run_upload_shape, ed, hd, bd]
  have hinf : (runSer St.init (pre ++ .begin :: (mid ++ [.endFail 0]))).inflight = [] := by
    rw [run_upload_shape, ei]
  refine ⟨hlog, hdel, hinf, ?_⟩
  have hp := pending_exact (pre ++ .begin :: (mid ++ [.endFail 0])) d
  rw [hinf, hdel] at hp
  have hcount : countRec d (pre ++ .begin :: (mid ++ [.endFail 0])) = countRec d (pre ++ mid) := by
    have : pre ++ .begin :: (mid ++ [.endFail 0]) = pre ++ ([.begin] ++ (mid ++ [.endFail 0])) := by simp
    rw [this]
    simp [countRec_append, countRec]
  have hlast : lastRec d (pre ++ .begin :: (mid ++ [.endFail 0])) = lastRec d (pre ++ mid) := by
    have : pre ++ .begin :: (mid ++ [.endFail 0]) = pre ++ ([.begin] ++ (mid ++ [.endFail 0])) := by simp
    rw [this]
    simp [lastRec_append, lastRec]
  rw [hcount, hlast] at hp
  simpa using hp

/-! ### What goes on the wire (`backendpb.BillStat.Upload`, `recordToProtobuf`) -/

/-- **int32_tracks_nat.** `Record.Queries` is an `int32` that `Record` increments and
`remergeRecords` adds to with wrapping arithmetic: whatever the values, the field holds
`wrap32` of the natural number the model holds. -/
theorem int32_tracks_nat (a b : Nat) :
    wrap32 (wrap32 a + 1) = wrap32 ((a + 1 : Nat)) ∧
    wrap32 (wrap32 a + wrap32 b) = wrap32 ((a + b : Nat)) ∧ wrap32 (1 : Nat) = 1 := by
  unfold wrap32
  refine ⟨by omega, by omega, by decide⟩

/-- **wire_queries_exact.** `uint32(r.Queries)` of the wrapped `int32` is the true count modulo
2³²: the count on the wire is exact for fewer than 2³² (not only 2³¹) outstanding queries of a
device — the negative intermediate values of the `int32` are harmless. -/
theorem wire_queries_exact (d : Dev) (m : Meta) (n : Nat) :
    (toWire d ⟨m, n⟩).queries = n % 4294967296 ∧
    (n < 4294967296 → (toWire d ⟨m, n⟩).queries = n) := by
  simp only [toWire, toU32, wrap32]
  refine ⟨by omega, fun h => by omega⟩

/-- At 2³² outstanding queries of one device the count on the wire wraps to 0. -/
theorem wire_wraps_counterexample : (toWire 0 ⟨exMeta 1, 4294967296⟩).queries = 0 := by
  simp [toWire, toU32, wrap32]

example : (toWire 0 ⟨exMeta 1, 2147483648⟩).queries = 2147483648 ∧ wrap32 (2147483648 : Nat) < 0 := by
  simp [toWire, toU32, wrap32]

/-- **wire_time_exact.** `timestamppb.New` loses nothing of the time of the most recent query,
also before 1970: seconds·10⁹ + nanos is the time and `0 ≤ nanos < 10⁹`. -/
theorem wire_time_exact (d : Dev) (r : Rec) :
    (toWire d r).secs * 1000000000 + (toWire d r).nanos = r.m.time ∧
    0 ≤ (toWire d r).nanos ∧ (toWire d r).nanos < 1000000000 ∧
    (toWire d r).dev = d ∧ (toWire d r).ctry = r.m.ctry ∧ (toWire d r).asn = r.m.asn ∧
    (toWire d r).proto = r.m.proto := by
  simp only [toWire]
  refine ⟨by omega, by omega, by omega, trivial, trivial, trivial, trivial⟩

/-- **upload_ok_complete.** Whatever the backend does: if `Upload` returns nil, every record of
the batch was sent, once, in order — a partial stream is never reported as a success. -/
theorem upload_ok_complete (b : Backend) (batch : List Wire) (h : (upload b batch).1 = true) :
    (upload b batch).2 = batch := by
  unfold upload at h ⊢
  by_cases he : batch.isEmpty
  · cases batch with
    | nil => simp
    | cons w ws => simp at he
  · simp only [he, Bool.false_eq_true, if_false] at h ⊢
    by_cases ho : b.openFails
    · simp [ho] at h
    · simp only [ho, Bool.false_eq_true, if_false] at h ⊢
      by_cases hs : (sendAll b 0 batch).1
      · simp only [hs, Bool.not_true, Bool.false_eq_true, if_false] at h ⊢
        cases hc : b.close <;> simp [hc] at h ⊢ <;> exact sendAll_ok b 0 batch hs
      · simp [hs] at h

/-- **upload_ok_iff.** `Upload` returns nil exactly when the batch is empty (no stream is
opened), or the stream opens, no `Send` fails and `CloseAndRecv` does not return an error other
than `io.EOF`. -/
theorem upload_ok_iff (b : Backend) (batch : List Wire) :
    (upload b batch).1 = true ↔
      batch = [] ∨ (b.openFails = false ∧ (∀ j, j < batch.length → b.sendFailsAt ≠ some j) ∧
        b.close ≠ .err) := by
  unfold upload
  cases batch with
  | nil => simp
  | cons w ws =>
    simp only [List.isEmpty_cons, Bool.false_eq_true, if_false, reduceCtorEq, false_or]
    by_cases ho : b.openFails
    · simp [ho]
    · have hs := sendAll_ok_iff b 0 (w :: ws)
      simp only [Nat.zero_add] at hs
      by_cases hsend : (sendAll b 0 (w :: ws)).1
      · have := hs.mp hsend
        cases hc : b.close <;> simp [ho, hsend] <;> exact this
      · have : ¬ ∀ j, j < (w :: ws).length → b.sendFailsAt ≠ some j := fun h => hsend (hs.mpr h)
        simp [ho, hsend]
        intro h
        exact absurd h this

def exBatch : List Wire := [toWire 0 ⟨exMeta 1, 3⟩, toWire 1 ⟨exMeta 2, 1⟩]

example : upload ⟨false, none, .ack⟩ exBatch = (true, exBatch) ∧
    (upload ⟨false, some 1, .ack⟩ exBatch).1 = false ∧ (upload ⟨false, none, .err⟩ exBatch).1 = false ∧
    (upload ⟨true, none, .ack⟩ exBatch).1 = false ∧ upload ⟨true, some 0, .err⟩ [] = (true, []) := by
  decide

/-! ### From the server to the backend (`mainmw.recordQueryInfo`, recorder, `BillStat.Upload`) -/

/-- **billed_iff.** The server bills a handled query exactly when it answered it and the request
was attributed to a device; then under that device's id, with the request's start time, the
client's country and ASN (none / 0 when GeoIP does not know the address) and the server's
protocol. -/
theorem billed_iff (q : Query) (d : Dev) (m : Meta) :
    billOf q = some (d, m) ↔
      q.answered = true ∧ q.dev = some d ∧
        m = ⟨q.start, (q.loc.map (·.1)).getD 0, (q.loc.map (·.2)).getD 0, q.proto⟩ := by
  unfold billOf
  cases ha : q.answered <;> cases hd : q.dev <;> cases hl : q.loc <;> simp [eq_comm]

/-- **billing_ignores_querylog.** Whether the profile has query logging enabled does not matter. -/
theorem billing_ignores_querylog (q : Query) (b : Bool) : billOf { q with qlog := b } = billOf q := rfl

def exQuery (d : Option Dev) (t : Int) : Query :=
  { dev := d, loc := some (1, 42), start := t, proto := 2, qlog := false }

example : billOf (exQuery (some 0) 5) = some (0, ⟨5, 1, 42, 2⟩) ∧ billOf (exQuery none 5) = none ∧
    billOf { exQuery (some 0) 5 with answered := false } = none ∧
    billOf { exQuery (some 0) 5 with loc := none } = some (0, ⟨5, 0, 0, 2⟩) := by decide

/-- **e2e_is_recorder_run.** A history of handled queries, refresh starts and uploads that run
against backends of any behaviour is a run of the serialised recorder: every theorem above
applies to it, with `billed` for the number of records and `lastBilled` for the latest data. -/
theorem e2e_is_recorder_run (evs : List Ev) (d : Dev) :
    (E2E.init.run evs).st = runSer St.init (lower St.init evs) ∧
    countRec d (lower St.init evs) = billed d evs ∧ lastRec d (lower St.init evs) = lastBilled d evs :=
  ⟨e2e_run_st E2E.init evs, countRec_lower St.init evs d, lastRec_lower St.init evs d⟩

/-- **e2e_conservation.** Server, recorder, production uploader and backend together: after any
history — queries of any devices, with or without profile, refreshes, uploads against backends
that refuse the stream, fail at the k-th message, fail at the end, or acknowledge — the queries
the backend was told on streams it acknowledged + the queries still held (pending or in the
upload in flight) = the queries the server answered for the device.  Hypothesis `GoodRun`: each
upload ranges over its whole batch, every key once (what Go's `range` over a map does), and no
device has 2³² or more queries in one batch. -/
theorem e2e_conservation (evs : List Ev) (hg : GoodRun E2E.init evs) (d : Dev) :
    (E2E.init.run evs).acked d + cnt (E2E.init.run evs).st.pending d
      + sumIn (E2E.init.run evs).st.inflight d = billed d evs := by
  have ha := e2e_acked_run E2E.init evs d rfl hg
  have hs := e2e_run_st E2E.init evs
  have hc := conservation_serialised (lower St.init evs) d
  rw [countRec_lower] at hc
  rw [ha, hs]
  exact hc

/-- **e2e_latest_meta.** Whatever is held for a device carries the start time, client country,
ASN and protocol of the most recent query the server answered for it. -/
theorem e2e_latest_meta (evs : List Ev) (d : Dev) (r : Rec)
    (h : (E2E.init.run evs).st.pending d = some r) : lastBilled d evs = some r.m := by
  rw [e2e_run_st] at h
  have := (latest_meta (lower St.init evs)).2.1 d r h
  rwa [lastRec_lower] at this

/-- **e2e_acknowledged_stream.** When an upload succeeds, the stream the backend acknowledged
consists of exactly one message per device of the batch — `recordToProtobuf` of its record —
and of nothing else; the batch leaves the recorder.  When it fails, nothing is acknowledged. -/
theorem e2e_acknowledged_stream (e : E2E) (b : Backend) (order : List Dev) (batch : Batch)
    (hb : e.st.inflight[0]? = some batch) :
    ((upload b (wireBatch order batch.recs)).1 = true →
      (e.step (.finish b order)).streams = e.streams ++ [wireBatch order batch.recs] ∧
      ∀ w, w ∈ wireBatch order batch.recs ↔ ∃ d, d ∈ order ∧ ∃ r, batch.recs d = some r ∧ w = toWire d r) ∧
    ((upload b (wireBatch order batch.recs)).1 = false →
      (e.step (.finish b order)).streams = e.streams ∧ (e.step (.finish b order)).acked = e.acked) := by
  constructor
  · intro hu
    refine ⟨?_, fun w => mem_wireBatch order batch.recs w⟩
    simp only [E2E.step, hb, hu, if_true]
    rw [upload_ok_sent b _ hu]
  · intro hu
    simp [E2E.step, hb, hu]

def exEvs : List Ev :=
  [.query (exQuery (some 0) 1), .query (exQuery none 2), .begin, .query (exQuery (some 0) 3),
   .finish ⟨false, none, .err⟩ [0], .begin, .finish ⟨false, none, .ack⟩ [0]]

example : billed 0 exEvs = 2 ∧ lastBilled 0 exEvs = some ⟨3, 1, 42, 2⟩ ∧
    (E2E.init.run exEvs).acked 0 = 2 ∧ (E2E.init.run exEvs).streams.length = 1 ∧
    (E2E.init.run exEvs).st.inflight.length = 0 := by decide

/-- A history with an upload satisfies `GoodRun` (the map of one device is ranged as `[0]`). -/
example : GoodRun E2E.init [.query (exQuery (some 0) 1), .begin, .finish ⟨false, none, .ack⟩ [0]] := by
  simp only [goodRun_cons, GoodEv, true_and]
  refine ⟨?_, by simp [GoodRun]⟩
  intro batch hb
  simp [E2E.step, E2E.init, lowerEv, billOf, exQuery, runSer, stepSer, blocked, step, St.init] at hb
  subst hb
  refine ⟨⟨by simp, ?_⟩, ?_⟩
  · intro d hd
    by_cases h0 : d = 0
    · simp [h0]
    · simp [record, put, Recs.empty, h0] at hd
  · intro d
    by_cases h0 : d = 0 <;> simp [cnt, record, put, Recs.empty, h0]

/-- **bulk_eq_iterate.** `n` identical `Record` calls (what the driver's `recn` computes in
closed form) are `n` single steps of the recorder. -/
theorem bulk_eq_iterate (s : St) (d : Dev) (m : Meta) (n : Nat) :
    bulk s d m n = Nat.repeat (fun x => step x (.record d m)) n s := by
  induction n with
  | zero => simp [bulk, Nat.repeat]
  | succ n ih =>
    simp only [Nat.repeat, ← ih]
    by_cases hn : n = 0
    · subst hn
      simp only [bulk, step, recordN, record, cnt]
      cases h : s.pending d <;> simp [h, Nat.add_comm]
    · simp only [bulk, hn, step, recordN, record, cnt, put, if_false, Nat.succ_ne_zero]
      simp only [if_true]
      congr 1
      · funext k
        by_cases hk : k = d <;> simp [hk, put, Nat.add_assoc]
      · funext k
        by_cases hk : k = d <;> simp [hk, Nat.add_assoc]
      · funext k
        by_cases hk : k = d <;> simp [hk]

example : (bulk St.init 0 (exMeta 1) 3).pending 0 = some ⟨exMeta 1, 3⟩ := by decide

/-- The latest-meta clause as a statement about a recorder whose refreshes may overlap. -/
def LatestMetaUnserialised : Prop :=
  ∀ (ops : List Op) (d : Dev) (r : Rec), (run St.init ops).pending d = some r → lastRec d ops = some r.m

/-- Two overlapping uploads; the older one fails after a newer query was cut into the second. -/
def staleOps : List Op :=
  [.record 0 (exMeta 1), .begin, .record 0 (exMeta 2), .begin, .endFail 0]

/-- **stale_meta_counterexample.** Without serialisation of `Refresh` (the code as found) the
latest-meta clause is false: the failed older batch is put back with the older query's meta. -/
theorem stale_meta_counterexample : ¬ LatestMetaUnserialised := by
  intro h
  have := h staleOps 0 ⟨exMeta 1, 1⟩ (by decide)
  revert this
  decide

/-- **no_overflow.** As long as a device has fewer than 2³¹ recorded queries in total, no
counter of the model reaches 2³¹, i.e. the `int32` field `Queries` of the real code behaves
like the model's natural number. -/
theorem no_overflow (ops : List Op) (d : Dev) (hb : countRec d ops < 2 ^ 31) :
    cnt (run St.init ops).pending d < 2 ^ 31 ∧
    (∀ b ∈ (run St.init ops).inflight, cnt b.recs d < 2 ^ 31) ∧
    (run St.init ops).delivered d < 2 ^ 31 := by
  have h := conservation ops d
  refine ⟨by omega, ?_, by omega⟩
  intro b hbm
  have := cnt_le_sumIn _ b d hbm
  omega

example : countRec 0 exOps < 2 ^ 31 := by decide

/-! ### Life cycle (round 4): the last upload of the program

`internal/cmd` registers the refresh worker of the billing statistics (with `RefreshOnShutdown`)
in the signal handler *before* the DNS service; the handler shuts down in reverse order, so the
DNS service stops first and the shutdown `Refresh` is the last op of the program.  `refreshMu`
makes it wait for an upload that is still in flight, hence the hypothesis "nothing in flight". -/

/-- **final_upload_delivers_all.** Whatever happened before — any records, any number of
uploads that failed or succeeded, records racing with them — if the last refresh succeeds, every
query ever recorded for a device has been delivered, nothing is held, nothing is in flight. -/
theorem final_upload_delivers_all (ops : List Op) (hq : (runSer St.init ops).inflight = [])
    (d : Dev) :
    (runSer St.init (ops ++ [.begin, .endOk 0])).delivered d = countRec d ops ∧
    (runSer St.init (ops ++ [.begin, .endOk 0])).pending d = none ∧
    (runSer St.init (ops ++ [.begin, .endOk 0])).inflight = [] := by
  obtain ⟨_, _, _, hd⟩ := successful_upload_reports ops [] hq (by intro o ho; simp at ho)
  have hdel : (runSer St.init (ops ++ [.begin, .endOk 0])).delivered d = countRec d ops := by
    simpa using hd d
  have hinf : (runSer St.init (ops ++ [.begin, .endOk 0])).inflight = [] := by
    have hs := run_upload_shape ops [] (.endOk 0)
    simp only [List.nil_append] at hs
    rw [hs]
    obtain ⟨bi, _, _⟩ := begin_quiescent (runSer St.init ops) hq
    exact (endOk_single (runSer (stepSer (runSer St.init ops) .begin) [])
      ⟨(runSer St.init ops).pending, (runSer St.init ops).last⟩ (by simpa [runSer] using bi)).2.2
  refine ⟨hdel, ?_, hinf⟩
  have hp := pending_exact (ops ++ [.begin, .endOk 0]) d
  have hc : countRec d (ops ++ [.begin, .endOk 0]) = countRec d ops := by
    simp [countRec_append, countRec]
  rw [hdel, hc, hinf] at hp
  simpa [view_zero] using hp

/-- **final_upload_failed_holds_all.** If the last refresh fails, nothing has been lost either:
every device is held with all its undelivered queries and the data of its most recent one (but
the process exits with them: the statistics are not persistent). -/
theorem final_upload_failed_holds_all (ops : List Op) (hq : (runSer St.init ops).inflight = [])
    (d : Dev) :
    (runSer St.init (ops ++ [.begin, .endFail 0])).delivered d = (runSer St.init ops).delivered d ∧
    (runSer St.init (ops ++ [.begin, .endFail 0])).inflight = [] ∧
    (runSer St.init (ops ++ [.begin, .endFail 0])).pending d =
      view (countRec d ops - (runSer St.init ops).delivered d) (lastRec d ops) := by
  obtain ⟨_, hd, hi, hp⟩ := failed_upload_returns ops [] hq (by intro o ho; simp at ho) d
  exact ⟨by simpa using hd, by simpa using hi, by simpa using hp⟩

/-- **late_query_stays_held.** Why the order of the shutdown matters: a query that is billed
after the last successful upload — a DNS service that still answers while or after the billing
statistics shut down — is recorded, held, and never delivered. -/
theorem late_query_stays_held (ops : List Op) (hq : (runSer St.init ops).inflight = [])
    (d : Dev) (m : Meta) :
    countRec d (ops ++ [.begin, .endOk 0, .record d m]) = countRec d ops + 1 ∧
    (runSer St.init (ops ++ [.begin, .endOk 0, .record d m])).delivered d = countRec d ops ∧
    (runSer St.init (ops ++ [.begin, .endOk 0, .record d m])).pending d = some ⟨m, 1⟩ := by
  obtain ⟨hdel, hpend, _⟩ := final_upload_delivers_all ops hq d
  have hsplit : ops ++ [.begin, .endOk 0, .record d m] = (ops ++ [.begin, .endOk 0]) ++ [.record d m] := by
    simp
  refine ⟨by simp [countRec_append, countRec], ?_, ?_⟩
  · rw [hsplit, runSer_append]
    simp [runSer, stepSer, blocked, step, hdel]
  · rw [hsplit, runSer_append]
    simp [runSer, stepSer, blocked, step, record, hpend, put]

example : (runSer St.init (exOps.take 6)).inflight = [] ∧
    (runSer St.init (exOps.take 6 ++ [.begin, .endOk 0])).delivered 0 = 3 ∧
    (runSer St.init (exOps.take 6 ++ [.begin, .endOk 0, .record 0 (exMeta 9)])).pending 0 =
      some ⟨exMeta 9, 1⟩ := by decide

/-- What the deferred function of `Refresh` does when `Upload` panics: `err` is still nil, so the
batch is neither delivered nor remerged (and the panic goes on to the caller). -/
def dropFlight (s : St) : St := { s with inflight := s.inflight.eraseIdx 0 }

/-- **upload_panic_loses_counterexample.** A panicking uploader is *not* covered by the property:
the batch of the panicking upload is gone.  (This is why `props/C16.json` lists "Upload does not
panic" as an assumption; `BillStat.Upload` has no panicking path for batches the recorder
makes: `Tie/TrC16.lean: toProtobuf_no_panic_iff`, `upload_nil_record_skipped`.) -/
theorem upload_panic_loses_counterexample :
    ¬ ∀ (ops : List Op) (d : Dev),
      (dropFlight (runSer St.init ops)).delivered d + cnt (dropFlight (runSer St.init ops)).pending d
        + sumIn (dropFlight (runSer St.init ops)).inflight d = countRec d ops := by
  intro h
  have := h [.record 0 (exMeta 1), .begin] 0
  revert this
  decide

#print axioms conservation
#print axioms conservation_serialised
#print axioms conservation_quiescent
#print axioms upload_outcome
#print axioms record_frame
#print axioms latest_meta
#print axioms batch_origin
#print axioms reported_meta
#print axioms stale_meta_counterexample
#print axioms no_overflow
#print axioms refines_ledger
#print axioms pending_exact
#print axioms successful_upload_reports
#print axioms failed_upload_returns
#print axioms int32_tracks_nat
#print axioms wire_queries_exact
#print axioms wire_wraps_counterexample
#print axioms wire_time_exact
#print axioms upload_ok_complete
#print axioms upload_ok_iff
#print axioms billed_iff
#print axioms billing_ignores_querylog
#print axioms e2e_is_recorder_run
#print axioms e2e_conservation
#print axioms e2e_latest_meta
#print axioms e2e_acknowledged_stream
#print axioms bulk_eq_iterate
#print axioms final_upload_delivers_all
#print axioms final_upload_failed_holds_all
#print axioms late_query_stays_held
#print axioms upload_panic_loses_counterexample

end Agd.BillStat
#print axioms Agd.Tie.TrC16.translation_complete
#print axioms Agd.Tie.TrC16.record_new
#print axioms Agd.Tie.TrC16.record_existing
#print axioms Agd.Tie.TrC16.record_never_panics
#print axioms Agd.Tie.TrC16.record_tr_existing
#print axioms Agd.Tie.TrC16.record_tr_new
#print axioms Agd.Tie.TrC16.remerge_absent
#print axioms Agd.Tie.TrC16.remerge_present
#print axioms Agd.Tie.TrC16.remerge_no_panic_iff
#print axioms Agd.Tie.TrC16.remerge_tr_absent
#print axioms Agd.Tie.TrC16.remerge_tr_present
#print axioms Agd.Tie.TrC16.refresh_returns_upload_error
#print axioms Agd.Tie.TrC16.refresh_success
#print axioms Agd.Tie.TrC16.refresh_failure
#print axioms Agd.Tie.TrC16.refresh_remerge_iff
#print axioms Agd.Tie.TrC16.refresh_reports_outcome
#print axioms Agd.Tie.TrC16.toProtobuf_tr
#print axioms Agd.Tie.TrC16.toProtobuf_no_panic_iff
#print axioms Agd.Tie.TrC16.toProtobuf_queries_model
#print axioms Agd.Tie.TrC16.upload_empty
#print axioms Agd.Tie.TrC16.upload_open_fails
#print axioms Agd.Tie.TrC16.goRangeFrom_next
#print axioms Agd.Tie.TrC16.foldl_send
#print axioms Agd.Tie.TrC16.upload_sends_all
#print axioms Agd.Tie.TrC16.upload_send_fails
#print axioms Agd.Tie.TrC16.upload_nil_record_skipped
#print axioms Agd.Tie.TrC16.recordQueryInfo_bills
#print axioms Agd.Tie.TrC16.billOf_tr
