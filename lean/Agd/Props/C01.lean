import Agd.Lemmas.Serve
import Agd.Tie.C01
/-!
# C01 — every accepted query gets exactly one matching answer on every transport

Property theorems only; the model is `Agd/Model/Serve.lean`, helper lemmas are
in `Agd/Lemmas/Serve.lean`.  All theorems quantify over every message, every
handler outcome, every transport and both socket-write results.
-/
namespace Agd.Serve

/-- **accept_table.** `acceptMsg` is exactly the documented table, in priority
order: a response is ignored; otherwise an opcode other than QUERY/NOTIFY gets
NOTIMP; otherwise wrong section counts get FORMERR; everything else is accepted. -/
theorem accept_table (m : Msg) :
    (acceptMsg m = .ignore ↔ m.qr = true) ∧
    (acceptMsg m = .notimp ↔ m.qr = false ∧ m.opcode ≠ 0 ∧ m.opcode ≠ 4) ∧
    (acceptMsg m = .formerr ↔ m.qr = false ∧ (m.opcode = 0 ∨ m.opcode = 4) ∧
        (m.questions.length ≠ 1 ∨ m.nAn > 1 ∨ m.nNs > 1)) ∧
    (acceptMsg m = .accept ↔ m.qr = false ∧ (m.opcode = 0 ∨ m.opcode = 4) ∧
        m.questions.length = 1 ∧ m.nAn ≤ 1 ∧ m.nNs ≤ 1) := by
  unfold acceptMsg
  cases hq : m.qr <;> simp
  by_cases h0 : m.opcode = 0 <;> by_cases h4 : m.opcode = 4 <;>
    by_cases hl : m.questions.length = 1 <;> by_cases ha : m.nAn > 1 <;>
    by_cases hn : m.nNs > 1 <;> simp [h0, h4, hl, ha, hn] <;> omega

example : acceptMsg sampleQuery = .accept := by decide
example : acceptMsg sampleStatus = .notimp := by decide

/-- **one_response.** Under the handler contract (an error after a write is that
write's error) no transport delivers more than one DNS message for a request. -/
theorem one_response (t : Transport) (m : Msg) (o : Outcome) (wok : Bool) (hc : Contract o wok) :
    (serveMsg t m o wok).msgs.length ≤ 1 := by
  unfold serveMsg
  split
  · simp
  · by_cases ht : t.nonWriter = true
    · exact deliver_length_nonwriter t m _ wok ht
    · cases wok with
      | false => cases t <;> simp [Transport.nonWriter] at ht <;> simp [deliver]
      | true =>
        have := serveCore_length_contract m o hc
        cases t <;> simp [Transport.nonWriter] at ht <;> simpa [deliver] using this

/-- **exactly_one.** An accepted query for which the pipeline produced something
(a response or an error) is answered exactly once on every transport whose
socket works — the DoQ keep-alive protocol error being the one documented
exception. -/
theorem exactly_one (t : Transport) (m : Msg) (o : Outcome)
    (hacc : acceptMsg m = .accept) (ho : o ≠ .silent) (hc : Contract o true)
    (hq : ¬ (t = .doq ∧ validQUICMsg m = false)) :
    (serveMsg t m o true).msgs.length = 1 := by
  unfold serveMsg
  rw [if_neg hq]
  have hcore : ∃ r, serveCore m o = [r] := by
    unfold serveCore; rw [hacc]
    cases o with
    | silent => exact absurd rfl ho
    | wrote r => exact ⟨r, rfl⟩
    | failed ne => exact ⟨_, rfl⟩
    | wroteFailed r ne => exact absurd (hc r ne rfl) (by simp)
  obtain ⟨r, hr⟩ := hcore
  rw [hr]
  cases t <;> simp [deliver]

example : Contract (.wrote (handlerResp sampleQuery 0 2)) true := by intro r ne h; cases h

/-- Without the contract the statement fails on the directly writing transports:
a handler that writes and then reports an unrelated error makes UDP/TCP clients
receive two messages (a test of the hypothesis, not a theorem about the code). -/
example : (serveMsg .udp sampleQuery (.wroteFailed (handlerResp sampleQuery 0 1) false) true).msgs.length = 2 := by
  decide

/-- **response_matches.** Every message any transport delivers carries the
request's id and the request's (first) question, provided the handler's own
response does. -/
theorem response_matches (t : Transport) (m : Msg) (o : Outcome) (wok : Bool)
    (hh : HandlerMatches m o) : ∀ r ∈ (serveMsg t m o wok).msgs, Matches m r := by
  intro r hr
  unfold serveMsg at hr
  split at hr
  · simp at hr
  · rcases deliver_sub t m _ wok r hr with h | ⟨_, h⟩
    · exact serveCore_matches m o hh r h
    · rw [h]; exact setRcode_matches m _

/-- For an accepted query "first question" is the whole question section. -/
theorem accepted_question_whole (m : Msg) (h : acceptMsg m = .accept) :
    m.questions.take 1 = m.questions := by
  have := ((accept_table m).2.2.2.1 h).2.2.1
  match hq : m.questions, this with
  | [q], _ => rfl

/-- **reject_never_foreign.** A message that is not acceptable never reaches the
handler (the result does not depend on the handler's outcome), and whatever a
transport answers carries the request's id and question, no records, and the
documented rcode: FORMERR for wrong counts, NOTIMP for the opcode, and for an
ignored response-bit message nothing at all except the SERVFAIL that DoQ and
DNSCrypt synthesise for every unanswered request. -/
theorem reject_never_foreign (t : Transport) (m : Msg) (o o' : Outcome) (wok : Bool)
    (hrej : acceptMsg m ≠ .accept) :
    serveMsg t m o wok = serveMsg t m o' wok ∧
    ∀ r ∈ (serveMsg t m o wok).msgs, Matches m r ∧ r.answers = [] ∧ r.ede = none ∧
      ((acceptMsg m = .formerr ∧ r.rcode = rcFormErr) ∨
       (acceptMsg m = .notimp ∧ r.rcode = rcNotImp) ∨
       (acceptMsg m = .ignore ∧ r.rcode = rcServFail ∧ t.nonWriter = true ∧ t.isHTTP = false)) := by
  have hcore : serveCore m o = serveCore m o' := by
    unfold serveCore; split <;> first | rfl | (rename_i h; exact absurd h hrej)
  refine ⟨by unfold serveMsg; rw [hcore], ?_⟩
  intro r hr
  unfold serveMsg at hr
  split at hr
  · simp at hr
  · cases hact : acceptMsg m with
    | accept => exact absurd hact hrej
    | formerr =>
      have hc : serveCore m o = [setRcode m rcFormErr] := by unfold serveCore; rw [hact]
      rw [hc] at hr
      have : r = setRcode m rcFormErr := by
        cases t <;> cases wok <;> simp [deliver, lastOr] at hr <;> exact hr
      subst this
      exact ⟨setRcode_matches m _, by simp [setRcode], by simp [setRcode], Or.inl ⟨rfl, by simp [setRcode]⟩⟩
    | notimp =>
      have hc : serveCore m o = [setRcode m rcNotImp] := by unfold serveCore; rw [hact]
      rw [hc] at hr
      have : r = setRcode m rcNotImp := by
        cases t <;> cases wok <;> simp [deliver, lastOr] at hr <;> exact hr
      subst this
      exact ⟨setRcode_matches m _, by simp [setRcode], by simp [setRcode],
        Or.inr (Or.inl ⟨rfl, by simp [setRcode]⟩)⟩
    | ignore =>
      have hc : serveCore m o = [] := by unfold serveCore; rw [hact]
      rw [hc] at hr
      cases t <;> cases wok <;> simp [deliver, lastOr] at hr <;>
        (subst hr; exact ⟨setRcode_matches m _, by simp [setRcode], by simp [setRcode],
          Or.inr (Or.inr ⟨rfl, by simp [setRcode], by simp [Transport.nonWriter], by simp [Transport.isHTTP]⟩)⟩)

example : acceptMsg sampleResponse ≠ .accept := by decide

/-- **transport_equiv.** Whenever the pipeline produced something, all transports
deliver the same message list (the model's `Resp` is the response up to OPT
decoration, padding, keep-alive and truncation, which belong to C08). -/
theorem transport_equiv (t₁ t₂ : Transport) (m : Msg) (o : Outcome)
    (hw : serveCore m o ≠ []) (hc : Contract o true)
    (h₁ : ¬ (t₁ = .doq ∧ validQUICMsg m = false)) (h₂ : ¬ (t₂ = .doq ∧ validQUICMsg m = false)) :
    (serveMsg t₁ m o true).msgs = (serveMsg t₂ m o true).msgs := by
  have hlen := serveCore_length_contract m o hc
  obtain ⟨r, hr⟩ : ∃ r, serveCore m o = [r] := by
    match h : serveCore m o with
    | [] => exact absurd h hw
    | [r] => exact ⟨r, rfl⟩
    | _ :: _ :: _ => rw [h] at hlen; simp at hlen
  unfold serveMsg
  rw [if_neg h₁, if_neg h₂, hr]
  cases t₁ <;> cases t₂ <;> simp [deliver, lastOr]

/-- **silent_table.** The documented treatment of "nothing was written" (handler
silent, or an ignored message): nothing on UDP, connection closed on TCP/DoT,
HTTP 500 on DoH, a synthesised SERVFAIL with the request's id and question on
DoQ and DNSCrypt. -/
theorem silent_table (t : Transport) (m : Msg) (o : Outcome) (wok : Bool)
    (hw : serveCore m o = []) (hq : ¬ (t = .doq ∧ validQUICMsg m = false)) :
    serveMsg t m o wok =
      match t with
      | .udp => { status := stNone, msgs := [] }
      | .tcp | .dot => { status := stClosed, msgs := [] }
      | .dohPost | .dohGet | .dohJSON => { status := stHTTP500, msgs := [] }
      | .doq => { status := stOpen, msgs := [setRcode m rcServFail] }
      | .dnscryptUDP | .dnscryptTCP => { status := stNone, msgs := [setRcode m rcServFail] } := by
  unfold serveMsg
  rw [if_neg hq, hw]
  cases t <;> cases wok <;> simp [deliver, lastOr]

/-- **undecodable_dropped.** Bytes that do not decode never elicit a DNS message,
on any transport, whatever the handler would do. -/
theorem undecodable_dropped (t : Transport) (o : Outcome) (wok : Bool) :
    (serveWire t none o wok).msgs = [] := by
  cases t <;> simp [serveWire, dropped]

/-- **bytes_id.** Tied to wire input: if `Unpack` respects the header bytes, every
message delivered for the byte string `b` carries the id in `b[0..2]`. -/
theorem bytes_id (t : Transport) (b : List Nat) (m : Msg) (o : Outcome) (wok : Bool)
    (hu : HdrAgrees b m) (hh : HandlerMatches m o) :
    ∃ i0 i1 rest, b = i0 :: i1 :: rest ∧
      ∀ r ∈ (serveWire t (some m) o wok).msgs, r.id = i0 * 256 + i1 := by
  obtain ⟨h, hp, hid, _⟩ := hu
  match b, hp with
  | i0 :: i1 :: f0 :: f1 :: q0 :: q1 :: a0 :: a1 :: n0 :: n1 :: r0 :: r1 :: rest, hp =>
    refine ⟨i0, i1, _, rfl, ?_⟩
    intro r hr
    simp [parseHdr] at hp
    have := (response_matches t m o wok hh r hr).1
    rw [this, ← hid, ← hp]

example : HdrAgrees [0xab, 0xcd, 1, 0, 0, 1, 0, 0, 0, 0, 0, 0, 3] sampleHdrOnly := ⟨_, rfl, by decide⟩

/-- **doq_keepalive_is_protocol_error.** A DoQ request with an edns-tcp-keepalive
option closes the connection with a protocol error and is never answered. -/
theorem doq_keepalive_is_protocol_error (m : Msg) (o : Outcome) (wok : Bool)
    (h : m.edns = true ∧ m.keepalive = true) :
    serveMsg .doq m o wok = { status := stProtoErr, msgs := [] } := by
  simp [serveMsg, validQUICMsg, h.1, h.2]

/-- **dispose_after_last_use.** On every transport, under the worst concurrent
schedule (a foreign `Clone` right after every `Dispose`), everything the
transport sends is still the pipeline's own response, the response object is
given to the Disposer at most once, and no object that already belongs to a
concurrent request is disposed of. -/
theorem dispose_after_last_use (t : Transport) (recorded : Bool) :
    (∀ c ∈ (runLife (lifeOf disposeKinds t recorded)).sent, c = none) ∧
    (runLife (lifeOf disposeKinds t recorded)).disposes ≤ 1 ∧
    (runLife (lifeOf disposeKinds t recorded)).clobbered = false := by
  cases t <;> cases recorded <;> decide

/-- **concurrent_reuse_harmless.** Sharing the Disposer's pools with concurrent
requests changes nothing the client observes: for every transport, message,
handler outcome, socket result and whatever the concurrent requests write into
recycled objects, the client sees exactly `serveMsg`. -/
theorem concurrent_reuse_harmless (t : Transport) (m : Msg) (o : Outcome) (wok : Bool)
    (foreign : Nat → Resp) :
    serveMsgShared disposeKinds t m o wok foreign = serveMsg t m o wok := by
  unfold serveMsgShared
  cases t <;> cases (serveCore m o).isEmpty <;> rfl

/-- **early_dispose_counterexample.** The statement is about the `dispose` switch
as written: were `*NonWriterResponseWriter` in its case list (as the TODO above
it invites), a DoH client would receive the concurrent request's message, and
the object would be disposed of a second time while that request owns it. -/
theorem early_dispose_counterexample :
    ¬ (∀ t m o wok foreign,
        serveMsgShared (.nonWriter :: disposeKinds) t m o wok foreign = serveMsg t m o wok) := by
  intro h
  have := h .dohGet sampleQuery (.wrote (handlerResp sampleQuery 0 1)) true
    (fun _ => setRcode sampleResponse 0)
  revert this
  decide

example : (runLife (lifeOf (.nonWriter :: disposeKinds) .doq true)).clobbered = true := by decide
example : (runLife (lifeOf disposeKinds .doq true)).sent = [none] := by decide
example : disposeCount disposeKinds .dnscryptUDP (some sampleQuery) (.failed false) = 0 := by decide

/-- **quic_payload_own_bytes.** The bytes the (repaired) DoQ reader hands to
`Unpack` are a function of the stream alone — whatever an earlier message left in
the pooled buffer — namely the stream minus its length prefix, when the prefix is
right. -/
theorem quic_payload_own_bytes (pool stream : List Nat) :
    quicPayload pool stream =
      if stream.length < 12 then none
      else if stream.getD 0 0 * 256 + stream.getD 1 0 ≠ stream.length - 2 then none
      else some (stream.drop 2) := by
  unfold quicPayload bufAfterRead
  by_cases h : stream.length < 12
  · simp [h]
  · match stream, h with
    | a :: b :: tl, h =>
      simp only [List.length_cons] at h
      simp only [List.length_cons, h, if_false, List.cons_append, List.getD_cons_zero,
        List.getD_cons_succ, List.drop_succ_cons, List.drop_zero]
      have : tl.length + 1 + 1 - 2 = tl.length := by omega
      rw [this, List.take_left']
      rfl
    | [a], h => simp at h
    | [], h => simp at h

/-- **quic_orig_counterexample.** The reader as originally written (`Unpack(buf[2:])`)
does not have this property: the same 14-byte stream (a bare header announcing one
question) is handed to `Unpack` together with the previous client's question when
the pooled buffer still holds it.  Replayed on the real code by the harness
(signatures `doq-frame-not-own-bytes`, `foreign-question-doq`). -/
theorem quic_orig_counterexample :
    ¬ (∀ pool pool' stream, quicPayloadOrig pool stream = quicPayloadOrig pool' stream) := by
  intro h
  have := h [0, 20, 0, 0, 0, 0, 0, 1, 0, 0, 0, 0, 0, 0, 6, 118, 105, 99, 116, 105, 109, 0, 0, 1, 0, 1]
            []
            [0, 12, 0xab, 0xcd, 1, 0, 0, 1, 0, 0, 0, 0, 0, 0]
  revert this
  decide

/-- **json_front_end.** The JSON API rejects a request with HTTP 400 exactly when
the name is unusable or a parameter is malformed; otherwise it builds one
acceptable query with the requested name, type (default A), class (default IN),
CD bit, and RD set. -/
theorem json_front_end (j : JSONReq) (id : Nat) :
    (jsonToMsg j id = none ↔
      (j.nameEmpty = true ∨ j.qtype = .bad ∨ j.qclass = .bad ∨ j.cd = .bad ∨ j.do_ = .bad ∨ j.sde = .bad)) ∧
    (∀ m, jsonToMsg j id = some m →
      acceptMsg m = .accept ∧ m.id = id ∧ m.rd = true ∧
      ∃ qt qc, j.qtype.get 1 = some qt ∧ j.qclass.get 1 = some qc ∧
        m.questions = [{ name := j.name, qtype := qt, qclass := qc }]) := by
  unfold jsonToMsg
  constructor
  · cases j.nameEmpty <;> cases j.qtype <;> cases j.qclass <;> cases j.cd <;> cases j.do_ <;>
      cases j.sde <;> simp [NumParam.get, BoolParam.get]
  · intro m hm
    cases hne : j.nameEmpty <;> simp [hne] at hm
    cases hqt : j.qtype.get 1 <;> cases hqc : j.qclass.get 1 <;> cases hcd : j.cd.get <;>
      cases hdo : j.do_.get <;> cases hsde : j.sde.get <;> simp [hqt, hqc, hcd, hdo, hsde] at hm
    subst hm
    exact ⟨by simp [acceptMsg], rfl, rfl, _, _, rfl, rfl, rfl⟩

example : (jsonToMsg sampleJSON 5).isSome = true := by decide

#print axioms accept_table
#print axioms one_response
#print axioms exactly_one
#print axioms response_matches
#print axioms accepted_question_whole
#print axioms reject_never_foreign
#print axioms transport_equiv
#print axioms silent_table
#print axioms undecodable_dropped
#print axioms bytes_id
#print axioms doq_keepalive_is_protocol_error
#print axioms dispose_after_last_use
#print axioms concurrent_reuse_harmless
#print axioms early_dispose_counterexample
#print axioms quic_payload_own_bytes
#print axioms quic_orig_counterexample
#print axioms json_front_end

end Agd.Serve
