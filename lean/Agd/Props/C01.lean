import Agd.Tie.TrC01
import Agd.Lemmas.Serve
import Agd.Tie.C01
/-!
# C01 — every accepted query gets exactly one matching answer on every transport

Property theorems only; the model is `Agd/Model/Serve.lean`, helper lemmas are
in `Agd/Lemmas/Serve.lean`.  All theorems quantify over every message, every
handler outcome, every transport and both socket-write results.
-/
namespace Agd.Serve

/-- **accept_table.** `acceptMsg` is exactly the documented table, in priority
order: a response is ignored; otherwise an opcode other than QUERY/NOTIFY gets
NOTIMP; otherwise wrong section counts get FORMERR; everything else is accepted. -/
theorem accept_table (m : Msg) :
    (acceptMsg m = .ignore ↔ m.qr = true) ∧
    (acceptMsg m = .notimp ↔ m.qr = false ∧ m.opcode ≠ 0 ∧ m.opcode ≠ 4) ∧
    (acceptMsg m = .formerr ↔ m.qr = false ∧ (m.opcode = 0 ∨ m.opcode = 4) ∧
        (m.questions.length ≠ 1 ∨ m.nAn > 1 ∨ m.nNs > 1)) ∧
    (acceptMsg m = .accept ↔ m.qr = false ∧ (m.opcode = 0 ∨ m.opcode = 4) ∧
        m.questions.length = 1 ∧ m.nAn ≤ 1 ∧ m.nNs ≤ 1) := by
  unfold acceptMsg
  cases hq : m.qr <;> simp
  by_cases h0 : m.opcode = 0 <;> by_cases h4 : m.opcode = 4 <;>
    by_cases hl : m.questions.length = 1 <;> by_cases ha : m.nAn > 1 <;>
    by_cases hn : m.nNs > 1 <;> simp [h0, h4, hl, ha, hn] <;> omega

example : acceptMsg sampleQuery = .accept := by decide
example : acceptMsg sampleStatus = .notimp := by decide

/-- **one_response.** Under the handler contract (an error after a write is that
write's error) no transport delivers more than one DNS message for a request. -/
theorem one_response (t : Transport) (m : Msg) (o : Outcome) (wok : Bool) (hc : Contract o wok) :
    (serveMsg t m o wok).msgs.length ≤ 1 := by
  unfold serveMsg
  split
  · simp
  · by_cases ht : t.nonWriter = true
    · exact deliver_length_nonwriter t m _ wok ht
    · cases wok with
      | false => cases t <;> simp [Transport.nonWriter] at ht <;> simp [deliver]
      | true =>
        have := serveCore_length_contract m o hc
        cases t <;> simp [Transport.nonWriter] at ht <;> simpa [deliver] using this

/-- **exactly_one.** An accepted query for which the pipeline produced something
(a response or an error) is answered exactly once on every transport whose
socket works — the DoQ keep-alive protocol error being the one documented
exception. -/
theorem exactly_one (t : Transport) (m : Msg) (o : Outcome)
    (hacc : acceptMsg m = .accept) (ho : o ≠ .silent) (hc : Contract o true)
    (hq : ¬ (t = .doq ∧ validQUICMsg m = false)) :
    (serveMsg t m o true).msgs.length = 1 := by
  unfold serveMsg
  rw [if_neg hq]
  have hcore : ∃ r, serveCore m o = [r] := by
    unfold serveCore; rw [hacc]
    cases o with
    | silent => exact absurd rfl ho
    | wrote r => exact ⟨r, rfl⟩
    | failed ne => exact ⟨_, rfl⟩
    | wroteFailed r ne => exact absurd (hc r ne rfl) (by simp)
  obtain ⟨r, hr⟩ := hcore
  rw [hr]
  cases t <;> simp [deliver]

example : Contract (.wrote (handlerResp sampleQuery 0 2)) true := by intro r ne h; cases h

/-- Without the contract the statement fails on the directly writing transports:
a handler that writes and then reports an unrelated error makes UDP/TCP clients
receive two messages (a test of the hypothesis, not a theorem about the code). -/
example : (serveMsg .udp sampleQuery (.wroteFailed (handlerResp sampleQuery 0 1) false) true).msgs.length = 2 := by
  decide

/-- **response_matches.** Every message any transport delivers carries the
request's id and the request's (first) question, provided the handler's own
response does. -/
theorem response_matches (t : Transport) (m : Msg) (o : Outcome) (wok : Bool)
    (hh : HandlerMatches m o) : ∀ r ∈ (serveMsg t m o wok).msgs, Matches m r := by
  intro r hr
  unfold serveMsg at hr
  split at hr
  · simp at hr
  · rcases deliver_sub t m _ wok r hr with h | ⟨_, h⟩
    · exact serveCore_matches m o hh r h
    · rw [h]; exact setRcode_matches m _

/-- For an accepted query "first question" is the whole question section. -/
theorem accepted_question_whole (m : Msg) (h : acceptMsg m = .accept) :
    m.questions.take 1 = m.questions := by
  have := ((accept_table m).2.2.2.1 h).2.2.1
  match hq : m.questions, this with
  | [q], _ => rfl

/-- **reject_never_foreign.** A message that is not acceptable never reaches the
handler (the result does not depend on the handler's outcome), and whatever a
transport answers carries the request's id and question, no records, and the
documented rcode: FORMERR for wrong counts, NOTIMP for the opcode, and for an
ignored response-bit message nothing at all except the SERVFAIL that DoQ and
DNSCrypt synthesise for every unanswered request. -/
theorem reject_never_foreign (t : Transport) (m : Msg) (o o' : Outcome) (wok : Bool)
    (hrej : acceptMsg m ≠ .accept) :
    serveMsg t m o wok = serveMsg t m o' wok ∧
    ∀ r ∈ (serveMsg t m o wok).msgs, Matches m r ∧ r.answers = [] ∧ r.ede = none ∧
      ((acceptMsg m = .formerr ∧ r.rcode = rcFormErr) ∨
       (acceptMsg m = .notimp ∧ r.rcode = rcNotImp) ∨
       (acceptMsg m = .ignore ∧ r.rcode = rcServFail ∧ t.nonWriter = true ∧ t.isHTTP = false)) := by
  have hcore : serveCore m o = serveCore m o' := by
    unfold serveCore; split <;> first | rfl | (rename_i h; exact absurd h hrej)
  refine ⟨by unfold serveMsg; rw [hcore], ?_⟩
  intro r hr
  unfold serveMsg at hr
  split at hr
  · simp at hr
  · cases hact : acceptMsg m with
    | accept => exact absurd hact hrej
    | formerr =>
      have hc : serveCore m o = [setRcode m rcFormErr] := by unfold serveCore; rw [hact]
      rw [hc] at hr
      have : r = setRcode m rcFormErr := by
        cases t <;> cases wok <;> simp [deliver, lastOr] at hr <;> exact hr
      subst this
      exact ⟨setRcode_matches m _, by simp [setRcode], by simp [setRcode], Or.inl ⟨rfl, by simp [setRcode]⟩⟩
    | notimp =>
      have hc : serveCore m o = [setRcode m rcNotImp] := by unfold serveCore; rw [hact]
      rw [hc] at hr
      have : r = setRcode m rcNotImp := by
        cases t <;> cases wok <;> simp [deliver, lastOr] at hr <;> exact hr
      subst this
      exact ⟨setRcode_matches m _, by simp [setRcode], by simp [setRcode],
        Or.inr (Or.inl ⟨rfl, by simp [setRcode]⟩)⟩
    | ignore =>
      have hc : serveCore m o = [] := by unfold serveCore; rw [hact]
      rw [hc] at hr
      cases t <;> cases wok <;> simp [deliver, lastOr] at hr <;>
        (subst hr; exact ⟨setRcode_matches m _, by simp [setRcode], by simp [setRcode],
          Or.inr (Or.inr ⟨rfl, by simp [setRcode], by simp [Transport.nonWriter], by simp [Transport.isHTTP]⟩)⟩)

example : acceptMsg sampleResponse ≠ .accept := by decide

/-- **transport_equiv.** Whenever the pipeline produced something, all transports
deliver the same message list (the model's `Resp` is the response up to OPT
decoration, padding, keep-alive and truncation, which belong to C08). -/
theorem transport_equiv (t₁ t₂ : Transport) (m : Msg) (o : Outcome)
    (hw : serveCore m o ≠ []) (hc : Contract o true)
    (h₁ : ¬ (t₁ = .doq ∧ validQUICMsg m = false)) (h₂ : ¬ (t₂ = .doq ∧ validQUICMsg m = false)) :
    (serveMsg t₁ m o true).msgs = (serveMsg t₂ m o true).msgs := by
  have hlen := serveCore_length_contract m o hc
  obtain ⟨r, hr⟩ : ∃ r, serveCore m o = [r] := by
    match h : serveCore m o with
    | [] => exact absurd h hw
    | [r] => exact ⟨r, rfl⟩
    | _ :: _ :: _ => rw [h] at hlen; simp at hlen
  unfold serveMsg
  rw [if_neg h₁, if_neg h₂, hr]
  cases t₁ <;> cases t₂ <;> simp [deliver, lastOr]

/-- **silent_table.** The documented treatment of "nothing was written" (handler
silent, or an ignored message): nothing on UDP, connection closed on TCP/DoT,
HTTP 500 on DoH, a synthesised SERVFAIL with the request's id and question on
DoQ and DNSCrypt. -/
theorem silent_table (t : Transport) (m : Msg) (o : Outcome) (wok : Bool)
    (hw : serveCore m o = []) (hq : ¬ (t = .doq ∧ validQUICMsg m = false)) :
    serveMsg t m o wok =
      match t with
      | .udp => { status := stNone, msgs := [] }
      | .tcp | .dot => { status := stClosed, msgs := [] }
      | .dohPost | .dohGet | .dohJSON => { status := stHTTP500, msgs := [] }
      | .doq => { status := stOpen, msgs := [setRcode m rcServFail], fin := true }
      | .dnscryptUDP | .dnscryptTCP => { status := stNone, msgs := [setRcode m rcServFail] } := by
  unfold serveMsg
  rw [if_neg hq, hw]
  cases t <;> cases wok <;> simp [deliver, lastOr]

/-- **undecodable_dropped.** Bytes that do not decode never elicit a DNS message,
on any transport, whatever the handler would do. -/
theorem undecodable_dropped (t : Transport) (o : Outcome) (wok : Bool) :
    (serveWire t none o wok).msgs = [] := by
  cases t <;> simp [serveWire, dropped]

/-- **bytes_id.** Tied to wire input: if `Unpack` respects the header bytes, every
message delivered for the byte string `b` carries the id in `b[0..2]`. -/
theorem bytes_id (t : Transport) (b : List Nat) (m : Msg) (o : Outcome) (wok : Bool)
    (hu : HdrAgrees b m) (hh : HandlerMatches m o) :
    ∃ i0 i1 rest, b = i0 :: i1 :: rest ∧
      ∀ r ∈ (serveWire t (some m) o wok).msgs, r.id = i0 * 256 + i1 := by
  obtain ⟨h, hp, hid, _⟩ := hu
  match b, hp with
  | i0 :: i1 :: f0 :: f1 :: q0 :: q1 :: a0 :: a1 :: n0 :: n1 :: r0 :: r1 :: rest, hp =>
    refine ⟨i0, i1, _, rfl, ?_⟩
    intro r hr
    simp [parseHdr] at hp
    have := (response_matches t m o wok hh r hr).1
    rw [this, ← hid, ← hp]

example : HdrAgrees [0xab, 0xcd, 1, 0, 0, 1, 0, 0, 0, 0, 0, 0, 3] sampleHdrOnly := ⟨_, rfl, by decide⟩

/-- **doq_keepalive_is_protocol_error.** A DoQ request with an edns-tcp-keepalive
option closes the connection with a protocol error and is never answered. -/
theorem doq_keepalive_is_protocol_error (m : Msg) (o : Outcome) (wok : Bool)
    (h : m.edns = true ∧ m.keepalive = true) :
    serveMsg .doq m o wok = { status := stProtoErr, msgs := [], fin := true } := by
  simp [serveMsg, validQUICMsg, h.1, h.2]

/-- **dispose_after_last_use.** On every transport, under the worst concurrent
schedule (a foreign `Clone` right after every `Dispose`), everything the
transport sends is still the pipeline's own response, the response object is
given to the Disposer at most once, and no object that already belongs to a
concurrent request is disposed of. -/
theorem dispose_after_last_use (t : Transport) (recorded : Bool) :
    (∀ c ∈ (runLife (lifeOf disposeKinds t recorded)).sent, c = none) ∧
    (runLife (lifeOf disposeKinds t recorded)).disposes ≤ 1 ∧
    (runLife (lifeOf disposeKinds t recorded)).clobbered = false := by
  cases t <;> cases recorded <;> decide

/-- **concurrent_reuse_harmless.** Sharing the Disposer's pools with concurrent
requests changes nothing the client observes: for every transport, message,
handler outcome, socket result and whatever the concurrent requests write into
recycled objects, the client sees exactly `serveMsg`. -/
theorem concurrent_reuse_harmless (t : Transport) (m : Msg) (o : Outcome) (wok : Bool)
    (foreign : Nat → Resp) :
    serveMsgShared disposeKinds t m o wok foreign = serveMsg t m o wok := by
  unfold serveMsgShared
  cases t <;> cases (serveCore m o).isEmpty <;> rfl

/-- **early_dispose_counterexample.** The statement is about the `dispose` switch
as written: were `*NonWriterResponseWriter` in its case list (as the TODO above
it invites), a DoH client would receive the concurrent request's message, and
the object would be disposed of a second time while that request owns it. -/
theorem early_dispose_counterexample :
    ¬ (∀ t m o wok foreign,
        serveMsgShared (.nonWriter :: disposeKinds) t m o wok foreign = serveMsg t m o wok) := by
  intro h
  have := h .dohGet sampleQuery (.wrote (handlerResp sampleQuery 0 1)) true
    (fun _ => setRcode sampleResponse 0)
  revert this
  decide

example : (runLife (lifeOf (.nonWriter :: disposeKinds) .doq true)).clobbered = true := by decide
example : (runLife (lifeOf disposeKinds .doq true)).sent = [none] := by decide
example : disposeCount disposeKinds .dnscryptUDP (some sampleQuery) (.failed false) = 0 := by decide

/-- **quic_payload_own_bytes.** The bytes the (repaired) DoQ reader hands to
`Unpack` are a function of the stream alone — whatever an earlier message left in
the pooled buffer — namely the stream minus its length prefix, when the prefix is
right. -/
theorem quic_payload_own_bytes (pool stream : List Nat) :
    quicPayload pool stream =
      if stream.length < 12 then none
      else if stream.getD 0 0 * 256 + stream.getD 1 0 ≠ stream.length - 2 then none
      else some (stream.drop 2) := by
  unfold quicPayload bufAfterRead
  by_cases h : stream.length < 12
  · simp [h]
  · match stream, h with
    | a :: b :: tl, h =>
      simp only [List.length_cons] at h
      simp only [List.length_cons, h, if_false, List.cons_append, List.getD_cons_zero,
        List.getD_cons_succ, List.drop_succ_cons, List.drop_zero]
      have : tl.length + 1 + 1 - 2 = tl.length := by omega
      rw [this, List.take_left']
      rfl
    | [a], h => simp at h
    | [], h => simp at h

/-- **quic_orig_counterexample.** The reader as originally written (`Unpack(buf[2:])`)
does not have this property: the same 14-byte stream (a bare header announcing one
question) is handed to `Unpack` together with the previous client's question when
the pooled buffer still holds it.  Replayed on the real code by the harness
(signatures `doq-frame-not-own-bytes`, `foreign-question-doq`). -/
theorem quic_orig_counterexample :
    ¬ (∀ pool pool' stream, quicPayloadOrig pool stream = quicPayloadOrig pool' stream) := by
  intro h
  have := h [0, 20, 0, 0, 0, 0, 0, 1, 0, 0, 0, 0, 0, 0, 6, 118, 105, 99, 116, 105, 109, 0, 0, 1, 0, 1]
            []
            [0, 12, 0xab, 0xcd, 1, 0, 0, 1, 0, 0, 0, 0, 0, 0]
  revert this
  decide

/-- **doq_read_delivery_irrelevant.** What the DoQ reader hands to `Unpack` depends
on the bytes the client delivered alone: not on how QUIC cut them into `Read`
results, not on whether the STREAM FIN came with the last data, in a frame of its
own, or not at all before the read deadline, and not on what the pooled buffer
held before. -/
theorem doq_read_delivery_irrelevant (cap : Nat) (pool₁ pool₂ : List Nat) (reads₁ reads₂ : List QRead)
    (h : delivered reads₁ = delivered reads₂) :
    quicRead cap pool₁ reads₁ = quicRead cap pool₂ reads₂ := by
  rw [quicRead_delivered, quicRead_delivered, h, quic_payload_own_bytes, quic_payload_own_bytes]

/-- **doq_complete_query_read.** Every message of at least a header that fits the
read buffer together with its two length octets is handed to `Unpack` whole,
exactly as sent, however the stream was delivered and however it ended after the
last octet of the message (`hlt`: a length prefix can announce it). -/
theorem doq_complete_query_read (cap : Nat) (pool b : List Nat) (reads : List QRead)
    (hd : delivered reads = frameDoQ b) (h10 : 10 ≤ b.length) (hfit : b.length + 2 ≤ cap)
    (hlt : b.length < 65536) :
    quicRead cap pool reads = some b := by
  rw [quicRead_delivered, hd]
  have : (frameDoQ b).take cap = frameDoQ b := by
    apply List.take_of_length_le
    simp only [frameDoQ, List.length_append, List.length_cons, List.length_nil]; omega
  rw [this]
  exact quicPayload_frame_some pool b h10 hlt

/-- The same three read scripts for one 12-octet message in a 14-octet buffer:
FIN with the data, FIN in a call of its own (the buffer is full by then: `readAll`
reports `io.ErrShortBuffer`), and no FIN at all, cut into three `Read` results. -/
def sampleFrame : List Nat := [0, 12, 0xab, 0xcd, 1, 0, 0, 0, 0, 0, 0, 0, 0, 0]
example : delivered [⟨sampleFrame, some .eof⟩] = frameDoQ (sampleFrame.drop 2) := by decide
example : quicRead 14 [7, 7, 7] [⟨sampleFrame, some .eof⟩] = some (sampleFrame.drop 2) := by decide
example : quicRead 14 [] [⟨sampleFrame, none⟩, ⟨[], some .eof⟩] = some (sampleFrame.drop 2) ∧
    (readAll 14 [⟨sampleFrame, none⟩, ⟨[], some .eof⟩] []).2 = .shortBuffer := by decide
example : quicRead 64 [] [⟨[0], none⟩, ⟨[12, 0xab, 0xcd], none⟩, ⟨sampleFrame.drop 4, none⟩] = some (sampleFrame.drop 2) ∧
    (readAll 64 [⟨[0], none⟩, ⟨[12, 0xab, 0xcd], none⟩, ⟨sampleFrame.drop 4, none⟩] []).2 = .other := by decide

/-- **doq_max_size_query_read.** With the buffer of the (repaired) code every message
of at least a header that a length prefix can announce — up to 65535 octets, the
same as on TCP — is handed to `Unpack` whole, however the stream was delivered. -/
theorem doq_max_size_query_read (pool b : List Nat) (reads : List QRead)
    (hd : delivered reads = frameDoQ b) (h10 : 10 ≤ b.length) (hmax : b.length ≤ 65535) :
    quicRead quicBufSize pool reads = some b :=
  doq_complete_query_read quicBufSize pool b reads hd h10 (by unfold quicBufSize; omega) (by omega)

/-- **doq_complete_query_served.** Tied to the serving model: every message of at
least a header and at most 65535 octets sent over DoQ reaches `Unpack` whole and
is served as on every other stream transport. -/
theorem doq_complete_query_served (pool b : List Nat) (unpack : List Nat → Option Msg) (o : Outcome) (wok : Bool)
    (h10 : 10 ≤ b.length) (hmax : b.length ≤ 65535) :
    serveBytes .doq pool b unpack o wok = serveWire .doq (unpack b) o wok := by
  have hlt : b.length < 65536 := by omega
  unfold serveBytes unpackInput
  have hbig : ¬ (quicBufSize < b.length + 2) := by unfold quicBufSize; omega
  simp only [hbig, if_false, quicPayload_frame_some pool b h10 hlt]

example : 10 ≤ (sampleWire).length ∧ sampleWire.length ≤ 65535 := by decide

/-- **doq_max_message_counterexample.** (Finding, signature
`doq-max-size-query-rejected`, repaired.)  The read buffer of the code before the
fix was `dns.MaxMsgSize` octets for length prefix *and* message, so the two
largest messages a length prefix can announce (65534 and 65535 octets, which TCP,
DoT and DoH accept) were never handed to `Unpack`: the stream was answered with
`DOQ_PROTOCOL_ERROR`.  `doq_max_size_query_read` is the statement for the buffer
of `dns.MaxMsgSize + 2` octets. -/
theorem doq_max_message_counterexample :
    ¬ (∀ (pool b : List Nat) (reads : List QRead), delivered reads = frameDoQ b → 10 ≤ b.length →
        b.length ≤ 65535 → quicRead quicBufSizeLegacy pool reads = some b) := by
  intro h
  obtain ⟨b, hlen⟩ : ∃ b : List Nat, b.length = 65534 := ⟨List.replicate 65534 0, List.length_replicate⟩
  have h1 := h [] b [⟨frameDoQ b, some .eof⟩] rfl (by omega) (by omega)
  rw [quicRead_delivered] at h1
  have h2 := quicPayload_cut_none quicBufSizeLegacy [] b (by unfold quicBufSizeLegacy; omega)
    (by unfold quicBufSizeLegacy; omega) (by omega)
  have hd : delivered [⟨frameDoQ b, some .eof⟩] = frameDoQ b := rfl
  rw [hd, h2] at h1
  cases h1

/-- **doq_strict_reader_counterexample.** A reader that fails on every error of
`readAll` — instead of consulting it only when less than a header arrived — does
not have `doq_complete_query_read`: it rejects a complete query that fills the
buffer exactly when the FIN comes in a `Read` of its own, and every complete query
whose client has not sent FIN when the read deadline fires.  Replayed on the real
code by the harness (DoQ delivery classes `fin-own-read` at the size boundary and
`no-fin`). -/
theorem doq_strict_reader_counterexample :
    ¬ (∀ (cap : Nat) (pool b : List Nat) (reads : List QRead), delivered reads = frameDoQ b → 10 ≤ b.length →
        b.length + 2 ≤ cap → b.length < 65536 → quicReadStrict cap pool reads = some b) ∧
    quicReadStrict 64 [] [⟨sampleFrame, none⟩] = none := by
  refine ⟨?_, by decide⟩
  intro h
  have := h 14 [] (sampleFrame.drop 2) [⟨sampleFrame, none⟩, ⟨[], some .eof⟩]
  revert this
  decide

/-- **json_front_end.** The JSON API rejects a request with HTTP 400 exactly when
the name is unusable or a parameter is malformed; otherwise it builds one
acceptable query with the requested name, type (default A), class (default IN),
CD bit, and RD set. -/
theorem json_front_end (j : JSONReq) (id : Nat) :
    (jsonToMsg j id = none ↔
      (j.nameEmpty = true ∨ j.qtype = .bad ∨ j.qclass = .bad ∨ j.cd = .bad ∨ j.do_ = .bad ∨ j.sde = .bad)) ∧
    (∀ m, jsonToMsg j id = some m →
      acceptMsg m = .accept ∧ m.id = id ∧ m.rd = true ∧
      ∃ qt qc, j.qtype.get 1 = some qt ∧ j.qclass.get 1 = some qc ∧
        m.questions = [{ name := j.name, qtype := qt, qclass := qc }]) := by
  unfold jsonToMsg
  constructor
  · cases j.nameEmpty <;> cases j.qtype <;> cases j.qclass <;> cases j.cd <;> cases j.do_ <;>
      cases j.sde <;> simp [NumParam.get, BoolParam.get]
  · intro m hm
    cases hne : j.nameEmpty <;> simp [hne] at hm
    cases hqt : j.qtype.get 1 <;> cases hqc : j.qclass.get 1 <;> cases hcd : j.cd.get <;>
      cases hdo : j.do_.get <;> cases hsde : j.sde.get <;> simp [hqt, hqc, hcd, hdo, hsde] at hm
    subst hm
    exact ⟨by simp [acceptMsg], rfl, rfl, _, _, rfl, rfl, rfl⟩

example : (jsonToMsg sampleJSON 5).isSome = true := by decide

/-! ## Deepening: pipeline answer, table specification, wire input, loops, buffers -/

/-- **answer_is_pipelines.** An accepted query whose pipeline wrote `r` is answered
with exactly `r` — its rcode and records — on every transport whose socket works
(the DoQ keep-alive protocol error aside); a pipeline error is answered with
exactly the SERVFAIL of that request. -/
theorem answer_is_pipelines (t : Transport) (m : Msg) (hacc : acceptMsg m = .accept)
    (hq : ¬ (t = .doq ∧ validQUICMsg m = false)) :
    (∀ r, (serveMsg t m (.wrote r) true).msgs = [r]) ∧
    (∀ ne, (serveMsg t m (.failed ne) true).msgs = [servFail m ne]) := by
  constructor
  · intro r
    unfold serveMsg; rw [if_neg hq]; unfold serveCore; rw [hacc]
    cases t <;> simp [deliver, lastOr]
  · intro ne
    unfold serveMsg; rw [if_neg hq]; unfold serveCore; rw [hacc]
    cases t <;> simp [deliver, lastOr]

example : acceptMsg sampleQuery = .accept ∧ ¬ (Transport.doq = .doq ∧ validQUICMsg sampleQuery = false) := by decide

/-- **spec_table.** The operational model (`acceptMsg` → writes → per-transport
delivery) coincides with the table-shaped specification `specMsgs`, which is
written from the property statement: classify the message; a response is
dropped, an unsupported opcode gets NOTIMP, wrong counts get FORMERR, an
accepted query gets the pipeline's answer or SERVFAIL — each exactly once if
the socket works — and DoQ/DNSCrypt turn "nothing" into a SERVFAIL. -/
theorem spec_table (t : Transport) (m : Msg) (o : Outcome) (wok : Bool) (hc : Contract o wok) :
    (serveMsg t m o wok).msgs = specMsgs t m o wok := by
  unfold serveMsg specMsgs
  by_cases hq : t = .doq ∧ validQUICMsg m = false
  · have hq' : t = .doq ∧ m.edns = true ∧ m.keepalive = true := ⟨hq.1, (validQUIC_false_iff m).mp hq.2⟩
    rw [if_pos hq, if_pos hq']
  · have hq' : ¬ (t = .doq ∧ m.edns = true ∧ m.keepalive = true) :=
      fun h => hq ⟨h.1, (validQUIC_false_iff m).mpr h.2⟩
    rw [if_neg hq, if_neg hq']
    have hcl := classify_accept m
    cases hact : acceptMsg m with
    | ignore =>
      rw [hcl.1.mpr hact]; simp only [serveCore, hact]
      cases t <;> cases wok <;> simp [deliver, lastOr, Transport.synthesises, rcServFail, errResp_eq_setRcode]
    | notimp =>
      rw [hcl.2.1.mpr hact]; simp only [serveCore, hact]
      cases t <;> cases wok <;> simp [deliver, lastOr, Transport.nonWriter, rcNotImp, errResp_eq_setRcode]
    | formerr =>
      rw [hcl.2.2.1.mpr hact]; simp only [serveCore, hact]
      cases t <;> cases wok <;> simp [deliver, lastOr, Transport.nonWriter, rcFormErr, errResp_eq_setRcode]
    | accept =>
      rw [hcl.2.2.2.mpr hact]; simp only [serveCore, hact]
      cases o with
      | silent => cases t <;> cases wok <;> simp [deliver, lastOr, Transport.synthesises, rcServFail, errResp_eq_setRcode]
      | wrote r => cases t <;> cases wok <;> simp [deliver, lastOr, Transport.nonWriter]
      | failed ne => cases t <;> cases wok <;> simp [deliver, lastOr, Transport.nonWriter, ← servFail_eq_errResp']
      | wroteFailed r ne =>
        have hw : wok = false := hc r ne rfl
        subst hw
        cases t <;> simp [deliver, lastOr, Transport.nonWriter, ← servFail_eq_errResp']

example : specMsgs .udp sampleStatus .silent true = [errResp sampleStatus 4 none] := by decide
example : specMsgs .doq sampleResponse (.wrote (handlerResp sampleResponse 0 1)) true = [errResp sampleResponse 2 none] := by decide

/-- **short_input_dropped.** With any sound decoder, fewer than 12 octets elicit no
DNS message on any transport — whatever the pooled DoQ buffer held before.
(UDP and DoQ check the length themselves; elsewhere `Unpack` fails.) -/
theorem short_input_dropped (t : Transport) (pool b : List Nat) (unpack : List Nat → Option Msg)
    (hu : UnpackOK unpack) (o : Outcome) (wok : Bool) (hs : b.length < 12) :
    (serveBytes t pool b unpack o wok).msgs = [] := by
  rcases serveBytes_cases t pool b unpack o wok with h | ⟨h, _⟩ | ⟨_, h2, _⟩
  · rw [h]; exact dropped_msgs t
  · rw [h, unpack_none_of_short unpack hu b hs]; exact dropped_msgs t
  · unfold udpBufSize at h2; omega


example : UnpackOK sampleUnpack := sampleUnpack_ok

/-- **bad_question_dropped.** A message whose header announces a question but whose
question does not parse (label overruns the message, reserved label type, name
longer than 255 octets, type cut in half) is dropped on every transport. -/
theorem bad_question_dropped (t : Transport) (pool b : List Nat) (unpack : List Nat → Option Msg)
    (hu : UnpackOK unpack) (o : Outcome) (wok : Bool) (h : Hdr)
    (hlen : t = .udp → b.length ≤ udpBufSize)
    (hp : parseHdr b = some h) (hqd : h.qd ≥ 1) (hb : b.length > 12)
    (hq : parseQuestion (b.drop 12) = .bad) :
    (serveBytes t pool b unpack o wok).msgs = [] := by
  have hnone : unpack b = none := by
    cases hb' : unpack b with
    | none => rfl
    | some m =>
      have := hu b m hb'
      unfold WireAgrees wireAgreesB at this
      have h1 : ¬ (b.length ≤ 12) := by omega
      have h2 : ¬ (h.qd = 0) := by omega
      simp [hp, hq, h1, h2] at this
  rcases serveBytes_cases t pool b unpack o wok with h | ⟨h, _⟩ | ⟨ht, h2, _⟩
  · rw [h]; exact dropped_msgs t
  · rw [h, hnone]; exact dropped_msgs t
  · have := hlen ht; omega


example : parseQuestion [70, 1, 2] = .bad ∧ parseQuestion [3, 119, 119] = .bad ∧ parseQuestion [1, 97, 0, 0] = .bad := by
  decide

/-- **bytes_question.** Tied to wire input: whatever any transport delivers for the
octets `b` carries the id in `b[0..2]` and exactly the question spelled out in `b`
after the header (uncompressed name, type, class) — mixed case, maximum length
and all — given a sound decoder and a handler that answers the request it got. -/
theorem bytes_question (t : Transport) (pool b : List Nat) (unpack : List Nat → Option Msg)
    (hu : UnpackOK unpack) (o : Outcome) (wok : Bool)
    (hh : ∀ m, unpack b = some m → HandlerMatches m o) (h : Hdr) (q : Question)
    (hlen : t = .udp → b.length ≤ udpBufSize)
    (hp : parseHdr b = some h) (hqd : h.qd ≥ 1) (hb : b.length > 12)
    (hq : parseQuestion (b.drop 12) = .ok q) :
    ∀ r ∈ (serveBytes t pool b unpack o wok).msgs, r.id = h.id ∧ r.questions = [q] := by
  intro r hr
  rcases serveBytes_cases t pool b unpack o wok with hd | ⟨hs, _⟩ | ⟨ht, h2, _⟩
  · rw [hd, dropped_msgs] at hr; simp at hr
  · rw [hs] at hr
    cases hb' : unpack b with
    | none => rw [hb'] at hr; simp [serveWire, dropped_msgs] at hr
    | some m =>
      rw [hb'] at hr
      have hm := response_matches t m o wok (hh m hb') r hr
      have hw := hu b m hb'
      unfold WireAgrees wireAgreesB at hw
      have h1 : ¬ (b.length ≤ 12) := by omega
      have h2 : ¬ (h.qd = 0) := by omega
      simp [hp, hq, h1, h2] at hw
      obtain ⟨⟨⟨⟨⟨hid, _⟩, _⟩, _⟩, _⟩, hqq⟩ := hw
      refine ⟨by rw [hm.1, hid], ?_⟩
      rw [hm.2]
      cases hqs : m.questions with
      | nil => rw [hqs] at hqq; simp at hqq
      | cons q' rest => rw [hqs] at hqq; simp at hqq; simp [hqq]
  · have := hlen ht; omega


example : parseHdr sampleWire = some ⟨0xabcd, false, 0, true, false, 0, 1, 0, 0, 0⟩ ∧
    parseQuestion (sampleWire.drop 12) = .ok ⟨hexStr [3, 119, 119, 119, 0], 1, 1⟩ ∧
    sampleUnpack sampleWire = some sampleWireMsg := by decide

/-- **doq_stream_finished.** Whatever arrives on a DoQ stream — acceptable or not,
answered or not — the server finishes its side of the stream, so a response that
was sent is complete for the client. -/
theorem doq_stream_finished (pool b : List Nat) (unpack : List Nat → Option Msg) (o : Outcome) (wok : Bool) :
    (serveBytes .doq pool b unpack o wok).fin = true := by
  have hw : ∀ um, (serveWire .doq um o wok).fin = true := by
    intro um
    cases um with
    | none => rfl
    | some m =>
      show (serveMsg .doq m o wok).fin = true
      unfold serveMsg
      split <;> rfl
  unfold serveBytes
  cases unpackInput .doq pool b with
  | none => rfl
  | some p => exact hw _


/-- **udp_listener_survives.** No sequence of datagrams — short, undecodable,
rejected or accepted — ends the UDP accept loop, and every datagram is treated
exactly as it would be on its own (no datagram influences the treatment of a
later one); only a critical socket error stops the loop. -/
theorem udp_listener_survives (unpack : List Nat → Option Msg) (handler : Msg → Outcome) (wok : Bool)
    (reads : List UdpRead) (hno : ∀ r ∈ reads, r ≠ .critErr) :
    (udpLoop true unpack handler wok reads).2 = true ∧
    (udpLoop true unpack handler wok reads).1 = reads.flatMap (perDatagram unpack handler wok) := by
  induction reads with
  | nil => simp [udpLoop]
  | cons r rest ih =>
    have hr : udpAcceptFails true r = false := by
      cases r with
      | critErr => exact absurd rfl (hno _ (by simp))
      | softErr => rfl
      | dgram b => simp [udpAcceptFails]
    have ih' := ih (fun x hx => hno x (List.mem_cons_of_mem _ hx))
    unfold udpLoop
    simp only [hr, Bool.false_eq_true, if_false]
    refine ⟨ih'.1, ?_⟩
    rw [List.flatMap_cons, ih'.2]
    cases r <;> rfl


example : ∀ r ∈ [UdpRead.dgram [1, 2, 3], .softErr, .dgram sampleWire], r ≠ .critErr := by decide

/-- **udp_short_read_counterexample.** The statement depends on the error filter of
`acceptUDPMsg` letting `dns.ErrShortRead` pass: without it a three-octet datagram
ends the loop.  (Replayed by the harness under `listener-exit-udp`.) -/
theorem udp_short_read_counterexample :
    ¬ (∀ unpack handler wok reads, (∀ r ∈ reads, r ≠ UdpRead.critErr) →
        (udpLoop false unpack handler wok reads).2 = true) := by
  intro h
  have := h (fun _ => none) (fun _ => .silent) true [.dgram [1, 2, 3]] (by simp)
  revert this
  decide


/-- **conn_prefix.** On one TCP/DoT connection what the clients sees is, frame by
frame, what each frame would get on its own, up to the first frame for which
nothing is written (then the server closes the connection). -/
theorem conn_prefix (t : Transport) (unpack : List Nat → Option Msg) (wok : Bool)
    (fs : List (List Nat × Outcome)) :
    serveConn t unpack wok fs <+: fs.map (fun f => serveWire t (unpack f.1) f.2 wok) := by
  induction fs with
  | nil => simp [serveConn]
  | cons f rest ih =>
    obtain ⟨b, o⟩ := f
    unfold serveConn
    simp only [List.map_cons]
    split
    · exact ⟨_, rfl⟩
    · exact List.prefix_cons_inj _ |>.mpr ih


/-- **conn_each_answered.** Pipelined queries: if every frame gets a write, every
frame is answered, in order, exactly as it would be on its own. -/
theorem conn_each_answered (t : Transport) (unpack : List Nat → Option Msg) (wok : Bool)
    (fs : List (List Nat × Outcome))
    (hopen : ∀ f ∈ fs, (serveWire t (unpack f.1) f.2 wok).status ≠ stClosed) :
    serveConn t unpack wok fs = fs.map (fun f => serveWire t (unpack f.1) f.2 wok) := by
  induction fs with
  | nil => simp [serveConn]
  | cons f rest ih =>
    obtain ⟨b, o⟩ := f
    unfold serveConn
    have h1 := hopen (b, o) (by simp)
    simp only [List.map_cons]
    rw [if_neg h1, ih (fun f hf => hopen f (List.mem_cons_of_mem _ hf))]


example : (serveWire .tcp (sampleUnpack sampleWire) (.failed false) true).status ≠ stClosed := by decide

/-- **byte_buffers_released_after_last_use.** The pooled byte buffers — request
bytes until `Unpack` has copied them, packed response until the socket write
returned — are never read after they went back to their pool, on any transport,
under the worst schedule (a concurrent request overwrites a buffer right after
every `Put`). -/
theorem byte_buffers_released_after_last_use (t : Transport) (werr : Bool) :
    (∀ c ∈ (runLife (reqBufLife t)).sent, c = none) ∧ (runLife (reqBufLife t)).clobbered = false ∧
    (∀ c ∈ (runLife (respBufLife t werr)).sent, c = none) ∧ (runLife (respBufLife t werr)).clobbered = false := by
  cases t <;> cases werr <;> decide


/-- **early_put_counterexample.** `Put` before the last use hands the concurrent
request's bytes to `Unpack` / to the socket. -/
theorem early_put_counterexample :
    ¬ (∀ c ∈ (runLife [.dispose, .send]).sent, c = none) := by decide


/-- **json_wire_variant.** The JSON API answers the same message in both of its
encodings (`ct=application/dns-message` or JSON), at most once. -/
theorem json_wire_variant (j : JSONReq) (id : Nat) (o : Outcome) :
    (serveJSON j id o).1 = (serveJSONWire j id o).status ∧
    (serveJSON j id o).2 = (serveJSONWire j id o).msgs.map jsonView ∧
    (serveJSONWire j id o).msgs.length ≤ 1 := by
  unfold serveJSON serveJSONWire
  cases jsonToMsg j id with
  | none => simp
  | some m =>
    refine ⟨rfl, rfl, ?_⟩
    exact deliver_length_nonwriter .dohJSON m _ true rfl

/-! ## Round 3: the HTTP request around a DoH query, the client's address, DNSCrypt end to end -/

def sampleDohGet : DohReq :=
  { parts := ["", "dns-query", "dev1"], meth := .get, dns := [some sampleWire], body := [],
    raddr := { v6 := true, zone := some "eth0" } }

/-- **doh_front_table.** Which HTTP requests reach the DNS path, from the request alone:
404 exactly for a path that is not a DNS path; 400 exactly for a wire-format path with
a method other than GET/POST or a GET whose `dns` parameter is missing, repeated or not
base64url; everything else hands exactly the decoded parameter (GET) or the body (POST)
to the decoder — nothing else of the request matters (repaired code). -/
theorem doh_front_table (r : DohReq) (unpack : List Nat → Option Msg) (o : Outcome)
    (hk : pathKind r.parts ≠ .json) :
    ((serveDoHReq true r unpack o).status = stHTTP404 ↔ pathKind r.parts = .other) ∧
    ((serveDoHReq true r unpack o).status = stHTTP400 ↔
      pathKind r.parts = .doh ∧ (r.meth = .other ∨ (r.meth = .get ∧ ∀ b, r.dns ≠ [some b]))) ∧
    (∀ b, (pathKind r.parts = .doh ∧ ((r.meth = .get ∧ r.dns = [some b]) ∨ (r.meth = .post ∧ r.body = b))) →
      serveDoHReq true r unpack o = serveWire (if r.meth = .get then .dohGet else .dohPost) (unpack b) o true) := by
  have hst : ∀ t um, (serveWire t um o true).status ≠ stHTTP404 ∧
      (t.isHTTP = true → (serveWire t um o true).status ≠ stHTTP400) := by
    intro t um
    cases um with
    | none => cases t <;> simp [serveWire, dropped, stHTTP404, stHTTP400, stNone, stClosed, stHTTP500, stProtoErr, Transport.isHTTP]
    | some m =>
      simp only [serveWire, serveMsg]
      split
      · simp [stProtoErr, stHTTP404, stHTTP400]
      · cases t <;> simp [deliver, Transport.isHTTP] <;>
          (try split) <;> simp [stHTTP404, stHTTP400, stNone, stClosed, stOpen, stHTTP500, stHTTP200]
  unfold serveDoHReq dohFront
  cases hpk : pathKind r.parts with
  | json => exact absurd hpk hk
  | other => simp [stHTTP404, stHTTP400]
  | doh =>
    cases hm : r.meth with
    | other => simp [stHTTP404, stHTTP400]
    | post =>
      have h := hst .dohPost (unpack r.body)
      simp [remoteParses, h.1, h.2 rfl]
    | get =>
      match hd : r.dns with
      | [] => simp [stHTTP404, stHTTP400]
      | [none] => simp [stHTTP404, stHTTP400]
      | [some b] =>
        have h := hst .dohGet (unpack b)
        simp [remoteParses, h.1, h.2 rfl]
      | _ :: _ :: _ => simp [stHTTP404, stHTTP400]

example : pathKind sampleDohGet.parts = .doh ∧ pathKind ["", "x", "..", "", ".", "query"] = .doh ∧
    pathKind ["", "foo", "dns-query"] = .other ∧ pathKind ["", "dns-query", ".."] = .other ∧
    pathKind ["", "solve"] = .json := by decide

/-- **doh_exactly_one.** DoH from the HTTP request (repaired code): a GET with exactly one
base64url `dns` value, or a POST, on a DoH path whose octets decode to an accepted query
for which the pipeline produced something is answered with HTTP 200 and exactly one DNS
message, the pipeline's — whatever the client's address is (IPv4, IPv6, zoned). -/
theorem doh_exactly_one (r : DohReq) (unpack : List Nat → Option Msg) (o : Outcome) (b : List Nat) (m : Msg)
    (hp : pathKind r.parts = .doh)
    (hb : (r.meth = .get ∧ r.dns = [some b]) ∨ (r.meth = .post ∧ r.body = b))
    (hu : unpack b = some m) (hacc : acceptMsg m = .accept) (ho : o ≠ .silent) (hc : Contract o true) :
    (serveDoHReq true r unpack o).status = stHTTP200 ∧ (serveDoHReq true r unpack o).msgs.length = 1 ∧
    (∀ x, o = .wrote x → (serveDoHReq true r unpack o).msgs = [x]) := by
  have hk : pathKind r.parts ≠ .json := by rw [hp]; decide
  rw [(doh_front_table r unpack o hk).2.2 b ⟨hp, hb⟩, hu]
  have hq : ∀ t : Transport, t.isHTTP = true → ¬ (t = .doq ∧ validQUICMsg m = false) := by
    intro t ht h; rw [h.1] at ht; simp [Transport.isHTTP] at ht
  have key : ∀ t : Transport, t.isHTTP = true →
      (serveWire t (some m) o true).status = stHTTP200 ∧ (serveWire t (some m) o true).msgs.length = 1 ∧
      (∀ x, o = .wrote x → (serveWire t (some m) o true).msgs = [x]) := by
    intro t ht
    refine ⟨?_, exactly_one t m o hacc ho hc (hq t ht), ?_⟩
    · have hne : serveCore m o ≠ [] := by
        unfold serveCore; rw [hacc]
        cases o with
        | silent => exact absurd rfl ho
        | wrote x => simp
        | failed ne => simp
        | wroteFailed x ne => simp
      simp only [serveWire, serveMsg]; rw [if_neg (hq t ht)]
      cases t <;> simp [Transport.isHTTP] at ht <;> simp [deliver, hne]
    · intro x hx; subst hx
      exact (answer_is_pipelines t m hacc (hq t ht)).1 x
  split
  · exact key .dohGet rfl
  · exact key .dohPost rfl

example : (serveDoHReq true sampleDohGet sampleUnpack (.wrote (handlerResp sampleWireMsg 0 2))).msgs =
    [handlerResp sampleWireMsg 0 2] := by decide

/-- **doh_client_address_irrelevant.** With the repaired `remoteAddr` the answer to an HTTP
request does not depend on the form of the client's address — wire format and JSON API. -/
theorem doh_client_address_irrelevant (r : DohReq) (a : RAddr) (unpack : List Nat → Option Msg) (o : Outcome)
    (parts : List String) (a' : RAddr) (j : JSONReq) (id : Nat) :
    serveDoHReq true { r with raddr := a } unpack o = serveDoHReq true r unpack o ∧
    serveJSONReq true parts a j id o = serveJSONReq true parts a' j id o := by
  constructor
  · unfold serveDoHReq; simp [remoteParses]
  · unfold serveJSONReq; simp [remoteParses]

/-- **doh_zoned_client_counterexample.** (Finding `doh-zoned-client-unanswered`, repaired by
`fix: dnsserver: answer DoH requests of clients whose address carries an IPv6 zone`.)  The
original `remoteAddr` handed `fe80::1%eth0` to `netutil.ParseIP` and panicked: for a client
with a zoned address every well-formed query ended in an empty HTTP 200 — `doh_exactly_one`
fails for it, while the same request from any other address is answered. -/
theorem doh_zoned_client_counterexample :
    ¬ (∀ (r : DohReq) (unpack : List Nat → Option Msg) (o : Outcome) (b : List Nat) (m : Msg),
        pathKind r.parts = .doh → r.meth = .get ∧ r.dns = [some b] → unpack b = some m →
        acceptMsg m = .accept → o ≠ .silent → Contract o true →
        (serveDoHReq false r unpack o).msgs.length = 1) := by
  intro h
  have := h sampleDohGet sampleUnpack (.wrote (handlerResp sampleWireMsg 0 2)) sampleWire sampleWireMsg
    (by decide) ⟨rfl, rfl⟩ (by decide) (by decide) (by simp) (by intro r ne hh; cases hh)
  revert this
  decide

example : (serveDoHReq false { sampleDohGet with raddr := ⟨true, none⟩ } sampleUnpack
    (.wrote (handlerResp sampleWireMsg 0 2))).msgs.length = 1 := by decide

/-- **doh_get_post_equiv.** The two wire-format encodings of DoH deliver the same messages. -/
theorem doh_get_post_equiv (parts : List String) (b : List Nat) (a a' : RAddr) (x : List Nat)
    (unpack : List Nat → Option Msg) (o : Outcome) (hp : pathKind parts = .doh) :
    (serveDoHReq true ⟨parts, .get, [some b], x, a⟩ unpack o).msgs =
    (serveDoHReq true ⟨parts, .post, [], b, a'⟩ unpack o).msgs ∧
    (serveDoHReq true ⟨parts, .get, [some b], x, a⟩ unpack o).status =
    (serveDoHReq true ⟨parts, .post, [], b, a'⟩ unpack o).status := by
  unfold serveDoHReq dohFront
  simp only [hp, remoteParses, Bool.true_or, if_true]
  cases hu : unpack b with
  | none => simp [serveWire, dropped]
  | some m =>
    simp only [serveWire, serveMsg]
    simp [deliver]

/-- **dnscrypt_e2e_table.** DNSCrypt as a client sees it, the library's own filter included:
a decrypted message that does not decode, is a response, or does not carry exactly one
question is dropped (nothing on UDP, connection closed on TCP) and never reaches the
handler; every other message is answered exactly once — NOTIMP for the opcode, FORMERR
for more than one answer/authority record, the pipeline's answer, or SERVFAIL when the
pipeline produced nothing or failed. -/
theorem dnscrypt_e2e_table (t : Transport) (ht : t.isDNSCrypt = true) (um : Option Msg) (o : Outcome) :
    ((um = none ∨ ∃ m, um = some m ∧ (m.qr = true ∨ m.questions.length ≠ 1)) →
      (serveDNSCryptE2E t um o).msgs = [] ∧ ∀ o', serveDNSCryptE2E t um o' = serveDNSCryptE2E t um o) ∧
    (∀ m, um = some m → m.qr = false → m.questions.length = 1 →
      (serveDNSCryptE2E t um o).msgs.length = 1 ∧
      (serveDNSCryptE2E t um o).msgs = specMsgs t m o true ∧
      ∀ r ∈ (serveDNSCryptE2E t um o).msgs, HandlerMatches m o → Matches m r) := by
  constructor
  · intro h
    rcases h with h | ⟨m, hm, hbad⟩
    · subst h; simp [serveDNSCryptE2E, droppedDC]
    · subst hm
      have : dnscryptLibPasses m = false := by
        unfold dnscryptLibPasses
        rcases hbad with h | h
        · simp [h]
        · simp [h]
      simp [serveDNSCryptE2E, this, droppedDC]
  · intro m hm hqr hq1
    subst hm
    have hp : dnscryptLibPasses m = true := by simp [dnscryptLibPasses, hqr, hq1]
    have hnq : ¬ (t = .doq ∧ validQUICMsg m = false) := by
      intro h; rw [h.1] at ht; simp [Transport.isDNSCrypt] at ht
    have hmsgs : (serveDNSCryptE2E t (some m) o).msgs = (serveMsg t m o true).msgs := by
      simp [serveDNSCryptE2E, hp]
    rw [hmsgs]
    refine ⟨?_, ?_, ?_⟩
    · unfold serveMsg; rw [if_neg hnq]
      cases t <;> simp [Transport.isDNSCrypt] at ht <;> simp [deliver]
    · unfold serveMsg specMsgs
      have hq' : ¬ (t = .doq ∧ m.edns = true ∧ m.keepalive = true) := fun h => hnq ⟨h.1, (validQUIC_false_iff m).mpr h.2⟩
      rw [if_neg hnq, if_neg hq']
      have hcl := classify_accept m
      cases hact : acceptMsg m with
      | ignore => exact absurd ((accept_table m).1.mp hact) (by simp [hqr])
      | notimp =>
        rw [hcl.2.1.mpr hact]; simp only [serveCore, hact]
        cases t <;> simp [Transport.isDNSCrypt] at ht <;> simp [deliver, lastOr, Transport.nonWriter, rcNotImp, errResp_eq_setRcode]
      | formerr =>
        rw [hcl.2.2.1.mpr hact]; simp only [serveCore, hact]
        cases t <;> simp [Transport.isDNSCrypt] at ht <;> simp [deliver, lastOr, Transport.nonWriter, rcFormErr, errResp_eq_setRcode]
      | accept =>
        rw [hcl.2.2.2.mpr hact]; simp only [serveCore, hact]
        cases o with
        | silent => cases t <;> simp [Transport.isDNSCrypt] at ht <;> simp [deliver, lastOr, Transport.synthesises, rcServFail, errResp_eq_setRcode]
        | wrote r => cases t <;> simp [Transport.isDNSCrypt] at ht <;> simp [deliver, lastOr, Transport.nonWriter]
        | failed ne => cases t <;> simp [Transport.isDNSCrypt] at ht <;> simp [deliver, lastOr, Transport.nonWriter, ← servFail_eq_errResp']
        | wroteFailed r ne => cases t <;> simp [Transport.isDNSCrypt] at ht <;> simp [deliver, lastOr, Transport.nonWriter, ← servFail_eq_errResp']
    · intro r hr hh
      exact response_matches t m o true hh r hr

example : (serveDNSCryptE2E .dnscryptTCP (some sampleResponse) .silent).status = stClosed ∧
    (serveDNSCryptE2E .dnscryptUDP (some sampleQuery) .silent).msgs = [setRcode sampleQuery rcServFail] := by decide

/-! ## Round 4: fault and life-cycle paths -/

/-- **handler_panic_contained.** (Repaired code.)  A panic of the handler — before or after
it has written — costs the process nothing on any transport, the client of that request sees
at most one message, and that message is the one the handler itself had written; on the
transports that deliver at the end (DoH, DoQ, DNSCrypt) it sees none.  A request the handler
is not consulted for is served as if the handler were fine. -/
theorem handler_panic_contained (t : Transport) (m : Msg) (w : Option Resp) (wok : Bool) :
    (serveMsgF true t m (.panics w) wok).up = true ∧
    (serveMsgF true t m (.panics w) wok).sees.msgs.length ≤ 1 ∧
    (∀ r ∈ (serveMsgF true t m (.panics w) wok).sees.msgs,
        (handlerRuns t m = true → w = some r ∧ t.nonWriter = false) ∧
        (handlerRuns t m = false → ∀ o, r ∈ (serveMsg t m o wok).msgs)) ∧
    (handlerRuns t m = false → ∀ o, (serveMsgF true t m (.panics w) wok).sees = serveMsg t m o wok) := by
  unfold serveMsgF
  by_cases hr : handlerRuns t m = true
  · simp only [hr, ↓reduceIte, Bool.true_or, true_and]
    refine ⟨?_, ?_, ?_⟩
    · cases t <;> cases wok <;> cases w <;> simp [afterPanic, panicked]
    · intro r hmem
      refine ⟨fun _ => ?_, fun h => by simp at h⟩
      cases t <;> cases wok <;> cases w <;> simp [afterPanic, panicked, Transport.nonWriter] at hmem ⊢ <;> simp [hmem]
    · intro h; simp at h
  · have hr' : handlerRuns t m = false := by simpa using hr
    have hsame : ∀ o, serveMsg t m .silent wok = serveMsg t m o wok := by
      intro o
      unfold handlerRuns at hr'
      by_cases hacc : acceptMsg m = .accept
      · have hq : t = .doq ∧ validQUICMsg m = false := by
          simp [hacc] at hr'; exact hr'
        unfold serveMsg; simp [hq.1, hq.2]
      · exact (reject_never_foreign t m .silent o wok hacc).1
    simp only [hr', Bool.false_eq_true, ↓reduceIte, true_and]
    refine ⟨?_, ?_, ?_⟩
    · unfold serveMsg
      split
      · simp
      · by_cases hacc : acceptMsg m = .accept
        · have hc : serveCore m .silent = [] := by unfold serveCore; rw [hacc]
          rw [hc]; cases t <;> cases wok <;> simp [deliver, lastOr]
        · have hc : (serveCore m .silent).length ≤ 1 := by
            unfold serveCore; split <;> simp
          match hs : serveCore m .silent, hc with
          | [], _ => cases t <;> cases wok <;> simp [deliver, lastOr]
          | [x], _ => cases t <;> cases wok <;> simp [deliver, lastOr]
    · intro r hmem
      exact ⟨fun h => by simp at h, fun _ o => hsame o ▸ hmem⟩
    · intro _ o; exact hsame o

example : handlerRuns .dnscryptUDP sampleQuery = true ∧ handlerRuns .udp sampleStatus = false := by decide
example : (serveMsgF true .tcp sampleQuery (.panics (some (handlerResp sampleQuery 0 1))) true).sees =
    { status := stOpen, msgs := [handlerResp sampleQuery 0 1] } := by decide

/-- **panic_isolated.** (Repaired code.)  Whatever sequence of requests a process serves —
any clients, any transports, handlers that panic at will — every request is served exactly as
it would be on its own: no panic reaches beyond its own request. -/
theorem panic_isolated (rs : List Req) :
    serveProc true true rs = rs.map fun r => some (serveMsgF true r.t r.m r.h r.wok).sees := by
  induction rs with
  | nil => rfl
  | cons r rs ih =>
    have hup : (serveMsgF true r.t r.m r.h r.wok).up = true := by
      unfold serveMsgF; split
      · rfl
      · split <;> simp
    simp [serveProc, hup, ih]

/-- **dnscrypt_panic_counterexample.** (Finding `dnscrypt-handler-panic-kills-process`.)
Before the fix one DNSCrypt query whose handler panics ended the process: the plain-UDP query
of another client that follows it is never answered. -/
theorem dnscrypt_panic_counterexample :
    (serveMsgF false .dnscryptUDP sampleQuery (.panics none) true).up = false ∧
    serveProc false true
      [⟨.dnscryptUDP, sampleQuery, .panics none, true⟩,
       ⟨.udp, sampleQuery, .returns (.wrote (handlerResp sampleQuery 0 1)), true⟩] =
      [some { status := stNone, msgs := [] }, none] ∧
    ¬ (∀ rs, serveProc false true rs = rs.map fun r => some (serveMsgF false r.t r.m r.h r.wok).sees) := by
  refine ⟨by decide, by decide, ?_⟩
  intro h
  have := h [⟨.dnscryptUDP, sampleQuery, .panics none, true⟩,
             ⟨.udp, sampleQuery, .returns (.wrote (handlerResp sampleQuery 0 1)), true⟩]
  revert this; decide

theorem lStep_good (pooled : Bool) (s : LState) (op : LOp) (h : LGood s) :
    LGood (lStep true pooled s op).1 ∧ (lStep true pooled s op).2 ≠ .unanswered ∧
    (lStep true pooled s op).2 ≠ .hung ∧
    (op = .arrive → s.started = true → (lStep true pooled s op) = (s, .served)) := by
  obtain ⟨hl, hs, hn⟩ := h
  cases op with
  | start =>
    unfold lStep
    by_cases hst : s.started = true
    · simp [hst]; exact ⟨hl, hs, hn⟩
    · simp [hst, LGood, hl]
  | shutdown =>
    unfold lStep
    by_cases hst : s.started = true
    · simp [hst, LGood, hl]
    · have : s.started = false := by simpa using hst
      simp [this]; exact ⟨hl, hs, hn⟩
  | arrive =>
    unfold lStep
    by_cases hst : s.started = true
    · obtain ⟨h1, h2⟩ := hs hst
      simp [h1, h2]; exact ⟨hl, fun _ => ⟨h1, h2⟩, hn⟩
    · have hf : s.started = false := by simpa using hst
      simp [hn hf, hf]; exact ⟨hl, fun h => by simp [hf] at h, hn⟩

/-- **restart_serves.** (Repaired code.)  Over every sequence of `Start`, `Shutdown` and
arrivals (a datagram, a connection, a stream) on a server — with a worker pool or without —
no arrival is ever left unanswered by a running listener, no `Shutdown` hangs, and in the
state reached a started server serves the next arrival and keeps listening. -/
theorem restart_serves (pooled : Bool) (ops : List LOp) :
    (∀ ob ∈ (lRun true pooled lInit ops).2, ob ≠ .unanswered ∧ ob ≠ .hung) ∧
    ((lRun true pooled lInit ops).1.started = true →
      lStep true pooled (lRun true pooled lInit ops).1 .arrive = ((lRun true pooled lInit ops).1, .served)) := by
  have key : ∀ (ops : List LOp) (s : LState), LGood s →
      LGood (lRun true pooled s ops).1 ∧ ∀ ob ∈ (lRun true pooled s ops).2, ob ≠ .unanswered ∧ ob ≠ .hung := by
    intro ops
    induction ops with
    | nil => intro s h; exact ⟨h, by simp [lRun]⟩
    | cons op ops ih =>
      intro s h
      obtain ⟨hg, h1, h2, _⟩ := lStep_good pooled s op h
      obtain ⟨hg', hob⟩ := ih _ hg
      refine ⟨by simpa [lRun] using hg', ?_⟩
      intro ob hmem
      simp only [lRun, List.mem_cons] at hmem
      rcases hmem with rfl | hmem
      · exact ⟨h1, h2⟩
      · exact hob ob hmem
  have h0 : LGood lInit := by simp [LGood, lInit]
  obtain ⟨hg, hob⟩ := key ops lInit h0
  exact ⟨hob, fun hst => (lStep_good pooled _ .arrive hg).2.2.2 rfl hst⟩

example : (lRun true true lInit [.start, .arrive, .shutdown, .start, .arrive, .arrive, .shutdown]).2 =
    [.ok, .served, .ok, .ok, .served, .served, .ok] := by decide

/-- **restart_counterexample.** (Finding `restart-listener-down`.)  Before the fix a server
with a worker pool that was started again accepted the `Start`, lost its listener to the first
arrival without answering it (every later one is refused: the socket is closed), and its next
`Shutdown` waited until the deadline.  Servers without a pool were never affected. -/
theorem restart_counterexample :
    (lRun false true lInit [.start, .arrive, .shutdown, .start, .arrive, .arrive, .shutdown]).2 =
      [.ok, .served, .ok, .ok, .unanswered, .refused, .hung] ∧
    (lRun false false lInit [.start, .arrive, .shutdown, .start, .arrive, .arrive, .shutdown]).2 =
      [.ok, .served, .ok, .ok, .served, .served, .ok] := by decide

/-- **conn_answered_before_close.** (The life cycle of a TCP/DoT connection with real pipelining.)  Whatever
the scheduler does — frames read in any number, their workers finishing in any order, the read loop ending
(client half-close, read error, idle time-out, `Shutdown`) at any moment, also while workers are still inside
the handler — as long as no frame is one the server drops: no response is ever written to a connection the
server has closed; the server closes the connection at most once, and when it does, no frame is in flight
and every frame it read has been answered exactly as often as it was read; what the client sees is the
answers followed by the close; and the close does come as soon as the loop has ended and the last worker is
done. -/
theorem conn_answered_before_close (evs : List CEv) (hn : NoDrop evs) :
    (cRun true cInit evs).lost = [] ∧
    (∀ id, CObs.lost id ∉ (cRun true cInit evs).log) ∧
    (cRun true cInit evs).log =
      (cRun true cInit evs).answered.map CObs.wrote ++ List.replicate (cRun true cInit evs).closes CObs.closed ∧
    (cRun true cInit evs).closes ≤ 1 ∧
    (∀ id, (cRun true cInit evs).answered.count id ≤ (cRun true cInit evs).received.count id) ∧
    ((cRun true cInit evs).closes > 0 → (cRun true cInit evs).inflight = [] ∧
      ∀ id, (cRun true cInit evs).answered.count id = (cRun true cInit evs).received.count id) ∧
    ((cRun true cInit evs).reading = false → (cRun true cInit evs).inflight = [] →
      (cRun true cInit evs).closes = 1) := by
  obtain ⟨⟨h1, h2, h3, h4, h5, h6⟩, h7⟩ := cRun_inv evs hn cInit cInit_inv
  generalize cRun true cInit evs = s at *
  have hfin : s.closes > 0 → s.finalDone = true := by
    intro hc
    cases hx : s.finalDone with
    | true => rfl
    | false => rw [h4, hx] at hc; simp at hc
  refine ⟨h2, ?_, h6, ?_, ?_, ?_, ?_⟩
  · intro id hm
    rw [h6] at hm
    simp only [List.mem_append, List.mem_map, List.mem_replicate] at hm
    rcases hm with ⟨a, _, ha⟩ | ⟨_, ha⟩ <;> cases ha
  · rw [h4]; split <;> omega
  · intro id; have := h5 id; omega
  · intro hc
    have hi := (h3 (hfin hc)).2
    refine ⟨hi, fun id => ?_⟩
    have := h5 id
    rw [hi] at this
    simpa using this
  · intro hr hi
    rw [h4, h7 hr hi]
    rfl

/-- **conn_complete_schedule.** If in addition the schedule is complete — the read loop has ended and every
worker is done — the connection has been closed exactly once, after the last answer, and every frame the
loop read before it ended (`recvIds`) was answered exactly as often as it was sent. -/
theorem conn_complete_schedule (evs : List CEv) (hn : NoDrop evs)
    (hr : (cRun true cInit evs).reading = false) (hi : (cRun true cInit evs).inflight = []) :
    (cRun true cInit evs).closes = 1 ∧
    (∀ id, (cRun true cInit evs).answered.count id = (recvIds evs).count id) ∧
    (cRun true cInit evs).log = (cRun true cInit evs).answered.map CObs.wrote ++ [CObs.closed] := by
  obtain ⟨_, _, h3, _, _, h6, h7⟩ := conn_answered_before_close evs hn
  have hc := h7 hr hi
  have hrec := cRun_received evs hn cInit rfl rfl
  refine ⟨hc, ?_, ?_⟩
  · intro id
    rw [(h6 (by omega)).2 id, hrec]
    simp [cInit]
  · rw [h3, hc]; rfl

-- Non-vacuity: three frames, answered out of order, the client half-closes while frame 1 is still inside
-- the handler; a frame sent after the end of the loop is never read.
example : NoDrop [.recv 1 false, .recv 2 false, .finish 2, .endRead, .recv 3 false, .finish 1] := by
  intro id; simp
example : (cRun true cInit [.recv 1 false, .recv 2 false, .finish 2, .endRead, .recv 3 false, .finish 1]).log =
    [.wrote 2, .wrote 1, .closed] ∧
    (cRun true cInit [.recv 1 false, .recv 2 false, .finish 2, .endRead, .recv 3 false, .finish 1]).reading = false ∧
    (cRun true cInit [.recv 1 false, .recv 2 false, .finish 2, .endRead, .recv 3 false, .finish 1]).inflight = [] := by
  decide

/-- **early_close_counterexample.** With the two statements of the clean-up in the other order (`Close`
before `wg.Wait()`) a query that is still inside the handler when the client half-closes the stream loses
its answer: it is written to a closed connection. -/
theorem early_close_counterexample :
    (cRun false cInit [.recv 7 false, .endRead, .finish 7]).log = [.closed, .lost 7] ∧
    (cRun true cInit [.recv 7 false, .endRead, .finish 7]).log = [.wrote 7, .closed] := by decide

/-- **drop_cuts_inflight.** (The code as it is; why `NoDrop` is a hypothesis.)  A frame for which nothing is
written makes its worker close the connection at once; an accepted query of the same connection that is still
inside the handler then loses its answer. -/
theorem drop_cuts_inflight :
    (cRun true cInit [.recv 1 false, .recv 2 true, .finish 2, .finish 1]).log = [.closed, .lost 1, .closed] := by
  decide

#print axioms accept_table
#print axioms one_response
#print axioms exactly_one
#print axioms response_matches
#print axioms accepted_question_whole
#print axioms reject_never_foreign
#print axioms transport_equiv
#print axioms silent_table
#print axioms undecodable_dropped
#print axioms bytes_id
#print axioms doq_keepalive_is_protocol_error
#print axioms dispose_after_last_use
#print axioms concurrent_reuse_harmless
#print axioms early_dispose_counterexample
#print axioms quic_payload_own_bytes
#print axioms quic_orig_counterexample
#print axioms doq_read_delivery_irrelevant
#print axioms doq_complete_query_read
#print axioms doq_max_size_query_read
#print axioms doq_complete_query_served
#print axioms doq_max_message_counterexample
#print axioms doq_strict_reader_counterexample
#print axioms json_front_end
#print axioms answer_is_pipelines
#print axioms spec_table
#print axioms short_input_dropped
#print axioms bad_question_dropped
#print axioms bytes_question
#print axioms doq_stream_finished
#print axioms udp_listener_survives
#print axioms udp_short_read_counterexample
#print axioms conn_prefix
#print axioms conn_each_answered
#print axioms byte_buffers_released_after_last_use
#print axioms early_put_counterexample
#print axioms json_wire_variant
#print axioms doh_front_table
#print axioms doh_exactly_one
#print axioms doh_client_address_irrelevant
#print axioms doh_zoned_client_counterexample
#print axioms doh_get_post_equiv
#print axioms dnscrypt_e2e_table
#print axioms handler_panic_contained
#print axioms panic_isolated
#print axioms dnscrypt_panic_counterexample
#print axioms lStep_good
#print axioms restart_serves
#print axioms restart_counterexample
#print axioms conn_answered_before_close
#print axioms conn_complete_schedule
#print axioms early_close_counterexample
#print axioms drop_cuts_inflight

end Agd.Serve
#print axioms Agd.Tie.TrC01.translation_complete
#print axioms Agd.Tie.TrC01.acceptMsg_tr
#print axioms Agd.Tie.TrC01.at_most_one_server_write
#print axioms Agd.Tie.TrC01.ignored_gets_nothing
#print axioms Agd.Tie.TrC01.rejected_never_reaches_handler
#print axioms Agd.Tie.TrC01.accepted_served_by_handler
#print axioms Agd.Tie.TrC01.dispose_is_last
#print axioms Agd.Tie.TrC01.undecodable_dropped
#print axioms Agd.Tie.TrC01.isDoH_tr
#print axioms Agd.Tie.TrC01.httpRequestToMsg_tr
#print axioms Agd.Tie.TrC01.httpRequestToMsgGet_tr
#print axioms Agd.Tie.TrC01.urlQueryParameterToBoolean_tr
#print axioms Agd.Tie.TrC01.serveDoH_tr
#print axioms Agd.Tie.TrC01.remoteAddr_flow
#print axioms Agd.Tie.TrC01.remoteAddr_panics_iff
#print axioms Agd.Tie.TrC01.cutList_percent
#print axioms Agd.Tie.TrC01.cutList_none
#print axioms Agd.Tie.TrC01.remoteAddr_zone
#print axioms Agd.Tie.TrC01.remoteAddr_nozone
#print axioms Agd.Tie.TrC01.serveTCPConn_exit
#print axioms Agd.Tie.TrC01.serveTCPConn_closes_once
#print axioms Agd.Tie.TrC01.serveTCPConn_waits_before_close
#print axioms Agd.Tie.TrC01.acceptTCPMsg_counts_before_submit
#print axioms Agd.Tie.TrC01.serveTCPMessage_done_last
#print axioms Agd.Tie.TrC01.acceptTCPMsg_task_order
