import Agd.Lemmas.Normalize
import Agd.Tie.C08
/-!
# C08 — responses respect the transport's size limit and are truncated safely

Property theorems only; helper lemmas are in `Agd/Lemmas/Normalize.lean`.  `serve` is the whole
write path of one transport (normalize → keep-alive on TCP/DoT → pack → length guard) of the
repaired code; `serveG true` is the pinned tree.  All theorems quantify over every transport,
every configured cap, every request OPT (absent or any size / DO / option list), every handler
response (arbitrary record-length lists, own OPT or none, TC preset or not), every random
padding draw and every `Len() - Pack()` slack.  `Contract r` is the stated assumption about the
library's length accounting.
-/
namespace Agd.Normalize

/-- The limit the property states for UDP: `max(512, min(advertised, configured))`; a query
without OPT advertises nothing (`0`). -/
def limit (req : Option Opt) (cap : Nat) : Nat := max 512 (min (advertised req) cap)

/-- A sample response: header+question 29 bytes, one 16-byte answer, one 30-byte authority
record, one 500-byte additional record, no OPT. -/
def sampleResp : Resp :=
  { tc := false, q := 29, unc := 600, ans := [16], ns := [30], extra := [500], ns2 := [32],
    extra2 := [500], opt := none }

theorem sampleResp_contract : Contract sampleResp := by
  refine ⟨by decide, ?_, ?_⟩
  · intro kn; cases kn <;> simp [sampleResp, sum]
  · intro ke; cases ke <;> simp [sampleResp, sum]

def sampleReq : Option Opt :=
  some { udpSize := 512, extRcode := 0, version := 0, dobit := true, z := 0,
         opts := [{ code := 12, len := 3 }, { code := 11, len := 0 }] }

/-! ## UDP bound -/

/-- **udp_wire_le.** On UDP (plain or DNSCrypt) the bytes sent never exceed the stated limit,
except that header + question + OPT record are always sent: the exact bound is
`max limit (q + OPT)`. -/
theorem udp_wire_le (t : Transport) (ht : t.isUdp = true) (cfgMax idle : Nat) (req : Option Opt)
    (r : Resp) (draw slack : Nat) (hc : Contract r) :
    (serve t cfgMax idle req r draw slack).wire
      ≤ max (limit req (t.cap cfgMax)) (r.q + optLen? (serve t cfgMax idle req r draw slack).opt) := by
  have hp : t.hasPadding = false := by cases t <;> simp_all [Transport.isUdp, Transport.hasPadding]
  have hk : t.hasKeepAlive = false := by cases t <;> simp_all [Transport.isUdp, Transport.hasKeepAlive]
  have hb := finalLen_truncate_le (maxDNSSize t.isUdp (advertised req) (t.cap cfgMax)) r
    (baseOpt false req r) hc
  simp only [serve, serveG, normalizeG, hk, padStep_plain t hp, Bool.false_eq_true, ↓reduceIte]
  have hl : max (maxDNSSize t.isUdp (advertised req) (t.cap cfgMax)) minMsgSize
      = limit req (t.cap cfgMax) := by
    simp only [maxDNSSize, ht, limit, minMsgSize]
    simp only [Bool.not_true, Bool.false_eq_true, ↓reduceIte]
    omega
  rw [hl] at hb
  omega

/-- **udp_bound_partial.** When header + question + the OPT record that is sent fit the limit,
the UDP response is never larger than `max(512, min(advertised, configured))`.
PARTIAL: the hypothesis `hfit` excludes responses whose un-droppable part alone is too large
(known findings `udp-oversize-reflected-option-payload`, `udp-oversize-handler-opt-undroppable`). -/
theorem udp_bound_partial (t : Transport) (ht : t.isUdp = true) (cfgMax idle : Nat)
    (req : Option Opt) (r : Resp) (draw slack : Nat) (hc : Contract r)
    (hfit : r.q + optLen? (serve t cfgMax idle req r draw slack).opt ≤ limit req (t.cap cfgMax)) :
    (serve t cfgMax idle req r draw slack).wire ≤ limit req (t.cap cfgMax) := by
  have := udp_wire_le t ht cfgMax idle req r draw slack hc
  omega

example : Contract sampleResp ∧
    sampleResp.q + optLen? (serve .udp 1232 0 sampleReq sampleResp 0 0).opt ≤ limit sampleReq 1232 ∧
    (serve .udp 1232 0 sampleReq sampleResp 0 0).wire = 72 ∧
    (serve .udp 1232 0 sampleReq sampleResp 0 0).cut = { ka := 0, kn := 1, ke := 0, tc := true } :=
  ⟨sampleResp_contract, by decide, by decide, by decide⟩

/-- The full statement of the UDP clause. -/
def UdpBoundFull : Prop :=
  ∀ (t : Transport), t.isUdp = true → ∀ (cfgMax idle : Nat) (req : Option Opt) (r : Resp)
    (draw slack : Nat), Contract r →
    (serve t cfgMax idle req r draw slack).wire ≤ limit req (t.cap cfgMax)

def nsidReq : Option Opt :=
  some { udpSize := 512, extRcode := 0, version := 0, dobit := false, z := 0,
         opts := [{ code := 3, len := 700 }] }

def smallResp : Resp :=
  { tc := false, q := 29, unc := 45, ans := [16], ns := [], extra := [], ns2 := [], extra2 := [],
    opt := none }

theorem smallResp_contract : Contract smallResp := by
  refine ⟨by decide, ?_, ?_⟩
  · intro kn; simp [smallResp, sum]
  · intro ke; simp [smallResp, sum]

/-- **udp_bound_counterexample.** The full UDP clause is false: a query advertising 512 bytes with
a 700-byte NSID option gets 744 bytes back (reflected option payload is not droppable). -/
theorem udp_bound_counterexample : ¬ UdpBoundFull := by
  intro h
  have := h .udp (by decide) 1232 0 nsidReq smallResp 0 0 smallResp_contract
  revert this
  decide

/-! ## Safe truncation -/

/-- **tc_implies_no_answers.** A response that leaves with TC set carries no answers. -/
theorem tc_implies_no_answers (t : Transport) (cfgMax idle : Nat) (req : Option Opt) (r : Resp)
    (draw slack : Nat) :
    (serve t cfgMax idle req r draw slack).cut.tc = true →
    (serve t cfgMax idle req r draw slack).cut.ka = 0 := by
  simp only [serve, serveG, normalizeG]
  exact truncate_tc_ka _ _ _

/-- **dropped_implies_tc.** Whenever a record of any section is dropped, TC is set and the answer
section is empty. -/
theorem dropped_implies_tc (t : Transport) (cfgMax idle : Nat) (req : Option Opt) (r : Resp)
    (draw slack : Nat)
    (hd : (serve t cfgMax idle req r draw slack).cut.ka < r.ans.length ∨
          (serve t cfgMax idle req r draw slack).cut.kn < r.ns.length ∨
          (serve t cfgMax idle req r draw slack).cut.ke < r.extra.length) :
    (serve t cfgMax idle req r draw slack).cut.tc = true ∧
    (serve t cfgMax idle req r draw slack).cut.ka = 0 := by
  simp only [serve, serveG, normalizeG] at hd ⊢
  exact truncate_dropped _ _ _ hd

example : (serve .udp 1232 0 sampleReq sampleResp 0 0).cut.ke < sampleResp.extra.length ∧
    (serve .udp 1232 0 sampleReq sampleResp 0 0).cut.tc = true := by decide

/-! ## OPT echo -/

/-- **opt_echo.** A query that carries an OPT record gets one back with the client's UDP size and
version 0 — on every transport, whether the handler's response had an OPT record or not. -/
theorem opt_echo (t : Transport) (cfgMax idle : Nat) (ro : Opt) (r : Resp) (draw slack : Nat) :
    ∃ o, (serve t cfgMax idle (some ro) r draw slack).opt = some o ∧ o.udpSize = ro.udpSize ∧
      o.version = 0 := by
  simp only [serve, serveG, normalizeG, baseOpt, padStep, addKeepAlive]
  cases hr : r.opt <;> simp only [] <;>
    by_cases hk : t.hasKeepAlive = true <;> by_cases hp : t.hasPadding = true <;>
    simp only [hk, hp, ↓reduceIte, padAnswer] <;>
    (repeat' split) <;> simp [rewriteOpt, synthOpt]

example : (serve .doh 1232 0 sampleReq sampleResp 0 0).opt =
    some { udpSize := 512, extRcode := 0, version := 0, dobit := false, z := 0,
           opts := [{ code := 12, len := 1 }] } := by decide

/-- **opt_echo_legacy_counterexample.** On the pinned tree (before the `fix:` commit) the clause is
false: a response without its own OPT record got a synthesised one with UDP size 0. -/
theorem opt_echo_legacy_counterexample :
    ¬ ∀ (t : Transport) (cfgMax idle : Nat) (ro : Opt) (r : Resp) (draw slack : Nat),
      ∃ o, (serveG true t cfgMax idle (some ro) r draw slack).opt = some o ∧
        o.udpSize = ro.udpSize ∧ o.version = 0 := by
  intro h
  obtain ⟨o, h1, h2, _⟩ := h .udp 1232 0
    { udpSize := 1232, extRcode := 0, version := 0, dobit := true, z := 0, opts := [] } smallResp 0 0
  have e : (serveG true .udp 1232 0
      (some { udpSize := 1232, extRcode := 0, version := 0, dobit := true, z := 0, opts := [] })
      smallResp 0 0).opt
      = some { udpSize := 0, extRcode := 0, version := 0, dobit := false, z := 0, opts := [] } := by
    decide
  rw [e] at h1
  cases h1
  simp at h2

/-! ## Padding and keep-alive -/

/-- The request carries option `c`. -/
def reqHas (c : Nat) : Option Opt → Bool
  | none => false
  | some ro => hasCode c ro.opts

/-- **padding_only_when.** Unless the transport is DoT/DoH/DoQ *and* the client sent the padding
option, the padding options of the response are exactly those of the handler's response (none,
when the OPT record is synthesised): the server adds or alters no padding. -/
theorem padding_only_when (t : Transport) (cfgMax idle : Nat) (req : Option Opt) (r : Resp)
    (draw slack : Nat) (h : ¬ (t.hasPadding = true ∧ reqHas codePadding req = true)) :
    lensOf? codePadding (serve t cfgMax idle req r draw slack).opt = lensOf? codePadding r.opt := by
  have hne : codeKeepAlive ≠ codePadding := by decide
  simp only [serve, serveG, normalizeG, baseOpt, padStep, addKeepAlive]
  cases req with
  | none => cases hr : r.opt <;> simp
  | some ro =>
    have h' : t.hasPadding = false ∨ hasCode codePadding ro.opts = false := by
      simp only [reqHas] at h
      by_cases hp : t.hasPadding = true
      · right; simpa [hp] using h
      · left; simpa using hp
    cases hr : r.opt <;> simp only [] <;>
      by_cases hk : t.hasKeepAlive = true <;>
      simp only [hk, ↓reduceIte, Bool.false_eq_true, padAnswer] <;>
      rcases h' with h' | h' <;> simp only [h', ↓reduceIte, Bool.false_eq_true] <;>
      (repeat' split) <;>
      simp [lensOf?, lensOf_setOpt_ne _ _ _ _ hne, rewriteOpt, synthOpt,
        lensOf_filterSupported codePadding _ (by decide) (by decide)]

/-- **padding_when_added.** On DoT/DoH/DoQ, for a client that sent the padding option, the response
carries a padding option of 1..31 bytes. -/
theorem padding_when_added (t : Transport) (cfgMax idle : Nat) (ro : Opt) (r : Resp)
    (draw slack : Nat) (ht : t.hasPadding = true) (hp : hasCode codePadding ro.opts = true) :
    ∃ o e, (serve t cfgMax idle (some ro) r draw slack).opt = some o ∧ e ∈ o.opts ∧
      e.code = codePadding ∧ 1 ≤ e.len ∧ e.len ≤ 31 := by
  obtain ⟨b, hb⟩ : ∃ b, baseOpt false (some ro) r = some b := by
    unfold baseOpt; cases r.opt <;> simp
  obtain ⟨e, he, h1, h2, h3⟩ := padAnswer_mem ro b draw hp
  obtain ⟨o', ho', hmem⟩ := addKeepAlive_some_mem ro (padAnswer ro b draw) idle
  simp only [serve, serveG, normalizeG, hb, padStep, ht, ↓reduceIte]
  by_cases hk : t.hasKeepAlive = true
  · simp only [hk, ↓reduceIte, ho']
    exact ⟨o', e, rfl, hmem e he (by rw [h1]; decide), h1, h2, h3⟩
  · simp only [hk, Bool.false_eq_true, ↓reduceIte]
    exact ⟨_, e, rfl, he, h1, h2, h3⟩

example : Transport.hasPadding .dot = true ∧ reqHas codePadding sampleReq = true ∧
    lensOf? codePadding (serve .dot 0 30000 sampleReq sampleResp 6 0).opt = [7] ∧
    lensOf? codePadding (serve .tcp 0 30000 sampleReq sampleResp 6 0).opt = [] := by decide

/-- **keepalive_only_when.** Unless the response is written by the TCP/DoT writer *and* the client
sent the keep-alive option, the keep-alive options of the response are exactly those of the
handler's response (none, when the OPT record is synthesised). -/
theorem keepalive_only_when (t : Transport) (cfgMax idle : Nat) (req : Option Opt) (r : Resp)
    (draw slack : Nat) (h : ¬ (t.hasKeepAlive = true ∧ reqHas codeKeepAlive req = true)) :
    lensOf? codeKeepAlive (serve t cfgMax idle req r draw slack).opt
      = lensOf? codeKeepAlive r.opt := by
  have hne : codePadding ≠ codeKeepAlive := by decide
  simp only [serve, serveG, normalizeG, baseOpt, padStep, addKeepAlive]
  cases req with
  | none => cases hr : r.opt <;> by_cases hk : t.hasKeepAlive = true <;> simp [hk]
  | some ro =>
    have h' : t.hasKeepAlive = false ∨ hasCode codeKeepAlive ro.opts = false := by
      simp only [reqHas] at h
      by_cases hp : t.hasKeepAlive = true
      · right; simpa [hp] using h
      · left; simpa using hp
    cases hr : r.opt <;> simp only [] <;>
      by_cases hp : t.hasPadding = true <;>
      simp only [hp, ↓reduceIte, Bool.false_eq_true, padAnswer] <;>
      rcases h' with h' | h' <;> simp only [h', ↓reduceIte, Bool.false_eq_true] <;>
      (repeat' split) <;>
      simp [lensOf?, lensOf_setOpt_ne _ _ _ _ hne, rewriteOpt, synthOpt,
        lensOf_filterSupported codeKeepAlive _ (by decide) (by decide)]

example : lensOf? codeKeepAlive (serve .dot 0 30000 sampleReq sampleResp 6 0).opt = [2] ∧
    lensOf? codeKeepAlive (serve .doh 0 30000 sampleReq sampleResp 6 0).opt = [] ∧
    lensOf? codeKeepAlive (serve .tcp 0 30000 none sampleResp 6 0).opt = [] := by decide

/-! ## Stream transports -/

/-- **stream_guard.** TCP, DoT and DoQ never put more than 65535 bytes of DNS message on the wire:
`packWithPrefix` refuses anything longer (nothing is sent then). -/
theorem stream_guard (t : Transport) (ht : t.guarded = true) (cfgMax idle : Nat) (req : Option Opt)
    (r : Resp) (draw slack : Nat)
    (he : (serve t cfgMax idle req r draw slack).emitted = true) :
    (serve t cfgMax idle req r draw slack).wire ≤ 65535 := by
  simp [serve, serveG, ht, maxMsgSize] at he ⊢
  omega

/-- **stream_len_le.** On every non-UDP transport the final message is at most 65535 bytes plus what
is appended after truncation (padding ≤ 35, keep-alive ≤ 6), unless header + question + OPT alone
exceed 65535. -/
theorem stream_len_le (t : Transport) (ht : t.isUdp = false) (cfgMax idle : Nat) (req : Option Opt)
    (r : Resp) (draw slack : Nat) (hc : Contract r) :
    (serve t cfgMax idle req r draw slack).wire
      ≤ max 65535 (r.q + optLen? (baseOpt false req r)) + 41 := by
  have hb := finalLen_truncate_le (maxDNSSize t.isUdp (advertised req) (t.cap cfgMax)) r
    (baseOpt false req r) hc
  have hl : max (maxDNSSize t.isUdp (advertised req) (t.cap cfgMax)) minMsgSize = 65535 := by
    simp [maxDNSSize, ht, maxMsgSize, minMsgSize]
  rw [hl] at hb
  have h1 := optLen_padStep_le t req (baseOpt false req r) draw
  have h2 := optLen_addKeepAlive_le req (padStep t req (baseOpt false req r) draw) idle
  simp only [serve, serveG, normalizeG]
  by_cases hk : t.hasKeepAlive = true
  · simp only [hk, ↓reduceIte]
    have := finalLen_opt_le r (truncate (maxDNSSize t.isUdp (advertised req) (t.cap cfgMax)) r
      (baseOpt false req r)) (baseOpt false req r)
      (addKeepAlive req (padStep t req (baseOpt false req r) draw) idle) 41 (by omega)
    omega
  · simp only [hk, Bool.false_eq_true, ↓reduceIte]
    have := finalLen_opt_le r (truncate (maxDNSSize t.isUdp (advertised req) (t.cap cfgMax)) r
      (baseOpt false req r)) (baseOpt false req r)
      (padStep t req (baseOpt false req r) draw) 41 (by omega)
    omega

/-- **stream_bound_partial.** On every stream transport, when nothing is appended after truncation
(the OPT record sent is the one present during truncation — e.g. DoH/DoQ for a client that sent
no padding option, TCP for one that sent no keep-alive) and header + question + OPT fit, the
response is at most 65535 bytes.
PARTIAL: with padding / keep-alive appended the bound is `stream_len_le`; on DoH the excess is
sent (known finding `doh-oversize-padding-after-truncate`). -/
theorem stream_bound_partial (t : Transport) (ht : t.isUdp = false) (cfgMax idle : Nat)
    (req : Option Opt) (r : Resp) (draw slack : Nat) (hc : Contract r)
    (hsame : (serve t cfgMax idle req r draw slack).opt = baseOpt false req r)
    (hfit : r.q + optLen? (baseOpt false req r) ≤ 65535) :
    (serve t cfgMax idle req r draw slack).wire ≤ 65535 := by
  have hb := finalLen_truncate_le (maxDNSSize t.isUdp (advertised req) (t.cap cfgMax)) r
    (baseOpt false req r) hc
  have hl : max (maxDNSSize t.isUdp (advertised req) (t.cap cfgMax)) minMsgSize = 65535 := by
    simp [maxDNSSize, ht, maxMsgSize, minMsgSize]
  rw [hl] at hb
  simp only [serve, serveG, normalizeG] at hsame ⊢
  rw [hsame]
  omega

example : Contract sampleResp ∧
    (serve .doh 0 0 none sampleResp 0 0).opt = baseOpt false none sampleResp ∧
    sampleResp.q + optLen? (baseOpt false none sampleResp) ≤ 65535 ∧
    (serve .doh 0 0 none sampleResp 0 0).wire = 575 :=
  ⟨sampleResp_contract, by decide, by decide, by decide⟩

/-- The full statement of the stream clause. -/
def StreamBoundFull : Prop :=
  ∀ (t : Transport), t.isUdp = false → ∀ (cfgMax idle : Nat) (req : Option Opt) (r : Resp)
    (draw slack : Nat), Contract r → (serve t cfgMax idle req r draw slack).emitted = true →
    (serve t cfgMax idle req r draw slack).wire ≤ 65535

def bigResp : Resp :=
  { tc := false, q := 29, unc := 65524, ans := [65495], ns := [], extra := [], ns2 := [],
    extra2 := [], opt := none }

theorem bigResp_contract : Contract bigResp := by
  refine ⟨by decide, ?_, ?_⟩
  · intro kn; simp [bigResp, sum]
  · intro ke; simp [bigResp, sum]

/-- **doh_bound_counterexample.** The full stream clause is false on DoH: a 65535-byte response
(OPT included) to a client that sent the padding option leaves as 65540 bytes. -/
theorem doh_bound_counterexample : ¬ StreamBoundFull := by
  intro h
  have := h .doh (by decide) 0 0 sampleReq bigResp 0 0 bigResp_contract (by decide)
  revert this
  decide

#print axioms udp_wire_le
#print axioms udp_bound_partial
#print axioms udp_bound_counterexample
#print axioms tc_implies_no_answers
#print axioms dropped_implies_tc
#print axioms opt_echo
#print axioms opt_echo_legacy_counterexample
#print axioms padding_only_when
#print axioms padding_when_added
#print axioms keepalive_only_when
#print axioms stream_guard
#print axioms stream_len_le
#print axioms stream_bound_partial
#print axioms doh_bound_counterexample
#print axioms sampleResp_contract
#print axioms smallResp_contract
#print axioms bigResp_contract

end Agd.Normalize
