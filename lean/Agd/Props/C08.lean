import Agd.Tie.TrC08
import Agd.Lemmas.Normalize
import Agd.Tie.C08
/-!
# C08 — responses respect the transport's size limit and are truncated safely

Property theorems only; helper lemmas are in `Agd/Lemmas/Normalize.lean`.  `serve` is the whole
write path of one transport (normalize → keep-alive on TCP/DoT → pack → length guard) of the
repaired code; `serveG true` is the pinned tree.  All theorems quantify over every transport,
every configured cap, every request OPT (absent or any size / DO / option list), every handler
response (arbitrary record-length lists, own OPT or none, TC preset or not), every random
padding draw and every `Len() - Pack()` slack.  `Contract r` is the stated assumption about the
library's length accounting.
-/
namespace Agd.Normalize

/-- The limit the property states for UDP: `max(512, min(advertised, configured))`; a query
without OPT advertises nothing (`0`). -/
def limit (req : Option Opt) (cap : Nat) : Nat := max 512 (min (advertised req) cap)

/-- A sample response: header+question 29 bytes, one 16-byte answer, one 30-byte authority
record, one 500-byte additional record, no OPT. -/
def sampleResp : Resp :=
  { tc := false, q := 29, unc := 600, ans := [16], ns := [30], extra := [500], ns2 := [32],
    extra2 := [500], opt := none }

theorem sampleResp_contract : Contract sampleResp := by
  refine ⟨by decide, ?_, ?_⟩
  · intro kn; cases kn <;> simp [sampleResp, sum]
  · intro ke; cases ke <;> simp [sampleResp, sum]

def nsidSmallReq : Option Opt :=
  some { udpSize := 4096, extRcode := 0, version := 0, dobit := false, z := 0,
         opts := [{ code := 3, len := 8 }, { code := 12, len := 100 }] }

def sampleReq : Option Opt :=
  some { udpSize := 512, extRcode := 0, version := 0, dobit := true, z := 0,
         opts := [{ code := 12, len := 3 }, { code := 11, len := 0 }] }

/-! ## UDP bound -/

/-- **udp_wire_le.** On UDP (plain or DNSCrypt) the bytes sent never exceed the stated limit,
except that header + question + a bare OPT record (11 bytes) are always sent: the exact bound is
`max limit (q + 11)`.  `htsig`: `Msg.Truncate` does not touch a message whose last record is a
TSIG (see `udp_bound_tsig_counterexample`). -/
theorem udp_wire_le (t : Transport) (ht : t.isUdp = true) (cfgMax idle : Nat) (req : Option Opt)
    (r : Resp) (draw slack : Nat) (hc : Contract r) (htsig : tsigAtTruncate req r = false) :
    (serve t cfgMax idle req r draw slack).wire ≤ max (limit req (t.cap cfgMax)) (r.q + 11) := by
  have hp : t.hasPadding = false := by cases t <;> simp_all [Transport.isUdp, Transport.hasPadding]
  have hk : t.hasKeepAlive = false := by cases t <;> simp_all [Transport.isUdp, Transport.hasKeepAlive]
  have hl : maxDNSSize t.isUdp (advertised req) (t.cap cfgMax) = limit req (t.cap cfgMax) := by
    simp only [maxDNSSize, ht, limit, minMsgSize]
    simp only [Bool.not_true, Bool.false_eq_true, ↓reduceIte]
    omega
  have hb := finalLen_dropOpts_le (maxDNSSize t.isUdp (advertised req) (t.cap cfgMax)) r
    (baseOpt false req r) hc (by rw [hl]; unfold limit minMsgSize; omega)
  rw [serve_wire, serve_cut, htsig]
  simp only [prePack, normalizeG, hk, padStep_plain t hp, Bool.false_eq_true, ↓reduceIte,
    truncOpt_false, htsig]
  rw [hl] at hb ⊢
  omega

/-- On UDP nothing is appended after truncation: the OPT record sent is the one the `truncate`
call leaves (up to the extended-rcode byte). -/
theorem udp_opt_is_trunc (t : Transport) (ht : t.isUdp = true) (cfgMax idle : Nat) (req : Option Opt)
    (r : Resp) (draw slack : Nat) :
    (serve t cfgMax idle req r draw slack).opt = packOpt r.rcodeHi (truncOpt false t cfgMax req r) := by
  have hp : t.hasPadding = false := by cases t <;> simp_all [Transport.isUdp, Transport.hasPadding]
  have hk : t.hasKeepAlive = false := by cases t <;> simp_all [Transport.isUdp, Transport.hasKeepAlive]
  rw [serve_opt]
  simp only [prePack, normalizeG, hk, padStep_plain t hp, Bool.false_eq_true, ↓reduceIte]

/-- **udp_bound.** The UDP clause at full strength for every handler response that is not
TSIG-terminated: whatever the response (any size, any section mix, own OPT record with any options
or none), whatever the client advertised and reflected (any NSID/EXPIRE payload) and whatever the
configured cap, the bytes on the wire are at most `max(512, min(advertised, configured))`.
`hq`: header + question + a bare OPT record fit 512 bytes, i.e. the question section is at most
489 bytes — true of every single-question message (a name is at most 255 bytes). -/
theorem udp_bound (t : Transport) (ht : t.isUdp = true) (cfgMax idle : Nat)
    (req : Option Opt) (r : Resp) (draw slack : Nat) (hc : Contract r)
    (htsig : tsigAtTruncate req r = false) (hq : r.q + 11 ≤ 512) :
    (serve t cfgMax idle req r draw slack).wire ≤ limit req (t.cap cfgMax) := by
  have := udp_wire_le t ht cfgMax idle req r draw slack hc htsig
  have h512 : 512 ≤ limit req (t.cap cfgMax) := by unfold limit; omega
  omega

/-- **udp_bound_everyday.** Corollary for the everyday class of traffic: the handler's response has
no TSIG of its own and header + question are at most 300 bytes (a question is at most
12 + 255 + 4). -/
theorem udp_bound_everyday (t : Transport) (ht : t.isUdp = true) (cfgMax idle : Nat)
    (req : Option Opt) (r : Resp) (draw slack : Nat) (hc : Contract r)
    (htsig : r.tsig = false) (hq : r.q ≤ 300) :
    (serve t cfgMax idle req r draw slack).wire ≤ limit req (t.cap cfgMax) :=
  udp_bound t ht cfgMax idle req r draw slack hc (by simp [tsigAtTruncate, htsig]) (by omega)

/-- The UDP clause with nothing of the model in the bound: for *both* UDP transports the limit is
`max(512, min(advertised, configured))`, where `configured` is the one `dns.max_udp_response_size`
of the configuration file — not a per-transport constant the write path happens to pass. -/
def UdpBoundConfiguredG (legacy : Bool) : Prop :=
  ∀ (t : Transport), t.isUdp = true → ∀ (cfgMax idle : Nat) (req : Option Opt) (r : Resp)
    (draw slack : Nat), Contract r → tsigAtTruncate req r = false → r.q + 11 ≤ 512 →
    (serveG legacy t cfgMax idle req r draw slack).wire ≤ max 512 (min (advertised req) cfgMax)

/-- **udp_bound_configured.** Round 5: the UDP bound against the *configured* maximum on plain UDP
and on DNSCrypt/UDP alike (after the `fix:` commit that hands `MaxUDPRespSize` to the DNSCrypt
server). -/
theorem udp_bound_configured : UdpBoundConfiguredG false := by
  intro t ht cfgMax idle req r draw slack hc htsig hq
  have h := udp_bound t ht cfgMax idle req r draw slack hc htsig hq
  have hcap : t.cap cfgMax = cfgMax := by cases t <;> simp_all [Transport.isUdp, Transport.cap]
  rw [hcap] at h
  exact h

/-- **dc_udp_configured_max_legacy_counterexample.** Before that commit the configured maximum never
reached the DNSCrypt server (`normalize(…, dns.MaxMsgSize)`): with `max_udp_response_size: 512B` a
DNSCrypt/UDP client advertising 4096 bytes got the whole 598-byte response. -/
theorem dc_udp_configured_max_legacy_counterexample : ¬ UdpBoundConfiguredG true := by
  intro h
  have := h .dcUdp (by decide) 512 0 nsidSmallReq sampleResp 0 0 sampleResp_contract (by decide)
    (by decide)
  revert this
  decide

example : (serveG true .dcUdp 512 0 nsidSmallReq sampleResp 0 0).wire = 598 ∧
    (serve .dcUdp 512 0 nsidSmallReq sampleResp 0 0).wire = 84 ∧
    (serve .dcUdp 512 0 nsidSmallReq sampleResp 0 0).cut = { ka := 0, kn := 1, ke := 0, tc := true } ∧
    (serve .udp 512 0 nsidSmallReq sampleResp 0 0).wire = 84 := by
  decide

example : Contract sampleResp ∧ tsigAtTruncate sampleReq sampleResp = false ∧
    sampleResp.q + 11 ≤ 512 ∧
    (serve .udp 1232 0 sampleReq sampleResp 0 0).wire = 72 ∧
    (serve .udp 1232 0 sampleReq sampleResp 0 0).cut = { ka := 0, kn := 1, ke := 0, tc := true } :=
  ⟨sampleResp_contract, by decide, by decide, by decide, by decide⟩

example : sampleResp.tsig = false ∧ sampleResp.q ≤ 300 ∧
    (serve .dcUdp 65535 0 nsidSmallReq sampleResp 0 0).wire = 598 := by
  refine ⟨rfl, by decide, by decide⟩

/-- The full statement of the UDP clause for one generation of the code. -/
def UdpBoundFullG (legacy : Bool) : Prop :=
  ∀ (t : Transport), t.isUdp = true → ∀ (cfgMax idle : Nat) (req : Option Opt) (r : Resp)
    (draw slack : Nat), Contract r → r.q + 11 ≤ 512 →
    (serveG legacy t cfgMax idle req r draw slack).wire ≤ limit req (t.cap cfgMax)

def nsidReq : Option Opt :=
  some { udpSize := 512, extRcode := 0, version := 0, dobit := false, z := 0,
         opts := [{ code := 3, len := 700 }] }

def smallResp : Resp :=
  { tc := false, q := 29, unc := 45, ans := [16], ns := [], extra := [], ns2 := [], extra2 := [],
    opt := none }

theorem smallResp_contract : Contract smallResp := by
  refine ⟨by decide, ?_, ?_⟩
  · intro kn; simp [smallResp, sum]
  · intro ke; simp [smallResp, sum]

/-- **udp_bound_legacy_counterexample.** Before the `fix:` commit the UDP clause was false even
without TSIG: a query advertising 512 bytes with a 700-byte NSID option got 744 bytes back (the
reflected option payload was not droppable).  The repaired code answers with 40 bytes. -/
theorem udp_bound_legacy_counterexample : ¬ UdpBoundFullG true := by
  intro h
  have := h .udp (by decide) 1232 0 nsidReq smallResp 0 0 smallResp_contract (by decide)
  revert this
  decide

example : (serveG true .udp 1232 0 nsidReq smallResp 0 0).wire = 744 ∧
    (serve .udp 1232 0 nsidReq smallResp 0 0).wire = 40 ∧
    (serve .udp 1232 0 nsidReq smallResp 0 0).cut = { ka := 0, kn := 0, ke := 0, tc := true } := by
  decide

def tsigResp : Resp :=
  { tc := false, q := 29, unc := 1000, ans := [16], ns := [], extra := [900], ns2 := [],
    extra2 := [902], opt := none, tsig := true }

theorem tsigResp_contract : Contract tsigResp := by
  refine ⟨by decide, ?_, ?_⟩
  · intro kn; simp [tsigResp, sum]
  · intro ke; cases ke <;> simp [tsigResp, sum]

/-- **udp_bound_tsig_counterexample.** The one region `udp_bound` still excludes is real.
`Msg.Truncate` leaves a message whose last record is a TSIG untouched: to a query without OPT such
a 945-byte handler response is sent whole over UDP (limit 512).  (With a request OPT the
synthesised OPT record is appended *after* the TSIG, `IsTsig` no longer sees it, and truncation
works.) -/
theorem udp_bound_tsig_counterexample : ¬ UdpBoundFullG false := by
  intro h
  have := h .udp (by decide) 1232 0 none tsigResp 0 0 tsigResp_contract (by decide)
  revert this
  decide

example : (serve .udp 1232 0 none tsigResp 0 0).wire = 945 ∧
    (serve .udp 1232 0 sampleReq tsigResp 0 0).wire = 40 ∧
    tsigAtTruncate sampleReq tsigResp = false := by decide

/-! ## Safe truncation -/

/-- **fits_untouched.** Records are dropped only when they must be: a response whose
uncompressed length (OPT included) is within the limit of its transport keeps every record and
its TC bit as the handler set it. -/
theorem fits_untouched (t : Transport) (cfgMax idle : Nat) (req : Option Opt) (r : Resp)
    (draw slack : Nat) (htc : r.tc = false)
    (hfit : r.unc + optLen? (baseOpt false req r)
      ≤ (if t.isUdp then limit req (t.cap cfgMax) else 65535)) :
    (serve t cfgMax idle req r draw slack).cut =
      { ka := r.ans.length, kn := r.ns.length, ke := r.extra.length, tc := false } := by
  have hl : max (maxDNSSize t.isUdp (advertised req) (t.cap cfgMax)) minMsgSize
      = (if t.isUdp then limit req (t.cap cfgMax) else 65535) := by
    cases hu : t.isUdp <;> simp [maxDNSSize, limit, minMsgSize, maxMsgSize] <;> omega
  rw [serve_cut]
  unfold truncate msgTruncate
  rw [hl]
  simp [hfit, htc]

example : (serve .udp 1232 0 sampleReq smallResp 0 0).cut = { ka := 1, kn := 0, ke := 0, tc := false } := by
  decide

/-- **fits_compressed_untouched.** The same at the strength the code really has: it is enough that
the response fits *compressed* (the library's own running length of header + question + every record,
plus the OPT record it carries when it is measured).  Then no record is dropped and TC stays clear,
on every transport — records are dropped only when they must be.  `AllPos`: every record has a
positive length. -/
theorem fits_compressed_untouched (t : Transport) (cfgMax idle : Nat) (req : Option Opt) (r : Resp)
    (draw slack : Nat) (htc : r.tc = false)
    (ha : AllPos r.ans) (hn : AllPos r.ns) (he : AllPos r.extra)
    (hfit : r.q + sum r.ans + sum r.ns + sum r.extra + optLen? (baseOpt false req r)
      ≤ (if t.isUdp then limit req (t.cap cfgMax) else 65535)) :
    (serve t cfgMax idle req r draw slack).cut =
      { ka := r.ans.length, kn := r.ns.length, ke := r.extra.length, tc := false } := by
  have hl : max (maxDNSSize t.isUdp (advertised req) (t.cap cfgMax)) minMsgSize
      = (if t.isUdp then limit req (t.cap cfgMax) else 65535) := by
    cases hu : t.isUdp <;> simp [maxDNSSize, limit, minMsgSize, maxMsgSize] <;> omega
  rw [serve_cut]
  unfold truncate msgTruncate
  rw [hl]
  by_cases hx : (tsigAtTruncate req r ||
      decide (r.unc + optLen? (baseOpt false req r) ≤ if t.isUdp = true then limit req (t.cap cfgMax) else 65535)) = true
  · simp [hx, htc]
  · have hc := cutOver_all (if t.isUdp = true then limit req (t.cap cfgMax) else 65535)
      (optLen? (baseOpt false req r)) r ha hn he (by omega)
    simp only [hx, Bool.false_eq_true, ↓reduceIte, hc, htc]

example : AllPos sampleResp.ans ∧ AllPos sampleResp.ns ∧ AllPos sampleResp.extra ∧
    sampleResp.q + sum sampleResp.ans + sum sampleResp.ns + sum sampleResp.extra
      + optLen? (baseOpt false nsidSmallReq sampleResp) ≤ limit nsidSmallReq (Transport.cap .udp 1232) ∧
    ¬ (sampleResp.unc + optLen? (baseOpt false nsidSmallReq sampleResp) ≤ 598) ∧
    (serve .udp 1232 0 nsidSmallReq sampleResp 0 0).cut = { ka := 1, kn := 1, ke := 1, tc := false } := by
  refine ⟨?_, ?_, ?_, by decide, by decide, by decide⟩ <;> intro x hx <;>
    simp [sampleResp] at hx <;> omega

/-- **tc_implies_no_answers.** A response that leaves with TC set carries no answers. -/
theorem tc_implies_no_answers (t : Transport) (cfgMax idle : Nat) (req : Option Opt) (r : Resp)
    (draw slack : Nat) :
    (serve t cfgMax idle req r draw slack).cut.tc = true →
    (serve t cfgMax idle req r draw slack).cut.ka = 0 := by
  simp only [serve, serveG, normalizeG]
  exact truncate_tc_ka _ _ _ _

/-- **dropped_implies_tc.** Whenever a record of any section is dropped, TC is set and the answer
section is empty. -/
theorem dropped_implies_tc (t : Transport) (cfgMax idle : Nat) (req : Option Opt) (r : Resp)
    (draw slack : Nat)
    (hd : (serve t cfgMax idle req r draw slack).cut.ka < r.ans.length ∨
          (serve t cfgMax idle req r draw slack).cut.kn < r.ns.length ∨
          (serve t cfgMax idle req r draw slack).cut.ke < r.extra.length) :
    (serve t cfgMax idle req r draw slack).cut.tc = true ∧
    (serve t cfgMax idle req r draw slack).cut.ka = 0 := by
  simp only [serve, serveG, normalizeG] at hd ⊢
  exact truncate_dropped _ _ _ _ hd

example : (serve .udp 1232 0 sampleReq sampleResp 0 0).cut.ke < sampleResp.extra.length ∧
    (serve .udp 1232 0 sampleReq sampleResp 0 0).cut.tc = true := by decide

/-! ## OPT echo -/

/-- **opt_echo.** A query that carries an OPT record gets one back with the client's UDP size and
version 0 — on every transport, whether the handler's response had an OPT record or not. -/
theorem opt_echo (t : Transport) (cfgMax idle : Nat) (ro : Opt) (r : Resp) (draw slack : Nat) :
    ∃ o, (serve t cfgMax idle (some ro) r draw slack).opt = some o ∧ o.udpSize = ro.udpSize ∧
      o.version = 0 := by
  obtain ⟨b, hb, hs, hv⟩ := truncOpt_echo t cfgMax ro r
  have hpre : ∃ o, prePack t cfgMax idle (some ro) r draw = some o ∧ o.udpSize = ro.udpSize ∧
      o.version = 0 := by
    simp only [prePack, normalizeG, hb, padStep, addKeepAlive]
    by_cases hk : t.hasKeepAlive = true <;> by_cases hp : t.hasPadding = true <;>
      simp only [hk, hp, ↓reduceIte, padAnswer] <;>
      (repeat' split) <;> simp [hs, hv]
  obtain ⟨o, ho, h1, h2⟩ := hpre
  obtain ⟨o', ho', e1, e2, _, _⟩ := packOpt_some r.rcodeHi _ o ho
  exact ⟨o', by rw [serve_opt]; exact ho', by omega, by omega⟩

example : (serve .doh 1232 0 sampleReq sampleResp 0 0).opt =
    some { udpSize := 512, extRcode := 0, version := 0, dobit := false, z := 0,
           opts := [{ code := 12, len := 1 }] } := by decide

/-- **opt_echo_legacy_counterexample.** On the pinned tree (before the `fix:` commit) the clause is
false: a response without its own OPT record got a synthesised one with UDP size 0. -/
theorem opt_echo_legacy_counterexample :
    ¬ ∀ (t : Transport) (cfgMax idle : Nat) (ro : Opt) (r : Resp) (draw slack : Nat),
      ∃ o, (serveG true t cfgMax idle (some ro) r draw slack).opt = some o ∧
        o.udpSize = ro.udpSize ∧ o.version = 0 := by
  intro h
  obtain ⟨o, h1, h2, _⟩ := h .udp 1232 0
    { udpSize := 1232, extRcode := 0, version := 0, dobit := true, z := 0, opts := [] } smallResp 0 0
  have e : (serveG true .udp 1232 0
      (some { udpSize := 1232, extRcode := 0, version := 0, dobit := true, z := 0, opts := [] })
      smallResp 0 0).opt
      = some { udpSize := 0, extRcode := 0, version := 0, dobit := false, z := 0, opts := [] } := by
    decide
  rw [e] at h1
  cases h1
  simp at h2

/-! ## Padding and keep-alive -/

/-- The request carries option `c`. -/
def reqHas (c : Nat) : Option Opt → Bool
  | none => false
  | some ro => hasCode c ro.opts

/-- **padding_only_when.** Unless the transport is DoT/DoH/DoQ *and* the client sent the padding
option, the padding options of the response are exactly those of the handler's response (none,
when the OPT record is synthesised) or none at all (when the options of an oversize OPT record
were removed): the server adds or alters no padding. -/
theorem padding_only_when (t : Transport) (cfgMax idle : Nat) (req : Option Opt) (r : Resp)
    (draw slack : Nat) (h : ¬ (t.hasPadding = true ∧ reqHas codePadding req = true)) :
    lensOf? codePadding (serve t cfgMax idle req r draw slack).opt = lensOf? codePadding r.opt ∨
    lensOf? codePadding (serve t cfgMax idle req r draw slack).opt = [] := by
  have hpre : lensOf? codePadding (prePack t cfgMax idle req r draw)
      = lensOf? codePadding (truncOpt false t cfgMax req r) := by
    have hp := lensOf_padStep codePadding t req (truncOpt false t cfgMax req r) draw
      (Or.inr (by cases req <;> simpa [reqHas] using h))
    simp only [prePack, normalizeG]
    by_cases hk : t.hasKeepAlive = true
    · simp only [hk, ↓reduceIte]
      rw [lensOf_addKeepAlive codePadding req _ idle (Or.inl (by decide)), hp]
    · simp only [hk, Bool.false_eq_true, ↓reduceIte]
      exact hp
  rw [serve_opt, lensOf?_packOpt, hpre]
  exact lensOf_truncOpt codePadding t cfgMax req r (by decide) (by decide)

/-- **padding_when_added.** On DoT/DoH/DoQ, for a client that sent the padding option, the response
carries a padding option of 1..31 bytes. -/
theorem padding_when_added (t : Transport) (cfgMax idle : Nat) (ro : Opt) (r : Resp)
    (draw slack : Nat) (ht : t.hasPadding = true) (hp : hasCode codePadding ro.opts = true) :
    ∃ o e, (serve t cfgMax idle (some ro) r draw slack).opt = some o ∧ e ∈ o.opts ∧
      e.code = codePadding ∧ 1 ≤ e.len ∧ e.len ≤ 31 := by
  obtain ⟨b, hb, _, _⟩ := truncOpt_echo t cfgMax ro r
  obtain ⟨e, he, h1, h2, h3⟩ := padAnswer_mem ro b draw hp
  obtain ⟨o', ho', hmem⟩ := addKeepAlive_some_mem ro (padAnswer ro b draw) idle
  have hpre : ∃ o, prePack t cfgMax idle (some ro) r draw = some o ∧ e ∈ o.opts := by
    simp only [prePack, normalizeG, hb, padStep, ht, ↓reduceIte]
    by_cases hk : t.hasKeepAlive = true
    · simp only [hk, ↓reduceIte, ho']
      exact ⟨o', rfl, hmem e he (by rw [h1]; decide)⟩
    · simp only [hk, Bool.false_eq_true, ↓reduceIte]
      exact ⟨_, rfl, he⟩
  obtain ⟨o, ho, hin⟩ := hpre
  obtain ⟨o2, ho2, _, _, e3, _⟩ := packOpt_some r.rcodeHi _ o ho
  exact ⟨o2, e, by rw [serve_opt]; exact ho2, by rw [e3]; exact hin, h1, h2, h3⟩

example : Transport.hasPadding .dot = true ∧ reqHas codePadding sampleReq = true ∧
    lensOf? codePadding (serve .dot 0 30000 sampleReq sampleResp 6 0).opt = [7] ∧
    lensOf? codePadding (serve .tcp 0 30000 sampleReq sampleResp 6 0).opt = [] := by decide

/-- **keepalive_only_when.** Unless the response is written by the TCP/DoT writer *and* the client
sent the keep-alive option, the keep-alive options of the response are exactly those of the
handler's response (none, when the OPT record is synthesised) or none at all (oversize OPT record
stripped of its options). -/
theorem keepalive_only_when (t : Transport) (cfgMax idle : Nat) (req : Option Opt) (r : Resp)
    (draw slack : Nat) (h : ¬ (t.hasKeepAlive = true ∧ reqHas codeKeepAlive req = true)) :
    lensOf? codeKeepAlive (serve t cfgMax idle req r draw slack).opt = lensOf? codeKeepAlive r.opt ∨
    lensOf? codeKeepAlive (serve t cfgMax idle req r draw slack).opt = [] := by
  have hpre : lensOf? codeKeepAlive (prePack t cfgMax idle req r draw)
      = lensOf? codeKeepAlive (truncOpt false t cfgMax req r) := by
    have hp := lensOf_padStep codeKeepAlive t req (truncOpt false t cfgMax req r) draw
      (Or.inl (by decide))
    simp only [prePack, normalizeG]
    by_cases hk : t.hasKeepAlive = true
    · simp only [hk, ↓reduceIte]
      rw [lensOf_addKeepAlive codeKeepAlive req _ idle
        (Or.inr (by cases req <;> simpa [reqHas, hk] using h)), hp]
    · simp only [hk, Bool.false_eq_true, ↓reduceIte]
      exact hp
  rw [serve_opt, lensOf?_packOpt, hpre]
  exact lensOf_truncOpt codeKeepAlive t cfgMax req r (by decide) (by decide)

example : lensOf? codeKeepAlive (serve .dot 0 30000 sampleReq sampleResp 6 0).opt = [2] ∧
    lensOf? codeKeepAlive (serve .doh 0 30000 sampleReq sampleResp 6 0).opt = [] ∧
    lensOf? codeKeepAlive (serve .tcp 0 30000 none sampleResp 6 0).opt = [] := by decide

/-! ## Stream transports -/

/-- **stream_guard.** TCP, DoT and DoQ never put more than 65535 bytes of DNS message on the wire:
`packWithPrefix` refuses anything longer (nothing is sent then). -/
theorem stream_guard (t : Transport) (ht : t.guarded = true) (cfgMax idle : Nat) (req : Option Opt)
    (r : Resp) (draw slack : Nat)
    (he : (serve t cfgMax idle req r draw slack).emitted = true) :
    (serve t cfgMax idle req r draw slack).wire ≤ 65535 := by
  simp [serve, serveG, ht, maxMsgSize] at he ⊢
  omega

/-- **stream_len_le.** On every non-UDP transport the final message is at most 65535 bytes plus what
is appended after truncation (padding ≤ 35, keep-alive ≤ 6), unless header + question + a bare OPT
record alone exceed 65535. -/
theorem stream_len_le (t : Transport) (ht : t.isUdp = false) (cfgMax idle : Nat) (req : Option Opt)
    (r : Resp) (draw slack : Nat) (hc : Contract r) (htsig : tsigAtTruncate req r = false) :
    (serve t cfgMax idle req r draw slack).wire ≤ max 65535 (r.q + 11) + 41 := by
  have hl : maxDNSSize t.isUdp (advertised req) (t.cap cfgMax) = 65535 := by
    simp [maxDNSSize, ht, maxMsgSize]
  have hb := finalLen_dropOpts_le (maxDNSSize t.isUdp (advertised req) (t.cap cfgMax)) r
    (baseOpt false req r) hc (by rw [hl]; unfold minMsgSize; omega)
  have h1 := optLen_padStep_le t req (truncOpt false t cfgMax req r) draw
  have h2 := optLen_addKeepAlive_le req (padStep t req (truncOpt false t cfgMax req r) draw) idle
  rw [serve_wire, serve_cut, htsig]
  simp only [prePack, normalizeG]
  rw [truncOpt_false, htsig] at h1 h2 ⊢
  rw [hl] at hb h1 h2 ⊢
  by_cases hk : t.hasKeepAlive = true
  · simp only [hk, ↓reduceIte]
    have := finalLen_opt_le r (truncate false 65535 r (baseOpt false req r))
      (dropOpts 65535 r (truncate false 65535 r (baseOpt false req r)) (baseOpt false req r))
      (addKeepAlive req (padStep t req
        (dropOpts 65535 r (truncate false 65535 r (baseOpt false req r)) (baseOpt false req r)) draw) idle)
      41 (by omega)
    omega
  · simp only [hk, Bool.false_eq_true, ↓reduceIte]
    have := finalLen_opt_le r (truncate false 65535 r (baseOpt false req r))
      (dropOpts 65535 r (truncate false 65535 r (baseOpt false req r)) (baseOpt false req r))
      (padStep t req
        (dropOpts 65535 r (truncate false 65535 r (baseOpt false req r)) (baseOpt false req r)) draw)
      41 (by omega)
    omega

/-- Nothing is appended after truncation: not on DNSCrypt, not on DoH/DoQ for a client that sent
no padding option. -/
theorem prePack_is_trunc (t : Transport) (cfgMax idle : Nat) (req : Option Opt) (r : Resp)
    (draw : Nat) (hk : t.hasKeepAlive = false)
    (hp : t.hasPadding = false ∨ reqHas codePadding req = false) :
    prePack t cfgMax idle req r draw = truncOpt false t cfgMax req r := by
  simp only [prePack, normalizeG, hk, Bool.false_eq_true, ↓reduceIte]
  rcases hp with hp | hp
  · exact padStep_plain t hp _ _ _
  · unfold padStep
    cases req with
    | none => rfl
    | some ro =>
      have : hasCode codePadding ro.opts = false := hp
      cases truncOpt false t cfgMax (some ro) r <;> simp [padAnswer, this]

/-- **stream_bound_partial.** Every DNS message that leaves over a stream transport is at most
65535 bytes — on TCP, DoT and DoQ unconditionally (`packWithPrefix`), on DNSCrypt/TCP and on DoH
when the response is not TSIG-signed (header + question + 11 ≤ 65535 holds for any message that
parses) — with ONE exception:
PARTIAL: DoH to a client that sent the padding option (padding is appended after truncation and
DoH has no length guard: known finding `doh-oversize-padding-after-truncate`, bound
`stream_len_le`). -/
theorem stream_bound_partial (t : Transport) (ht : t.isUdp = false) (cfgMax idle : Nat)
    (req : Option Opt) (r : Resp) (draw slack : Nat) (hc : Contract r)
    (he : (serve t cfgMax idle req r draw slack).emitted = true)
    (hfit : t.guarded = false → tsigAtTruncate req r = false ∧ r.q + 11 ≤ 65535)
    (hex : ¬ (t = .doh ∧ reqHas codePadding req = true)) :
    (serve t cfgMax idle req r draw slack).wire ≤ 65535 := by
  by_cases hg : t.guarded = true
  · exact stream_guard t hg cfgMax idle req r draw slack he
  · have hg' : t.guarded = false := by simpa using hg
    obtain ⟨htsig, hq⟩ := hfit hg'
    have hk : t.hasKeepAlive = false := by
      cases t <;> simp_all [Transport.guarded, Transport.hasKeepAlive]
    have hp : t.hasPadding = false ∨ reqHas codePadding req = false := by
      cases t <;> simp_all [Transport.guarded, Transport.hasPadding, Transport.isUdp]
    have hl : maxDNSSize t.isUdp (advertised req) (t.cap cfgMax) = 65535 := by
      simp [maxDNSSize, ht, maxMsgSize]
    have hb := finalLen_dropOpts_le (maxDNSSize t.isUdp (advertised req) (t.cap cfgMax)) r
      (baseOpt false req r) hc (by rw [hl]; unfold minMsgSize; omega)
    rw [serve_wire, serve_cut, htsig, prePack_is_trunc t cfgMax idle req r draw hk hp,
      truncOpt_false, htsig]
    rw [hl] at hb ⊢
    omega

example : Contract sampleResp ∧ (serve .doh 0 0 none sampleResp 0 0).emitted = true ∧
    (Transport.guarded .doh = false →
      tsigAtTruncate none sampleResp = false ∧ sampleResp.q + 11 ≤ 65535) ∧
    ¬ (Transport.doh = .doh ∧ reqHas codePadding none = true) ∧
    (serve .doh 0 0 none sampleResp 0 0).wire = 575 :=
  ⟨sampleResp_contract, by decide, fun _ => ⟨by decide, by decide⟩, by decide, by decide⟩

/-- The full statement of the stream clause. -/
def StreamBoundFull : Prop :=
  ∀ (t : Transport), t.isUdp = false → ∀ (cfgMax idle : Nat) (req : Option Opt) (r : Resp)
    (draw slack : Nat), Contract r → (serve t cfgMax idle req r draw slack).emitted = true →
    (serve t cfgMax idle req r draw slack).wire ≤ 65535

def bigResp : Resp :=
  { tc := false, q := 29, unc := 65524, ans := [65495], ns := [], extra := [], ns2 := [],
    extra2 := [], opt := none }

theorem bigResp_contract : Contract bigResp := by
  refine ⟨by decide, ?_, ?_⟩
  · intro kn; simp [bigResp, sum]
  · intro ke; simp [bigResp, sum]

/-- **doh_bound_counterexample.** The full stream clause is false on DoH: a 65535-byte response
(OPT included) to a client that sent the padding option leaves as 65540 bytes. -/
theorem doh_bound_counterexample : ¬ StreamBoundFull := by
  intro h
  have := h .doh (by decide) 0 0 sampleReq bigResp 0 0 bigResp_contract (by decide)
  revert this
  decide

/-! ## The whole server: whatever one query causes on the wire

`respond` adds the code around the write path: `acceptMsg` (FORMERR / NOTIMP / ignored
messages), a handler that writes, stays silent or fails, the SERVFAIL that TCP/DoT send after
`packWithPrefix` refused the handler's response, and the SERVFAIL DoQ and DNSCrypt send for a
silent handler.  Every message it emits is `serve` applied to the handler's response or to a
server-made error response, so every clause above carries over to *all* queries (malformed ones
included) and *all* handler behaviours. -/

/-- The handler's own OPT record, if the handler wrote a response. -/
def Handler.opt : Handler → Option Opt
  | .wrote r => r.opt
  | _ => none

/-- **respond_is_serve.** Anything `respond` puts on the wire is the output of the write path for
either the handler's response or a server-made error response (`genErrorResponse`, possibly with
the extended-error OPT of `addEDE`). -/
theorem respond_is_serve (t : Transport) (cfgMax idle : Nat) (hdr : QHdr) (qe : Nat)
    (req : Option Opt) (h : Handler) (draw slack draw2 : Nat) (o : Out)
    (ho : respond t cfgMax idle hdr qe req h draw slack draw2 = some o) :
    o.emitted = true ∧ ∃ r' d' s', o = serve t cfgMax idle req r' d' s' ∧
      (h = .wrote r' ∨ r' = errResp qe none ∨ r' = errResp qe (edeOpt req)) := by
  unfold respond respondG at ho
  by_cases hv : t = .doq ∧ validQUICMsg req = false
  · rw [if_pos hv] at ho; cases ho
  rw [if_neg hv] at ho
  cases hs : serverResp hdr qe req h with
  | some r =>
    have hr : h = .wrote r ∨ r = errResp qe none ∨ r = errResp qe (edeOpt req) := by
      unfold serverResp at hs
      cases ha : acceptMsg hdr <;> simp only [ha] at hs
      rotate_right
      · cases hs
      · cases h with
        | wrote r0 => left; simp at hs; rw [hs]
        | silent => simp at hs
        | failed to =>
          simp at hs
          cases to <;> simp at hs <;> simp [← hs]
      · right; left; simp at hs; exact hs.symm
      · right; left; simp at hs; exact hs.symm
    simp only [hs] at ho
    by_cases he : (serveG false t cfgMax idle req r draw slack).emitted = true
    · simp only [he, ↓reduceIte, Option.some.injEq] at ho
      subst ho
      exact ⟨he, r, draw, slack, rfl, hr⟩
    · simp only [he, Bool.false_eq_true, ↓reduceIte] at ho
      by_cases hk : (t.hasKeepAlive && handlerWrote hdr h) = true
      · simp only [hk, ↓reduceIte, emittedOnly] at ho
        by_cases he2 : (serveG false t cfgMax idle req (errResp qe none) draw2 0).emitted = true
        · simp only [he2, ↓reduceIte, Option.some.injEq] at ho
          subst ho
          exact ⟨he2, _, draw2, 0, rfl, Or.inr (Or.inl rfl)⟩
        · simp [he2] at ho
      · simp [hk] at ho
  | none =>
    simp only [hs] at ho
    cases t <;> simp only [emittedOnly] at ho
    case doq =>
      by_cases he2 : (serveG false .doq cfgMax idle req (errResp qe none) draw 0).emitted = true
      · simp only [he2, ↓reduceIte, Option.some.injEq] at ho
        subst ho
        exact ⟨he2, _, draw, 0, rfl, Or.inr (Or.inl rfl)⟩
      · simp [he2] at ho
    case dcUdp =>
      simp at ho; subst ho
      exact ⟨serve_emitted_of_unguarded .dcUdp rfl _ _ _ _ _ _, _, draw, 0, rfl, Or.inr (Or.inl rfl)⟩
    case dcTcp =>
      simp at ho; subst ho
      exact ⟨serve_emitted_of_unguarded .dcTcp rfl _ _ _ _ _ _, _, draw, 0, rfl, Or.inr (Or.inl rfl)⟩
    all_goals simp at ho

/-- **respond_opt_echo.** Whatever a query that carries an OPT record gets back — the handler's
response, FORMERR/NOTIMP for a malformed query, SERVFAIL for a failed or silent handler, the
SERVFAIL after a refused oversize response — carries an OPT record with the client's UDP size
and version 0. -/
theorem respond_opt_echo (t : Transport) (cfgMax idle : Nat) (hdr : QHdr) (qe : Nat) (ro : Opt)
    (h : Handler) (draw slack draw2 : Nat) (o : Out)
    (ho : respond t cfgMax idle hdr qe (some ro) h draw slack draw2 = some o) :
    ∃ op, o.opt = some op ∧ op.udpSize = ro.udpSize ∧ op.version = 0 := by
  obtain ⟨_, r', d', s', rfl, _⟩ := respond_is_serve t cfgMax idle hdr qe (some ro) h draw slack draw2 o ho
  exact opt_echo t cfgMax idle ro r' d' s'

/-- **respond_stream_guard.** TCP, DoT and DoQ: nothing one query causes on the wire — fallback
SERVFAIL included — is longer than 65535 bytes. -/
theorem respond_stream_guard (t : Transport) (ht : t.guarded = true) (cfgMax idle : Nat) (hdr : QHdr)
    (qe : Nat) (req : Option Opt) (h : Handler) (draw slack draw2 : Nat) (o : Out)
    (ho : respond t cfgMax idle hdr qe req h draw slack draw2 = some o) : o.wire ≤ 65535 := by
  obtain ⟨he, r', d', s', rfl, _⟩ := respond_is_serve t cfgMax idle hdr qe req h draw slack draw2 o ho
  exact stream_guard t ht cfgMax idle req r' d' s' he

/-- **respond_udp_bound.** UDP: whatever one query causes on the wire — the handler's response or a
server-made error response — respects the limit; the only exclusion left is a TSIG-terminated
handler response.  `hq`: header + first question + 11 ≤ 512. -/
theorem respond_udp_bound (t : Transport) (ht : t.isUdp = true) (cfgMax idle : Nat)
    (hdr : QHdr) (qe : Nat) (req : Option Opt) (h : Handler) (draw slack draw2 : Nat) (o : Out)
    (ho : respond t cfgMax idle hdr qe req h draw slack draw2 = some o)
    (hh : ∀ r, h = .wrote r → Contract r ∧ tsigAtTruncate req r = false ∧ r.q + 11 ≤ 512)
    (hq : qe + 11 ≤ 512) :
    o.wire ≤ limit req (t.cap cfgMax) := by
  obtain ⟨_, r', d', s', rfl, hr⟩ := respond_is_serve t cfgMax idle hdr qe req h draw slack draw2 o ho
  have hce : ∀ op, Contract (errResp qe op) := by
    intro op
    refine ⟨by simp [errResp, sum], ?_, ?_⟩ <;> intro k <;> simp [errResp, sum]
  rcases hr with hr | hr | hr
  · obtain ⟨hc, htsig, hfit⟩ := hh r' hr
    exact udp_bound t ht cfgMax idle req r' d' s' hc htsig hfit
  · subst hr
    exact udp_bound t ht cfgMax idle req _ d' s' (hce _) (by simp [tsigAtTruncate, errResp]) hq
  · subst hr
    exact udp_bound t ht cfgMax idle req _ d' s' (hce _) (by simp [tsigAtTruncate, errResp]) hq

/-- **respond_padding_only_when.** Unless the transport is DoT/DoH/DoQ and the client sent the
padding option, no message caused by the query carries padding the handler did not put there. -/
theorem respond_padding_only_when (t : Transport) (cfgMax idle : Nat) (hdr : QHdr) (qe : Nat)
    (req : Option Opt) (h : Handler) (draw slack draw2 : Nat) (o : Out)
    (ho : respond t cfgMax idle hdr qe req h draw slack draw2 = some o)
    (hn : ¬ (t.hasPadding = true ∧ reqHas codePadding req = true)) :
    lensOf? codePadding o.opt = lensOf? codePadding h.opt ∨ lensOf? codePadding o.opt = [] := by
  obtain ⟨_, r', d', s', rfl, hr⟩ := respond_is_serve t cfgMax idle hdr qe req h draw slack draw2 o ho
  rcases padding_only_when t cfgMax idle req r' d' s' hn with this | this
  · rcases hr with hr | hr | hr
    · left; rw [this, hr]; rfl
    · right; rw [this, hr]; rfl
    · right; rw [this, hr]; cases req <;> rfl
  · right; exact this

/-- **respond_keepalive_only_when.** Unless the message is written by the TCP/DoT writer and the
client sent the keep-alive option, no message caused by the query carries a keep-alive option the
handler did not put there. -/
theorem respond_keepalive_only_when (t : Transport) (cfgMax idle : Nat) (hdr : QHdr) (qe : Nat)
    (req : Option Opt) (h : Handler) (draw slack draw2 : Nat) (o : Out)
    (ho : respond t cfgMax idle hdr qe req h draw slack draw2 = some o)
    (hn : ¬ (t.hasKeepAlive = true ∧ reqHas codeKeepAlive req = true)) :
    lensOf? codeKeepAlive o.opt = lensOf? codeKeepAlive h.opt ∨ lensOf? codeKeepAlive o.opt = [] := by
  obtain ⟨_, r', d', s', rfl, hr⟩ := respond_is_serve t cfgMax idle hdr qe req h draw slack draw2 o ho
  rcases keepalive_only_when t cfgMax idle req r' d' s' hn with this | this
  · rcases hr with hr | hr | hr
    · left; rw [this, hr]; rfl
    · right; rw [this, hr]; rfl
    · right; rw [this, hr]; cases req <;> rfl
  · right; exact this

/-- A request OPT with the padding option only (a DoQ query must not carry keep-alive). -/
def padOnlyReq : Option Opt :=
  some { udpSize := 512, extRcode := 0, version := 0, dobit := true, z := 0,
         opts := [{ code := 12, len := 3 }] }

/-- **doq_keepalive_no_answer.** DoQ: a query that carries the edns-tcp-keepalive option is a
protocol error (`validQUICMsg`, RFC 9250 5.5.2) — whatever else it contains and whatever the handler
would do, nothing is written (the connection is closed), so in particular no keep-alive option is
ever returned over DoQ. -/
theorem doq_keepalive_no_answer (legacy : Bool) (cfgMax idle : Nat) (hdr : QHdr) (qe : Nat)
    (req : Option Opt) (h : Handler) (draw slack draw2 : Nat)
    (hk : reqHas codeKeepAlive req = true) :
    respondG legacy .doq cfgMax idle hdr qe req h draw slack draw2 = none := by
  have hv : validQUICMsg req = false := by
    cases req with
    | none => simp [reqHas] at hk
    | some ro => simpa [validQUICMsg, reqHas] using hk
  unfold respondG
  rw [if_pos ⟨rfl, hv⟩]

/-- Every other DoQ query is served like any stream query. -/
theorem doq_valid_served (cfgMax idle : Nat) (hdr : QHdr) (qe : Nat) (req : Option Opt)
    (r : Resp) (draw slack draw2 : Nat) (hk : reqHas codeKeepAlive req = false)
    (ha : acceptMsg hdr = .accept)
    (he : (serve .doq cfgMax idle req r draw slack).emitted = true) :
    respond .doq cfgMax idle hdr qe req (.wrote r) draw slack draw2 =
      some (serve .doq cfgMax idle req r draw slack) := by
  have hv : ¬ (Transport.doq = .doq ∧ validQUICMsg req = false) := by
    cases req with
    | none => simp [validQUICMsg]
    | some ro => simpa [validQUICMsg, reqHas] using hk
  unfold respond respondG
  rw [if_neg hv]
  simp only [serverResp, ha]
  unfold serve at he
  simp [he, serve]

/-- A query with two questions and an OPT record: FORMERR with the OPT echoed, on every transport. -/
def twoQuestions : QHdr := { response := false, opcode := 0, nq := 2, nans := 0, nns := 0 }
def goodQuery : QHdr := { response := false, opcode := 0, nq := 1, nans := 0, nns := 0 }

example : reqHas codeKeepAlive sampleReq = true ∧
    respond .doq 1232 0 goodQuery 29 sampleReq (.wrote smallResp) 0 0 0 = none ∧
    reqHas codeKeepAlive padOnlyReq = false ∧ acceptMsg goodQuery = .accept ∧
    (respond .doq 1232 0 goodQuery 29 padOnlyReq (.wrote smallResp) 0 0 0).map (·.wire) = some 61 := by
  decide


example : (respond .udp 1232 0 twoQuestions 29 sampleReq .silent 0 0 0).map (·.wire) = some 40 ∧
    (respond .udp 1232 0 goodQuery 29 sampleReq .silent 0 0 0) = none ∧
    (respond .dcUdp 1232 0 goodQuery 29 sampleReq .silent 0 0 0).map (·.wire) = some 40 ∧
    (respond .doq 1232 0 goodQuery 29 padOnlyReq (.failed true) 0 0 0).map (·.wire) = some 51 ∧
    (respond .tcp 0 30000 goodQuery 29 sampleReq (.wrote bigResp) 0 0 0).map (·.wire) = some 46 := by
  decide

/-- **dnscrypt_silent_legacy_counterexample.** On the pinned tree the DNSCrypt server answered a
query whose handler stayed silent with a SERVFAIL that skipped `normalize`: no OPT record although
the query carried one. -/
theorem dnscrypt_silent_legacy_counterexample :
    ¬ ∀ (t : Transport) (cfgMax idle : Nat) (hdr : QHdr) (qe : Nat) (ro : Opt) (h : Handler)
        (draw slack draw2 : Nat) (o : Out),
        respondG true t cfgMax idle hdr qe (some ro) h draw slack draw2 = some o →
        ∃ op, o.opt = some op ∧ op.udpSize = ro.udpSize ∧ op.version = 0 := by
  intro hall
  obtain ⟨op, h1, _⟩ := hall .dcUdp 1232 0 goodQuery 29
    { udpSize := 1232, extRcode := 0, version := 0, dobit := false, z := 0, opts := [] } .silent 0 0 0
    (rawServfail 29) (by decide)
  simp [rawServfail] at h1

/-! ## The DNSCrypt envelope

`dnsCryptHandler.ServeDNS` hands the normalised message to the `ameshkov/dnscrypt` library, which
truncates it a second time (to the advertised size − 64), pads, encrypts and, on TCP, frames it.
These theorems are about what the DNSCrypt *client* sees after decryption, and about the frame. -/

/-- **dc_udp_visible_le.** DNSCrypt/UDP: the library's truncation can only tighten the bound: the
message the client decrypts is at most `max(512, advertised)` bytes, unless header + question + OPT
alone exceed that (which `udp_bound` rules out for the message AdGuard DNS hands over). -/
theorem dc_udp_visible_le (adv : Nat) (r1 : Resp) (opt : Option Opt) (hc : Contract r1) :
    finalLen r1 (dcTruncate true false adv r1 opt) opt ≤ max (max adv 512) (r1.q + optLen? opt) := by
  have := finalLen_truncate_le (dcSize true adv) r1 opt hc
  simp only [dcTruncate, ↓reduceIte]
  simp only [dcSize, minMsgSize, ↓reduceIte] at this ⊢
  omega

/-- **dc_udp_end_to_end.** DNSCrypt/UDP, composed, for what the client really decrypts
(`dcVisible`: the library packs a message that fits its size uncompressed *without compression*).
Take any handler response `r` (library contract, not TSIG-terminated, header + question + 11 ≤ 512),
let AdGuard DNS normalise it (`serve .dcUdp`, truncating to the configured maximum) and lower the
advertised size the library will see (`dcAdvSeen false`), and let the library truncate and pack.
`r1` is *any* description of the handed-over message (same header + question, length contract; its
compressed and uncompressed lengths are otherwise free — nothing is assumed about how well it
compresses).  Then the client decrypts at most `max(512, min(advertised, configured))` bytes. -/
theorem dc_udp_end_to_end (cfgMax idle : Nat) (req : Option Opt) (r : Resp) (draw : Nat)
    (hc : Contract r) (htsig : tsigAtTruncate req r = false) (hq : r.q + 11 ≤ 512)
    (r1 : Resp) (hc1 : Contract r1) (hq1 : r1.q = r.q) :
    dcVisible true false (dcAdvSeen false (advertised req) cfgMax) r1
      (serve .dcUdp cfgMax idle req r draw 0).opt ≤ limit req cfgMax := by
  have h1 := dc_udp_visible_le (min (advertised req) cfgMax) r1
    (serve .dcUdp cfgMax idle req r draw 0).opt hc1
  have h2 : (serve .dcUdp cfgMax idle req r draw 0).wire ≤ max 512 (min (advertised req) cfgMax) :=
    udp_bound_configured .dcUdp rfl cfgMax idle req r draw 0 hc htsig hq
  rw [serve_wire] at h2
  have h3 : r.q + optLen? (prePack .dcUdp cfgMax idle req r draw) ≤
      finalLen r (serve .dcUdp cfgMax idle req r draw 0).cut (prePack .dcUdp cfgMax idle req r draw) := by
    unfold finalLen; split <;> omega
  have h4 : optLen? (serve .dcUdp cfgMax idle req r draw 0).opt =
      optLen? (prePack .dcUdp cfgMax idle req r draw) := by rw [serve_opt, optLen?_packOpt]
  rw [h4, hq1] at h1
  have hseen : dcAdvSeen false (advertised req) cfgMax = min (advertised req) cfgMax := rfl
  rw [hseen]
  unfold dcVisible limit
  simp only [Bool.not_false, Bool.true_and]
  generalize min (advertised req) cfgMax = mn at h1 h2 ⊢
  split
  · rename_i hfit
    have hfit' := of_decide_eq_true hfit
    rw [h4] at hfit'
    simp only [dcSize, minMsgSize, ↓reduceIte] at hfit'
    rw [h4]
    omega
  · omega

/-- **dc_udp_uncompressed_counterexample.** Why the handler has to lower the size the library sees:
with the client's own 4096 bytes (`dcAdvSeen true`) a message that AdGuard DNS cut to the configured
1232 bytes *compressed* but that is 1674 bytes uncompressed fits the library's 4032 bytes, is packed
without compression and reaches the client as 1674 + 11 bytes. -/
theorem dc_udp_uncompressed_counterexample :
    ¬ (∀ (cfgMax : Nat) (req : Option Opt) (r1 : Resp) (opt : Option Opt), Contract r1 →
        r1.q + sum r1.ans + sum r1.ns + sum r1.extra + optLen? opt ≤ limit req cfgMax →
        dcVisible true false (dcAdvSeen true (advertised req) cfgMax) r1 opt ≤ limit req cfgMax) := by
  intro h
  have := h 1232 (some { udpSize := 4096, extRcode := 0, version := 0, dobit := false, z := 0, opts := [] })
    { tc := false, q := 29, unc := 1674, ans := [600], ns := [292], extra := [300], ns2 := [292],
      extra2 := [300], opt := none }
    (some { udpSize := 4096, extRcode := 0, version := 0, dobit := false, z := 0, opts := [] })
    (by refine ⟨by decide, ?_, ?_⟩
        · intro kn; cases kn <;> simp [sum]
        · intro ke; cases ke <;> simp [sum])
    (by decide)
  revert this
  decide

/-- The message handed to the library in the sample case and what the client sees of it. -/
example : Contract sampleResp ∧ tsigAtTruncate nsidSmallReq sampleResp = false ∧
    (serve .dcUdp 65535 0 nsidSmallReq sampleResp 0 0).wire = 598 ∧
    dcVisible true false (dcAdvSeen false 4096 65535) sampleResp
      (serve .dcUdp 65535 0 nsidSmallReq sampleResp 0 0).opt = 623 ∧
    dcVisible true false (dcAdvSeen false 4096 600) sampleResp
      (serve .dcUdp 600 0 nsidSmallReq sampleResp 0 0).opt ≤ 600 :=
  ⟨sampleResp_contract, by decide, by decide, by decide, by decide⟩

/-- **dc_udp_tc_no_answers.** DNSCrypt/UDP: whatever the library truncates leaves with TC set and
an empty answer section. -/
theorem dc_udp_tc_no_answers (x : Bool) (adv : Nat) (r1 : Resp) (opt : Option Opt) :
    (dcTruncate true x adv r1 opt).tc = true → (dcTruncate true x adv r1 opt).ka = 0 := by
  simp only [dcTruncate, ↓reduceIte]
  exact truncate_tc_ka _ _ _ _

/-- **dc_enc_len.** The encrypted response is 49..113 bytes longer than the DNS message (at least
304 bytes): 48 bytes of magic, nonce and tag plus 1..64 bytes of padding. -/
theorem dc_enc_len (len : Nat) :
    len + 49 ≤ dcEncLen len ∧ dcEncLen len ≤ max 304 (len + 113) := by
  unfold dcEncLen dcPadded
  have hm := Nat.mod_lt (len + 1) (show 0 < 64 by decide)
  generalize (len + 1) % 64 = m at hm ⊢
  omega

/-- **dc_frame_ok_iff.** The DNSCrypt/TCP frame is well-formed exactly for DNS messages of at most
65470 bytes. -/
theorem dc_frame_ok_iff (len : Nat) : dcFrameOk len = true ↔ len ≤ 65470 := by
  unfold dcFrameOk dcEncLen dcPadded
  simp only [decide_eq_true_eq]
  omega

/-- **dc_tcp_frame_counterexample.** The library truncates TCP responses to 65471 bytes, one byte
more than fits: a 65471-byte message is padded to 65536, encrypted to 65584 bytes and framed with
the length prefix 48 (known finding `dnscrypt-tcp-frame-length-wraps`). -/
theorem dc_tcp_frame_counterexample :
    ¬ ∀ len, len ≤ dcSize false 0 → dcFrameOk len = true := by
  intro h
  have := h 65471 (by decide)
  revert this
  decide

example : dcSize false 0 = 65471 ∧ dcEncLen 65471 = 65584 ∧ dcPrefix 65471 = 48 ∧
    dcFrameOk 65470 = true ∧ dcEncLen 65470 = 65520 ∧ dcSize true 1232 = 1168 ∧
    dcSize true 0 = 448 ∧ dcEncLen 40 = 304 := by decide

def dcBigResp : Resp :=
  { tc := false, q := 29, unc := 65529, ans := [30000, 30000, 5500], ns := [], extra := [],
    ns2 := [], extra2 := [], opt := none }

theorem dcBigResp_contract : Contract dcBigResp := by
  refine ⟨by decide, ?_, ?_⟩
  · intro kn; simp [dcBigResp, sum]
  · intro ke; simp [dcBigResp, sum]

/-- **dc_tcp_truncated_with_answers_counterexample.** DNSCrypt/TCP: a response of 65472..65535
bytes passes AdGuard's `normalize` untouched and is then cut by the library, which sets TC but —
on TCP — leaves the remaining answers in place: the "TC ⇒ empty answer section" clause is false
there (known finding `dnscrypt-tcp-truncated-with-answers`). -/
theorem dc_tcp_truncated_with_answers_counterexample :
    ¬ ∀ (adv : Nat) (r1 : Resp) (opt : Option Opt), Contract r1 →
      (dcTruncate false false adv r1 opt).tc = true → (dcTruncate false false adv r1 opt).ka = 0 := by
  intro h
  have := h 0 dcBigResp none dcBigResp_contract (by decide)
  revert this
  decide

example : (serve .dcTcp 0 0 none dcBigResp 0 0).cut = { ka := 3, kn := 0, ke := 0, tc := false } ∧
    dcTruncate false false 0 dcBigResp none = { ka := 2, kn := 0, ke := 0, tc := true } := by decide

/-- The library answers only single-question queries without the QR bit: the FORMERR / ignore
branches of `acceptMsg` for such messages are unreachable over DNSCrypt. -/
example : dcAccepts twoQuestions = false ∧ dcAccepts goodQuery = true := by decide

/-- **dc_shared_opt_echo** (round 6).  DNSCrypt/UDP, whichever object the response's OPT record is —
one of the handler's own or the request's record itself: the library reads
min(advertised, configured) from the request (`dcAdvSeen`), and the response still carries the size
the client sent. -/
theorem dc_shared_opt_echo (respCell : OptCell) (hc : respCell ≠ .copyRec) (adv ownSize cfgMax : Nat) :
    dcLowerRun false respCell adv ownSize cfgMax = (dcAdvSeen false adv cfgMax, adv) := by
  cases respCell <;> simp [dcLowerRun, OptStore.set, OptStore.get, dcAdvSeen] at hc ⊢

/-- **dc_shared_opt_echo_legacy_counterexample.**  The round-5 code lowered the request's record in
place: a handler that reflects the request's OPT record answered a client advertising 4096 bytes
with an OPT record that says 1232 (the configured maximum) — fixed entry
`dnscrypt-udp-opt-echo-lowered`.  A response with a record of its own was never affected, which is
why every earlier campaign passed. -/
theorem dc_shared_opt_echo_legacy_counterexample :
    ¬ ∀ (respCell : OptCell), respCell ≠ .copyRec → ∀ (adv ownSize cfgMax : Nat),
      (dcLowerRun true respCell adv ownSize cfgMax).2 = adv := by
  intro h
  have := h .reqRec (by decide) 4096 0 1232
  revert this
  decide

example : dcLowerRun true .reqRec 4096 0 1232 = (1232, 1232) ∧
    dcLowerRun true .ownRec 4096 512 1232 = (1232, 4096) ∧
    dcLowerRun false .reqRec 4096 0 1232 = (1232, 4096) ∧
    dcLowerRun false .ownRec 4096 512 1232 = (1232, 4096) := by decide

/-- **dc_cert_response_fits_iff** (round 6).  The library's own plain-text certificate answer
(no `normalize`, no OPT record, uncompressed) stays within the 512 bytes a query without OPT allows
exactly for provider names of at most 180 wire bytes; the names in use (`2.dnscrypt-cert.…`) are a
fraction of that. -/
theorem dc_cert_response_fits_iff (nameLen : Nat) : dcCertRespLen nameLen ≤ 512 ↔ nameLen ≤ 180 := by
  unfold dcCertRespLen; omega

example : dcCertRespLen 29 = 209 ∧ dcCertRespLen 180 = 511 ∧ dcCertRespLen 181 = 513 := by decide


#print axioms dc_shared_opt_echo
#print axioms dc_shared_opt_echo_legacy_counterexample
#print axioms dc_cert_response_fits_iff
#print axioms dc_udp_visible_le
#print axioms dc_udp_end_to_end
#print axioms dc_udp_uncompressed_counterexample
#print axioms udp_bound_configured
#print axioms dc_udp_configured_max_legacy_counterexample
#print axioms doq_keepalive_no_answer
#print axioms doq_valid_served
#print axioms dc_udp_tc_no_answers
#print axioms dc_enc_len
#print axioms dc_frame_ok_iff
#print axioms dc_tcp_frame_counterexample
#print axioms dc_tcp_truncated_with_answers_counterexample
#print axioms dcBigResp_contract
#print axioms udp_wire_le
#print axioms udp_bound
#print axioms udp_bound_legacy_counterexample
#print axioms tc_implies_no_answers
#print axioms dropped_implies_tc
#print axioms opt_echo
#print axioms opt_echo_legacy_counterexample
#print axioms padding_only_when
#print axioms padding_when_added
#print axioms keepalive_only_when
#print axioms stream_guard
#print axioms stream_len_le
#print axioms stream_bound_partial
#print axioms udp_bound_tsig_counterexample
#print axioms tsigResp_contract
#print axioms fits_untouched
#print axioms fits_compressed_untouched
#print axioms udp_opt_is_trunc
#print axioms udp_bound_everyday
#print axioms prePack_is_trunc
#print axioms respond_is_serve
#print axioms respond_opt_echo
#print axioms respond_stream_guard
#print axioms respond_udp_bound
#print axioms respond_padding_only_when
#print axioms respond_keepalive_only_when
#print axioms dnscrypt_silent_legacy_counterexample
#print axioms doh_bound_counterexample
#print axioms sampleResp_contract
#print axioms smallResp_contract
#print axioms bigResp_contract

end Agd.Normalize
#print axioms Agd.Tie.TrC08.translation_complete
#print axioms Agd.Tie.TrC08.maxDNSSize_tr
#print axioms Agd.Tie.TrC08.maxDNSSize_formula
#print axioms Agd.Tie.TrC08.padding_support_iff
#print axioms Agd.Tie.TrC08.hasPadding_tr
#print axioms Agd.Tie.TrC08.normalizeTCP_args
#print axioms Agd.Tie.TrC08.stream_limit
#print axioms Agd.Tie.TrC08.normalize_truncates_once
#print axioms Agd.Tie.TrC08.normalize_no_opt
#print axioms Agd.Tie.TrC08.normalize_opt_echo_own
#print axioms Agd.Tie.TrC08.normalize_opt_echo_synth
#print axioms Agd.Tie.TrC08.normalize_padding_iff
#print axioms Agd.Tie.TrC08.normalize_after_truncate
#print axioms Agd.Tie.TrC08.truncate_first
#print axioms Agd.Tie.TrC08.truncate_answers_iff
#print axioms Agd.Tie.TrC08.truncate_drops_options_iff
#print axioms Agd.Tie.TrC08.truncate_answers_tr
#print axioms Agd.Tie.TrC08.dropOpts_tr
#print axioms Agd.Tie.TrC08.pad_only_when_requested
#print axioms Agd.Tie.TrC08.pad_length
#print axioms Agd.Tie.TrC08.padLen_tr
#print axioms Agd.Tie.TrC08.keepalive_only_when_requested
#print axioms Agd.Tie.TrC08.keepalive_timeout
#print axioms Agd.Tie.TrC08.keepalive_value_tr
#print axioms Agd.Tie.TrC08.pack_guard
#print axioms Agd.Tie.TrC08.pack_prefix_exact
#print axioms Agd.Tie.TrC08.pack_error
#print axioms Agd.Tie.TrC08.emitted_tr
#print axioms Agd.Tie.TrC08.doq_write_path
#print axioms Agd.Tie.TrC08.doh_normalizes_first
#print axioms Agd.Tie.TrC08.doh_no_size_guard
#print axioms Agd.Tie.TrC08.genErrorResponse_tr
#print axioms Agd.Tie.TrC08.acceptMsg_tr
#print axioms Agd.Tie.TrC08.serve_rejects
#print axioms Agd.Tie.TrC08.serve_accepted
#print axioms Agd.Tie.TrC08.addEDE_tr
#print axioms Agd.Tie.TrC08.networkFromAddr_tr
#print axioms Agd.Tie.TrC08.dnscrypt_write_path
#print axioms Agd.Tie.TrC08.dnscrypt_udp_limit
#print axioms Agd.Tie.TrC08.udp_write_path
#print axioms Agd.Tie.TrC08.tcp_write_path
#print axioms Agd.Tie.TrC08.doq_invalid_msg
