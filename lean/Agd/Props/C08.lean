import Agd.Lemmas.Normalize
import Agd.Tie.C08
/-!
# C08 — responses respect the transport's size limit and are truncated safely

Property theorems only; helper lemmas are in `Agd/Lemmas/Normalize.lean`.  `serve` is the whole
write path of one transport (normalize → keep-alive on TCP/DoT → pack → length guard) of the
repaired code; `serveG true` is the pinned tree.  All theorems quantify over every transport,
every configured cap, every request OPT (absent or any size / DO / option list), every handler
response (arbitrary record-length lists, own OPT or none, TC preset or not), every random
padding draw and every `Len() - Pack()` slack.  `Contract r` is the stated assumption about the
library's length accounting.
-/
namespace Agd.Normalize

/-- The limit the property states for UDP: `max(512, min(advertised, configured))`; a query
without OPT advertises nothing (`0`). -/
def limit (req : Option Opt) (cap : Nat) : Nat := max 512 (min (advertised req) cap)

/-- A sample response: header+question 29 bytes, one 16-byte answer, one 30-byte authority
record, one 500-byte additional record, no OPT. -/
def sampleResp : Resp :=
  { tc := false, q := 29, unc := 600, ans := [16], ns := [30], extra := [500], ns2 := [32],
    extra2 := [500], opt := none }

theorem sampleResp_contract : Contract sampleResp := by
  refine ⟨by decide, ?_, ?_⟩
  · intro kn; cases kn <;> simp [sampleResp, sum]
  · intro ke; cases ke <;> simp [sampleResp, sum]

def nsidSmallReq : Option Opt :=
  some { udpSize := 4096, extRcode := 0, version := 0, dobit := false, z := 0,
         opts := [{ code := 3, len := 8 }, { code := 12, len := 100 }] }

def sampleReq : Option Opt :=
  some { udpSize := 512, extRcode := 0, version := 0, dobit := true, z := 0,
         opts := [{ code := 12, len := 3 }, { code := 11, len := 0 }] }

/-! ## UDP bound -/

/-- **udp_wire_le.** On UDP (plain or DNSCrypt) the bytes sent never exceed the stated limit,
except that header + question + OPT record are always sent: the exact bound is
`max limit (q + OPT)`.  `htsig`: `Msg.Truncate` does not touch a message whose last record is a
TSIG (see `udp_bound_tsig_counterexample`). -/
theorem udp_wire_le (t : Transport) (ht : t.isUdp = true) (cfgMax idle : Nat) (req : Option Opt)
    (r : Resp) (draw slack : Nat) (hc : Contract r) (htsig : tsigAtTruncate req r = false) :
    (serve t cfgMax idle req r draw slack).wire
      ≤ max (limit req (t.cap cfgMax)) (r.q + optLen? (baseOpt false req r)) := by
  have hp : t.hasPadding = false := by cases t <;> simp_all [Transport.isUdp, Transport.hasPadding]
  have hk : t.hasKeepAlive = false := by cases t <;> simp_all [Transport.isUdp, Transport.hasKeepAlive]
  have hb := finalLen_truncate_le (maxDNSSize t.isUdp (advertised req) (t.cap cfgMax)) r
    (baseOpt false req r) hc
  rw [serve_wire, serve_cut, htsig]
  simp only [prePack, normalizeG, hk, padStep_plain t hp, Bool.false_eq_true, ↓reduceIte]
  have hl : max (maxDNSSize t.isUdp (advertised req) (t.cap cfgMax)) minMsgSize
      = limit req (t.cap cfgMax) := by
    simp only [maxDNSSize, ht, limit, minMsgSize]
    simp only [Bool.not_true, Bool.false_eq_true, ↓reduceIte]
    omega
  rw [hl] at hb
  omega

/-- On UDP nothing is appended after truncation: the OPT record sent is the one `baseOpt`
computes from the request and the handler's response alone (up to the extended-rcode byte). -/
theorem udp_opt_is_base (t : Transport) (ht : t.isUdp = true) (cfgMax idle : Nat) (req : Option Opt)
    (r : Resp) (draw slack : Nat) :
    (serve t cfgMax idle req r draw slack).opt = packOpt r.rcodeHi (baseOpt false req r) := by
  have hp : t.hasPadding = false := by cases t <;> simp_all [Transport.isUdp, Transport.hasPadding]
  have hk : t.hasKeepAlive = false := by cases t <;> simp_all [Transport.isUdp, Transport.hasKeepAlive]
  rw [serve_opt]
  simp only [prePack, normalizeG, hk, padStep_plain t hp, Bool.false_eq_true, ↓reduceIte]

/-- **udp_bound_partial.** When header + question + the OPT record fit the limit (a condition on
the *inputs*: `baseOpt` is the handler's own OPT record, or else the reflection of the client's
NSID/EXPIRE options), the UDP response is never larger than `max(512, min(advertised, configured))`.
PARTIAL: `hfit` excludes responses whose un-droppable part alone is too large (known findings
`udp-oversize-reflected-option-payload`, `udp-oversize-handler-opt-undroppable`), `htsig` excludes
TSIG-signed handler responses (`udp-oversize-tsig-not-truncated`). -/
theorem udp_bound_partial (t : Transport) (ht : t.isUdp = true) (cfgMax idle : Nat)
    (req : Option Opt) (r : Resp) (draw slack : Nat) (hc : Contract r)
    (htsig : tsigAtTruncate req r = false)
    (hfit : r.q + optLen? (baseOpt false req r) ≤ limit req (t.cap cfgMax)) :
    (serve t cfgMax idle req r draw slack).wire ≤ limit req (t.cap cfgMax) := by
  have := udp_wire_le t ht cfgMax idle req r draw slack hc htsig
  omega

/-- **udp_bound_everyday.** The full UDP clause for the everyday class of traffic: the handler's
response has no OPT record and no TSIG of its own (what the cache and the forwarder produce),
header + question are at most 300 bytes (a question is at most 12 + 255 + 4), and the NSID/EXPIRE
options the client sent total at most 200 bytes: *every* such response, of any size and section
mix, to *any* advertised size and cap, respects the limit. -/
theorem udp_bound_everyday (t : Transport) (ht : t.isUdp = true) (cfgMax idle : Nat)
    (req : Option Opt) (r : Resp) (draw slack : Nat) (hc : Contract r)
    (hopt : r.opt = none) (htsig : r.tsig = false) (hq : r.q ≤ 300)
    (hrefl : ∀ ro, req = some ro → optsLen (filterSupported ro.opts) ≤ 200) :
    (serve t cfgMax idle req r draw slack).wire ≤ limit req (t.cap cfgMax) := by
  apply udp_bound_partial t ht cfgMax idle req r draw slack hc
  · simp [tsigAtTruncate, htsig]
  · have h512 : 512 ≤ limit req (t.cap cfgMax) := by unfold limit; omega
    cases req with
    | none => simp only [baseOpt, hopt, optLen?]; omega
    | some ro =>
      have := hrefl ro rfl
      simp only [baseOpt, hopt, optLen?, optLen, synthOpt]
      omega

/-- **udp_no_amplification.** Even in the region `udp_bound_partial` excludes, a response whose
OPT record is synthesised is never larger than the stated limit or than header + question + the
client's own OPT record, i.e. than the query (the response repeats the query's question). -/
theorem udp_no_amplification (t : Transport) (ht : t.isUdp = true) (cfgMax idle : Nat)
    (req : Option Opt) (r : Resp) (draw slack : Nat) (hc : Contract r)
    (hopt : r.opt = none) (htsig : r.tsig = false) :
    (serve t cfgMax idle req r draw slack).wire
      ≤ max (limit req (t.cap cfgMax)) (r.q + optLen? req) := by
  have h := udp_wire_le t ht cfgMax idle req r draw slack hc (by simp [tsigAtTruncate, htsig])
  have : optLen? (baseOpt false req r) ≤ optLen? req := by
    cases req with
    | none => simp [baseOpt, hopt, optLen?]
    | some ro =>
      simp only [baseOpt, hopt, optLen?, optLen, synthOpt]
      have := optsLen_filterSupported_le ro.opts
      omega
  omega

example : Contract sampleResp ∧ tsigAtTruncate sampleReq sampleResp = false ∧
    sampleResp.q + optLen? (baseOpt false sampleReq sampleResp) ≤ limit sampleReq 1232 ∧
    (serve .udp 1232 0 sampleReq sampleResp 0 0).wire = 72 ∧
    (serve .udp 1232 0 sampleReq sampleResp 0 0).cut = { ka := 0, kn := 1, ke := 0, tc := true } :=
  ⟨sampleResp_contract, by decide, by decide, by decide, by decide⟩

example : sampleResp.opt = none ∧ sampleResp.tsig = false ∧ sampleResp.q ≤ 300 ∧
    (∀ ro, nsidSmallReq = some ro → optsLen (filterSupported ro.opts) ≤ 200) ∧
    (serve .dcUdp 0 0 nsidSmallReq sampleResp 0 0).wire = 598 := by
  refine ⟨rfl, rfl, by decide, ?_, by decide⟩
  intro ro h
  cases h
  decide

/-- The full statement of the UDP clause. -/
def UdpBoundFull : Prop :=
  ∀ (t : Transport), t.isUdp = true → ∀ (cfgMax idle : Nat) (req : Option Opt) (r : Resp)
    (draw slack : Nat), Contract r →
    (serve t cfgMax idle req r draw slack).wire ≤ limit req (t.cap cfgMax)

def nsidReq : Option Opt :=
  some { udpSize := 512, extRcode := 0, version := 0, dobit := false, z := 0,
         opts := [{ code := 3, len := 700 }] }

def smallResp : Resp :=
  { tc := false, q := 29, unc := 45, ans := [16], ns := [], extra := [], ns2 := [], extra2 := [],
    opt := none }

theorem smallResp_contract : Contract smallResp := by
  refine ⟨by decide, ?_, ?_⟩
  · intro kn; simp [smallResp, sum]
  · intro ke; simp [smallResp, sum]

/-- **udp_bound_counterexample.** The full UDP clause is false: a query advertising 512 bytes with
a 700-byte NSID option gets 744 bytes back (reflected option payload is not droppable). -/
theorem udp_bound_counterexample : ¬ UdpBoundFull := by
  intro h
  have := h .udp (by decide) 1232 0 nsidReq smallResp 0 0 smallResp_contract
  revert this
  decide

def tsigResp : Resp :=
  { tc := false, q := 29, unc := 1000, ans := [16], ns := [], extra := [900], ns2 := [],
    extra2 := [902], opt := none, tsig := true }

theorem tsigResp_contract : Contract tsigResp := by
  refine ⟨by decide, ?_, ?_⟩
  · intro kn; simp [tsigResp, sum]
  · intro ke; cases ke <;> simp [tsigResp, sum]

/-- **udp_bound_tsig_counterexample.** `Msg.Truncate` leaves a message whose last record is a TSIG
untouched: to a query without OPT such a 945-byte handler response is sent whole over UDP
(limit 512), header + question being only 29 bytes.  (With a request OPT the synthesised OPT
record is appended *after* the TSIG, `IsTsig` no longer sees it, and truncation works.) -/
theorem udp_bound_tsig_counterexample :
    ¬ ∀ (t : Transport), t.isUdp = true → ∀ (cfgMax idle : Nat) (req : Option Opt) (r : Resp)
        (draw slack : Nat), Contract r →
        r.q + optLen? (baseOpt false req r) ≤ limit req (t.cap cfgMax) →
        (serve t cfgMax idle req r draw slack).wire ≤ limit req (t.cap cfgMax) := by
  intro h
  have := h .udp (by decide) 1232 0 none tsigResp 0 0 tsigResp_contract (by decide)
  revert this
  decide

example : (serve .udp 1232 0 none tsigResp 0 0).wire = 945 ∧
    (serve .udp 1232 0 sampleReq tsigResp 0 0).wire = 40 ∧
    tsigAtTruncate sampleReq tsigResp = false := by decide

/-! ## Safe truncation -/

/-- **fits_untouched.** Records are dropped only when they must be: a response whose
uncompressed length (OPT included) is within the limit of its transport keeps every record and
its TC bit as the handler set it. -/
theorem fits_untouched (t : Transport) (cfgMax idle : Nat) (req : Option Opt) (r : Resp)
    (draw slack : Nat) (htc : r.tc = false)
    (hfit : r.unc + optLen? (baseOpt false req r)
      ≤ (if t.isUdp then limit req (t.cap cfgMax) else 65535)) :
    (serve t cfgMax idle req r draw slack).cut =
      { ka := r.ans.length, kn := r.ns.length, ke := r.extra.length, tc := false } := by
  have hl : max (maxDNSSize t.isUdp (advertised req) (t.cap cfgMax)) minMsgSize
      = (if t.isUdp then limit req (t.cap cfgMax) else 65535) := by
    cases hu : t.isUdp <;> simp [maxDNSSize, limit, minMsgSize, maxMsgSize] <;> omega
  rw [serve_cut]
  unfold truncate msgTruncate
  rw [hl]
  simp [hfit, htc]

example : (serve .udp 1232 0 sampleReq smallResp 0 0).cut = { ka := 1, kn := 0, ke := 0, tc := false } := by
  decide

/-- **tc_implies_no_answers.** A response that leaves with TC set carries no answers. -/
theorem tc_implies_no_answers (t : Transport) (cfgMax idle : Nat) (req : Option Opt) (r : Resp)
    (draw slack : Nat) :
    (serve t cfgMax idle req r draw slack).cut.tc = true →
    (serve t cfgMax idle req r draw slack).cut.ka = 0 := by
  simp only [serve, serveG, normalizeG]
  exact truncate_tc_ka _ _ _ _

/-- **dropped_implies_tc.** Whenever a record of any section is dropped, TC is set and the answer
section is empty. -/
theorem dropped_implies_tc (t : Transport) (cfgMax idle : Nat) (req : Option Opt) (r : Resp)
    (draw slack : Nat)
    (hd : (serve t cfgMax idle req r draw slack).cut.ka < r.ans.length ∨
          (serve t cfgMax idle req r draw slack).cut.kn < r.ns.length ∨
          (serve t cfgMax idle req r draw slack).cut.ke < r.extra.length) :
    (serve t cfgMax idle req r draw slack).cut.tc = true ∧
    (serve t cfgMax idle req r draw slack).cut.ka = 0 := by
  simp only [serve, serveG, normalizeG] at hd ⊢
  exact truncate_dropped _ _ _ _ hd

example : (serve .udp 1232 0 sampleReq sampleResp 0 0).cut.ke < sampleResp.extra.length ∧
    (serve .udp 1232 0 sampleReq sampleResp 0 0).cut.tc = true := by decide

/-! ## OPT echo -/

/-- **opt_echo.** A query that carries an OPT record gets one back with the client's UDP size and
version 0 — on every transport, whether the handler's response had an OPT record or not. -/
theorem opt_echo (t : Transport) (cfgMax idle : Nat) (ro : Opt) (r : Resp) (draw slack : Nat) :
    ∃ o, (serve t cfgMax idle (some ro) r draw slack).opt = some o ∧ o.udpSize = ro.udpSize ∧
      o.version = 0 := by
  have hpre : ∃ o, prePack t cfgMax idle (some ro) r draw = some o ∧ o.udpSize = ro.udpSize ∧
      o.version = 0 := by
    simp only [prePack, normalizeG, baseOpt, padStep, addKeepAlive]
    cases hr : r.opt <;> simp only [] <;>
      by_cases hk : t.hasKeepAlive = true <;> by_cases hp : t.hasPadding = true <;>
      simp only [hk, hp, ↓reduceIte, padAnswer] <;>
      (repeat' split) <;> simp [rewriteOpt, synthOpt]
  obtain ⟨o, ho, h1, h2⟩ := hpre
  obtain ⟨o', ho', e1, e2, _, _⟩ := packOpt_some r.rcodeHi _ o ho
  exact ⟨o', by rw [serve_opt]; exact ho', by omega, by omega⟩

example : (serve .doh 1232 0 sampleReq sampleResp 0 0).opt =
    some { udpSize := 512, extRcode := 0, version := 0, dobit := false, z := 0,
           opts := [{ code := 12, len := 1 }] } := by decide

/-- **opt_echo_legacy_counterexample.** On the pinned tree (before the `fix:` commit) the clause is
false: a response without its own OPT record got a synthesised one with UDP size 0. -/
theorem opt_echo_legacy_counterexample :
    ¬ ∀ (t : Transport) (cfgMax idle : Nat) (ro : Opt) (r : Resp) (draw slack : Nat),
      ∃ o, (serveG true t cfgMax idle (some ro) r draw slack).opt = some o ∧
        o.udpSize = ro.udpSize ∧ o.version = 0 := by
  intro h
  obtain ⟨o, h1, h2, _⟩ := h .udp 1232 0
    { udpSize := 1232, extRcode := 0, version := 0, dobit := true, z := 0, opts := [] } smallResp 0 0
  have e : (serveG true .udp 1232 0
      (some { udpSize := 1232, extRcode := 0, version := 0, dobit := true, z := 0, opts := [] })
      smallResp 0 0).opt
      = some { udpSize := 0, extRcode := 0, version := 0, dobit := false, z := 0, opts := [] } := by
    decide
  rw [e] at h1
  cases h1
  simp at h2

/-! ## Padding and keep-alive -/

/-- The request carries option `c`. -/
def reqHas (c : Nat) : Option Opt → Bool
  | none => false
  | some ro => hasCode c ro.opts

/-- **padding_only_when.** Unless the transport is DoT/DoH/DoQ *and* the client sent the padding
option, the padding options of the response are exactly those of the handler's response (none,
when the OPT record is synthesised): the server adds or alters no padding. -/
theorem padding_only_when (t : Transport) (cfgMax idle : Nat) (req : Option Opt) (r : Resp)
    (draw slack : Nat) (h : ¬ (t.hasPadding = true ∧ reqHas codePadding req = true)) :
    lensOf? codePadding (serve t cfgMax idle req r draw slack).opt = lensOf? codePadding r.opt := by
  have hne : codeKeepAlive ≠ codePadding := by decide
  rw [serve_opt, lensOf?_packOpt]
  simp only [prePack, normalizeG, baseOpt, padStep, addKeepAlive]
  cases req with
  | none => cases hr : r.opt <;> simp
  | some ro =>
    have h' : t.hasPadding = false ∨ hasCode codePadding ro.opts = false := by
      simp only [reqHas] at h
      by_cases hp : t.hasPadding = true
      · right; simpa [hp] using h
      · left; simpa using hp
    cases hr : r.opt <;> simp only [] <;>
      by_cases hk : t.hasKeepAlive = true <;>
      simp only [hk, ↓reduceIte, Bool.false_eq_true, padAnswer] <;>
      rcases h' with h' | h' <;> simp only [h', ↓reduceIte, Bool.false_eq_true] <;>
      (repeat' split) <;>
      simp [lensOf?, lensOf_setOpt_ne _ _ _ _ hne, rewriteOpt, synthOpt,
        lensOf_filterSupported codePadding _ (by decide) (by decide)]

/-- **padding_when_added.** On DoT/DoH/DoQ, for a client that sent the padding option, the response
carries a padding option of 1..31 bytes. -/
theorem padding_when_added (t : Transport) (cfgMax idle : Nat) (ro : Opt) (r : Resp)
    (draw slack : Nat) (ht : t.hasPadding = true) (hp : hasCode codePadding ro.opts = true) :
    ∃ o e, (serve t cfgMax idle (some ro) r draw slack).opt = some o ∧ e ∈ o.opts ∧
      e.code = codePadding ∧ 1 ≤ e.len ∧ e.len ≤ 31 := by
  obtain ⟨b, hb⟩ : ∃ b, baseOpt false (some ro) r = some b := by
    unfold baseOpt; cases r.opt <;> simp
  obtain ⟨e, he, h1, h2, h3⟩ := padAnswer_mem ro b draw hp
  obtain ⟨o', ho', hmem⟩ := addKeepAlive_some_mem ro (padAnswer ro b draw) idle
  have hpre : ∃ o, prePack t cfgMax idle (some ro) r draw = some o ∧ e ∈ o.opts := by
    simp only [prePack, normalizeG, hb, padStep, ht, ↓reduceIte]
    by_cases hk : t.hasKeepAlive = true
    · simp only [hk, ↓reduceIte, ho']
      exact ⟨o', rfl, hmem e he (by rw [h1]; decide)⟩
    · simp only [hk, Bool.false_eq_true, ↓reduceIte]
      exact ⟨_, rfl, he⟩
  obtain ⟨o, ho, hin⟩ := hpre
  obtain ⟨o2, ho2, _, _, e3, _⟩ := packOpt_some r.rcodeHi _ o ho
  exact ⟨o2, e, by rw [serve_opt]; exact ho2, by rw [e3]; exact hin, h1, h2, h3⟩

example : Transport.hasPadding .dot = true ∧ reqHas codePadding sampleReq = true ∧
    lensOf? codePadding (serve .dot 0 30000 sampleReq sampleResp 6 0).opt = [7] ∧
    lensOf? codePadding (serve .tcp 0 30000 sampleReq sampleResp 6 0).opt = [] := by decide

/-- **keepalive_only_when.** Unless the response is written by the TCP/DoT writer *and* the client
sent the keep-alive option, the keep-alive options of the response are exactly those of the
handler's response (none, when the OPT record is synthesised). -/
theorem keepalive_only_when (t : Transport) (cfgMax idle : Nat) (req : Option Opt) (r : Resp)
    (draw slack : Nat) (h : ¬ (t.hasKeepAlive = true ∧ reqHas codeKeepAlive req = true)) :
    lensOf? codeKeepAlive (serve t cfgMax idle req r draw slack).opt
      = lensOf? codeKeepAlive r.opt := by
  have hne : codePadding ≠ codeKeepAlive := by decide
  rw [serve_opt, lensOf?_packOpt]
  simp only [prePack, normalizeG, baseOpt, padStep, addKeepAlive]
  cases req with
  | none => cases hr : r.opt <;> by_cases hk : t.hasKeepAlive = true <;> simp [hk]
  | some ro =>
    have h' : t.hasKeepAlive = false ∨ hasCode codeKeepAlive ro.opts = false := by
      simp only [reqHas] at h
      by_cases hp : t.hasKeepAlive = true
      · right; simpa [hp] using h
      · left; simpa using hp
    cases hr : r.opt <;> simp only [] <;>
      by_cases hp : t.hasPadding = true <;>
      simp only [hp, ↓reduceIte, Bool.false_eq_true, padAnswer] <;>
      rcases h' with h' | h' <;> simp only [h', ↓reduceIte, Bool.false_eq_true] <;>
      (repeat' split) <;>
      simp [lensOf?, lensOf_setOpt_ne _ _ _ _ hne, rewriteOpt, synthOpt,
        lensOf_filterSupported codeKeepAlive _ (by decide) (by decide)]

example : lensOf? codeKeepAlive (serve .dot 0 30000 sampleReq sampleResp 6 0).opt = [2] ∧
    lensOf? codeKeepAlive (serve .doh 0 30000 sampleReq sampleResp 6 0).opt = [] ∧
    lensOf? codeKeepAlive (serve .tcp 0 30000 none sampleResp 6 0).opt = [] := by decide

/-! ## Stream transports -/

/-- **stream_guard.** TCP, DoT and DoQ never put more than 65535 bytes of DNS message on the wire:
`packWithPrefix` refuses anything longer (nothing is sent then). -/
theorem stream_guard (t : Transport) (ht : t.guarded = true) (cfgMax idle : Nat) (req : Option Opt)
    (r : Resp) (draw slack : Nat)
    (he : (serve t cfgMax idle req r draw slack).emitted = true) :
    (serve t cfgMax idle req r draw slack).wire ≤ 65535 := by
  simp [serve, serveG, ht, maxMsgSize] at he ⊢
  omega

/-- **stream_len_le.** On every non-UDP transport the final message is at most 65535 bytes plus what
is appended after truncation (padding ≤ 35, keep-alive ≤ 6), unless header + question + OPT alone
exceed 65535. -/
theorem stream_len_le (t : Transport) (ht : t.isUdp = false) (cfgMax idle : Nat) (req : Option Opt)
    (r : Resp) (draw slack : Nat) (hc : Contract r) (htsig : tsigAtTruncate req r = false) :
    (serve t cfgMax idle req r draw slack).wire
      ≤ max 65535 (r.q + optLen? (baseOpt false req r)) + 41 := by
  have hb := finalLen_truncate_le (maxDNSSize t.isUdp (advertised req) (t.cap cfgMax)) r
    (baseOpt false req r) hc
  have hl : max (maxDNSSize t.isUdp (advertised req) (t.cap cfgMax)) minMsgSize = 65535 := by
    simp [maxDNSSize, ht, maxMsgSize, minMsgSize]
  rw [hl] at hb
  have h1 := optLen_padStep_le t req (baseOpt false req r) draw
  have h2 := optLen_addKeepAlive_le req (padStep t req (baseOpt false req r) draw) idle
  rw [serve_wire, serve_cut, htsig]
  simp only [prePack, normalizeG]
  by_cases hk : t.hasKeepAlive = true
  · simp only [hk, ↓reduceIte]
    have := finalLen_opt_le r (truncate false (maxDNSSize t.isUdp (advertised req) (t.cap cfgMax)) r
      (baseOpt false req r)) (baseOpt false req r)
      (addKeepAlive req (padStep t req (baseOpt false req r) draw) idle) 41 (by omega)
    omega
  · simp only [hk, Bool.false_eq_true, ↓reduceIte]
    have := finalLen_opt_le r (truncate false (maxDNSSize t.isUdp (advertised req) (t.cap cfgMax)) r
      (baseOpt false req r)) (baseOpt false req r)
      (padStep t req (baseOpt false req r) draw) 41 (by omega)
    omega

/-- Nothing is appended after truncation: not on DNSCrypt, not on DoH/DoQ for a client that sent
no padding option. -/
theorem prePack_is_base (t : Transport) (cfgMax idle : Nat) (req : Option Opt) (r : Resp)
    (draw : Nat) (hk : t.hasKeepAlive = false)
    (hp : t.hasPadding = false ∨ reqHas codePadding req = false) :
    prePack t cfgMax idle req r draw = baseOpt false req r := by
  simp only [prePack, normalizeG, hk, Bool.false_eq_true, ↓reduceIte]
  rcases hp with hp | hp
  · exact padStep_plain t hp _ _ _
  · unfold padStep
    cases req with
    | none => rfl
    | some ro =>
      have : hasCode codePadding ro.opts = false := hp
      cases baseOpt false (some ro) r <;> simp [padAnswer, this]

/-- **stream_bound_partial.** Every DNS message that leaves over a stream transport is at most
65535 bytes — on TCP, DoT and DoQ unconditionally (`packWithPrefix`), on DNSCrypt/TCP and on DoH
when header + question + OPT fit and the response is not TSIG-signed — with ONE exception:
PARTIAL: DoH to a client that sent the padding option (padding is appended after truncation and
DoH has no length guard: known finding `doh-oversize-padding-after-truncate`, bound
`stream_len_le`). -/
theorem stream_bound_partial (t : Transport) (ht : t.isUdp = false) (cfgMax idle : Nat)
    (req : Option Opt) (r : Resp) (draw slack : Nat) (hc : Contract r)
    (he : (serve t cfgMax idle req r draw slack).emitted = true)
    (hfit : t.guarded = false →
      tsigAtTruncate req r = false ∧ r.q + optLen? (baseOpt false req r) ≤ 65535)
    (hex : ¬ (t = .doh ∧ reqHas codePadding req = true)) :
    (serve t cfgMax idle req r draw slack).wire ≤ 65535 := by
  by_cases hg : t.guarded = true
  · exact stream_guard t hg cfgMax idle req r draw slack he
  · have hg' : t.guarded = false := by simpa using hg
    obtain ⟨htsig, hq⟩ := hfit hg'
    have hk : t.hasKeepAlive = false := by
      cases t <;> simp_all [Transport.guarded, Transport.hasKeepAlive]
    have hp : t.hasPadding = false ∨ reqHas codePadding req = false := by
      cases t <;> simp_all [Transport.guarded, Transport.hasPadding, Transport.isUdp]
    have hb := finalLen_truncate_le (maxDNSSize t.isUdp (advertised req) (t.cap cfgMax)) r
      (baseOpt false req r) hc
    have hl : max (maxDNSSize t.isUdp (advertised req) (t.cap cfgMax)) minMsgSize = 65535 := by
      simp [maxDNSSize, ht, maxMsgSize, minMsgSize]
    rw [hl] at hb
    rw [serve_wire, serve_cut, htsig, prePack_is_base t cfgMax idle req r draw hk hp]
    omega

example : Contract sampleResp ∧ (serve .doh 0 0 none sampleResp 0 0).emitted = true ∧
    (Transport.guarded .doh = false →
      tsigAtTruncate none sampleResp = false ∧
      sampleResp.q + optLen? (baseOpt false none sampleResp) ≤ 65535) ∧
    ¬ (Transport.doh = .doh ∧ reqHas codePadding none = true) ∧
    (serve .doh 0 0 none sampleResp 0 0).wire = 575 :=
  ⟨sampleResp_contract, by decide, fun _ => ⟨by decide, by decide⟩, by decide, by decide⟩

/-- The full statement of the stream clause. -/
def StreamBoundFull : Prop :=
  ∀ (t : Transport), t.isUdp = false → ∀ (cfgMax idle : Nat) (req : Option Opt) (r : Resp)
    (draw slack : Nat), Contract r → (serve t cfgMax idle req r draw slack).emitted = true →
    (serve t cfgMax idle req r draw slack).wire ≤ 65535

def bigResp : Resp :=
  { tc := false, q := 29, unc := 65524, ans := [65495], ns := [], extra := [], ns2 := [],
    extra2 := [], opt := none }

theorem bigResp_contract : Contract bigResp := by
  refine ⟨by decide, ?_, ?_⟩
  · intro kn; simp [bigResp, sum]
  · intro ke; simp [bigResp, sum]

/-- **doh_bound_counterexample.** The full stream clause is false on DoH: a 65535-byte response
(OPT included) to a client that sent the padding option leaves as 65540 bytes. -/
theorem doh_bound_counterexample : ¬ StreamBoundFull := by
  intro h
  have := h .doh (by decide) 0 0 sampleReq bigResp 0 0 bigResp_contract (by decide)
  revert this
  decide

/-! ## The whole server: whatever one query causes on the wire

`respond` adds the code around the write path: `acceptMsg` (FORMERR / NOTIMP / ignored
messages), a handler that writes, stays silent or fails, the SERVFAIL that TCP/DoT send after
`packWithPrefix` refused the handler's response, and the SERVFAIL DoQ and DNSCrypt send for a
silent handler.  Every message it emits is `serve` applied to the handler's response or to a
server-made error response, so every clause above carries over to *all* queries (malformed ones
included) and *all* handler behaviours. -/

/-- The handler's own OPT record, if the handler wrote a response. -/
def Handler.opt : Handler → Option Opt
  | .wrote r => r.opt
  | _ => none

/-- **respond_is_serve.** Anything `respond` puts on the wire is the output of the write path for
either the handler's response or a server-made error response (`genErrorResponse`, possibly with
the extended-error OPT of `addEDE`). -/
theorem respond_is_serve (t : Transport) (cfgMax idle : Nat) (hdr : QHdr) (qe : Nat)
    (req : Option Opt) (h : Handler) (draw slack draw2 : Nat) (o : Out)
    (ho : respond t cfgMax idle hdr qe req h draw slack draw2 = some o) :
    o.emitted = true ∧ ∃ r' d' s', o = serve t cfgMax idle req r' d' s' ∧
      (h = .wrote r' ∨ r' = errResp qe none ∨ r' = errResp qe (edeOpt req)) := by
  unfold respond respondG at ho
  cases hs : serverResp hdr qe req h with
  | some r =>
    have hr : h = .wrote r ∨ r = errResp qe none ∨ r = errResp qe (edeOpt req) := by
      unfold serverResp at hs
      cases ha : acceptMsg hdr <;> simp only [ha] at hs
      rotate_right
      · cases hs
      · cases h with
        | wrote r0 => left; simp at hs; rw [hs]
        | silent => simp at hs
        | failed to =>
          simp at hs
          cases to <;> simp at hs <;> simp [← hs]
      · right; left; simp at hs; exact hs.symm
      · right; left; simp at hs; exact hs.symm
    simp only [hs] at ho
    by_cases he : (serveG false t cfgMax idle req r draw slack).emitted = true
    · simp only [he, ↓reduceIte, Option.some.injEq] at ho
      subst ho
      exact ⟨he, r, draw, slack, rfl, hr⟩
    · simp only [he, Bool.false_eq_true, ↓reduceIte] at ho
      by_cases hk : (t.hasKeepAlive && handlerWrote hdr h) = true
      · simp only [hk, ↓reduceIte, emittedOnly] at ho
        by_cases he2 : (serveG false t cfgMax idle req (errResp qe none) draw2 0).emitted = true
        · simp only [he2, ↓reduceIte, Option.some.injEq] at ho
          subst ho
          exact ⟨he2, _, draw2, 0, rfl, Or.inr (Or.inl rfl)⟩
        · simp [he2] at ho
      · simp [hk] at ho
  | none =>
    simp only [hs] at ho
    cases t <;> simp only [emittedOnly] at ho
    case doq =>
      by_cases he2 : (serveG false .doq cfgMax idle req (errResp qe none) draw 0).emitted = true
      · simp only [he2, ↓reduceIte, Option.some.injEq] at ho
        subst ho
        exact ⟨he2, _, draw, 0, rfl, Or.inr (Or.inl rfl)⟩
      · simp [he2] at ho
    case dcUdp =>
      simp at ho; subst ho
      exact ⟨serve_emitted_of_unguarded .dcUdp rfl _ _ _ _ _ _, _, draw, 0, rfl, Or.inr (Or.inl rfl)⟩
    case dcTcp =>
      simp at ho; subst ho
      exact ⟨serve_emitted_of_unguarded .dcTcp rfl _ _ _ _ _ _, _, draw, 0, rfl, Or.inr (Or.inl rfl)⟩
    all_goals simp at ho

/-- **respond_opt_echo.** Whatever a query that carries an OPT record gets back — the handler's
response, FORMERR/NOTIMP for a malformed query, SERVFAIL for a failed or silent handler, the
SERVFAIL after a refused oversize response — carries an OPT record with the client's UDP size
and version 0. -/
theorem respond_opt_echo (t : Transport) (cfgMax idle : Nat) (hdr : QHdr) (qe : Nat) (ro : Opt)
    (h : Handler) (draw slack draw2 : Nat) (o : Out)
    (ho : respond t cfgMax idle hdr qe (some ro) h draw slack draw2 = some o) :
    ∃ op, o.opt = some op ∧ op.udpSize = ro.udpSize ∧ op.version = 0 := by
  obtain ⟨_, r', d', s', rfl, _⟩ := respond_is_serve t cfgMax idle hdr qe (some ro) h draw slack draw2 o ho
  exact opt_echo t cfgMax idle ro r' d' s'

/-- **respond_stream_guard.** TCP, DoT and DoQ: nothing one query causes on the wire — fallback
SERVFAIL included — is longer than 65535 bytes. -/
theorem respond_stream_guard (t : Transport) (ht : t.guarded = true) (cfgMax idle : Nat) (hdr : QHdr)
    (qe : Nat) (req : Option Opt) (h : Handler) (draw slack draw2 : Nat) (o : Out)
    (ho : respond t cfgMax idle hdr qe req h draw slack draw2 = some o) : o.wire ≤ 65535 := by
  obtain ⟨he, r', d', s', rfl, _⟩ := respond_is_serve t cfgMax idle hdr qe req h draw slack draw2 o ho
  exact stream_guard t ht cfgMax idle req r' d' s' he

/-- **respond_udp_bound_partial.** UDP: whatever one query causes on the wire respects the limit,
under the same two exclusions as `udp_bound_partial` for the handler's own response; a
server-made error response needs only header + question + reflected options to fit. -/
theorem respond_udp_bound_partial (t : Transport) (ht : t.isUdp = true) (cfgMax idle : Nat)
    (hdr : QHdr) (qe : Nat) (req : Option Opt) (h : Handler) (draw slack draw2 : Nat) (o : Out)
    (ho : respond t cfgMax idle hdr qe req h draw slack draw2 = some o)
    (hh : ∀ r, h = .wrote r → Contract r ∧ tsigAtTruncate req r = false ∧
      r.q + optLen? (baseOpt false req r) ≤ limit req (t.cap cfgMax))
    (hq : qe + optLen? (baseOpt false req (errResp qe none)) ≤ limit req (t.cap cfgMax))
    (hq2 : qe + optLen? (baseOpt false req (errResp qe (edeOpt req))) ≤ limit req (t.cap cfgMax)) :
    o.wire ≤ limit req (t.cap cfgMax) := by
  obtain ⟨_, r', d', s', rfl, hr⟩ := respond_is_serve t cfgMax idle hdr qe req h draw slack draw2 o ho
  have hce : ∀ op, Contract (errResp qe op) := by
    intro op
    refine ⟨by simp [errResp, sum], ?_, ?_⟩ <;> intro k <;> simp [errResp, sum]
  rcases hr with hr | hr | hr
  · obtain ⟨hc, htsig, hfit⟩ := hh r' hr
    exact udp_bound_partial t ht cfgMax idle req r' d' s' hc htsig hfit
  · subst hr
    exact udp_bound_partial t ht cfgMax idle req _ d' s' (hce _) (by simp [tsigAtTruncate, errResp]) hq
  · subst hr
    exact udp_bound_partial t ht cfgMax idle req _ d' s' (hce _) (by simp [tsigAtTruncate, errResp]) hq2

/-- **respond_padding_only_when.** Unless the transport is DoT/DoH/DoQ and the client sent the
padding option, no message caused by the query carries padding the handler did not put there. -/
theorem respond_padding_only_when (t : Transport) (cfgMax idle : Nat) (hdr : QHdr) (qe : Nat)
    (req : Option Opt) (h : Handler) (draw slack draw2 : Nat) (o : Out)
    (ho : respond t cfgMax idle hdr qe req h draw slack draw2 = some o)
    (hn : ¬ (t.hasPadding = true ∧ reqHas codePadding req = true)) :
    lensOf? codePadding o.opt = lensOf? codePadding h.opt ∨ lensOf? codePadding o.opt = [] := by
  obtain ⟨_, r', d', s', rfl, hr⟩ := respond_is_serve t cfgMax idle hdr qe req h draw slack draw2 o ho
  have := padding_only_when t cfgMax idle req r' d' s' hn
  rcases hr with hr | hr | hr
  · left; rw [this, hr]; rfl
  · right; rw [this, hr]; rfl
  · right; rw [this, hr]; cases req <;> rfl

/-- **respond_keepalive_only_when.** Unless the message is written by the TCP/DoT writer and the
client sent the keep-alive option, no message caused by the query carries a keep-alive option the
handler did not put there. -/
theorem respond_keepalive_only_when (t : Transport) (cfgMax idle : Nat) (hdr : QHdr) (qe : Nat)
    (req : Option Opt) (h : Handler) (draw slack draw2 : Nat) (o : Out)
    (ho : respond t cfgMax idle hdr qe req h draw slack draw2 = some o)
    (hn : ¬ (t.hasKeepAlive = true ∧ reqHas codeKeepAlive req = true)) :
    lensOf? codeKeepAlive o.opt = lensOf? codeKeepAlive h.opt ∨ lensOf? codeKeepAlive o.opt = [] := by
  obtain ⟨_, r', d', s', rfl, hr⟩ := respond_is_serve t cfgMax idle hdr qe req h draw slack draw2 o ho
  have := keepalive_only_when t cfgMax idle req r' d' s' hn
  rcases hr with hr | hr | hr
  · left; rw [this, hr]; rfl
  · right; rw [this, hr]; rfl
  · right; rw [this, hr]; cases req <;> rfl

/-- A query with two questions and an OPT record: FORMERR with the OPT echoed, on every transport. -/
def twoQuestions : QHdr := { response := false, opcode := 0, nq := 2, nans := 0, nns := 0 }
def goodQuery : QHdr := { response := false, opcode := 0, nq := 1, nans := 0, nns := 0 }

example : (respond .udp 1232 0 twoQuestions 29 sampleReq .silent 0 0 0).map (·.wire) = some 40 ∧
    (respond .udp 1232 0 goodQuery 29 sampleReq .silent 0 0 0) = none ∧
    (respond .dcUdp 1232 0 goodQuery 29 sampleReq .silent 0 0 0).map (·.wire) = some 40 ∧
    (respond .doq 1232 0 goodQuery 29 sampleReq (.failed true) 0 0 0).map (·.wire) = some 51 ∧
    (respond .tcp 0 30000 goodQuery 29 sampleReq (.wrote bigResp) 0 0 0).map (·.wire) = some 46 := by
  decide

/-- **dnscrypt_silent_legacy_counterexample.** On the pinned tree the DNSCrypt server answered a
query whose handler stayed silent with a SERVFAIL that skipped `normalize`: no OPT record although
the query carried one. -/
theorem dnscrypt_silent_legacy_counterexample :
    ¬ ∀ (t : Transport) (cfgMax idle : Nat) (hdr : QHdr) (qe : Nat) (ro : Opt) (h : Handler)
        (draw slack draw2 : Nat) (o : Out),
        respondG true t cfgMax idle hdr qe (some ro) h draw slack draw2 = some o →
        ∃ op, o.opt = some op ∧ op.udpSize = ro.udpSize ∧ op.version = 0 := by
  intro hall
  obtain ⟨op, h1, _⟩ := hall .dcUdp 1232 0 goodQuery 29
    { udpSize := 1232, extRcode := 0, version := 0, dobit := false, z := 0, opts := [] } .silent 0 0 0
    (rawServfail 29) (by decide)
  simp [rawServfail] at h1

#print axioms udp_wire_le
#print axioms udp_bound_partial
#print axioms udp_bound_counterexample
#print axioms tc_implies_no_answers
#print axioms dropped_implies_tc
#print axioms opt_echo
#print axioms opt_echo_legacy_counterexample
#print axioms padding_only_when
#print axioms padding_when_added
#print axioms keepalive_only_when
#print axioms stream_guard
#print axioms stream_len_le
#print axioms stream_bound_partial
#print axioms udp_bound_tsig_counterexample
#print axioms tsigResp_contract
#print axioms fits_untouched
#print axioms udp_opt_is_base
#print axioms udp_bound_everyday
#print axioms udp_no_amplification
#print axioms prePack_is_base
#print axioms respond_is_serve
#print axioms respond_opt_echo
#print axioms respond_stream_guard
#print axioms respond_udp_bound_partial
#print axioms respond_padding_only_when
#print axioms respond_keepalive_only_when
#print axioms dnscrypt_silent_legacy_counterexample
#print axioms doh_bound_counterexample
#print axioms sampleResp_contract
#print axioms smallResp_contract
#print axioms bigResp_contract

end Agd.Normalize
