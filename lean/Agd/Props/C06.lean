import Agd.Tie.TrC06
import Agd.Lemmas.Buffers
import Agd.Tie.C06
/-!
# C06 — a message is interpreted from its own bytes only, whatever was processed before

Property theorems only; helper lemmas live in `Agd/Lemmas/Buffers.lean`.

`dns.Msg.Unpack` is an arbitrary function of the slice it receives (trusted base), so
"decoded identically" is stated as "the slice handed to `Unpack` (or the pre-`Unpack` rejection)
is identical"; `decode_independent` then lifts this to any `unpack`.
-/
namespace Agd.Buffers

/-- **decode_own_bytes.**  After ANY history of earlier messages on any paths, with any choice of
pooled buffers by `sync.Pool`, the next message's outcome (rejection reason, or the exact slice
given to `Unpack`) is `spec` of that message's own bytes and the configured buffer size. -/
theorem decode_own_bytes (c : Cfg) (hist : List Op) (op : Op) :
    (step (run (Server.init c) hist) op).2 = spec op.path (c.size op.path) op.wire := by
  rw [step_outcome _ _ (wf_run _ _ (wf_init c)), run_cfg]
  rfl

/-- **history_unobservable.**  Reusing receive buffers is unobservable: the message is rejected or
decoded exactly as by a freshly started server (empty pools, hence a new zeroed buffer), whatever
was received before, whichever pooled buffer is reused and whatever request was packed into it. -/
theorem history_unobservable (c : Cfg) (hist : List Op) (op : Op) (pre' : Bytes) :
    (step (run (Server.init c) hist) op).2 =
      (step (Server.init c) { op with pick := none, pre := pre' }).2 := by
  rw [decode_own_bytes c hist op]
  exact (decode_own_bytes c [] { op with pick := none, pre := pre' }).symm

/-- Two arbitrary histories are indistinguishable by the next message. -/
theorem histories_indistinguishable (c : Cfg) (h₁ h₂ : List Op) (p : Path) (k₁ k₂ : Option Nat)
    (pre₁ pre₂ wire : Bytes) :
    (step (run (Server.init c) h₁) ⟨p, k₁, pre₁, wire⟩).2 =
      (step (run (Server.init c) h₂) ⟨p, k₂, pre₂, wire⟩).2 := by
  rw [decode_own_bytes, decode_own_bytes]

/-- What a decoder `unpack` makes of an outcome (`none`: dropped before `Unpack`). -/
def decode {α : Type} (unpack : Bytes → α) : Outcome → Option α
  | .reject _ => none
  | .view bs => some (unpack bs)

/-- **decode_independent.**  For every decoder `unpack`, what the server makes of a message after a
history equals what a freshly started server makes of it. -/
theorem decode_independent {α : Type} (unpack : Bytes → α) (c : Cfg) (hist : List Op) (op : Op) :
    decode unpack (step (run (Server.init c) hist) op).2 =
      decode unpack (step (Server.init c) { op with pick := none }).2 := by
  rw [history_unobservable c hist op op.pre]

/-- **view_is_own_bytes.**  Whenever `Unpack` is called, the slice it gets is a contiguous piece of
the message itself: no byte of any other client's traffic can enter a question or a record. -/
theorem view_is_own_bytes (c : Cfg) (hist : List Op) (op : Op) (v : Bytes)
    (h : (step (run (Server.init c) hist) op).2 = .view v) :
    ∃ off len, v = (op.wire.drop off).take len := by
  rw [decode_own_bytes] at h
  cases hp : op.path <;> rw [hp] at h <;> simp only [spec] at h
  · split at h
    · cases h
    · injection h with h; exact ⟨0, _, by rw [← h]; rfl⟩
  · split at h
    · cases h
    · split at h
      · cases h
      · injection h with h; exact ⟨2, _, h.symm⟩
  · split at h
    · cases h
    · split at h
      · injection h with h; exact ⟨2, _, by rw [← h, List.drop_take]⟩
      · cases h
  · split at h
    · cases h
    · injection h with h; exact ⟨0, _, by rw [← h]; rfl⟩
  · split at h
    · cases h
    · split at h
      · cases h
      · split at h
        · cases h
        · split at h
          · cases h
          · injection h with h; exact ⟨2, _, h.symm⟩
  · injection h with h; exact ⟨0, op.wire.length, by rw [← h]; simp⟩

/-- DoH (POST body / GET parameter) after any history on any paths: the body itself is unpacked. -/
theorem doh_own_bytes (c : Cfg) (hist : List Op) (k : Option Nat) (pre body : Bytes) :
    (step (run (Server.init c) hist) ⟨.doh, k, pre, body⟩).2 = .view body :=
  decode_own_bytes c hist ⟨.doh, k, pre, body⟩

/-- A single receive with two arbitrary buffers of the same length (any residue whatsoever). -/
theorem buffer_contents_irrelevant (p : Path) (b₁ b₂ pre₁ pre₂ wire : Bytes)
    (hl : b₁.length = b₂.length) :
    (recvOn p b₁ pre₁ wire).1 = (recvOn p b₂ pre₂ wire).1 := by
  rw [recvOn_fst, recvOn_fst, hl]

/-! ## Non-vacuity: concrete instances with real residue -/

/-- A 31-byte DoQ query for `victim.` (2-byte prefix + 12-byte header + question). -/
def exPrev : Bytes :=
  [0, 24, 0, 0, 1, 0, 0, 1, 0, 0, 0, 0, 0, 0, 6, 118, 105, 99, 116, 105, 109, 0, 0, 1, 0, 1]
/-- The 14-byte DoQ message of the property text: prefix `0x000C`, header with QDCOUNT = 1. -/
def exNext : Bytes := [0, 12, 0, 0, 1, 0, 0, 1, 0, 0, 0, 0, 0, 0]
def exCfg : Cfg := { udp := 32, tcp := 16, doq := 40, upsUdp := 40, upsTcp := 40 }

/-- The history really leaves the earlier client's question in the pooled buffer that the next
message is read into (pick = 0), and the next message is nevertheless decoded from its own 12
bytes. -/
example :
    ((run (Server.init exCfg) [⟨.doq, none, [], exPrev⟩]).free .doq).map (fun b => b.take 26) = [exPrev] ∧
    (step (run (Server.init exCfg) [⟨.doq, none, [], exPrev⟩]) ⟨.doq, some 0, [], exNext⟩).2
      = .view [0, 0, 1, 0, 0, 1, 0, 0, 0, 0, 0, 0] ∧
    firstQuestion [0, 0, 1, 0, 0, 1, 0, 0, 0, 0, 0, 0] = none := by decide

/-- `buffer_contents_irrelevant` has instances with different residue. -/
example : (exPrev ++ zeros 14).length = (zeros 40).length ∧ exPrev ++ zeros 14 ≠ zeros 40 := by decide

/-! ## The code before the two fixes violates the property (counter-examples) -/

/-- The property for a `step` function: every history is unobservable. -/
def HistoryUnobservable (stp : Server → Op → Server × Outcome) (rn : Server → List Op → Server) : Prop :=
  ∀ (c : Cfg) (hist : List Op) (op : Op),
    (stp (rn (Server.init c) hist) op).2 = (stp (Server.init c) { op with pick := none }).2

theorem history_unobservable_now : HistoryUnobservable step run :=
  fun c hist op => history_unobservable c hist op op.pre

/-- **doq_old_counterexample.**  With `Unpack(buf[2:])` the 14-byte message is decoded together with
the previous client's bytes: the slice handed to `Unpack` carries the question `victim.`, while a
fresh server sees an all-zero tail. -/
theorem doq_old_counterexample : ¬ HistoryUnobservable stepOld runOld := by
  intro h
  have := h exCfg [⟨.doq, none, [], exPrev⟩] ⟨.doq, some 0, [], exNext⟩
  revert this
  decide

/-- What the pre-fix code makes of the 14-byte message after `exPrev`: the earlier question. -/
theorem doq_old_leaks_question :
    ∃ v, (stepOld (runOld (Server.init exCfg) [⟨.doq, none, [], exPrev⟩]) ⟨.doq, some 0, [], exNext⟩).2 = .view v ∧
      firstQuestion v = some [[118, 105, 99, 116, 105, 109]] ∧
    ∃ w, (stepOld (Server.init exCfg) ⟨.doq, none, [], exNext⟩).2 = .view w ∧ firstQuestion w = some [] :=
  ⟨_, rfl, by decide, _, rfl, by decide⟩

/-- An upstream reply: header + question `victim.` with ANCOUNT = 1 and no answer bytes (24 bytes),
arriving in a buffer that still holds an older 40-byte reply with an A record. -/
def exReplyShort : Bytes :=
  [0, 0, 129, 0, 0, 1, 0, 1, 0, 0, 0, 0, 6, 118, 105, 99, 116, 105, 109, 0, 0, 1, 0, 1]
def exReplyOld : Bytes :=
  [0, 0, 129, 0, 0, 1, 0, 1, 0, 0, 0, 0, 6, 118, 105, 99, 116, 105, 109, 0, 0, 1, 0, 1,
   192, 12, 0, 1, 0, 1, 0, 0, 1, 44, 0, 4, 10, 66, 66, 66]

/-- **upstream_old_counterexample.**  With `Unpack(buf)` the short reply is completed from the
residue of the older reply (UDP path; the TCP path is the same function up to the length prefix). -/
theorem upstream_old_counterexample : ¬ HistoryUnobservable stepOld runOld := by
  intro h
  have := h exCfg [⟨.upsUdp, none, [], exReplyOld⟩] ⟨.upsUdp, some 0, [], exReplyShort⟩
  revert this
  decide

theorem upstream_old_leaks_answer :
    (stepOld (runOld (Server.init exCfg) [⟨.upsUdp, none, [], exReplyOld⟩]) ⟨.upsUdp, some 0, [], exReplyShort⟩).2
      = .view exReplyOld := by decide

/-- The same two inputs on the current code: own bytes only. -/
example :
    (step (run (Server.init exCfg) [⟨.upsUdp, none, [], exReplyOld⟩]) ⟨.upsUdp, some 0, [], exReplyShort⟩).2
      = .view exReplyShort := by decide

/-! ## All schedules: reading and decoding are separate events, other requests run in between

`Sys` has buffer identities, a pool and in-flight requests; `accept` records only the slice bounds,
`serve` decodes from whatever the heap holds when the worker finally runs. -/

/-- **inflight_reject.**  In any reachable state of the concurrent system, a message whose own bytes
fail the pre-`Unpack` guards is rejected at once with the reason `spec` gives, whichever available
buffer `sync.Pool` hands out. -/
theorem inflight_reject (c : Cfg) (before : List Ev) (rid : Nat) (p : Path) (bid : Nat)
    (pre wire : Bytes) (w : Why)
    (hfree : ((Sys.init c).run before).pend rid = none)
    (havail : ((Sys.init c).run before).own p bid = none)
    (hrej : spec p (c.size p) wire = .reject w) :
    (((Sys.init c).run before).accept rid p bid pre wire).2 = some (.reject w) := by
  have hi := sinv_run _ (sinv_init c) before
  refine accept_reject _ hi rid p bid pre wire hfree havail w ?_
  rw [run_cfg']; exact hrej

/-- **inflight_own_bytes.**  For every schedule — any events `before`, then the message is read
into any available pooled buffer, then ANY events of other requests `between` (reads into any
available buffers on any path, workers of other requests finishing) — the worker of this request
finally hands to `Unpack` exactly the slice `spec` computes from the message's own bytes. -/
theorem inflight_own_bytes (c : Cfg) (before between : List Ev) (rid : Nat) (p : Path) (bid : Nat)
    (pre wire v : Bytes)
    (hfree : ((Sys.init c).run before).pend rid = none)
    (havail : ((Sys.init c).run before).own p bid = none)
    (hview : spec p (c.size p) wire = .view v)
    (hother : ∀ e ∈ between, e.rid ≠ rid) :
    (((Sys.init c).run before).accept rid p bid pre wire).2 = none ∧
    (((((Sys.init c).run before).accept rid p bid pre wire).1.run between).serve rid).2
      = some (.view v) := by
  have hi := sinv_run _ (sinv_init c) before
  have ha := accept_holds _ hi rid p bid pre wire hfree havail v (by rw [run_cfg']; exact hview)
  refine ⟨ha.1, serve_holds _ rid v ?_⟩
  exact holds_run _ (sinv_accept _ hi ..) rid v ha.2 between hother

/-- **inflight_equals_fresh.**  Under every schedule the concurrent server decodes the message
exactly as a freshly started sequential server given nothing but this message. -/
theorem inflight_equals_fresh (c : Cfg) (before between : List Ev) (rid : Nat) (p : Path) (bid : Nat)
    (pre pre' wire v : Bytes)
    (hfree : ((Sys.init c).run before).pend rid = none)
    (havail : ((Sys.init c).run before).own p bid = none)
    (hview : (step (Server.init c) ⟨p, none, pre', wire⟩).2 = .view v)
    (hother : ∀ e ∈ between, e.rid ≠ rid) :
    (((((Sys.init c).run before).accept rid p bid pre wire).1.run between).serve rid).2
      = some (step (Server.init c) ⟨p, none, pre', wire⟩).2 := by
  rw [hview]
  have : (step (Server.init c) ⟨p, none, pre', wire⟩).2 = spec p (c.size p) wire :=
    decode_own_bytes c [] ⟨p, none, pre', wire⟩
  rw [hview] at this
  exact (inflight_own_bytes c before between rid p bid pre wire v hfree havail this.symm hother).2

/-- Two datagrams for the non-vacuity examples: `victim.` and `other.` questions (UDP, 24 bytes). -/
def exA : Bytes := exPrev.drop 2
def exB : Bytes :=
  [0, 9, 1, 0, 0, 1, 0, 0, 0, 0, 0, 0, 5, 111, 116, 104, 101, 114, 0, 0, 1, 0, 1]

/-- The hypotheses of `inflight_own_bytes` hold in a state with real residue and a real
interleaving: request 1 is read into the buffer that still holds the `victim.` query, then request 2
is read (into another buffer: the first is held) and served, then request 1 is decoded. -/
example :
    let before : List Ev := [.accept 7 .udp 0 [] exA, .serve 7]
    let between : List Ev := [.accept 2 .udp 0 [] exA, .accept 2 .udp 1 [] exA, .serve 2]
    ((Sys.init exCfg).run before).pend 1 = none ∧
    ((Sys.init exCfg).run before).own .udp 0 = none ∧
    (((Sys.init exCfg).run before).heap .udp 0).take 24 = exA ∧
    spec .udp (exCfg.size .udp) exB = .view exB ∧
    (∀ e ∈ between, e.rid ≠ 1) ∧
    (((((Sys.init exCfg).run before).accept 1 .udp 0 [] exB).1.run between).serve 1).2
      = some (.view exB) := by decide

/-- The hypotheses of `inflight_reject` / `inflight_equals_fresh` are satisfiable in a state where
a buffer really is held by another request (so `havail` excludes something), and the side
condition of `inflight_equals_fresh` holds for a real datagram. -/
example :
    let s := (Sys.init exCfg).run [.accept 7 .udp 0 [] exA]
    s.own .udp 0 = some 7 ∧ s.pend 1 = none ∧ s.own .udp 1 = none ∧
    spec .udp (exCfg.size .udp) [1, 2, 3] = .reject .short ∧
    (s.accept 1 .udp 1 [] [1, 2, 3]).2 = some (.reject .short) ∧
    (s.accept 1 .udp 0 [] exB).2 = none ∧ (s.accept 1 .udp 0 [] exB).1.pend 1 = none ∧
    (step (Server.init exCfg) ⟨.udp, none, [], exB⟩).2 = .view exB := by decide

/-- **early_put_counterexample.**  If the buffer went back to the pool when `accept` returns
(before the worker has decoded it), the next datagram is read into the same buffer and the first
request is decoded from the second client's bytes. -/
theorem early_put_counterexample :
    spec .udp (exCfg.size .udp) exB = .view exB ∧
    ((((Sys.init exCfg).acceptEarlyPut 1 .udp 0 [] exB).1.runEarly
        [.accept 2 .udp 0 [] exA]).serve 1).2 = some (.view (exA.take 23)) ∧
    exA.take 23 ≠ exB := by decide

/-! ## Response side: the bytes written are the packed response, whatever the pooled array held -/

/-- **resp_udp_own_bytes.**  `b := resp.PackBuffer(*bufPtr)`; `WriteToSession(conn, b, …)`: for every
pooled array (any residue, any length of the pooled slice) the datagram is the packed response. -/
theorem resp_udp_own_bytes (arr : Bytes) (len : Nat) (msg : Bytes) :
    (packUDP arr len msg).1 = msg := packBuffer_take arr len msg

/-- **resp_prefixed_own_bytes.**  `packWithPrefix` (TCP, DoT, DoQ): for every pooled array the bytes
written are the 2-byte length followed by the packed response — also when `PackBuffer` or
`slices.Grow` had to move to a new array, and although the message is shifted in place. -/
theorem resp_prefixed_own_bytes (arr : Bytes) (len : Nat) (msg : Bytes) :
    (packWithPrefix arr len msg).1 = be16Bytes msg.length ++ msg :=
  packWithPrefix_written arr len msg

/-- Both response theorems on an array full of another client's response. -/
example :
    (packWithPrefix exReplyOld 40 [1, 2, 3]).1 = [0, 3, 1, 2, 3] ∧
    (packWithPrefix exReplyOld 2 [1, 2, 3]).1 = [0, 3, 1, 2, 3] ∧
    (packWithPrefix exReplyOld 40 exReplyOld).1 = 0 :: 40 :: exReplyOld ∧
    (packUDP exReplyOld 40 [1, 2, 3]).1 = [1, 2, 3] := by decide

/-! ## Request side of an upstream exchange: the bytes written are the request itself

The reply buffer of `UpstreamPlain` is also the buffer the request is packed into.  The unchanged
code wrote `buf[:Len()]` although `PackBuffer` had packed into a NEW array whenever the pooled buffer
had no byte to spare (a request of exactly 4096 bytes over UDP, 65533 over TCP): the upstream then
received 4096 bytes of earlier exchanges (other clients' replies).  On a retry after a connection
that broke in the middle of a reply it wrote the buffer as the failed read had left it.  Both are
repaired by one `fix:` commit; the theorems are about the code after it, the counter-examples about
the code before. -/

/-- **request_own_bytes.**  Whatever the pooled buffer held (any residue), whatever `PackBuffer`'s
in-place rule is (`spare`), whenever `packReq` succeeds the bytes `conn.Write(buf[:n])` sends are
exactly the packed request (after its 2-byte length over TCP). -/
theorem request_own_bytes (spare : Nat) (tcp : Bool) (buf packed : Bytes) (r : Nat × Bytes)
    (h : packReq spare tcp buf packed = some r) : sentReq r = frameReq tcp packed :=
  packReq_sent spare tcp buf packed r h

/-- **request_history_unobservable.**  After ANY history of earlier messages, whichever pooled
buffer `sync.Pool` hands out, what is written to the upstream (or the refusal `ErrBuf`) equals what
a freshly started server writes, namely the packed request iff it fits the configured size. -/
theorem request_history_unobservable (c : Cfg) (hist : List Op) (p : Path) (hp : p ≠ .tcp)
    (pick : Option Nat) (s₁ s₂ : Nat) (tcp : Bool) (packed : Bytes) :
    (packReq s₁ tcp (takeBuf (c.size p) ((run (Server.init c) hist).free p) pick).1 packed).map sentReq =
      (packReq s₂ tcp (zeros (c.size p)) packed).map sentReq ∧
    (packReq s₂ tcp (zeros (c.size p)) packed).map sentReq =
      if packed.length + (if tcp then 2 else 0) ≤ c.size p then some (frameReq tcp packed) else none := by
  have hw := wf_run _ hist (wf_init c)
  have hl := takeBuf_length (c.size p) ((run (Server.init c) hist).free p) pick
    (by intro b hb; have := hw p hp b hb; rw [run_cfg] at this; exact this)
  rw [packReq_map_sent, packReq_map_sent, hl, length_zeros]
  exact ⟨rfl, rfl⟩

/-- **retry_request_own_bytes.**  When the first attempt breaks after ANY bytes `part` of a reply
have been read into the buffer, the second attempt still writes exactly the packed request. -/
theorem retry_request_own_bytes (spare : Nat) (tcp : Bool) (buf packed part : Bytes) :
    retryWrites spare tcp buf packed part =
      if packed.length + (if tcp then 2 else 0) ≤ buf.length
      then some (frameReq tcp packed, frameReq tcp packed) else none := by
  unfold retryWrites
  have h1 := packReq_map_sent spare tcp buf packed
  by_cases hfit : packed.length + (if tcp then 2 else 0) ≤ buf.length
  · rw [if_pos hfit] at h1 ⊢
    cases hr : packReq spare tcp buf packed with
    | none => rw [hr] at h1; cases h1
    | some r =>
      rw [hr] at h1
      have hlen := packReq_length spare tcp buf packed r hr
      have h2 := packReq_map_sent spare tcp (overwrite r.2 part) packed
      rw [length_overwrite, hlen, if_pos hfit] at h2
      cases hr2 : packReq spare tcp (overwrite r.2 part) packed with
      | none => rw [hr2] at h2; cases h2
      | some r2 =>
        rw [hr2] at h2
        injection h1 with h1
        injection h2 with h2
        simp only [hr2, h1, h2]
  · rw [if_neg hfit] at h1 ⊢
    cases hr : packReq spare tcp buf packed with
    | none => rfl
    | some r => rw [hr] at h1; cases h1

/-- **packreq_old_counterexample.**  Before the fix (`_, err = req.PackBuffer(buf)`): a request that
fills the buffer exactly is packed elsewhere and the upstream is sent the residue. -/
theorem packreq_old_counterexample :
    ¬ ∀ (buf packed : Bytes) (r : Nat × Bytes),
        packReqOld 1 false buf packed = some r → sentReq r = frameReq false packed := by
  intro h
  have := h [9, 9, 9, 9] [1, 2, 3, 4] _ rfl
  revert this
  decide

/-- What the old code sends in that case: the other exchange's bytes, not one byte of the request. -/
theorem packreq_old_leaks_residue :
    (packReqOld 1 false exReplyOld (exReplyOld.map (· + 1))).map sentReq = some exReplyOld ∧
    (packReq 1 false exReplyOld (exReplyOld.map (· + 1))).map sentReq = some (exReplyOld.map (· + 1)) := by
  decide

/-- **retry_old_counterexample.**  Before the fix the second write carried the partial reply. -/
theorem retry_old_counterexample :
    retryWritesOld 1 true (zeros 12) [1, 2, 3, 4, 5, 6] [0xEE, 0xEE, 0xEE, 0xEE] =
      some ([0, 6, 1, 2, 3, 4, 5, 6], [0xEE, 0xEE, 0xEE, 0xEE, 3, 4, 5, 6]) ∧
    retryWrites 1 true (zeros 12) [1, 2, 3, 4, 5, 6] [0xEE, 0xEE, 0xEE, 0xEE] =
      some ([0, 6, 1, 2, 3, 4, 5, 6], [0, 6, 1, 2, 3, 4, 5, 6]) := by decide

/-- Non-vacuity: `packReq` succeeds on a buffer full of another exchange's reply, in place
(`spare` bytes left) and out of place (buffer filled exactly), over UDP and TCP. -/
example :
    (packReq 1 false exReplyOld [1, 2, 3]).map sentReq = some [1, 2, 3] ∧
    (packReq 1 true exReplyOld [1, 2, 3]).map sentReq = some [0, 3, 1, 2, 3] ∧
    (packReq 1 true exReplyOld (exReplyOld.drop 2)).isSome = true ∧
    packBufferInto 1 (exReplyOld.drop 2) (exReplyOld.drop 2) = exReplyOld.drop 2 ∧
    (packReq 1 true exReplyOld (exReplyOld.drop 1)) = none := by decide

/-! ## Round 4: the control-message buffer of the UDP path -/

/-- **local_address_own_control_bytes.**  After ANY history of datagrams through the pooled
control buffer, the bytes parsed for the destination (local) address of a datagram are that
datagram's own control data (cut to the buffer size): the address the response leaves from, and by
which a dedicated-address profile is found, never comes from an earlier datagram. -/
theorem local_address_own_control_bytes (oob : Bytes) (hist : List Bytes) (ctrl : Bytes) :
    (recvOOB (runOOB oob hist) ctrl).1 = ctrl.take oob.length := by
  simp only [recvOOB]
  rw [take_min_overwrite, runOOB_length]

/-- Parsing the whole pooled buffer instead of `oob[:oobn]` would break it: a datagram without
control data would be attributed the control data of the previous one. -/
theorem oob_whole_buffer_counterexample :
    (recvOOBWhole (runOOB (zeros 4) [[1, 2, 3, 4]]) []).1 = [1, 2, 3, 4] ∧
    (recvOOB (runOOB (zeros 4) [[1, 2, 3, 4]]) []).1 = [] := by decide

/-- Non-vacuity: the pooled control buffer really holds the earlier datagram's data. -/
example : runOOB (zeros 4) [[1, 2, 3, 4]] = [1, 2, 3, 4] ∧
    (recvOOB (runOOB (zeros 4) [[1, 2, 3, 4]]) [9, 8]).1 = [9, 8] := by decide

/-! ## Round 4: the whole forwarding chain for one client message -/

/-- **chain_own_bytes.**  For every history of earlier messages on every path, whichever pooled
buffers `sync.Pool` hands out for the client message and for the upstream exchange, every decoder /
repacker `toReq`, every upstream `ups` and every in-place rule of `PackBuffer`: whether the client
message is dropped, what is written to the upstream and how the upstream's reply to exactly those
bytes is decoded is `chainSpec`, a function of the client message's own bytes and the configured
sizes. -/
theorem chain_own_bytes (toReq : Bytes → Option Bytes) (ups : Bytes → Bytes) (spare : Nat) (tcp : Bool)
    (c : Cfg) (hist : List Op) (p : Path) (pickC pickU : Option Nat) (wire : Bytes) :
    chain toReq ups spare tcp (run (Server.init c) hist) p pickC pickU wire =
      chainSpec toReq ups tcp c p wire := by
  have hw := wf_run _ hist (wf_init c)
  have hcfg : (run (Server.init c) hist).cfg = c := run_cfg _ _
  unfold chain chainSpec
  rw [step_outcome _ _ hw, hcfg]
  cases hs : spec p (c.size p) wire with
  | reject w => rfl
  | view v =>
    simp only
    cases ht : toReq v with
    | none => rfl
    | some packed =>
      simp only
      have hw1 := wf_step _ ⟨p, pickC, [], wire⟩ hw
      have hc1 : (step (run (Server.init c) hist) ⟨p, pickC, [], wire⟩).1.cfg = c := by
        rw [step_cfg, hcfg]
      rw [hc1]
      have hl := takeBuf_length (c.size (upsPath tcp))
        ((step (run (Server.init c) hist) ⟨p, pickC, [], wire⟩).1.free (upsPath tcp)) pickU
        (by intro b hb; have := hw1 (upsPath tcp) (upsPath_ne_tcp tcp) b hb; rw [hc1] at this; exact this)
      have hm := packReq_map_sent spare tcp
        (takeBuf (c.size (upsPath tcp))
          ((step (run (Server.init c) hist) ⟨p, pickC, [], wire⟩).1.free (upsPath tcp)) pickU).1 packed
      rw [hl] at hm
      cases hr : packReq spare tcp
        (takeBuf (c.size (upsPath tcp))
          ((step (run (Server.init c) hist) ⟨p, pickC, [], wire⟩).1.free (upsPath tcp)) pickU).1 packed with
      | none =>
        rw [hr] at hm
        by_cases hfit : packed.length + (if tcp then 2 else 0) ≤ c.size (upsPath tcp)
        · rw [if_pos hfit] at hm; cases hm
        · rw [if_neg hfit]
      | some r =>
        rw [hr] at hm
        by_cases hfit : packed.length + (if tcp then 2 else 0) ≤ c.size (upsPath tcp)
        · rw [if_pos hfit] at hm ⊢
          simp only [Option.map_some] at hm
          injection hm with hm
          have hlen := packReq_length spare tcp _ packed r hr
          rw [hl] at hlen
          simp only
          rw [recvOn_fst, hlen, hm]
        · rw [if_neg hfit] at hm; cases hm

/-- **chain_history_unobservable.**  The warmed server and a freshly started one (empty pools) do
the same with the client message, end to end. -/
theorem chain_history_unobservable (toReq : Bytes → Option Bytes) (ups : Bytes → Bytes) (s₁ s₂ : Nat)
    (tcp : Bool) (c : Cfg) (hist : List Op) (p : Path) (pickC pickU : Option Nat) (wire : Bytes) :
    chain toReq ups s₁ tcp (run (Server.init c) hist) p pickC pickU wire =
      chain toReq ups s₂ tcp (Server.init c) p none none wire := by
  rw [chain_own_bytes]
  exact (chain_own_bytes toReq ups s₂ tcp c [] p none none wire).symm

/-- **chain_sent_is_own_request / chain_reply_view_is_reply_bytes.**  Whenever the chain reaches
the upstream, the bytes written are the framed request derived from the client's own slice, and a
decoded reply is a contiguous piece of the upstream's reply to exactly those bytes. -/
theorem chain_sent_is_own_request (toReq : Bytes → Option Bytes) (ups : Bytes → Bytes) (tcp : Bool)
    (c : Cfg) (p : Path) (wire sent : Bytes) (o : Outcome)
    (h : chainSpec toReq ups tcp c p wire = .exchanged sent o) :
    ∃ v packed, spec p (c.size p) wire = .view v ∧ toReq v = some packed ∧ sent = frameReq tcp packed ∧
      o = spec (upsPath tcp) (c.size (upsPath tcp)) (ups sent) := by
  unfold chainSpec at h
  cases hs : spec p (c.size p) wire with
  | reject w => rw [hs] at h; cases h
  | view v =>
    rw [hs] at h
    simp only at h
    cases ht : toReq v with
    | none => rw [ht] at h; cases h
    | some packed =>
      rw [ht] at h
      simp only at h
      by_cases hfit : packed.length + (if tcp then 2 else 0) ≤ c.size (upsPath tcp)
      · rw [if_pos hfit] at h
        injection h with h1 h2
        exact ⟨v, packed, rfl, ht, h1.symm, by rw [← h2, ← h1]⟩
      · rw [if_neg hfit] at h; cases h

/-- Non-vacuity: a history that leaves another client's reply in the upstream buffer, then a
client message over DoQ whose upstream reply declares a record it does not carry: end to end the
chain sends the client's own request and decodes the short reply from its own bytes. -/
example :
    chain (fun v => some v) (fun _ => exReplyShort) 1 false
      (run (Server.init exCfg) [⟨.upsUdp, none, [], exReplyOld⟩, ⟨.doq, none, [], exPrev⟩])
      .doq (some 0) (some 0) exNext
      = .exchanged [0, 0, 1, 0, 0, 1, 0, 0, 0, 0, 0, 0] (.view exReplyShort) := by decide

/-! ## Round 5: response writers, failed writes and the pools

The response writers re-slice their pooled buffer to the packed length and give it back when the
write failed (DoQ: always), so the pool a writer is constructed with holds slices of any length.
The theorems quantify over every interleaving of received messages and response writes (any
response, any pooled buffer, any subset of failing writes) and over every *safe* wiring — one in
which no fixed-size receive pool is shared with a writer; the production wiring is one. -/

/-- **receive_buffers_keep_configured_length.**  The invariant of the receive pools: after any
history of messages and (failed) response writes every buffer of a fixed-size receive pool (UDP,
DoQ, upstream) still has the configured length. -/
theorem receive_buffers_keep_configured_length (w : Wiring) (hw : SafeWiring w) (c : Cfg)
    (evs : List EvW) (p : Path) (hp : p ≠ .tcp) :
    ∀ b ∈ (runW w (ServerW.init c) evs).free (.recv p), b.length = c.size p := by
  intro b hb
  have := wfw_run w hw _ evs (wfw_init c) p hp b hb
  rwa [runW_cfg] at this

/-- The production wiring (`respPool: s.respPool` in `serveUDPPacket` and `serveTCPMessage`, the
DoQ server's own `respPool`) is safe. -/
theorem real_wiring_is_safe : SafeWiring realWiring := realWiring_safe

/-- **decode_own_bytes_after_writes.**  After ANY history of messages and response writes, failed
or not, the next message's outcome is `spec` of its own bytes and the configured size. -/
theorem decode_own_bytes_after_writes (w : Wiring) (hw : SafeWiring w) (c : Cfg) (evs : List EvW)
    (op : Op) :
    (recvW (runW w (ServerW.init c) evs) op).2 = spec op.path (c.size op.path) op.wire := by
  rw [recvW_outcome _ _ (wfw_run w hw _ evs (wfw_init c)), runW_cfg]
  rfl

/-- **failed_writes_unobservable.**  … which is what a freshly started server makes of it: responses
that could not be sent to other clients are unobservable in how a message is decoded. -/
theorem failed_writes_unobservable (w : Wiring) (hw : SafeWiring w) (c : Cfg) (evs : List EvW)
    (op : Op) :
    (recvW (runW w (ServerW.init c) evs) op).2 =
      (recvW (ServerW.init c) { op with pick := none }).2 := by
  rw [decode_own_bytes_after_writes w hw c evs op]
  exact (decode_own_bytes_after_writes w hw c [] { op with pick := none }).symm

/-- **written_own_bytes_after_writes.**  For EVERY wiring, history and pooled buffer (also a slice
that a failed write left short) the bytes handed to the transport are the packed response (UDP),
resp. its length and the packed response. -/
theorem written_own_bytes_after_writes (w : Wiring) (c : Cfg) (evs : List EvW) (x : Write) :
    (writeW w (runW w (ServerW.init c) evs) x).2 =
      if w x.path = none ∨ x.path = .udp then x.msg else be16Bytes x.msg.length ++ x.msg := by
  unfold writeW
  split
  · next h => simp [h]
  · next pool h =>
    simp only [h, writerSlice_eq]
    by_cases hu : x.path = .udp <;> simp [hu]

def exResp : Bytes := [0, 7, 0x81, 0x80, 0, 1, 0, 0, 0, 0, 0, 0, 1, 97]
def exQuery : Bytes := [0, 9, 1, 0, 0, 1, 0, 0, 0, 0, 0, 0, 3, 102, 111, 111, 0, 0, 1, 0, 1]
def exCfgW : Cfg := { udp := 32, tcp := 16, doq := 40, upsUdp := 40, upsTcp := 40 }

set_option maxRecDepth 8000 in
/-- Non-vacuity: under the production wiring a failed UDP write leaves a 14-byte slice in the
response pool, the receive pool keeps its 32-byte buffer, and the next client's 21-byte query is
decoded from all of its bytes. -/
example :
    (runW realWiring (ServerW.init exCfgW) [.recv ⟨.udp, none, [], exQuery⟩, .write ⟨.udp, none, exResp, true⟩]).free .respDNS
      = [exResp] ∧
    ((runW realWiring (ServerW.init exCfgW) [.recv ⟨.udp, none, [], exQuery⟩, .write ⟨.udp, none, exResp, true⟩]).free
      (.recv .udp)).map List.length = [32] ∧
    (recvW (runW realWiring (ServerW.init exCfgW) [.recv ⟨.udp, none, [], exQuery⟩, .write ⟨.udp, none, exResp, true⟩])
      ⟨.udp, some 0, [], exQuery⟩).2 = .view exQuery := by decide

/-- History independence of decoding for a server with writers wired by `w`. -/
def WritesUnobservable (w : Wiring) : Prop :=
  ∀ (c : Cfg) (evs : List EvW) (op : Op),
    (recvW (runW w (ServerW.init c) evs) op).2 = (recvW (ServerW.init c) { op with pick := none }).2

theorem writes_unobservable_now : WritesUnobservable realWiring :=
  fun c evs op => failed_writes_unobservable realWiring realWiring_safe c evs op

/-- **udp_writer_on_receive_pool_counterexample.**  A UDP writer constructed with the UDP *receive*
pool violates the property: one response that cannot be sent leaves its 14-byte slice in the
receive pool, and the next client's 21-byte query is cut to 14 bytes. -/
theorem udp_writer_on_receive_pool_counterexample : ¬ WritesUnobservable udpWriterOnUdpPool := by
  intro h
  exact absurd (h exCfgW [.write ⟨.udp, none, exResp, true⟩] ⟨.udp, some 0, [], exQuery⟩) (by decide)

/-- The same for the TCP/DoT writer constructed with the UDP receive pool (the slice it leaves is
the length prefix and the response). -/
theorem tcp_writer_on_udp_pool_counterexample : ¬ WritesUnobservable tcpWriterOnUdpPool := by
  intro h
  exact absurd (h exCfgW [.write ⟨.tcp, none, exResp, true⟩] ⟨.udp, some 0, [], exQuery⟩) (by decide)

/-- What the next client sees under the broken wiring: its query cut to the length of the response
that could not be sent; only successful writes before, and nothing is wrong yet. -/
example :
    (recvW (runW udpWriterOnUdpPool (ServerW.init exCfgW) [.write ⟨.udp, none, exResp, true⟩])
      ⟨.udp, some 0, [], exQuery⟩).2 = .view (exQuery.take 14) ∧
    (recvW (runW udpWriterOnUdpPool (ServerW.init exCfgW) [.write ⟨.udp, none, exResp, false⟩])
      ⟨.udp, some 0, [], exQuery⟩).2 = .view exQuery := by decide

#print axioms decode_own_bytes
#print axioms history_unobservable
#print axioms histories_indistinguishable
#print axioms decode_independent
#print axioms view_is_own_bytes
#print axioms doh_own_bytes
#print axioms buffer_contents_irrelevant
#print axioms history_unobservable_now
#print axioms doq_old_counterexample
#print axioms doq_old_leaks_question
#print axioms upstream_old_counterexample
#print axioms upstream_old_leaks_answer
#print axioms inflight_reject
#print axioms inflight_own_bytes
#print axioms inflight_equals_fresh
#print axioms early_put_counterexample
#print axioms resp_udp_own_bytes
#print axioms resp_prefixed_own_bytes
#print axioms request_own_bytes
#print axioms request_history_unobservable
#print axioms retry_request_own_bytes
#print axioms packreq_old_counterexample
#print axioms packreq_old_leaks_residue
#print axioms retry_old_counterexample
#print axioms local_address_own_control_bytes
#print axioms oob_whole_buffer_counterexample
#print axioms chain_own_bytes
#print axioms chain_history_unobservable
#print axioms chain_sent_is_own_request
#print axioms receive_buffers_keep_configured_length
#print axioms real_wiring_is_safe
#print axioms decode_own_bytes_after_writes
#print axioms failed_writes_unobservable
#print axioms written_own_bytes_after_writes
#print axioms writes_unobservable_now
#print axioms udp_writer_on_receive_pool_counterexample
#print axioms tcp_writer_on_udp_pool_counterexample

end Agd.Buffers
#print axioms Agd.Tie.TrC06.translation_complete
#print axioms Agd.Tie.TrC06.quic_decodes_own_bytes
#print axioms Agd.Tie.TrC06.upstream_decodes_read_bytes
#print axioms Agd.Tie.TrC06.tcp_buffer_sized_by_prefix
#print axioms Agd.Tie.TrC06.exchange_packs_before_every_write
#print axioms Agd.Tie.TrC06.packReq_tcp
#print axioms Agd.Tie.TrC06.packReq_udp
#print axioms Agd.Tie.TrC06.toI_overwrite
#print axioms Agd.Tie.TrC06.overwrite_twice
#print axioms Agd.Tie.TrC06.model_buffer
#print axioms Agd.Tie.TrC06.packReq_tr_some
#print axioms Agd.Tie.TrC06.packReq_tr_none
#print axioms Agd.Tie.TrC06.packReq_panics_iff
#print axioms Agd.Tie.TrC06.packReq_never_panics
#print axioms Agd.Tie.TrC06.packReq_success
#print axioms Agd.Tie.TrC06.packReq_failure
