import Agd.Lemmas.Buffers
import Agd.Tie.C06
/-!
# C06 — a message is interpreted from its own bytes only, whatever was processed before

Property theorems only; helper lemmas live in `Agd/Lemmas/Buffers.lean`.

`dns.Msg.Unpack` is an arbitrary function of the slice it receives (trusted base), so
"decoded identically" is stated as "the slice handed to `Unpack` (or the pre-`Unpack` rejection)
is identical"; `decode_independent` then lifts this to any `unpack`.
-/
namespace Agd.Buffers

/-- **decode_own_bytes.**  After ANY history of earlier messages on any paths, with any choice of
pooled buffers by `sync.Pool`, the next message's outcome (rejection reason, or the exact slice
given to `Unpack`) is `spec` of that message's own bytes and the configured buffer size. -/
theorem decode_own_bytes (c : Cfg) (hist : List Op) (op : Op) :
    (step (run (Server.init c) hist) op).2 = spec op.path (c.size op.path) op.wire := by
  rw [step_outcome _ _ (wf_run _ _ (wf_init c)), run_cfg]
  rfl

/-- **history_unobservable.**  Reusing receive buffers is unobservable: the message is rejected or
decoded exactly as by a freshly started server (empty pools, hence a new zeroed buffer), whatever
was received before, whichever pooled buffer is reused and whatever request was packed into it. -/
theorem history_unobservable (c : Cfg) (hist : List Op) (op : Op) (pre' : Bytes) :
    (step (run (Server.init c) hist) op).2 =
      (step (Server.init c) { op with pick := none, pre := pre' }).2 := by
  rw [decode_own_bytes c hist op]
  exact (decode_own_bytes c [] { op with pick := none, pre := pre' }).symm

/-- Two arbitrary histories are indistinguishable by the next message. -/
theorem histories_indistinguishable (c : Cfg) (h₁ h₂ : List Op) (p : Path) (k₁ k₂ : Option Nat)
    (pre₁ pre₂ wire : Bytes) :
    (step (run (Server.init c) h₁) ⟨p, k₁, pre₁, wire⟩).2 =
      (step (run (Server.init c) h₂) ⟨p, k₂, pre₂, wire⟩).2 := by
  rw [decode_own_bytes, decode_own_bytes]

/-- What a decoder `unpack` makes of an outcome (`none`: dropped before `Unpack`). -/
def decode {α : Type} (unpack : Bytes → α) : Outcome → Option α
  | .reject _ => none
  | .view bs => some (unpack bs)

/-- **decode_independent.**  For every decoder `unpack`, what the server makes of a message after a
history equals what a freshly started server makes of it. -/
theorem decode_independent {α : Type} (unpack : Bytes → α) (c : Cfg) (hist : List Op) (op : Op) :
    decode unpack (step (run (Server.init c) hist) op).2 =
      decode unpack (step (Server.init c) { op with pick := none }).2 := by
  rw [history_unobservable c hist op op.pre]

/-- **view_is_own_bytes.**  Whenever `Unpack` is called, the slice it gets is a contiguous piece of
the message itself: no byte of any other client's traffic can enter a question or a record. -/
theorem view_is_own_bytes (c : Cfg) (hist : List Op) (op : Op) (v : Bytes)
    (h : (step (run (Server.init c) hist) op).2 = .view v) :
    ∃ off len, v = (op.wire.drop off).take len := by
  rw [decode_own_bytes] at h
  cases hp : op.path <;> rw [hp] at h <;> simp only [spec] at h
  · split at h
    · cases h
    · injection h with h; exact ⟨0, _, by rw [← h]; rfl⟩
  · split at h
    · cases h
    · split at h
      · cases h
      · injection h with h; exact ⟨2, _, h.symm⟩
  · split at h
    · cases h
    · split at h
      · injection h with h; exact ⟨2, _, by rw [← h, List.drop_take]⟩
      · cases h
  · split at h
    · cases h
    · injection h with h; exact ⟨0, _, by rw [← h]; rfl⟩
  · split at h
    · cases h
    · split at h
      · cases h
      · split at h
        · cases h
        · split at h
          · cases h
          · injection h with h; exact ⟨2, _, h.symm⟩

/-- DoH has no pooled buffer: the body itself is unpacked. -/
theorem doh_own_bytes (body : Bytes) : recvDoH body = .view body := rfl

/-- A single receive with two arbitrary buffers of the same length (any residue whatsoever). -/
theorem buffer_contents_irrelevant (p : Path) (b₁ b₂ pre₁ pre₂ wire : Bytes)
    (hl : b₁.length = b₂.length) :
    (recvOn p b₁ pre₁ wire).1 = (recvOn p b₂ pre₂ wire).1 := by
  rw [recvOn_fst, recvOn_fst, hl]

/-! ## Non-vacuity: concrete instances with real residue -/

/-- A 31-byte DoQ query for `victim.` (2-byte prefix + 12-byte header + question). -/
def exPrev : Bytes :=
  [0, 24, 0, 0, 1, 0, 0, 1, 0, 0, 0, 0, 0, 0, 6, 118, 105, 99, 116, 105, 109, 0, 0, 1, 0, 1]
/-- The 14-byte DoQ message of the property text: prefix `0x000C`, header with QDCOUNT = 1. -/
def exNext : Bytes := [0, 12, 0, 0, 1, 0, 0, 1, 0, 0, 0, 0, 0, 0]
def exCfg : Cfg := { udp := 32, tcp := 16, doq := 40, upsUdp := 40, upsTcp := 40 }

/-- The history really leaves the earlier client's question in the pooled buffer that the next
message is read into (pick = 0), and the next message is nevertheless decoded from its own 12
bytes. -/
example :
    ((run (Server.init exCfg) [⟨.doq, none, [], exPrev⟩]).free .doq).map (fun b => b.take 26) = [exPrev] ∧
    (step (run (Server.init exCfg) [⟨.doq, none, [], exPrev⟩]) ⟨.doq, some 0, [], exNext⟩).2
      = .view [0, 0, 1, 0, 0, 1, 0, 0, 0, 0, 0, 0] ∧
    firstQuestion [0, 0, 1, 0, 0, 1, 0, 0, 0, 0, 0, 0] = none := by decide

/-- `buffer_contents_irrelevant` has instances with different residue. -/
example : (exPrev ++ zeros 14).length = (zeros 40).length ∧ exPrev ++ zeros 14 ≠ zeros 40 := by decide

/-! ## The code before the two fixes violates the property (counter-examples) -/

/-- The property for a `step` function: every history is unobservable. -/
def HistoryUnobservable (stp : Server → Op → Server × Outcome) (rn : Server → List Op → Server) : Prop :=
  ∀ (c : Cfg) (hist : List Op) (op : Op),
    (stp (rn (Server.init c) hist) op).2 = (stp (Server.init c) { op with pick := none }).2

theorem history_unobservable_now : HistoryUnobservable step run :=
  fun c hist op => history_unobservable c hist op op.pre

/-- **doq_old_counterexample.**  With `Unpack(buf[2:])` the 14-byte message is decoded together with
the previous client's bytes: the slice handed to `Unpack` carries the question `victim.`, while a
fresh server sees an all-zero tail. -/
theorem doq_old_counterexample : ¬ HistoryUnobservable stepOld runOld := by
  intro h
  have := h exCfg [⟨.doq, none, [], exPrev⟩] ⟨.doq, some 0, [], exNext⟩
  revert this
  decide

/-- What the pre-fix code makes of the 14-byte message after `exPrev`: the earlier question. -/
theorem doq_old_leaks_question :
    ∃ v, (stepOld (runOld (Server.init exCfg) [⟨.doq, none, [], exPrev⟩]) ⟨.doq, some 0, [], exNext⟩).2 = .view v ∧
      firstQuestion v = some [[118, 105, 99, 116, 105, 109]] ∧
    ∃ w, (stepOld (Server.init exCfg) ⟨.doq, none, [], exNext⟩).2 = .view w ∧ firstQuestion w = some [] :=
  ⟨_, rfl, by decide, _, rfl, by decide⟩

/-- An upstream reply: header + question `victim.` with ANCOUNT = 1 and no answer bytes (24 bytes),
arriving in a buffer that still holds an older 40-byte reply with an A record. -/
def exReplyShort : Bytes :=
  [0, 0, 129, 0, 0, 1, 0, 1, 0, 0, 0, 0, 6, 118, 105, 99, 116, 105, 109, 0, 0, 1, 0, 1]
def exReplyOld : Bytes :=
  [0, 0, 129, 0, 0, 1, 0, 1, 0, 0, 0, 0, 6, 118, 105, 99, 116, 105, 109, 0, 0, 1, 0, 1,
   192, 12, 0, 1, 0, 1, 0, 0, 1, 44, 0, 4, 10, 66, 66, 66]

/-- **upstream_old_counterexample.**  With `Unpack(buf)` the short reply is completed from the
residue of the older reply (UDP path; the TCP path is the same function up to the length prefix). -/
theorem upstream_old_counterexample : ¬ HistoryUnobservable stepOld runOld := by
  intro h
  have := h exCfg [⟨.upsUdp, none, [], exReplyOld⟩] ⟨.upsUdp, some 0, [], exReplyShort⟩
  revert this
  decide

theorem upstream_old_leaks_answer :
    (stepOld (runOld (Server.init exCfg) [⟨.upsUdp, none, [], exReplyOld⟩]) ⟨.upsUdp, some 0, [], exReplyShort⟩).2
      = .view exReplyOld := by decide

/-- The same two inputs on the current code: own bytes only. -/
example :
    (step (run (Server.init exCfg) [⟨.upsUdp, none, [], exReplyOld⟩]) ⟨.upsUdp, some 0, [], exReplyShort⟩).2
      = .view exReplyShort := by decide

#print axioms decode_own_bytes
#print axioms history_unobservable
#print axioms histories_indistinguishable
#print axioms decode_independent
#print axioms view_is_own_bytes
#print axioms doh_own_bytes
#print axioms buffer_contents_irrelevant
#print axioms history_unobservable_now
#print axioms doq_old_counterexample
#print axioms doq_old_leaks_question
#print axioms upstream_old_counterexample
#print axioms upstream_old_leaks_answer

end Agd.Buffers
